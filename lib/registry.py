"""Per-property configuration of ./check."""
import collections

TRUSTED_BASE = [
    "Coq 8.16.1 kernel (coqc, full .vo build; vm_compute used for witnesses and for evaluating cases; native_compute not used)",
    "no axiom declared in the development; Print Assumptions under every property theorem must say 'Closed under the global context'",
    "Go harness /verif/harness (drives the real code, records observations, prints them as Coq terms) and Go 1.26.8 testing/synctest",
    "python3 orchestrator /verif/check (splices cases into cases_*.v, parses coqc output)",
    "build-tag 'verif' hooks and accessors in /repo (add-only)",
]

PROPS = {}

PROPS["C08"] = dict(
    props="Props/C08.v",
    theorems=["C08_grammar", "C08_no_misread", "C08_transfer", "C08_deadline", "C08_none",
              "C08_key_case_insensitive", "C08_pick_sound"],
    imports=["Base.Bytes", "Model.Timeout", "Check.C08c"],
    case_type="c08case",
    find_bad_from="find_bad_from",
    rigs=[dict(test="TestC08", timeout_quick=300, timeout_thorough=900)],
    reason_text={"1": "implementation output differs from the Gallina model (Model/Timeout.v)",
                 "2": "implementation output violates the property predicate (Check/C08c.v: spec_*_ok)"},
    rule="cases = inputs to parseGrpcTimeout (grammar grid 6 units x 1..20 digits x {zero,one,nines,random,"
         "saturation boundary +-2}, int64 boundary, malformed and mutated strings), remaining times for the client "
         "header (ms boundaries 1ms..10^11ms +-1ns, expired, random), header lists for the server-side scan; "
         "non-trivial = every case (each is a distinct input by its description hash)",
    assumptions=["strconv.ParseInt, fmt.Sprintf(%d), context.WithTimeout and the clock are Go's (modelled, validated differentially)",
                 "transit time is an abstract t1 - t0 >= 0"],
)

def signature(pid, rec, reasons):
    tags = rec.get("tags") or []
    sig = [t[4:] for t in tags if t.startswith("sig:")]
    base = sig[0] if sig else rec.get("kind", "?")
    return "%s/%s" % (base, "+".join(str(r) for r in sorted(reasons)))

def event_signature(pid, ev, recs):
    return "%s/%s" % (ev.get("rig", "?"), ev["event"])

def nontrivial(pid, rec):
    return True

def histograms(pid, recs):
    h = collections.Counter()
    for r in recs:
        for t in (r.get("tags") or []):
            if not t.startswith("sig:"):
                h[t] += 1
    return dict(h)

"""Per-property configuration of ./check."""
import collections

TRUSTED_BASE = [
    "Coq 8.16.1 kernel (coqc, full .vo build; vm_compute used for witnesses and for evaluating cases; native_compute not used)",
    "no axiom declared in the development; Print Assumptions under every property theorem must say 'Closed under the global context'",
    "Go harness /verif/harness (drives the real code, records observations, prints them as Coq terms) and Go 1.26.8 testing/synctest",
    "python3 orchestrator /verif/check (splices cases into cases_*.v, parses coqc output)",
    "build-tag 'verif' hooks and accessors in /repo (add-only)",
]

PROPS = {}
PENDING = {}

# One file per property: lib/props/<id>.py defines CFG = dict(
#   claim=<text for MANIFEST level_claimed>, props="Props/<id>.v", theorems=[names that must be in it],
#   imports=[Coq modules the cases files import], case_type=<Coq type of one case>,
#   find_bad_from=<Coq function nat -> list case -> list (nat * list nat)>,
#   rigs=[dict(test=<Go test name>, timeout_quick=s, timeout_thorough=s)],
#   reason_text={code: text}   (1 = model disagreement, >= 2 = property predicate failed on the real history),
#   rule=<what the cases are>, assumptions=[...], optional level_note / technique / trusted_extra / allowed_axioms)
import importlib, pkgutil, os as _os
for _m in sorted(pkgutil.iter_modules([_os.path.join(_os.path.dirname(__file__), "props")]), key=lambda m: m.name):
    _mod = importlib.import_module("props." + _m.name)
    if hasattr(_mod, "CFG"): PROPS[_m.name] = _mod.CFG
    if hasattr(_mod, "DEBUG"): globals().setdefault("PROPS_DEBUG", {})[_m.name] = _mod.DEBUG



PROPS_DEBUG = globals().get("PROPS_DEBUG", {})
PROPS_DEBUG["CL"] = dict(
    claim="debug", props="Props/C08.v", theorems=[],
    imports=["Model.Client", "Check.ClientC"], case_type="ccase", find_bad_from="find_bad_from",
    rigs=[dict(test="TestClientWalk", timeout_quick=600, timeout_thorough=1200)],
    rule="debug")

def signature(pid, rec, reasons):
    tags = rec.get("tags") or []
    sig = [t[4:] for t in tags if t.startswith("sig:")]
    base = sig[0] if sig else rec.get("kind", "?")
    return "%s/%s" % (base, "+".join(str(r) for r in sorted(reasons)))

def event_signature(pid, ev, recs):
    return "%s/%s" % (ev.get("rig", "?"), ev["event"])

def nontrivial(pid, rec):
    return True

def histograms(pid, recs):
    h = collections.Counter()
    for r in recs:
        for t in (r.get("tags") or []):
            if not t.startswith("sig:"):
                h[t] += 1
    return dict(h)

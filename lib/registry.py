"""Per-property configuration of ./check."""
import collections

TRUSTED_BASE = [
    "Coq 8.16.1 kernel (coqc, full .vo build; vm_compute used for witnesses and for evaluating cases; native_compute not used)",
    "no axiom declared in the development; Print Assumptions under every property theorem must say 'Closed under the global context'",
    "Go harness /verif/harness (drives the real code, records observations, prints them as Coq terms) and Go 1.26.8 testing/synctest",
    "python3 orchestrator /verif/check (splices cases into cases_*.v, parses coqc output)",
    "build-tag 'verif' hooks and accessors in /repo (add-only)",
]

PROPS = {}
PENDING = {}

PROPS["C08"] = dict(
    claim="Theorems C08_grammar, C08_no_misread, C08_transfer, C08_deadline, C08_none, C08_key_case_insensitive, C08_pick_sound "
          "(coq/Props/C08.v) hold for every byte string / every remaining time of the Gallina model of parseGrpcTimeout, the deadline "
          "branch of headersFromContext and the header scan of contextFromHeaders; model and code are run on the same inputs on every run.",
    props="Props/C08.v",
    theorems=["C08_grammar", "C08_no_misread", "C08_transfer", "C08_deadline", "C08_none",
              "C08_key_case_insensitive", "C08_pick_sound"],
    imports=["Base.Bytes", "Model.Timeout", "Check.C08c"],
    case_type="c08case",
    find_bad_from="find_bad_from",
    rigs=[dict(test="TestC08", timeout_quick=300, timeout_thorough=900)],
    reason_text={"1": "implementation output differs from the Gallina model (Model/Timeout.v)",
                 "2": "implementation output violates the property predicate (Check/C08c.v: spec_*_ok)"},
    rule="cases = inputs to parseGrpcTimeout (grammar grid 6 units x 1..20 digits x {zero,one,nines,random,"
         "saturation boundary +-2}, int64 boundary, malformed and mutated strings), remaining times for the client "
         "header (ms boundaries 1ms..10^11ms +-1ns, expired, random), header lists for the server-side scan; "
         "non-trivial = every case (each is a distinct input by its description hash)",
    assumptions=["strconv.ParseInt, fmt.Sprintf(%d), context.WithTimeout and the clock are Go's (modelled, validated differentially)",
                 "transit time is an abstract t1 - t0 >= 0"],
)

PROPS["C04"] = dict(
    claim="Theorems C04_base64_roundtrip, C04_codec_exact, C04_values_kept, C04_no_invention, C04_values_general (metadata codec: "
          "byte-exact round trip for every metadata map and every map iteration order) and C04_flush_headers, C04_flush_trailers "
          "(server stream object: for every program of header/trailer/message calls the first envelope carries exactly the accepted "
          "header metadata, the single trailer envelope exactly the accepted trailer metadata) in coq/Props/C04.v; the models are run "
          "against ToKeyValue/ToMetadata, the real serverStream and the unary collector on every run.",
    props="Props/C04.v",
    theorems=["C04_base64_roundtrip", "C04_codec_exact", "C04_values_kept", "C04_no_invention",
              "C04_values_general", "C04_flush_headers", "C04_flush_trailers"],
    imports=["Base.Bytes", "Model.Base64", "Model.Meta", "Model.SrvStream", "Check.C04c"],
    case_type="c04case",
    find_bad_from="find_bad_from",
    rigs=[dict(test="TestC04", timeout_quick=300, timeout_thorough=1200)],
    reason_text={"1": "implementation output differs from the Gallina model (Model/Meta.v, Base64.v, SrvStream.v)",
                 "2": "implementation output violates the property predicate (Check/C04c.v: spec_codec / spec_stream / accepted tokens)"},
    rule="codec: seeded metadata sets (0..16 keys over the gRPC key alphabet in any letter case, -bin suffix in 4 case variants, "
         "1..4 values, binary values incl. empty/NUL/0xFF/alphabet chars 62-63/long, keys colliding after lower-casing, 1..3 maps "
         "joined) through ToKeyValue then ToMetadata; base64 decoder on fixed + random malformed strings (CR/LF, padding, std "
         "alphabet, raw); ToMetadata on mixed lists; server stream object: ALL programs of length<=4 (thorough: 5) over "
         "{SetHeader,SendHeader,SetTrailer,SendMsg,SendTrailer} plus random longer ones; unary collector: all programs of "
         "length<=5; non-trivial = distinct description hash",
    assumptions=["encoding/base64, strings.ToLower/HasSuffix, metadata.Join and Go map iteration are Go's/grpc's: modelled and validated differentially, not verified",
                 "values under text keys are not inspected by the library (opaque)"],
)

PROPS_DEBUG = {}
PROPS_DEBUG["CL"] = dict(
    claim="debug", props="Props/C08.v", theorems=[],
    imports=["Model.Client", "Check.ClientC"], case_type="ccase", find_bad_from="find_bad_from",
    rigs=[dict(test="TestClientWalk", timeout_quick=600, timeout_thorough=1200)],
    rule="debug")

def signature(pid, rec, reasons):
    tags = rec.get("tags") or []
    sig = [t[4:] for t in tags if t.startswith("sig:")]
    base = sig[0] if sig else rec.get("kind", "?")
    return "%s/%s" % (base, "+".join(str(r) for r in sorted(reasons)))

def event_signature(pid, ev, recs):
    return "%s/%s" % (ev.get("rig", "?"), ev["event"])

def nontrivial(pid, rec):
    return True

def histograms(pid, recs):
    h = collections.Counter()
    for r in recs:
        for t in (r.get("tags") or []):
            if not t.startswith("sig:"):
                h[t] += 1
    return dict(h)

"""Configuration of ./check C17 (see lib/registry.py for the fields)."""
CFG = dict(
    claim="Theorems C17_source, C17_no_crash, C17_isolation, C17_live_traffic, C17_remove_step, C17_remove, C17_errors_reported, "
          "C17_shutdown, C17_shutdown_terminates and C17_errors_reported_run (the two (Q) theorems over EVERY maximal continuation by internal "
          "rules, which exist and are bounded by the measure of Props/C16.v); C17_held_refines, C17_forward_completes (isolation: a forward once "
          "begun can always be ended, whatever the other records do), C17_held_nothing_forwarded, C17_held_loop_no_loss about coq/Model/ProxyHeld.v, "
          "the model with the single serve loop as a resource that can be busy (inside forwardRpc / inside the user's disconnect callback) (and C17_no_crash_refuted_before_D17d: the code before the D-17d repair could crash) in coq/Props/C17.v over all "
          "label sequences of the small-step model coq/Model/Proxy.v; the model is run lock-step against the real goat.Proxy on every run.",
    props="Props/C17.v",
    theorems=["C17_source", "C17_no_crash", "C17_no_crash_refuted_before_D17d", "C17_no_crash_refuted_without_header_guard",
              "C17_forward_total", "C17_isolation", "C17_live_traffic",
              "C17_remove_step", "C17_remove", "C17_errors_reported", "C17_shutdown", "C17_shutdown_terminates",
              "C17_errors_reported_run", "C17_held_refines", "C17_forward_completes", "C17_held_nothing_forwarded",
              "C17_held_loop_no_loss"],
    imports=["Model.Proxy", "Check.C16c", "Check.C17c"],
    case_type="pxcase",
    find_bad_from="find_bad_from17",
    go_tags="px",
    rigs=[dict(test="TestC17", timeout_quick=300, timeout_thorough=1500)],
    reason_text={"1": "the real Proxy's observation differs from every outcome of the Gallina model (Model/Proxy.v, all orders of internal rules)",
                 "2": "source: an envelope without header / with a source other than the sender's attach name / rejected by the interceptor was handed on, or made the proxy dial",
                 "3": "crash: a panic, or the forwarding loop ended while the context was live",
                 "4": "isolation: an accepted envelope between two live peers did not reach the destination's connection within the step of its delivery while a third peer was stuck / failing / dialling",
                 "5": "removal: a failed connection was not reported to the disconnect callback / kept its table entry / the callback named another record / a newer (or unharmed) connection under the name lost its table entry",
                 "6": "shutdown: after the context was cancelled the forwarding loop or a peer goroutine of the proxy is still alive at a quiescent point, or envelopes are still handed on"},
    rule="lock-step in synctest bubbles on the real goat.Proxy with scripted peer transports, compared with every outcome of the model over "
         "all orders of its internal rules: 6 third-peer roles (stuck writer, failing reader, failing writer, dial error, slow dial, none) x "
         "sources (honest / forged / header-less / nil envelope, also from the third peer) x sequential / concurrent senders x 3 or 18 "
         "envelopes towards the third peer, mixed with live p<->q traffic; re-attachment before / after / without the failure (read, write, "
         "blocked write) of the old connection, twice; the context cancelled at EVERY step of each of these (quick: a third of the positions "
         "of the long ones); transports that ignore their context; faults and cancellation in ONE step (also cancelling from inside the "
         "forwarding loop), repeated, judged by the predicates alone; a peer dialled on demand whose connection then fails (read / write / blocked write / dial error) and is dialled again, with the "
         "context cancelled at every step; seeded random walks with faults; free-running stress with forged sources; AddClient and live traffic during a slow dial; the context ending (cancelled from inside the forwarding loop / the connection's own, by "
         "a failing Read) while a destination has 1, 5, 16 envelopes being queued behind a transport that has just been set to block, repeated, "
         "then 1 s and 6 s of virtual time as steps without action and the transport released; a stuck peer with a full queue and MORE envelopes for it of every kind (body, trailer, "
         "status+trailer, reset, ...) in one step with live traffic between two healthy peers; every observation is made BEFORE virtual time "
         "passes, then 150 ms of virtual time go by and anything that happens then is recorded as a step without action (the model predicts "
         "nothing; the isolation predicate sees the delay); both directions of one connection failing (either order, 8 error values) while the serve "
         "loop sits in another peer's slow disconnect callback, all inside one step (predicates only), and the same without the slow callback, "
         "repeated; 1, 2, 3, 4, 5, 8, 9, 16, 17 dials hanging at once, then a further unknown destination, live "
         "p<->q traffic and an AddClient; two roles on ONE peer in both orders (write loop parked in a blocked Write of a transport "
         "that honours / ignores its context, failing before / after the hand-over; read loop failing or parked) x 8 error VALUES of the injected "
         "read / write / dial failure (own type, wrapping context.Canceled / DeadlineExceeded / io.EOF, net timeout style, the bare values), "
         "with the context cancelled at every step of the first two; forged sources (another attached peer, an unknown name, the proxy's own name) with "
         "sender-controlled route record and return route ([], [sender], [other], [x, sender], [sender, x], ...) and every envelope shape; the rig runs as 8 shard processes; a scenario in which the proxy holds a mutex across a "
         "blocking call (synctest.Wait cannot return) is reported as wedged by a real-time watcher (exit 3 = failing input) and the run resumes",
    assumptions=["payloads are opaque to the proxy (tokens)",
                 "peer transports honour their context in Read and in a blocked Write (the shutdown clause; transports that do not are exercised too and then only the model comparison applies); the newConnection callback returns",
                 "quiescence = testing/synctest's durable blocking; goroutine roles are read from runtime.Stack frames"],
)

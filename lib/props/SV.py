"""Debug entry: ./check SV runs the random walks of the server rig against Model/Server.v (agreement only)."""
DEBUG = dict(
    claim="debug", props="Props/C08.v", theorems=[],
    imports=["Model.Client", "Model.Server", "Check.ServerC"], case_type="svcase", find_bad_from="find_bad_from",
    go_tags="sv",
    rigs=[dict(test="TestSrvWalk", timeout_quick=600, timeout_thorough=1800)],
    rule="debug")

"""Configuration of ./check C13 (see lib/registry.py for the fields)."""
CFG = dict(
    claim="Theorems C13_total (no reachable state has a panic in its history, for EVERY inbound envelope sequence: any id, header absent / "
          "decodable / undecodable, any status incl. explicit OK, body absent / present / not a message, trailer absent / decodable / "
          "undecodable, reset, extra envelopes after completion, several replies to one unary call), C13_settles ((Q): once the connection "
          "is closed every call not held by the environment has terminated all its operations) and C13_honest (success only with the body "
          "of an envelope addressed to the call, routed to it and taken by it) in coq/Props/C13.v, over all label sequences of "
          "coq/Model/Client.v; the model is run lock-step against the real client (with and without stats handler) on every run.",
    props="Props/C13.v",
    theorems=["C13_total", "C13_settles", "C13_honest"],
    imports=["Model.Client", "Check.ClientC", "Check.ClientSpec", "Check.C13c"],
    case_type="c13case",
    find_bad_from="Check.C13c.find_bad_from",
    go_tags="cl",
    rigs=[dict(test="TestC13", timeout_quick=400, timeout_thorough=1800)],
    reason_text={"1": "the real client's observation differs from every outcome of the Gallina model (Model/Client.v, all orders of internal rules)",
                 "3": "a unary call's result is not what the first delivered envelope carrying its id says",
                 "4": "a stream's messages are not, in order, the bodies of the delivered envelopes carrying its id",
                 "5": "dishonest success: a call reported a success whose body no delivered envelope with its id carried",
                 "6": "hang: an operation is still pending at a quiescent point after the connection was closed",
                 "7": "a call started after the connection was closed did not fail at once",
                 "8": "panic in a client API call"},
    rule="lock-step in synctest bubbles, real client vs scripted peer, two outstanding calls (unary+stream, stream+stream, unary+unary; "
         "streams with Header and RecvMsg waiting): ALL response sequences of length 1 and 2 over the 18 envelope shapes of clientgen.go x "
         "{call 0, call 1, unknown id} (quick: length-2 sequences with the kind pair rotating; thorough: every kind pair, plus ALL "
         "length-3 sequences addressed to the two calls of the unary+stream pair), stats handler installed on every other case, each "
         "closed by a read failure followed by RecvMsg / Trailer; plus 600 (thorough 6000) seeded random sequences of length 3..6. A "
         "process death is attributed to the scenario whose begin marker was last (crash = violation).",
    assumptions=["metadata is a token: decodable (value) or undecodable; payload bytes are a token, negative = bytes that do not unmarshal",
                 "the stats-handler path differs in nothing the model observes (D-13d fixed); both settings are run",
                 "quiescence = testing/synctest's durable blocking"],
)

"""Configuration of ./check C13 (see lib/registry.py for the fields)."""
CFG = dict(
    claim="Theorems C13_total (no reachable state has a panic in its history, for EVERY inbound envelope sequence: any id, header absent / "
          "decodable / undecodable, any status incl. explicit OK, body absent / present / not a message, trailer absent / decodable / "
          "undecodable, reset, extra envelopes after completion, several replies to one unary call), C13_settles ((Q): once the connection "
          "is closed every call not held by the environment has terminated all its operations) and C13_honest (success only with the body "
          "of an envelope addressed to the call, routed to it and taken by it) in coq/Props/C13.v, over all label sequences of "
          "coq/Model/Client.v; the model is run lock-step against the real client (with and without stats handler) on every run.",
    props="Props/C13.v",
    theorems=["C13_total", "C13_settles", "C13_honest", "C13_done_has_error", "C13_no_crash"],
    imports=["Model.Client", "Check.ClientC", "Check.ClientSpec", "Check.C13c"],
    case_type="c13case",
    find_bad_from="Check.C13c.find_bad_from",
    go_tags="cl",
    rigs=[dict(test="TestC13", timeout_quick=400, timeout_thorough=2400),
          dict(test="TestC13Surplus", timeout_quick=200, timeout_thorough=300),
          dict(test="TestC13Crash", timeout_quick=300, timeout_thorough=900),
          dict(test="TestC13Reuse", timeout_quick=200, timeout_thorough=300)],
    reason_text={"13": "a stream's RecvMsg reported the clean end io.EOF although no envelope that ends the stream with an OK status (a trailer) had been delivered for its id: the messages behind that point are lost",
                 "12": "stuck read loop: the read failure was injected, every stream of the scenario is gone, yet at a quiescent point the multiplexer's read loop is still alive: it never notices the transport closing and every call waiting for a reply waits for ever",
                 "1": "the real client's observation differs from every outcome of the Gallina model (Model/Client.v, all orders of internal rules)",
                 "3": "a unary call's result is not what the first delivered envelope carrying its id says",
                 "4": "a stream's messages are not, in order, the bodies of the delivered envelopes carrying its id",
                 "5": "dishonest success: a call reported a success whose body no delivered envelope with its id carried",
                 "11": "wedged: the scenario could not be run to its end - a goroutine of the client waits for a lock for ever (a self-deadlock reached by a peer-chosen envelope sequence); every later operation on that call hangs, also after the connection is closed",
                 "6": "hang: an operation is still pending at a quiescent point after the connection was closed",
                 "7": "a call started after the connection was closed did not fail at once",
                 "8": "panic in a client API call",
                 "10": "the call's reply / final envelope / pending messages had been delivered before the read failure, yet the call got the connection error"},
    rule="lock-step in synctest bubbles, real client vs scripted peer, two outstanding calls (kind pairs unary+stream, stream+stream, "
         "unary+unary; streams with Header and RecvMsg waiting), alphabet = the 18 envelope shapes of clientgen.go x {call 0, call 1, "
         "unknown id} = 54 symbols. QUICK (about 4400 lock-step cases): ALL sequences of length 1 (54 x 3 kind pairs x stats on/off = 324) and ALL of "
         "length 2 (54^2 = 2916), each with ONE kind pair chosen by the sequence and the seed (thorough: EVERY kind pair, 8748), + 500 seeded random sequences of length 3..6, + 120 (thorough 1500) 'then-new-calls' cases: a random sequence of 1..3 envelopes, THEN 1..2 calls (unary / stream) started afterwards, each answered by its own reply with a distinct token or left unanswered. THOROUGH (~68k cases, ~11 min): the "
         "same, + ALL length-3 sequences addressed to the two calls (36^3 = 46656), each for ONE kind pair chosen by the sequence and the seed (three consecutive seeds give every sequence x every kind pair; all three in one run: 28 min), + 5000 length-4 "
         "sequences sampled by the seed, + 6000 random of length 3..6. Stats handler installed on every other case; one case in eight has the user action ClientConn.Close() at a seeded position (before any call, between envelopes, before / after the failure; a no-op of the model); caller metadata is a dimension of EVERY open of every lock-step scenario (clientrig.go mdKinds: none, ordinary, grpc-trace-id, grpc-timeout, Grpc-Status, key with a space / upper case / non-ASCII, empty key, value with NUL / control bytes, -bin, pseudo-header, 17 keys; opaque to the model: every open must behave as without it) plus a family of 90 cases: such an open, 0..2 envelopes addressed to its id (also to the id of an open that FAILED: the id it would have been given) that nobody reads, a probe call, Close, more calls, the read failure: no call may hang; TestC13Crash (30 rounds, thorough 120; free-running, GOMAXPROCS 16, no bubble): 100 / 400 unary calls (+ 16 streams in RecvMsg) outstanding on a fresh connection, every request on the wire, then the transport's Read fails: a crash of the process is a failing input attributed to the round, every call must return an error, later calls too; each case is closed "
         "by a read failure followed by RecvMsg / Trailer. The full <= 4 space of the property's quantifier (54^4 x 3 = 2.5e7 lock-step "
         "cases) is beyond any tier; length 3 with unknown ids in the thorough tier (54^3 x 3 = 4.7e5) is left out for time. TestC13Surplus (216 cases, in a bubble, scripted peer): a unary call receives 1..3 replies in ONE burst (the surplus one lands in its "
         "queue between its receive and its unregistration), optionally a stream holds unread messages, THEN 1..3 later calls (unary / "
         "stream) are started on the same connection, each answered by its own reply (every token distinct) or not answered, then the read "
         "fails: an answered call must report exactly its own data, an unanswered one an error. A process "
         "death is attributed to the scenario whose begin marker was last (crash = violation).",
    assumptions=["metadata is a token: decodable (value) or undecodable; payload bytes are a token, negative = bytes that do not unmarshal",
                 "the stats-handler path differs in nothing the model observes (D-13d fixed); both settings are run",
                 "quiescence = testing/synctest's durable blocking"],
)

"""Configuration of ./check C09 (see lib/registry.py for the fields)."""
CFG = dict(
    claim="Theorems C09_settles ((Q): once the read failure is recorded, in every quiescent state a call that the environment does not "
          "hold at a yield point has nothing pending - Invoke/NewStream, RecvMsg, SendMsg/CloseSend, Header, Trailer), C09_dead (registry "
          "empty, read loop dead), C09_loops, C09_no_fabrication (every success carries the body of an envelope with the call's id that the "
          "call took from the wire), C09_sticky and C09_failfast (a call reaching its fail-fast check or - the D-09 window - its registration "
          "after the failure returns the connection error in that step, without registering, writing or waiting) C09_after_fails (ONE trace theorem: a call started after the failure was recorded only ever returns the connection error, never registers / takes / succeeds, and has returned in every quiescent state) and (T) C09_measure / C09_terminates / C09_maximal_quiescent / C09_reaches_quiescent (every internal rule strictly decreases the measure mu: every run of internal rules is finite and ends, when maximal, in a quiescent state) in coq/Props/C09.v, over all label sequences of coq/Model/Client.v.",
    props="Props/C09.v",
    theorems=["C09_settles", "C09_dead", "C09_loops", "C09_no_fabrication", "C09_sticky", "C09_failfast", "C09_after_fails", "C09_eof_not_success", "C09_exact_result", "C09_unrecorded_only_behind_a_full_queue",
              "C09_measure", "C09_terminates", "C09_maximal_quiescent", "C09_reaches_quiescent"],
    imports=["Model.Client", "Check.ClientC", "Check.ClientSpec", "Check.C09c"],
    case_type="c09case",
    find_bad_from="Check.C09c.find_bad_from",
    go_tags="cl",
    rigs=[dict(test="TestC09", timeout_quick=300, timeout_thorough=900),
          dict(test="TestC09Errors", timeout_quick=200, timeout_thorough=400),
          dict(test="TestC09MuxClose", timeout_quick=200, timeout_thorough=300),
          dict(test="TestC09WriteStall", timeout_quick=200, timeout_thorough=300),
          dict(test="TestC09Storm", timeout_quick=300, timeout_thorough=900)],
    reason_text={"13": "a stream's RecvMsg reported the clean end io.EOF although no envelope that ends the stream with an OK status (a trailer) had been delivered for its id: the messages behind that point are lost",
                 "12": "stuck read loop: the read failure was injected, every stream of the scenario is gone, yet at a quiescent point the multiplexer's read loop is still alive: it never notices the transport closing and every call waiting for a reply waits for ever",
                 "11": "wedged: the scenario could not be run to its end - a goroutine of the client waits for a lock for ever; every call behind that lock hangs, also after the connection has failed",
                 "1": "the real client's observation differs from every outcome of the Gallina model (Model/Client.v, all orders of internal rules)",
                 "3": "a unary call's result is not what the first delivered envelope carrying its id says",
                 "5": "fabricated success: a call reported a success whose body no delivered envelope with its id carried; or, after the "
                      "transport's read failure and without any trailer, a stream reported a message / a clean end (io.EOF) / a retried call succeeded",
                 "6": "hang: an operation is still pending at a quiescent point after the read loop died although no caller is parked",
                 "7": "a call started after the read loop died did not fail at once (it wrote to the transport or did not return)",
                 "8": "panic",
                 "10": "the exact result was due: the call's reply / final envelope / pending messages had been delivered before the read failure, yet the call got the connection error"},
    rule="lock-step in synctest bubbles, real client vs scripted peer: 9 base scenarios (unary ok/status, server-/client-/bidi-stream, "
         "unread stream, unary+stream, 2 unary+stream, 3 streams) x a read failure after EVERY prefix of the response sequence x {writes "
         "fail, writes succeed} x {no caller, a unary caller, a stream opener} parked at the mux.checked yield point and released after "
         "the failure x afterwards RecvMsg/SendMsg/Header/CloseSend/Trailer on every stream and a unary call + a stream started after the "
         "failure; in one case in four the owner calls ClientConn.Close() (user action 'close': on the unchanged tree it only reports ConnEnd, in the model it is a no-op, so calls after Close still work and a later read failure still has to end every call) right before the read fails; plus RecvMsg parked at cs.recv.checked x failure; pending operations and goroutine census observed at every quiescent point; (b) TestC09Errors: a stream (Header, RecvMsg) and a unary "
         "call in flight x the transport's Read failing with 8 error VALUES (plain, io.EOF, wrapped EOF, a websocket-style EOF text, "
         "io.ErrUnexpectedEOF, context.Canceled, context.DeadlineExceeded, a gRPC status error) after 0..2 response envelopes and no "
         "trailer: every later RecvMsg / Header / Invoke must return a non-EOF error AND the six results must equal those of the model's run of the "
         "same scenario (reason 1: the model is parametric in the error value, the code must be too); the error values also include the protobuf decoder's own error, raw and wrapped (a transport whose decoder fails), as a persistent failure and as one that does not repeat ('-once': the next Read waits like an idle transport; the connection has to be given up at the FIRST failed Read); the transport fails at most 3000 reads in a row, so that a reader that does not stop shows as pending calls instead of a spin; (b') TestC09MuxClose (10 cases): the multiplexer through its own API: read failure and RpcMultiplexer.Close() in the orders fail,close / close,fail / fail,close,close / fail / close,fail,close, with and without calls in flight, then CallUnaryMethod, NewStreamReadWriter, CallUnaryMethod: none pending, none successful; (c) TestC09Storm: retry storms inside a bubble "
         "with real parallelism: 3000 (thorough 3000 x 12 rounds) unary calls and streams in flight, the read fails, every caller "
         "retries once the moment its call fails (the window INSIDE closeError); at quiescence (exact, no timeout) no retry may be "
         "pending and none may have succeeded",
    assumptions=["a transport whose Write blocks for ever without honouring its context is outside the hypothesis",
                 "quiescence = testing/synctest's durable blocking; a hang is an exact observation, not a timeout"],
)

"""Configuration of ./check C05 (see lib/registry.py for the fields)."""
CFG = dict(
    claim="Client half. Theorems C05_unique (ids of distinct calls are pairwise distinct as 64-bit values while fewer than 2^64 were "
          "allocated - explicit hypothesis), C05_counter, C05_wire (every id on the wire belongs to exactly one call), C05_route_found "
          "(a registered call is the one found under its id), C05_route_owner (an envelope is routed only to the owner of its id; an id "
          "nobody is registered under is logged and routed to nobody), C05_route_take / C05_route_queue (whatever a call takes, has "
          "queued or held for it was read from the transport, routed to it and carries its id) and C05_noninterference_partial (a reply "
          "/ stream message reported to a call is the body of such an envelope) in coq/Props/C05.v, over all label sequences of "
          "coq/Model/Client.v (any inbound envelopes, any interleaving). C05_route_exact: per call the routed envelopes are, in order and once each, the taken ones, then the queued one, then the held one, then the at most one dropped one (dropped = held while the call unregistered). C05_recv_order / C05_wire_to_caller_order (Proofs/ClientOrder.v, invariant oinv): the ORDER of results, list level: in every reachable state the messages RecvMsg returned, in the order of the returns, are a prefix of the bodies (those that unmarshal, before the first final envelope) of the envelopes the call took - and of those the read loop read for it - in the transport's order; equal to them while the stream loop is reading empty-handed. C05_noninterference: EVERY API return of a call (unary result, RecvMsg messages and errors, Header, Trailer, SendMsg / CloseSend / NewStream errors) is justified by the envelopes the call itself took (its id, routed to it), by its OWN context, or by the connection-wide read failure. Server half (coq/Model/Server.v, Proofs/ServerRoute.v, over all label sequences): C05_server_route (per stream handler the envelopes read while it was the registered entry of its id - the sub-sequence of the inbox that is its own - are, in order and once each, those settled for it (queued or dropped because its context was done), then the one the read loop holds for it, then at most one abandoned at the end of the connection; the queued ones are, in order and once each, those it took, then the one still queued), C05_server_route_serving, C05_server_route_nobody, C05_server_unary_once (the unary requests read are, in order and once each, those handed to a worker - one job event each -, then the one on offer, then at most one abandoned).",
    props="Props/C05.v",
    theorems=["C05_unique", "C05_counter", "C05_wire", "C05_route_found", "C05_route_owner", "C05_route_take", "C05_route_queue",
              "C05_route_exact", "C05_recv_order", "C05_wire_to_caller_order", "C05_route_nobody", "C05_noninterference", "C05_noninterference_partial",
              "C05_server_route", "C05_server_route_serving", "C05_server_route_nobody", "C05_server_unary_once"],
    imports=["Model.Client", "Check.ClientC", "Check.ClientSpec", "Check.C05c"],
    case_type="c05case",
    find_bad_from="Check.C05c.find_bad_from",
    go_tags="cl,sv",
    rigs=[dict(test="TestC05Srv", timeout_quick=200, timeout_thorough=300),
          dict(test="TestC05Perm", timeout_quick=300, timeout_thorough=1500),
          dict(test="TestC05Surplus", timeout_quick=200, timeout_thorough=300),
          dict(test="TestC05Fault", timeout_quick=200, timeout_thorough=300),
          dict(test="TestC05Slow", timeout_quick=200, timeout_thorough=300),
          dict(test="TestC05ServerKeys", timeout_quick=200, timeout_thorough=300),
          dict(test="TestC05Wide", timeout_quick=200, timeout_thorough=300),
          dict(test="TestC05ByRef", timeout_quick=200, timeout_thorough=300),
          dict(test="TestC05Free", timeout_quick=300, timeout_thorough=900)],
    reason_text={"6": "server side: the message bodies written under a stream's id are not, in order and once each, among the messages its handler sent (per-stream order on the server->client wire)", "7": "server side: a qualifying unary request did not get its OWN handler invocation (same id, its payload), or a handler's reply was not written under the request's id to the request's source (requests with equal ids from different sources)", "1": "the real client's observation differs from every outcome of the Gallina model (Model/Client.v, all orders of internal rules)",
                 "2": "ids: two calls share an id on the wire (or an id is 0 / a call wrote no first envelope)",
                 "3": "route: a unary call's result is not what the FIRST delivered envelope carrying its id says",
                 "4": "route/order: the messages a stream's RecvMsg returned are not, in order and once each, the bodies of the delivered envelopes carrying its id",
                 "5": "isolation: a call reported a success whose body no delivered envelope with its id carried",
                 "9": "free-running / write-fault: a caller received a reply that is not the function (+1) of ITS OWN request, or none at all"},
    rule="(a) lock-step in synctest bubbles, real client vs scripted peer: k calls (every mix of unary / stream), EVERY permutation of their "
         "response envelopes for k <= 2 with 1..3 envelopes each (quick: all but the 6-envelope shapes, of which one sixth chosen by the "
         "seed; thorough: all), k = 3 sampled (150 / 4000), one third with an envelope for a foreign id inserted; bodies encode (call, "
         "position) so that the routing predicates are evaluated on the observed returns; (b0) 40 (thorough 400) FRESH connections whose very first RPCs are released by one barrier: 2 / 8 / 14 spinning callers at GOMAXPROCS 16, 16 / 64 callers behind a channel barrier at GOMAXPROCS 1 / 4 / 16, one unary call each, ids recorded from the connection's very first envelope; (b) free-running, real goroutine concurrency, "
         "real client + real server: 64 goroutines start 10^4 (thorough 10^5) calls (10% bidi streams) on one connection with seeded "
         "yields at the verif hook points; ids of all first envelopes taken from the wire, (request, reply) recorded by every caller (emitted as records of <= 2000 ids / pairs: the sorted id list in consecutive runs that overlap by one id, so that strictly increasing per record is pairwise distinct overall); one unary call in seven has an "
         "already-ended context (its transport write fails cleanly while the others are in flight), one stream in three is aborted by "
         "its handler while the client still sends; (c') TestC05Surplus: surplus replies to one unary call in one burst, then later calls on the same connection each answered by its own reply (distinct tokens); (c'') TestC05Slow (138 cases): a stream takes no response while the peer sends it 4 / 5 / 7 and (far behind: round limits 16, 64, 128 of a per-call backlog + 1, 2 and beyond) 17 / 18 / 65 / 66 / 67 / 68 / 70 / 129 / 130 / 131 / 200 envelopes (and some to a call that keeps up), the VIRTUAL CLOCK is advanced by 10 ms / 100 ms / 1 s after every delivery / once / before the drain / during the drain, then the stream drains everything: received = sent, position by position; TestC05Wide (22 cases; the WIDTH of the allocator, which C05_unique assumes as 'fewer than 2^64 ids', is checked here): white-box, the verif accessor ClientConn.VerifSetIdCounter (reflection: independent of the declared type of the counter) sets the allocation counter to 2^16-3 / 2^31-2 / 2^32-3 / 2^32+5 / 2^53-1 / 2^63-2 / 2^64-12 on a connection with a long-lived first stream (id 1) and 0..2 more calls alive, fresh connection per point and all points in a row; 8 more calls (unary and stream) at each point: ids on the wire = counter+1.. (reason 1, C05_counter), pairwise distinct, never 0, distinct from every live call's id (reason 2), each unary call gets the reply to its own request (9), the first stream still receives what is sent to it (4); TestC05ByRef (36 cases): real client - real server over a link that passes the writer's *Rpc BY REFERENCE (like NewGoatOverChannel), one caller goroutine abandons 1..3 unary calls (deadline on the virtual clock / cancel) while their handlers are still blocked, each immediately followed by the next call, then two calls it waits for; handlers released abandoned-first / new-first / alternating; ids read at write time, (request, reply) pairing judged (9); TestC05ServerKeys: one real server connection, scripted peer, streams of sources whose name + id collide under concatenation (client-1/12 vs client-11/2 ...), alive together; (c) TestC05Fault, in a bubble with a transport that holds writes: 1..2 unary calls "
         "whose Write fails cleanly (context ends while the write waits / write error) while 1..3 later calls are in flight, then 1..2 new "
         "calls; the peer answers every request it received with token + 1 under the request's id; these cases are ALSO compared with the "
         "model (reason 1): a Write held by the transport is the model state 'id allocated, not yet registered + written'; "
         "Check/C05c.v builds the explicit label sequence (fault_labels) and the ids on the wire and every caller's result must be "
         "those of that model run",
    assumptions=["payloads, metadata and methods are opaque tokens in the model",
                 "atomicity of atomic.AddUint64 is the Go runtime's; the 2^64 wrap of the id counter is an explicit hypothesis of C05_unique; that the allocator is in fact 64 bits wide is checked by TestC05Wide (white-box fast-forward), not proved",
                 "quiescence = testing/synctest's durable blocking"],
)

"""Configuration of ./check C15 (see lib/registry.py for the fields)."""
CFG = dict(
    claim="PARTIAL. Theorems in coq/Props/C15.v over an abstract execution model (Model/Access.v: traces of plain / atomic "
          "accesses, Lock/Unlock, go statements, channel send/receive; happens-before = program order + unlock->later lock + "
          "go->child + send->receive): C15_lockset_sound_classes (every location consistently guarded by one mutex, or "
          "atomic-only, or thread-confined, or written only before a publishing event => no well-formed trace has two "
          "conflicting accesses unordered by happens-before) and its table form C15_lockset_sound (race_free_table tbl = true "
          "=> every trace conforming to the table is race free), C15_checker_spec, C15_unguarded_rejected. Initialisation comes in two "
          "kinds that the table keeps apart: object-level (class init: written while the object is still private to its creator; "
          "safe against every site) and field-level publication (class pub:<tag>: the object is already shared, the write is "
          "ordered only before the sites listed one by one as after:<tag>, i.e. sites of goroutines the writer starts or messages "
          "afterwards - C15_after_by_go, C15_after_by_send); C15_pub_unlisted_rejected: a pub write next to any unlisted site "
          "without a common mutex makes the checker reject the table. The access table of "
          "the tracked structs (RpcMultiplexer, respHandler, clientStream, serverStream, unaryServerTransportStream, handler, "
          "streamHandler, Server, Proxy, proxyClient, Demux, demuxConn, GoatOverHttp, httpReadWriter, ClientConn) is REGENERATED "
          "FROM /repo's SOURCE on every run by tools/locksets (go/ast + go/types) and race_free_table is evaluated on it by "
          "vm_compute, one case per field; free-running concurrent workloads (mux, mux+Stop/connection failure, by-reference "
          "channel transport, proxy with many peers + on-demand slow dials under a burst larger than the per-peer queue + "
          "stalled writers + failing dials + interceptor rejections + a two-proxy chain, demux with many keys, HTTP transport "
          "with its cleaner, client and server over the WebSocket transport) run under the race "
          "detector on 1, 4 and 16 Ps with seeded yields at the instrumented points: a report with a goat frame is a failing "
          "input. NOT covered by the static table: locals captured by closures, slice/map element internals, protobuf messages "
          "shared by reference, everything inside dependencies, aliasing through pointers to fields; path-insensitive locking "
          "is rejected (reported as tie broken), not analysed; those are seen only by the race detector, on the schedules it "
          "happens to run.",
    level_note="Closed under the global context (no axioms). PARTIAL by nature: the theorem is about the abstract access model; "
               "the link to the code is (1) the source-derived lockset table (trusted: tools/locksets, ~1900 lines of Go, and the "
               "hand-written justifications of tools/locksets/justify.txt - class init / confined / pub+after, each with its code-reading "
               "argument, checked for staleness; one of them is the usage contract 'RegisterService before Serve') and (2) the "
               "race detector on sampled schedules. Neither is a proof about the Go code.",
    props="Props/C15.v",
    go_tags="tr",
    theorems=["C15_lockset_sound_classes", "C15_lockset_sound", "C15_checker_spec", "C15_unguarded_rejected",
              "C15_pub_unlisted_rejected", "C15_after_by_go", "C15_after_by_send", "C15_hb_forward"],
    imports=["Model.Access", "Check.C15c"],
    case_type="c15case", find_bad_from="find_bad_from",
    rigs=[dict(test="TestC15Table", timeout_quick=120, timeout_thorough=300),
          dict(test="TestC15Race", timeout_quick=400, timeout_thorough=1500)],
    reason_text={"1": "tie broken: a justification line is stale, a function's locking is path-sensitive (rejected, not analysed), "
                      "the lockset tool or the race build failed, the harness itself raced, or a race workload in which nothing went through (no "
                      "successful call, message or envelope: it proves nothing)",
                 "2": "data race: a field is accessed with inconsistent locking and no justification (race_free_table false on "
                      "its rows; the case names the field and the sites), or the race detector reported a race with a goat frame "
                      "(the replay is the report), or the race binary died"},
    rule="static: every access site of every field of the tracked structs (one case per field: rows = read/write, function, "
         "locks held on straight-line Lock/defer Unlock/Unlock paths, *Locked helpers inherit, class plain/atomic/init/confined/"
         "pub:<tag>/after:<tag>; no wildcard for after-sites); "
         "dynamic: 9 workloads (mux, mux-stop, chan, proxy, demux, http, opts, ws = client and server over the WebSocket transport, byref = client with a stats handler -> by-reference channel transport -> Proxy / Demux -> server with a stats handler) x GOMAXPROCS {1,4,16} x 2 repetitions (thorough: 12 repetitions each) under -race with seeded yields; "
         "non-trivial = distinct description hash",
    assumptions=["tools/locksets and tools/locksets/justify.txt are trusted (the justifications are hand-written arguments)",
                 "a lock is named struct.field by the tool; the theorem's hypothesis (conforms) needs every access to a field of object o that names lock m to "
                 "hold the SAME mutex instance, interp.lockobj o m: the object itself, or - for the rows guarded by another struct's mutex (demuxConn under "
                 "Demux.conns, httpReadWriter under GoatOverHttp.conns, respHandler under RpcMultiplexer.mutex, proxyClient under Proxy.mutex, streamHandler "
                 "under handler.mu) - the ONE container that owns the object; that every such object has exactly one owner is read off the code, not checked",
                 "Server.RegisterService is only called before the first Serve (gRPC's registration contract; not enforced by the code)",
                 "the Go race detector (ThreadSanitizer) reports only real races and only on the schedules that ran"],
)

"""Configuration of ./check C19 (see lib/registry.py for the fields)."""
CFG = dict(
    claim="PARTIAL (see level_note). Theorems in coq/Props/C19.v, over all label sequences of the small-step models of "
          "Model/Transports.v and for every codec: channel transport = FIFO, each call returns once, a blocked Read/Write is "
          "blocked only with a live context (C19_chan_fifo/_once/_blocked_write/_blocked_read); WebSocket Read/Write logic: the "
          "results of the Reads are in order the classification of the frames sent, a frame is delivered iff binary and decodable, "
          "as the decoded value (C19_ws_results/_deliver_iff/_delivered/_blocked_read); below the frame (Model/WsFrag.v: fragments, the connection's "
          "write lock, Writes blocking and giving up mid-frame): every envelope a Read returns was written whole by exactly one Write, in write order, a "
          "partial frame is never returned (C19_ws_whole_or_nothing, C19_ws_partial_waits); HTTP: 400 iff body absent / unreadable / "
          "undecodable / no header / empty source / unmappable source, never delivered then, else delivered at most once to a Read "
          "of the connection of the mapped address as the decoded value, announced once per connection, no reachable state is "
          "Crashed, one cleaner pass removes exactly the connections idle >= timeout and closes their done channel, blocked "
          "Read/Write/parked request only under the stated conditions (C19_http_*); no refusal depends on size: the encoding of "
          "every canonical envelope with a mappable source, whatever the length of its body, is classified 'deliver' and never "
          "answered 400 (C19_http_accepts_every_envelope, C19_http_never_400_on_envelope); the SENDER half (httpReadWriter.Write) linked to a receiving "
          "instance (Model/HttpLink.v): a request is answered 200 only with its delivery (C19_http_200_delivered), a Write that returns nil was "
          "handed to the peer's ServeHTTP as exactly one request whose body is the encoded envelope, answered 200 and read there equal "
          "(C19_http_write_nil, C19_http_write_nil_read), and the writes of a sequential writer are delivered in write order "
          "(C19_http_write_order). The protobuf wire format of the Rpc schema is "
          "modelled byte by byte (Model/WireFormat.v; its decoder's fuel is proved sufficient for every input: C19_decode_fuel_enough, "
          "C19_skip_groups_fuel_enough) with the proved round trip C19_wire_roundtrip: forall e, wf e -> decode "
          "(encode e) = Some e, which retires the codec assumption: C19_ws_end_to_end / C19_http_end_to_end state that what is "
          "written is what is read, in order. Every run drives the real NewGoatOverChannel, goatOverWebsocket (over coder/websocket "
          "on an in-memory byte stream) and GoatOverHttp (ServeHTTP + clockwork fake clock) lock-step in synctest bubbles and the "
          "real proto.Marshal/Unmarshal against the models.",
    level_note="Closed under the global context (no axioms). PARTIAL: github.com/coder/websocket, net/http, the OS sockets and the "
               "Go runtime's channels/select are environment (modelled, validated by the lock-step rigs, not verified); the "
               "generated Rpc code and google.golang.org/protobuf are tied to Model/WireFormat.v differentially (byte-exact "
               "Marshal, accept/reject + value of Unmarshal on generated, hand-written, mutated and random inputs), not verified "
               "from source; unknown fields kept by Go are dropped by the model (known-field projection compared). The WebSocket "
               "connection's read limit is the caller's (rigs lift it: finding ws-default-read-limit).",
    props="Props/C19.v",
    go_tags="tr",
    theorems=["C19_wire_roundtrip", "C19_wire_injective", "C19_chan_fifo", "C19_chan_once", "C19_chan_blocked_write",
              "C19_chan_blocked_read", "C19_ws_results", "C19_ws_deliver_iff", "C19_ws_delivered", "C19_ws_blocked_read",
              "C19_ws_end_to_end", "C19_http_400_iff", "C19_http_classify", "C19_http_rejected_not_delivered",
              "C19_http_delivery_correct", "C19_http_at_most_once", "C19_http_announce_once", "C19_http_post_step",
              "C19_http_no_crash", "C19_http_idle", "C19_http_blocked_read", "C19_http_parked_request",
              "C19_http_blocked_write", "C19_http_cleaner_settled", "C19_http_end_to_end",
              "C19_http_accepts_every_envelope", "C19_http_never_400_on_envelope",
              "C19_http_200_delivered", "C19_http_write_nil", "C19_http_write_nil_read", "C19_http_write_order",
              "C19_decode_fuel_enough", "C19_skip_groups_fuel_enough", "C19_ws_whole_or_nothing", "C19_ws_partial_waits"],
    imports=["Base.Bytes", "Model.WireFormat", "Model.Transports", "Model.HttpLink", "Model.WsFrag", "Check.C19c"],
    case_type="c19case", find_bad_from="find_bad_from",
    rigs=[dict(test="TestC19Wire", timeout_quick=300, timeout_thorough=1200),
          dict(test="TestC19Chan", timeout_quick=300, timeout_thorough=1200),
          dict(test="TestC19Ws", timeout_quick=300, timeout_thorough=1200),
          dict(test="TestC19Http", timeout_quick=300, timeout_thorough=1200),
          dict(test="TestC19HttpE2E", timeout_quick=90, timeout_thorough=600)],
    reason_text={"1": "the real transport / codec differs from the Gallina model (Model/Transports.v, Model/WireFormat.v): no "
                      "quiescent model state predicts the observation, or encode/decode differ from proto.Marshal/Unmarshal",
                 "2": "the observed history violates the property predicate (Check/C19c.v: round trip, spec_chan, spec_ws, "
                      "spec_http, CHttpRaw = the 400-iff classification, CHttpE2E = written without error and read equal, CAssert 1 = a parked "
                      "Write ends with its context, CAssert 2 = the channel transport hands over a 1 MiB envelope unchanged, "
                      "CWsFrag = the blocked WebSocket Writes step by step against the fragment-level model (reason 1) + the assertion that was CAssert 6 (reason 2): "
                      "a WebSocket Write parked on a connection whose peer does not read (bounded relay), and a second one queued behind it, have "
                      "returned an error at the quiescent point after their contexts ended (cancel, cancel with a far deadline, deadline passing), "
                      "CAssert 5 = concurrent writers on one connection: exactly once, unchanged, per-writer order, "
                      "CAssert 3 = Write returns an error for an envelope that the far end refused with 503 / 400 (regression of http-write-ignores-status, "
                      "fixed in /repo 2aacfa6: a nil from Write means 'answered 200', and 200 is answered only with the delivery))",
                 "3": "a Read/Write whose context is done (issued with a done context, or cancelled since) was still blocked at a quiescent point - any "
                      "quiescent point, not only the last (spec_chan_ctx, spec_ws_ctx, spec_http_ctx); the channel rig releases such a call at the end "
                      "(drain / close) so that the scenario is emitted and judged instead of wedging"},
    rule="wire: every present/absent combination of the 5 sub-messages x ids {0,1,127,128,...,2^63,2^64-1} x bodies {0,1,17,300,"
         "64KiB (thorough: 1MiB)} x empty/ASCII/non-ASCII/NUL/long strings x repeated fields 0..5, invalid UTF-8 in every string "
         "field, ~70 hand-written corners of the wire format, seeded mutations of valid encodings, random bytes; channel: ALL "
         "action sequences of length <= 4 (thorough 5) over {Write, Read (live / cancelled ctx), cancel of any blocked call, close} "
         "for capacities 0,1,2, with ticks of the virtual clock (time.Sleep in the bubble = an empty model step) between the actions; WebSocket: every generated envelope written and read, ALL sequences of length <= 3 (thorough 4) "
         "over {Write, text frame, garbage / unusual / invalid binary frames, Read, cancel, break}, seeded random longer ones; HTTP: "
         "every request shape alone and with a waiting reader, ALL sequences of length <= 4 (thorough 5) over {valid posts to two "
         "sources of one address, invalid post, tick, half tick, NewConnection, Read, failing Write, cancel}, seeded random longer "
         "ones over 3 clock settings incl. Stop and cancelled Writes; ticks of the bubble's clock (not the cleaner's fake clock) as a further letter "
         "of the WebSocket and HTTP alphabets and walks; every lock-step scenario runs under guardWedge (a mutex deadlock is reported and attributed "
         "to the scenario, not a hung rig); end-to-end over loopback HTTP with the envelope generator, every envelope followed by a marker "
         "envelope so that a lost one shows as 'nothing read before the marker' (no timeout decides); THE UPPER END OF THE BODY RANGE in "
         "every tier and every rig (wire, channel, WebSocket with the read limit lifted, HTTP lock-step with and without a waiting reader, "
         "HTTP end to end): bodies of 1 MiB - 4096, 1 MiB - 1, exactly 1 MiB, and 1 MiB inside the largest envelope the property covers "
         "(every sub-message, long strings), built on both sides from (seed, length) (cyc_body) instead of spelt out; request framings: "
         "bodies of unknown length arriving in pieces (lock-step: small, garbage, empty, 1 MiB; raw over loopback: chunked small and 1 MiB), "
         "a Content-Length larger than what is sent (unreadable) and smaller (the prefix), judged by http_classify (CHttpRaw); "
         "a FAULT between the delivery and its answer (the connection drops after ServeHTTP handed the envelope over, before the 200 leaves) on the "
         "first / middle / two consecutive / last envelope: whatever Write returned the receiver reads every envelope at most once, in write order "
         "(CHttpE2EFault); a WebSocket Write that is really BLOCKED (the in-memory pair with a relay bounded to 64 KiB, nobody reading, a 300 KB envelope and a second "
         "Write queued behind it) x {cancel, cancel of a context with a far deadline, deadline passing} in a bubble; free-running CONCURRENT WRITERS on one connection of every transport (channel, WebSocket: 2 and 8 writers x 400 "
         "self-describing envelopes up to 60 KB; HTTP: x 60): everything read decodes, is self-consistent, arrives exactly once, per-writer order kept (CAssert 5); "
         "non-trivial = distinct description hash",
    assumptions=["coder/websocket, net/http, clockwork, Go channels/select and the scheduler are modelled, not verified",
                 "google.golang.org/protobuf and the generated Rpc code are validated against Model/WireFormat.v on every run, not verified from source",
                 "SourceToAddress / OnConnect callbacks and the HTTP peer are environment actions of the model"],
)

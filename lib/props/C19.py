"""Configuration of ./check C19 (see lib/registry.py for the fields)."""
DEBUG = dict(
    claim="under construction",
    props="Props/C08.v", theorems=[],
    go_tags="tr",
    imports=["Base.Bytes", "Model.WireFormat", "Model.Transports", "Check.C19c"],
    case_type="c19case", find_bad_from="find_bad_from",
    rigs=[dict(test="TestC19Wire", timeout_quick=300, timeout_thorough=1200),
          dict(test="TestC19Chan", timeout_quick=300, timeout_thorough=1200),
          dict(test="TestC19Ws", timeout_quick=300, timeout_thorough=1200),
          dict(test="TestC19Http", timeout_quick=300, timeout_thorough=1200),
          dict(test="TestC19HttpE2E", timeout_quick=300, timeout_thorough=1200)],
    reason_text={"1": "implementation differs from the Gallina model", "2": "property predicate false on the observed history"},
    rule="debug")

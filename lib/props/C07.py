"""Configuration of ./check C07 (see lib/registry.py for the fields)."""
DEBUG = dict(
    claim="debug", props="Props/C08.v", theorems=[],
    imports=["Model.Client", "Check.ClientC", "Model.Protocol", "Check.CwC", "Check.C07c"],
    case_type="cwcase", find_bad_from="find_bad_from", go_tags="cw",
    rigs=[dict(test="TestC07", timeout_quick=600, timeout_thorough=2400)],
    reason_text={"1": "the real client's observation differs from every outcome of the Gallina model (Model/Client.v, all orders of internal rules)",
                 "2": "a RecvMsg / SendMsg / CloseSend of the cancelled stream returned something else than the Canceled / DeadlineExceeded status (the context's error for sends)",
                 "3": "an operation of the cancelled stream is still blocked at a quiescent point after the cancellation",
                 "4": "reset rule broken: no reset although no trailer had been received, more than one, for another id, or after a received trailer",
                 "5": "the handler's context is still live at a quiescent point after the reset reached the server's transport (or at the end, with everything delivered, a handler is left with a live context although its caller has gone)",
                 "6": "the run wedged: a goroutine waits for a mutex for ever (watchdog)"},
    rule="debug")

"""Configuration of ./check C07 (see lib/registry.py for the fields)."""
CFG = dict(
    claim="Theorems of coq/Props/C07.v over ALL runs of the client model Model/Client.v (any peer, any interleaving): C07_caller_unblocked (Q: in "
          "every quiescent state an open stream whose context is done has a dead loop, is done and unregistered and has no RecvMsg / SendMsg / "
          "CloseSend / Header / Trailer blocked), C07_after_done (along every continuation every later RecvMsg returns the stream's terminal "
          "error and every SendMsg fails with it), C07_reset_once / C07_reset_owner (at most one reset per stream, only for a stream whose loop "
          "has ended without a received trailer because of an abort or a done context, none for any other id), C07_status_reset (a done stream "
          "whose terminal error is the Canceled / DeadlineExceeded status and that received no trailer has exactly one reset on the wire unless "
          "writes fail); and of the server model Model/Server.v: C07_reset_cancels (after the read loop has read a reset for a registered "
          "stream its handler context is done in every later state), C07_handler_unblocks (Q: a handler whose context is done is parked in no "
          "operation), C07_no_orphan_partial (Q: with the read loop at its Read everything delivered has been read). C07_recv_strict: a "
          "stream whose loop was still running when its context ended ends, in every quiescent state of every continuation, with the Canceled / "
          "DeadlineExceeded status (or the outcome of a terminal envelope taken in the race, or the metadata abort) and never with 'respChan "
          "closed' / the connection error (true since fix 72f38d7 of D-07s). End to end on Model/Sys.v (client x server x two FIFO wires): C07_sys / C07_sys_quiescent (a stream done with the context status, no trailer, not "
          "aborted, has exactly one reset on the client-to-server wire, and once the server has read everything - in particular in every quiescent "
          "system state whose server read loop is at its Read - every registered handler of that id has a done context; from C07_status_reset, the "
          "shape invariant of the written log, sy's wire invariant and C07_last_reset_cancels on Server.v). Findings: "
          "reset-behind-backpressure (no_orphan fails while a non-reading handler's full queue holds the read loop). Both models are tied "
          "lock-step to the real code (client: every run of this check, all orders of internal rules; server: ./check SV).",
    props="Props/C07.v",
    theorems=["C07_caller_unblocked", "C07_after_done", "C07_reset_once", "C07_reset_owner", "C07_status_reset", "C07_reset_cancels",
              "C07_handler_unblocks", "C07_no_orphan_partial", "C07_recv_strict", "C07_last_reset_cancels", "C07_sys", "C07_sys_quiescent", "C07_server_reset_cancels"],
    imports=["Model.Client", "Check.ClientC", "Model.Protocol", "Check.CwC", "Check.C07c"],
    case_type="cwcase", find_bad_from="find_bad_from", go_tags="cw",
    rigs=[dict(test="TestC07", timeout_quick=600, timeout_thorough=2400)],
    reason_text={"1": "the real client's observation differs from every outcome of the Gallina model (Model/Client.v, all orders of internal rules)",
                 "2": "a RecvMsg / SendMsg / CloseSend of the cancelled stream returned something else than the Canceled / DeadlineExceeded status (the context's error for sends)",
                 "3": "an operation of the cancelled stream is still blocked at a quiescent point after the cancellation",
                 "4": "reset rule broken: no reset although no trailer had been received, more than one, for another id, or after a received trailer",
                 "5": "the handler's context is still live at a quiescent point after the reset reached the server's transport (or at the end, with everything delivered, a handler is left with a live context although its caller has gone)",
                 "6": "the run wedged: a goroutine waits for a mutex for ever (watchdog)",
                 "7": "after the reset reached the server the handler is still parked inside an operation (its RecvMsg / SendMsg did not unblock on its context), or at the end, with everything delivered, the handler of the cancelled call has not returned"},
    rule="end-to-end lock-step in synctest bubbles (real client - two held FIFO wires - real server; user and handler programs are data): "
         "37 base traces (bidi / server-stream / client-stream conversations of C02: n requests x m responses, eager / queued-unread reads, "
         "ping-pong with pending receives, handler closing first, headers and trailers, error returns, request bursts) and for EACH a "
         "cancellation after EVERY prefix of its schedule, by explicit cancel AND by deadline expiry on the virtual clock, with no other call / "
         "another open stream / a unary call in flight (quick: the other-call configuration alternates by position; thorough: full product); "
         "after the cancellation: wires drained, RecvMsg, SendMsg, RecvMsg, CloseSend by the caller, the handler awaits its context, sends, "
         "returns; the other call is then completed. Judged: client half against Model/Client.v (all orders), status codes of RecvMsg/SendMsg "
         "(Canceled vs DeadlineExceeded exactly), pending operations, reset envelopes on the tap (count, id, owner), handler context at every "
         "quiescent point after the reset reached the server, orphans at the end; the same traces x prefixes with exactly the RST_STREAM Write "
         "refused (quick: every other prefix): the caller's side is judged (pending operations return, status codes), the handler is not; the KIND of "
         "caller context is varied over all scenarios, built with the real constructors (WithCancel, WithTimeout, WithDeadline, WithCancelCause, "
         "WithDeadlineCause, WithTimeoutCause, errgroup.WithContext, child and grandchild of the cancelled context); the cancellation landing INSIDE "
         "NewStream's transport Write (right after the transport accepted the opener: cancel / deadline; the Write held up, cancel, released) x 3 kinds "
         "x other calls x context kinds (not a state of the model: predicates only - the reset reaches the server or the opener never does); the handler "
         "PARKED IN SendMsg behind the connection's stalled writer (server-side back-pressure) x cancel / deadline x 0..2 exchanges x pending client "
         "RecvMsg x other calls; SCALE: 9, 17, 33, 101 (thorough also 2, 65, 129, 257) concurrent streams whose handlers wait for their contexts, cancel "
         "all / the oldest (predicates only); 17, 18, 24, 33 streams cancelled AT ONCE while the client's transport takes no Write, then released: every "
         "reset reaches the wire; the caller's SendMsg PARKED in the transport when the cancel / deadline lands (returns the context's error, never EOF); the reset Write held up "
         "for 300 ms / 1 s / 5 s / 29.9 s (below its 30 s bound) and then released: the reset still reaches the wire; plus 40 repetitions of the FORCED cancel-then-send schedule "
         "(stream loop held at the yield point cs.loop.read while a SendMsg tears the registration down: regression of D-07s)",
    assumptions=["payloads, metadata, methods and names are opaque tokens for client and server",
                 "the transport checks the context of a Write (Endpoint.CheckCtx); wires are FIFO and lossless (C19 for the shipped transports)",
                 "'becomes done' is observed at quiescence (testing/synctest durable blocking); latency is not a property of the model"])

"""Configuration of ./check C06 (see lib/registry.py for the fields)."""
DEBUG = dict(
    claim="debug", props="Props/C08.v", theorems=[],
    imports=["Model.Client", "Check.ClientC", "Model.Protocol", "Check.CwC", "Check.C06c"],
    case_type="cwcase", find_bad_from="find_bad_from", go_tags="cw",
    rigs=[dict(test="TestC06", timeout_quick=600, timeout_thorough=2400)],
    reason_text={"1": "the real client's observation differs from every outcome of the Gallina model (Model/Client.v, all orders of internal rules)",
                 "2": "a per-id projection of what the CLIENT wrote is rejected by the protocol automaton proto_c2s",
                 "3": "a per-id projection of what the SERVER wrote is rejected by the protocol automaton proto_s2c",
                 "4": "a handler returned on a stream that its caller had not reset, on a live connection, and no trailer envelope was written",
                 "5": "the server wrote an envelope for an id it had not received, or a response that does not swap the request's source and destination, or a reset that answers no received body",
                 "6": "the run wedged (watchdog)"},
    rule="debug")

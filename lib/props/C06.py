"""Configuration of ./check C06 (see lib/registry.py for the fields)."""
CFG = dict(
    claim="Theorem C06_client (coq/Props/C06.v): for EVERY run of the client model Model/Client.v (arbitrary peer, any interleaving, "
          "cancellations, deadline expiry, transport failures) with API-conformant users, the envelopes written for each stream id are accepted by "
          "the client-to-server protocol automaton proto_c2s of Model/Protocol.v (one request for a unary call; open, bodies, at most one trailer "
          "with status, at most one reset, reset last; constant id and route), for every stream the client did not itself abort on undecodable "
          "response metadata; C06_client_refuted shows that the exclusion is necessary (trailer after reset; replayed on the real client, finding "
          "close-after-abort-reset). Server half on Model/Server.v: C06_server_origin (every envelope the server writes carries the id and method of an envelope it has "
          "read, source and destination exchanged), C06_server_stream (for a peer that keeps its side for stream id i - no unary-method envelope on "
          "the id, only the first envelope header-only, constant route: what C06_client gives - the envelopes of id i the server WRITES are accepted "
          "by proto_s2c: one optional header-only envelope first, bodies, at most one trailer with status, metadata only on the first envelope, only "
          "resets after the trailer / after a reset; invariant on what is handed to the writer per id + sv's writer accounting + closure of the "
          "automaton under subsequences), C06_reset_order (no trailer of an id after a reset of it); C06_sys on the product model Sys.v (for every system run with conformant users, "
          "both directions of every non-aborted stream call are accepted: the client's envelopes satisfy the server theorem's hypothesis); C06_trailer_present (every stream handler that has "
          "returned has handed a trailer of its id to the writer - then written, refused by the transport or in the Write call - unless its context was done when it offered it: the "
          "caller's reset had been read, or the connection's context was done; the handler's OWN deadline - finding trailer-lost-on-handler-deadline - is outside the model, which has no "
          "GRPC-Timeout); C06_server_unary (for an id on which the peer sent at most one envelope, a unary-method request, the server writes at most one envelope, with header "
          "and trailer, no reset, unary method: assembly of sv's ServerUnary / ServerRoute / ServerWriter lemmas). Not proved, monitor only: body-or-non-OK-status of the unary "
          "response (needs a hypothesis on unary handler programs: a reply or an error). "
          "The client model is tied lock-step to the real client on every run (all orders of internal rules) and the "
          "automata judge every per-id per-direction projection of every wire history of the rigs (real client, real server, end to end).",
    props="Props/C06.v", theorems=["C06_client", "C06_client_refuted", "C06_server_origin", "C06_server_stream", "C06_reset_order", "C06_sys", "C06_trailer_present", "C06_server_unary", "C06_server_reset_only_answers_unknown_body", "C06_server_unary_exactly_one", "C06_server_unary_resp_shape"],
    imports=["Model.Client", "Check.ClientC", "Model.Protocol", "Check.CwC", "Check.C06c"],
    case_type="cwcase", find_bad_from="find_bad_from", go_tags="cw",
    rigs=[dict(test="TestC06", timeout_quick=600, timeout_thorough=2400)],
    reason_text={"1": "the real client's observation differs from every outcome of the Gallina model (Model/Client.v, all orders of internal rules)",
                 "2": "a per-id projection of what the CLIENT wrote is rejected by the protocol automaton proto_c2s",
                 "3": "a per-id projection of what the SERVER wrote is rejected by the protocol automaton proto_s2c",
                 "4": "a handler returned on a stream that its caller had not reset, on a live connection, and no trailer envelope was written",
                 "5": "the server wrote an envelope for an id it had not received, or a response that does not swap the request's source and destination, or a reset that answers no received body",
                 "6": "the run wedged (watchdog)",
                 "7": "a unary request on a live connection whose method has returned has no response envelope (or more than one) at the end of the run"},
    rule="lock-step in synctest bubbles; Rig A (real client, scripted peer): ALL words of length <= 4 (thorough 5) over {send, closesend, recv, cancel, "
         "deadline expiry, peer body, peer trailer, unary call + reply, write failure} after the open, API-conformant; Rig B (real server, scripted "
         "protocol-conformant client): ALL words of length <= 5 (thorough 6) over {client body, close, reset; handler recv, send, set+send header, "
         "return ok, return error, SendMsg of a message the codec rejects (quick: words <= 4 with it)} after the open, 3 stream kinds, + unary / "
         "undecodable metadata / bodies for unknown ids / the handler's own deadline; header / trailer metadata in the classes a stricter library refuses (non-ASCII UTF-8, control characters, upper-case / empty / illegal keys, empty "
         "value) in the words and a family of their own; unary calls whose method is still running at its GRPC-Timeout (ends on its context / ignores it) "
         "with more traffic afterwards; the cancellation / deadline INSIDE NewStream's opener Write (C07's family: no lone reset on a never-opened id); streams to UNREGISTERED methods / unknown services (opener + 0..2 messages + half-close / reset / late body, scripted client and the real client, "
         "eagerly or after the answer) + probe; the RETURN WINDOW as a schedulable point (a server stats handler "
         "holds the OutTrailer event, a stream interceptor holds after the handler function: handler returned, trailer not yet handed to the writer) x "
         "{body, 2 bodies, half-close, reset, body+reset} of the client arriving there, scripted client and end to end (the real client sends into it); "
         "Rig C (real client - held wires - real server): the cancellation-at-every-prefix scenarios of C07 and the abandonment scenarios of C11 "
         "(quick: a third / a quarter of them; thorough: all); every per-id per-direction projection of both wire histories is judged by proto_c2s / "
         "proto_s2c, plus trailer-presence, ids-received, route swap, reset-answers-a-body and presence of exactly one response per unary request whose method has "
         "returned over the step-indexed histories",
    assumptions=["payloads, metadata, methods and names are opaque tokens for the client and server (checked by tokenised round trips in the rig)",
                 "the transport checks the context of a Write (Endpoint.CheckCtx): a Write with a cancelled context fails (hypothesis transport_checks_ctx of DESIGN.md)",
                 "one observable is canonicalised in the rig: after a SendMsg / CloseSend of a call failed with a transport write error or in the codec (both exits run teardown(false)), \"respChan closed\" and Canceled are one class "
                 "(clientStream.teardown unregisters before it cancels; the stream loop may wake in between; Client.v's teardown is atomic; breaks none of C06/C07/C11)",
                 "quiescence = testing/synctest's durable blocking; the server half of the run is judged by the predicates only (its model is tied by ./check SV)"])

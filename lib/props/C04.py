"""Configuration of ./check C04 (see lib/registry.py for the fields)."""
CFG = dict(
    claim="Theorems C04_base64_roundtrip, C04_codec_exact, C04_values_kept, C04_no_invention, C04_values_general (metadata codec: "
          "byte-exact round trip for every metadata map and every map iteration order) and C04_flush_headers, C04_flush_trailers "
          "(server stream object: for every program of header/trailer/message calls the first envelope carries exactly the accepted "
          "header metadata, the single trailer envelope exactly the accepted trailer metadata); C04_sys_request, C04_sys_request_exact "
          "(handler's incoming metadata minus the injected grpc-timeout key = normalised caller metadata), C04_sys_stream_header, "
          "C04_sys_stream_trailer (caller's Header()/Trailer() = normalised join of what the handler's accepted calls set, for every "
          "handler program, result and map iteration order), C04_sys_unary, C04_sys_values, C04_sys_no_invention in coq/Props/C04.v; the "
          "models are run against ToKeyValue/ToMetadata, the real serverStream and the unary collector, and the composition against "
          "whole RPCs (real client, link, real server, all four kinds) on every run.",
    props="Props/C04.v",
    theorems=["C04_base64_roundtrip", "C04_codec_exact", "C04_values_kept", "C04_no_invention",
              "C04_values_general", "C04_flush_headers", "C04_flush_trailers", "C04_sys_request", "C04_sys_request_exact",
              "C04_sys_stream_header", "C04_sys_stream_trailer", "C04_sys_unary", "C04_sys_values", "C04_sys_no_invention",
              "C04_unary_program", "C04_faults_headers", "C04_faults_headers_lost", "C04_faults_sendheader_retried", "C04_faults_trailer_once"],
    go_tags="st",
    imports=["Base.Bytes", "Model.Base64", "Model.Meta", "Model.SrvStream", "Model.MetaSys", "Check.C04c"],
    case_type="c04case",
    find_bad_from="find_bad_from",
    rigs=[dict(test="TestC04", timeout_quick=300, timeout_thorough=1200),
          dict(test="TestC04StreamOpsBad", timeout_quick=300, timeout_thorough=1200),
          dict(test="TestC04StreamFaults", timeout_quick=300, timeout_thorough=1200),
          dict(test="TestC04Sys", timeout_quick=300, timeout_thorough=1200),
          dict(test="TestC04UnarySeq", timeout_quick=300, timeout_thorough=1200),
          dict(test="TestGenEquivC04", timeout_quick=300, timeout_thorough=300)],
    technique="machine-checked proof (Rocq/Coq 8.16.1) of theorems about hand-written Gallina models + correspondence check on every run; "
              "for ToMetadata additionally: model regenerated from source by tools/go2coq + equivalence proof (coq/Gen/ToMetadataEquiv.v) "
              "re-checked on every run",
    reason_text={"1": "implementation output differs from the Gallina model (Model/Meta.v, Base64.v, SrvStream.v), or the definition of "
                      "ToMetadata regenerated from the source is no longer proved equal to the model / left the translator's subset",
                 "2": "implementation output violates the property predicate (Check/C04c.v: spec_codec / spec_stream / accepted tokens / "
                      "spec_same: same keys lower-cased, same values in per-key order, byte-exact, nothing else)",
                 "3": "header metadata on an envelope after the first one",
                 "5": "server stream object under write failures: more than one delivered envelope carries header metadata, or the one that "
                      "does lacks a retained map, or two trailer envelopes were delivered (spec_faults)",
                 "4": "unary: response metadata that is on the wire does not reach the caller through the API (grpc.Header / grpc.Trailer "
                      "call options: Invoke panics or delivers nothing)"},
    rule="codec: seeded metadata sets (0..16 keys over the gRPC key alphabet in any letter case, -bin suffix in 4 case variants, "
         "1..4 values, binary values incl. empty/NUL/0xFF/alphabet chars 62-63/long, keys colliding after lower-casing, 1..3 maps "
         "joined) through ToKeyValue then ToMetadata; base64 decoder on fixed + random malformed strings (CR/LF, padding, std "
         "alphabet, raw); ToMetadata on mixed lists; server stream object: ALL programs of length<=4 (thorough: 5) over "
         "{SetHeader,SendHeader,SetTrailer,SendMsg,SendTrailer} plus random longer ones, and ALL programs of length<=4 that contain a "
         "SendMsg whose value the codec rejects; ALL programs of length<=3 (thorough 4) with the transport write failing at EVERY non-empty "
         "subset of their writing calls; unary collector: all programs of "
         "length<=5; whole RPCs in bubbles (real client, link, real server): {unary, client-, server-, bidi stream} x caller metadata "
         "(0..16 keys, any letter case, 1..4 values, -bin values with NUL/0xFF/empty; attached through the outgoing context, a client "
         "interceptor, or both; with and without a deadline) x handler programs of 0..5 calls over {SetHeader, SendHeader, SetTrailer, "
         "SendMsg, SendMsg rejected by the codec} with raw metadata.MD literals (mixed-case -Bin suffixes), through the stream's methods or grpc.SetHeader/SendHeader/"
         "SetTrailer, returning nil or an error, plus fixed scenarios for the three ways headers leave: handler's incoming metadata, "
         "caller's Header()/Trailer() (unary: stats InHeader / wire list) and the wire lists vs the model; the context given to Serve plain / carrying incoming metadata (disjoint keys / the call's keys), calls that attach "
         "nothing; metadata blocks at the 16 KiB size limit (thorough: 4 KiB .. 1 MiB); sequences of 17..26 unary calls "
         "on ONE served connection (two methods, few shared keys, some calls setting no trailer): every reply's header and trailer list "
         "judged exactly on the wire; non-trivial = distinct description hash",
    assumptions=["encoding/base64, strings.ToLower/HasSuffix, metadata.Join and Go map iteration are Go's/grpc's: modelled and validated differentially, not verified",
                 "values under text keys are not inspected by the library (opaque)"],
)

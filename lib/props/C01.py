"""Configuration of ./check C01 (see lib/registry.py for the fields)."""
DEBUG = dict(
    claim="debug: end-to-end rig and spec predicates of C01; theorems pending (Model/Sys.v)",
    props="Props/C08.v",
    theorems=[],
    imports=["Check.SysC", "Check.C01c"],
    case_type="c01case",
    find_bad_from="find_bad_from",
    go_tags="sy",
    rigs=[dict(test="TestC01", timeout_quick=300, timeout_thorough=1500)],
    reason_text={"2": "pairing: a caller's result is not Ok(f(its own request)) (another call's reply, an error, an altered reply)",
                 "3": "a call has no result at the end of a fault-free complete schedule, or two results, or a result belongs to no call",
                 "4": "the handler did not run exactly once for each call (missing, twice, or for no call)",
                 "5": "the request the handler saw (on entry, or re-read just before it returned) differs from the caller's message",
                 "6": "the caller's result is not the reply its handler produced",
                 "7": "wire: request ids not pairwise distinct, a request envelope whose body is not a caller's message, or not exactly one "
                      "response per request id carrying f(body of that request) without error status or reset"},
    rule="real goat.ClientConn - in-memory FIFO wires - real goat.Server (direct, through the real Proxy, through the real Demux; serialising "
         "and by-reference wires) inside synctest bubbles",
    assumptions=[],
)

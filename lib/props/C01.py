"""Configuration of ./check C01 (see lib/registry.py for the fields)."""
CFG = dict(
    claim="Model: coq/Model/Sys.v = the product of the client model (Model/Client.v) and the server-connection model "
          "(Model/Server.v) joined by two reliable FIFO wires; ALL label sequences (any number of calls and streams, any interleaving "
          "of user actions, internal rules of both components, handler steps and wire transfers), unary handlers returning f(request) "
          "for an arbitrary function f on payload tokens. Theorems of coq/Props/C01.v, all at full strength: C01_pairing (every "
          "successful unary call returned f(its own payload)), C01_exactly_once (the server's handler-invocation log has exactly one "
          "unary entry with the id of a returned call), C01_no_fabrication (every unary handler invocation belongs to exactly one call, "
          "a unary one, and was given that call's payload), C01_never_two (at most one result per call), C01_complete (Q-form: in a "
          "quiescent state - both components quiescent, both wires empty, no handler at its gate - reached without an injected fault "
          "by Invoke programs, every call has returned - returned only: fault_free admits cancellation), C01_complete_ok (never none: in such a "
          "state, when moreover nobody cancelled or expired - no_cancel - and payloads and f are non-negative, i.e. decodable, EVERY call has "
          "returned OK with f(its own request): the conditional C01_pairing / C01_exactly_once then apply to every call); plus the structural theorems C01_projection_client / C01_projection_server "
          "(every system run is a run of each component model), C01_wire_c2s / C01_wire_s2c (what a side has read is a prefix of what "
          "the other wrote: nothing lost, duplicated, reordered, altered or fabricated in transit), C01_request_exact and "
          "C01_server_reply_origin. The Proxy / Demux topologies are covered in the model by C16 / C18 (they refine a FIFO wire) and "
          "on the real code by running the rig through the real Proxy and Demux. The tie: the boolean predicates spec_c01 of "
          "coq/Check/C01c.v (pairing, exactly one result, handler exactly once with the caller's request, reply as produced, wire ids "
          "distinct and echoed) are evaluated on every history recorded from the REAL client connection + server; the two component "
          "models are tied lock-step to the code by ./check CL and ./check SV, and - since round 2 - the SYSTEM model is tied to the code by "
          "this check too: coq/Check/C01a.v replays every recorded lock-step schedule of up to 24 calls on Model/Sys.v (one external action, "
          "then all orders of the internal rules of the component concerned, the wires in between) and every step's events must be predicted "
          "by some model outcome (reason 1).",
    props="Props/C01.v",
    theorems=["C01_projection_client", "C01_projection_server", "C01_wire_c2s", "C01_wire_s2c", "C01_request_exact", "C01_server_reply_origin", "C01_pairing", "C01_exactly_once", "C01_no_fabrication", "C01_never_two", "C01_complete", "C01_complete_ok", "Sys_measure", "Sys_closed_terminates", "Sys_closed_reaches_final", "Sys_final_iff_quiescent", "C01_complete_closed", "C01_complete_closed_from"],
    imports=["Check.SysC", "Check.C01c", "Check.C01a"],
    case_type="c01case",
    find_bad_from="find_bad_from_a",
    go_tags="sy",
    rigs=[dict(test="TestC01", timeout_quick=300, timeout_thorough=1500)],
    reason_text={"2": "pairing: a caller's result is not Ok(f(its own request)) (another call's reply, an error, an altered reply)",
                 "3": "a call has no result at the end of a fault-free complete schedule, or two results, or a result belongs to no call",
                 "4": "the handler did not run exactly once for each call (missing, twice, or for no call)",
                 "5": "the request the handler saw (on entry, or re-read just before it returned) differs from the caller's message",
                 "6": "the caller's result is not the reply its handler produced",
                 "7": "wire: request ids not pairwise distinct, a request envelope whose body is not a caller's message, or not exactly one "
                      "response per request id carrying f(body of that request) without error status or reset"},
    rule="real goat.ClientConn - in-memory FIFO wires - real goat.Server inside synctest bubbles; two registered services x three unary "
         "methods, each with its own handler (reply = method-specific fixed mixing function of the request bytes: a swapped pairing or a "
         "dispatch to another method's handler is visible); every caller reuses ONE request object and ONE pre-populated reply object "
         "for all its calls (an empty reply must overwrite it); payload sizes {0,1,17,1023,1024,4096,65536} of seeded random bytes. (A) lock-step, EVERY interleaving of the 2k wire "
         "deliveries and k handler releases for k <= 3 callers (thorough 4) on serialising and by-reference wires, k <= 2 (thorough 3) "
         "through the real Proxy and the real Demux; (B) seeded random lock-step schedules, 1..8 callers x 1..3 calls, three topologies; "
         "(C) free-running (no gating, seeded yields at the verif hooks): 64 callers x 100 (thorough 200) calls at GOMAXPROCS 1/4/16, 8 x 100 through "
         "Proxy and Demux, and 12 (thorough 60) runs of 25 rounds in which 64 goroutines leave the fail-fast check of CallUnaryMethod at "
         "the same instant (spin barrier at the mux.checked hook); (D) PLAIN calls - no outgoing metadata, no deadline, handler linked to "
         "its call by the payload - several in sequence per caller on ONE method, over by-reference and serialising wires, direct / real "
         "Proxy / real Demux: exhaustive (1 caller x 3 resp. 2 calls; thorough 2 callers x 2), half of the threads of (B), free-running 8 x 50 "
         "through by-reference Proxy and Demux and 32 x 50 direct; (E) callers whose context is ALREADY cancelled / expired (on a transport "
         "whose Write tests its context first) next to calls in flight: exhaustive {2 live + 1 dead, 1 live + 2 dead, Demux 2 + 1, Proxy plain "
         "2 calls + 1 dead}, 0..2 dead threads in half of (B), free-running 32 live + 6 dead and 16 plain + 4 dead through the Demux: the dead "
         "ones must fail, every other call must get the reply to its own request; (F) a ZERO-SLACK topology - goat's own channel transport over "
         "unbuffered channels (a Write returns when the peer has read), by reference, tapped at the client - in the free-running stress: 24 and 64 "
         "callers x 50 calls (plain calls at 64), under a wedge detection (every goroutine blocked for good, some on a mutex: the calls without "
         "result are failing inputs); (G) batches of 8 / 9 / 3 / 2 concurrent calls (every request of a batch reaches the server before a handler "
         "returns: 8 workers busy at once) separated by GAPS of virtual time (6 s, 1 min, 1 h: schedule action STick, the scheduler sleeps in "
         "the bubble so that timers fire), 2..4 batches, direct / Proxy / Demux, and random ticks in a third of (B); (H) ONE Server, two connections: k in {1, 8, 9} calls of an "
         "earlier connection A are in flight at their gated handlers when A's transport fails (both directions), the handlers return afterwards, "
         "then ordinary calls on connection B of the same Server (direct / Proxy / Demux): each must get the reply to its own request; (I) every "
         "third unary call of every family spells its method WITHOUT the leading slash (the server accepts both spellings); (J) in (G) the clock "
         "also advances INSIDE a batch of 9 / 10 / 12 calls (100 ms, 300 ms, 6 s) when every request has reached the server and no handler has "
         "returned (a request is waiting for a worker); (K) the write fault ACKNOWLEDGEMENT LOST: the Write of a call's request hands the envelope "
         "to the wire and then returns an error (context and read loop alive): exhaustive next to 0..2 ordinary calls, direct / Proxy / Demux, and "
         "in an eighth of (B); such a call may fail, its handler must not run twice (its handler entries are recorded as HStS n; its envelopes are "
         "not judged by the wire predicates); (L) a server STREAM opened first on the same connection and kept open while unary calls run, its "
         "messages delivered to the client before the unary replies (direct / Proxy / Demux); every history judged by spec_c01",
    assumptions=["payload bytes are identified by a 59-bit hash taken at the moment of each observation (a collision could hide, never "
                 "create, a difference)",
                 "handler invocation and call are linked by a request-metadata tag (sy-c), i.e. through the same envelope; plain calls "
                 "by the first nine bytes of the payload",
                 "a caller with an already-ended context records nothing unless its call succeeds or its handler runs",
                 "agrees through Model/Sys.v covers the lock-step cases of up to 24 calls whose actions are user step / handler step / "
                 "deliveries (callers with dead contexts and the free-running cases are judged by the spec predicates only)",
                 "protobuf marshal/unmarshal of payloads is the library (A-codec)"],
)

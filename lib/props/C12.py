"""Configuration of ./check C12 (see lib/registry.py for the fields)."""
CFG = dict(
    claim="Theorems C12_no_crash, C12_stays_serving (no envelope sequence / handler behaviour ends the connection), C12_never_stalls (Q), C12_dispatch_sound, C12_dispatch_unary, C12_dispatch_complete (Q), C12_dispatch_stream, C12_reset, C12_reset_accounting, C12_reset_written (Q), C12_probe (Q) in coq/Props/C12.v, over all label sequences of the "
          "small-step model coq/Model/Server.v of one server connection (arbitrary peer, arbitrary handler behaviour, any "
          "interleaving); the model is run lock-step against the real goat.Server.Serve on every run.",
    props="Props/C12.v",
    theorems=["C12_no_crash", "C12_stays_serving", "C12_never_stalls", "C12_dispatch_sound", "C12_dispatch_unary", "C12_dispatch_complete", "C12_dispatch_stream", "C12_reset", "C12_reset_accounting", "C12_reset_written", "C12_probe", "C12_peer_cannot_stall"],
    imports=["Model.Method", "Model.Client", "Model.Server", "Check.ServerC", "Check.C12c"],
    case_type="c12case",
    find_bad_from="find_bad_from",
    go_tags="sv,st",
    rigs=[dict(test="TestC12", timeout_quick=300, timeout_thorough=1500),
          # builder st: parseRawMethod re-translated from server.go on every run, proved equal to Model/Method.v (harness/st_gen_test.go)
          dict(test="TestGenEquivC12", timeout_quick=120, timeout_thorough=300)],
    reason_text={"7": "the server process died in this scenario (panic)", "8": "the connection never became quiescent again in this scenario: a goroutine waits for ever for a lock (wedge)", "9": "isolation: a stream handler received a message that was not delivered for its id after its own opening envelope (or twice, or out of order)","1": "the real server's observation differs from every outcome of the Gallina model (Model/Server.v, all orders of internal rules), or parseRawMethod / the method table differs from Model/Method.v",
                 "2": "dispatch: a handler was invoked for an envelope that must not start one, not invoked for one that must, invoked twice, or with another payload / metadata / method / id",
                 "3": "reset: a body (or undecodable open) for an unknown stream id was not answered by exactly one RST_STREAM for that id with source and destination swapped, or a reset was written where none is due",
                 "4": "probe / unary reply: a valid unary request was not answered with the handler's reply under the same id",
                 "5": "the server wrote an envelope of its own that the protocol does not call for",
                 "6": "the read loop was blocked or the connection ended in a conversation without faults whose handlers consume their input"},
    rule="lock-step in synctest bubbles (real goat.Server.Serve on a scripted transport, handler bodies gated by the schedule; one action, "
         "synctest.Wait, snapshot): ALL envelope sequences of length <= 2 plus a seeded quarter of those of length 3 (quick: ~11 thousand; the full 40.5 thousand of length <= 3 take ~30 s on an idle machine but several minutes on the loaded one) / ALL of length <= 3 plus a seeded sample of 8000 of the 1.3*10^6 sequences of length 4 (thorough) over an alphabet of 34 envelope shapes (incl. the envelope's SOURCE: empty, the server's own name, long non-ASCII, on the reset paths, an opener and a unary request) (each field "
         "present / absent / undecodable, 2 stream ids, unary and stream methods, wrong destination, 4 kinds of bad method string, unknown "
         "service / method, body / trailer / reset / other-type reset for unknown and open ids, duplicate opens, undecodable bodies), each "
         "followed by a valid unary probe whose reply must arrive; seeded random sequences of length 4..40; field-level mutations of valid "
         "conversations; handlers that abandon 0..4 unconsumed messages; streams from several sources on one connection (one id space per connection: equal ids from different sources, and source names / ids whose concatenations coincide); a transport that blocks (peer slow to read) with the writer parked, envelopes that call for a reset, virtual time advanced by 10 ms .. 1 h, then unblocked: every reset due must be written (reason 3); handlers that return with 0..2 leftovers (message, half-close, zero-length message, late message) followed by a new stream on the same / another id whose handler must see only its own messages; random walks with arbitrary handler behaviour followed by the "
         "probe; parseRawMethod against Model/Method.v on 230 strings. The rig runs as 12 parallel child processes; a process death or a wedge (real-time watchdog) is re-run alone and, if it persists, recorded as a failing case (reasons 7 / 8).",
    assumptions=["payloads, metadata, names are opaque to the server connection (tokens)",
                 "the transport returns queued envelopes in order, then its error; honours its context in Read and in a blocked Write",
                 "quiescence = testing/synctest's durable blocking; goroutine roles are read from runtime.Stack frames"],
)

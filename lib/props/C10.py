"""Configuration of ./check C10 (see lib/registry.py for the fields)."""
CFG = dict(
    claim="Theorems C10_returns (Q: after Stop or a failed write, once the handlers honour their context, Serve has returned), "
          "C10_write_failure_cancels, C10_returns_readfail (Q), C10_streams_done (at Serve's return every stream handler goroutine "
          "has finished), C10_ctx (the context of every handler, unary or streaming, is done by then) and C10_no_leak (Q: once the "
          "handlers have returned the writer, all workers and all handler goroutines are dead), C10_measure / C10_terminates ((T): a weight every internal rule strictly decreases: no live-lock, quiescence is reached), and composed: C10_trigger_returns (after Stop or a failed write at any point, wherever any continuation comes to a FINAL state - no internal rule enabled, no handler with a done context still in its body - Serve has returned, every handler context is done, no goroutine and no registration is left), C10_closed_terminates / C10_closed_reaches_final (the system closed under handlers that return from their body terminates in at most `measure` steps, in a final state), C10_trigger_returns_readfail_partial (the same for a read failure under three named hypotheses that keep the read loop from being parked, each shown necessary: C10_readfail_refuted_workers / _queue / _wblock) in coq/Props/C10.v, over all label "
          "sequences of the small-step model coq/Model/Server.v (any traffic, any handler behaviour, trigger at any point, any "
          "interleaving); the model is run lock-step against the real goat.Server.Serve on every run.",
    props="Props/C10.v",
    theorems=["C10_returns", "C10_write_failure_cancels", "C10_returns_readfail", "C10_streams_done", "C10_ctx", "C10_no_leak", "C10_measure", "C10_terminates", "C10_closed_terminates", "C10_closed_reaches_final", "C10_trigger_returns", "C10_trigger_returns_readfail_partial"],
    imports=["Model.Client", "Model.Server", "Check.ServerC", "Check.C10c"],
    case_type="c10case",
    find_bad_from="find_bad_from",
    go_tags="sv",
    rigs=[dict(test="TestC10", timeout_quick=400, timeout_thorough=1800)],
    reason_text={"7": "the server process died in this scenario (panic)", "8": "the connection never became quiescent again in this scenario: a goroutine waits for ever for a lock (wedge)", "1": "the real server's observation differs from every outcome of the Gallina model (Model/Server.v, all orders of internal rules)",
                 "2": "Serve has not returned although the trigger (read failure / write failure / Stop) happened and every handler has returned - or, after Stop, although no handler whose context is done is still running",
                 "3": "a stream handler goroutine was still alive when Serve returned",
                 "4": "Serve has returned but the context of a handler that is still running is not done",
                 "5": "leak: Serve and every handler have returned but the writer, a worker or a handler goroutine is still alive",
                 "6": "incomplete scenario (the rig could not bring every handler to return)"},
    rule="lock-step in synctest bubbles on the real goat.Server.Serve (scripted transport, handler bodies gated by the schedule): base "
         "conversations with 0..2 (thorough 0..3) unary x 0..2 (0..3) stream handlers in flight x handlers parked in {RecvMsg, SendMsg "
         "against a blocked transport, <-ctx.Done(), their body, after response envelopes} x trigger in {transport read failure (also queued directly behind an envelope; error values: plain, a genuine protobuf decode error, goat's non-binary-websocket-message error obtained from the real transport, net timeout, unexpected EOF, EOF, each bare and wrapped, persistent and once-then-silence), "
         "transport write failure (plain error, and errors wrapping context.DeadlineExceeded / context.Canceled / io.EOF), Server.Stop} inserted at EVERY position of the base conversation; handlers return when their context "
         "is done; at the end every handler returns. Also 8 / 9 unary handlers (all workers busy, the 9th request parks the read loop; "
         "thorough: 8+8, 9+8) and seeded random walks with transport faults followed by the trigger. The rig runs as 8 parallel child processes; a process death or a wedge is re-run alone and, if it persists, recorded as a failing case (reasons 7 / 8). Observed after every action: "
         "handler events, envelopes written, registry size, unread envelopes, parked handlers, handler contexts, Serve returned, "
         "writer / worker / runStream goroutines (runtime.Stack).",
    assumptions=["payloads, metadata, names are opaque to the server connection (tokens)",
                 "the transport returns queued envelopes in order, then its error; honours its context in Read and in a blocked Write",
                 "quiescence = testing/synctest's durable blocking; goroutine roles are read from runtime.Stack frames"],
)

"""Configuration of ./check C16 (see lib/registry.py for the fields)."""
CFG = dict(
    claim="Theorems in coq/Props/C16.v over all label sequences of the small-step model coq/Model/Proxy.v (any number of peers, envelopes, "
          "faults; any interleaving; any interceptor that is a function (source, destination) -> destination | reject - an interceptor that "
          "rewrites other header fields is outside the model): C16_accounting (what a connection is handed is, in order and once each, a "
          "prefix of what was enqueued for it), C16_route (every accepted envelope passed the source check, went to the record named by the "
          "rewritten destination / last return-route hop, unchanged but for the routing fields, own name appended to the route record exactly "
          "once, return route popped), C16_drop_only_when_full, C16_no_loss and C16_no_loss_outstanding (at most B <= buffer envelopes ever "
          "outstanding for a destination => nothing dropped, everything accepted handed on in order, once), C16_source_order, C16_pair_order, C16_delivered_Q (in every quiescent state an idle live write loop has nothing buffered or in "
          "flight: everything enqueued - below the buffer everything accepted - has been handed to the connection), C16_measure / C16_terminates / C16_run_to_quiescence (every internal rule decreases a measure; "
          "internal continuations are bounded; a maximal one exists) and C16_delivered (the same over EVERY maximal internal continuation from "
          "every reachable state: no quiescence hypothesis), "
          "C16_wire (nothing dropped for destination i => for every source j the envelopes of j among what i is handed are exactly, in order and "
          "once each, the envelopes accepted from j for i with the route applied: a reliable ordered wire that only rewrites routing fields), "
          "C16_dial_once, C16_redial, C16_return_route (the reply a server builds from the request's route record - reply_of, tied to the real Server by the rig - is routed back to the hop "
          "the request came from / the origin). The unconditional clause (a relayed stream is never reported complete with messages missing) "
          "is refuted: C16_complete_means_complete_refuted, finding proxy-overflow>buf (D-16). The end-to-end clause (RPCs through the proxy "
          "complete as on a direct connection) follows informally from C16_wire + the client/server properties and is checked on the real "
          "code (clients - Proxy - Demux - Servers against direct connections); the proxy's half is proved: C16_is_wire (sent = delivered ++ in flight per pair of records), C16_wire_step (forward simulation onto "
          "the FIFO wire Model/Sys.v uses), C16_wire_transfer (every wire invariant holds of the proxy's projection); the composition with the "
          "client and server models into Sys.v's theorems is not built (C16_prefix_through_proxy_partial). The model is run "
          "lock-step against the real goat.Proxy on every run; the reduction used by that comparison is itself re-checked against the full "
          "exploration (Check/C16red.v at build time, case kind CProxyRed on lock-step scenarios).",
    props="Props/C16.v",
    theorems=["C16_accounting", "C16_route", "C16_drop_only_when_full", "C16_no_loss", "C16_source_order", "C16_pair_order",
              "C16_dial_once", "C16_redial", "C16_no_loss_outstanding", "C16_delivered_Q", "C16_measure", "C16_terminates",
              "C16_run_to_quiescence", "C16_delivered", "C16_is_wire", "C16_wire_step", "C16_wire_transfer",
              "C16_prefix_through_proxy_partial", "C16_wire", "C16_return_route",
              "C16_complete_means_complete_refuted"],
    imports=["Model.Proxy", "Check.C16c", "Check.C16red"],
    case_type="pxcase",
    find_bad_from="find_bad_from",
    go_tags="px",
    rigs=[dict(test="TestC16", timeout_quick=300, timeout_thorough=1500)],
    reason_text={"1": "the real Proxy's observation differs from every outcome of the Gallina model (Model/Proxy.v, all orders of internal rules)",
                 "2": "delivery: an envelope handed to a peer is not the route transformation (destination rewritten, own name appended once, return route popped, nothing else changed) of exactly one accepted envelope, or went to a peer not named by the routed destination, or twice (counting hand-overs that reached the peer although their Write returned an error), or out of per source-destination order, or envelopes are lost that the proxy.drop counter does not account for",
                 "3": "loss: an accepted envelope for a healthy destination was never handed on (the proxy.drop counter accounts for it: buffer overflow)",
                 "4": "the per-destination buffer measured on the running code is smaller than the 12 outstanding envelopes the property presupposes",
                 "5": "dial: newConnection was called for a name that had a live record (or twice), or an accepted envelope for a name without record did not make the proxy dial",
                 "6": "end-to-end: an RPC through the real Proxy ended differently from the same RPC on a direct connection",
                 "7": "attach race: after AddClient(X) had returned (racing with the routing of the first envelope addressed to X) an envelope accepted for X was not handed to X's attached connection, or X was dialled again",
                 "10": "tie of the transcription: the return route / source / destination of a reply of the real Server differs from reply_of (Model/Proxy.v), on which C16_return_route rests",
                 "8": "(model against model; no change of /repo can produce it: it guards the check itself) re-check of the exploration reduction: the reduced exploration of the model (Check/C16c.v) and the full one reach different sets of quiescent states at some step",
                 "9": "re-check of the exploration reduction: the full exploration ran out of fuel (not compared)"},
    rule="lock-step in synctest bubbles on the real goat.Proxy with scripted peer transports (one group of actions, synctest.Wait, snapshot: "
         "envelopes handed to every connection with whole-envelope comparison modulo routing fields, newConnection calls, disconnect "
         "callbacks, table of names, goroutines by role from runtime.Stack, proxy.drop counter, panics), compared with every outcome of the "
         "model over all orders of its internal rules: ALL words of <= 3 (thorough 4) envelopes from 2 attached peers to attached / dialable / "
         "unknown / slow-to-dial names, ALL words of <= 2 from 3 peers under the prefix-strip rewrite, ALL interleavings of <= 6 envelopes from "
         "<= 3 peers (5 plans; sequential and with concurrent senders), bursts of 12/16/17/18/40 to a destination whose writer is blocked / "
         "whose dial is slow / free, from 1 or 2 sources, dial on demand followed by the failure of the dialled connection (read, write, blocked write, dial error) and more traffic for the name (must dial again), 6 interceptors (identity, constant, prefix strip, reject destination, reject "
         "source, none) x return routes (nil, empty, 1 hop, 2 hops, to dialable, to unknown) x route records, seeded random walks with and "
         "without faults; the buffer size is measured on the running code; end-to-end: 1..8 real clients - real Proxy - real Demux keyed by "
         "source - 1..4 real Servers (pre-attached / dialled on demand, 3 rewrites), unary + bidi + client-stream + server-stream RPCs with <= 12 "
         "envelopes outstanding per destination, compared with the direct-connection outcomes; free-running stress (3..10 peers, one goroutine "
         "per sender, paced and bursting) judged by the delivery predicates; a sample of lock-step scenarios (thorough: ~500) on which the "
         "reduced and the full exploration of the model are compared outcome set by outcome set; writer faults: a Write that hands the envelope to the peer and THEN returns an error (directly, after having been blocked, in a "
         "burst), with every failed conn.Write call observed and compared with the model and, after the observation of every step, 150 ms of virtual time in which nothing may happen (recorded as a step of its own if it does) (at most "
         "once counts the hand-overs whose Write failed); every envelope shape: all 288 combinations of body (token / none / empty / 64 KiB), status (none / code / code+message+details), trailer "
         "(none / empty / metadata), reset (none / RST_STREAM / empty type / other type), request headers, on attached, return-route and "
         "dial-on-demand paths, compared whole (proto.Equal) modulo destination, route record and return route; the server's reply rule: the real Server answering requests whose route record has 0..4 hops (unary reply, error reply for undecodable "
         "metadata, RST_STREAM for an unknown-stream body and for a stream start with undecodable metadata; serialising and by-reference "
         "transport) compared with reply_of of Model/Proxy.v; unary calls of a raw peer with 1..3 crafted hops in the route record through "
         "the real Proxy to the real Server and back; end-to-end resets: a stream "
         "cancelled by the caller cancels the handler, a body for an unknown stream and undecodable metadata are answered by RST_STREAM, through "
         "the proxy as on a direct connection; overflow race (PROBABILISTIC): 60 rounds (thorough 1500) x GOMAXPROCS 1/4/16 of one source bursting 24..53 envelopes at a merely slow "
         "consumer, free-running, judged by the delivery predicates; attach race: AddClient(X) at the moment the first envelope for X is being routed - placed deterministically from a zerolog hook "
         "inside the forwarding loop (40 rounds x GOMAXPROCS 1/4/16; thorough 400) and, as a PROBABILISTIC search, by free-running goroutines "
         "released by one barrier with seeded Gosched noise under GOMAXPROCS 1/4/16 for a fixed time (quick 3 s each: some 3000-6000 rounds "
         "each; thorough 60 s each) - judged by the predicate alone; each rig runs as 8 shard processes; a scenario in which the proxy holds a "
         "mutex across a blocking call is reported as wedged by a real-time watcher (exit 3) and the run resumes",
    assumptions=["payloads are opaque to the proxy (tokens; the rig compares whole envelopes modulo routing fields)",
                 "peer transports return queued envelopes in order; quiescence = testing/synctest's durable blocking; goroutine roles are read from runtime.Stack frames"],
)

"""Configuration of ./check C16 (see lib/registry.py for the fields)."""
CFG = dict(
    claim="Theorems C16_accounting, C16_route, C16_drop_only_when_full, C16_no_loss, C16_source_order, C16_dial_once in "
          "coq/Props/C16.v over all label sequences of the small-step model coq/Model/Proxy.v (any number of peers, envelopes, "
          "faults; any interleaving; any interceptor function); the model is run lock-step against the real goat.Proxy on every run.",
    props="Props/C16.v",
    theorems=["C16_accounting", "C16_route", "C16_drop_only_when_full", "C16_no_loss", "C16_source_order", "C16_dial_once"],
    imports=["Model.Proxy", "Check.C16c"],
    case_type="pxcase",
    find_bad_from="find_bad_from",
    go_tags="px",
    rigs=[dict(test="TestC16", timeout_quick=300, timeout_thorough=1500)],
    reason_text={"1": "the real Proxy's observation differs from every outcome of the Gallina model (Model/Proxy.v, all orders of internal rules)",
                 "2": "delivery: an envelope handed to a peer is not the route transformation (destination rewritten, own name appended once, return route popped, nothing else changed) of exactly one accepted envelope, or went to a peer not named by the routed destination, or twice, or out of per source-destination order, or envelopes are lost that the proxy.drop counter does not account for",
                 "3": "loss: an accepted envelope for a healthy destination was never handed on (the proxy.drop counter accounts for it: buffer overflow)",
                 "4": "the per-destination buffer measured on the running code is smaller than the 12 outstanding envelopes the property presupposes",
                 "5": "dial: newConnection was called for a name that had a live record (or twice), or an accepted envelope for a name without record did not make the proxy dial",
                 "6": "end-to-end: an RPC through the real Proxy ended differently from the same RPC on a direct connection"},
    rule="lock-step in synctest bubbles on the real goat.Proxy with scripted peer transports",
    assumptions=["payloads are opaque to the proxy (tokens; the rig compares whole envelopes modulo routing fields)",
                 "peer transports return queued envelopes in order; quiescence = testing/synctest's durable blocking; goroutine roles are read from runtime.Stack frames"],
)

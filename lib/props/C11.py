"""Configuration of ./check C11 (see lib/registry.py for the fields)."""
CFG = dict(
    claim="Theorems of coq/Props/C11.v, liveness as safety over ALL runs: client (Model/Client.v): C11_client_hold_live (Q: the multiplexer read "
          "loop is held only by a registered open stream with a LIVE context whose loop offers a message its user has not asked for - never by a "
          "cancelled, returned or torn-down call), C11_probe (Q: a unary call has returned, or waits with a live context, an empty queue and "
          "its registration intact: after its deadline it has returned whatever other calls do), C11_client_all_routed, "
          "C11_teardown_never_stuck + C11_no_defer_at_rest (the one lock-held-while-waiting state cannot deadlock); server (Model/Server.v): "
          "C11_server_held (Q: the forwarding read loop is held only by a registered stream whose handler context is live and whose queue is "
          "full), C11_server_returned (Q: a returned handler waits for the registry lock only behind ANOTHER live stream or a reset hand-off). "
          "End to end on Model/Sys.v: C11_sys_probe (Q: in every quiescent system state a unary call has returned or waits with a live context for a "
          "reply that exists nowhere). Both models are tied lock-step to the real code; the rig adds the mutex-deadlock watchdog.",
    props="Props/C11.v",
    theorems=["C11_client_hold_live", "C11_probe", "C11_client_all_routed", "C11_teardown_never_stuck", "C11_no_defer_at_rest",
              "C11_server_held", "C11_server_returned", "C11_sys_probe", "C11_server_reply_written", "C11_server_probe_completes", "C11_sys_probe_closed"],
    imports=["Model.Client", "Check.ClientC", "Model.Protocol", "Check.CwC", "Check.C11c"],
    case_type="cwcase", find_bad_from="find_bad_from", go_tags="cw",
    rigs=[dict(test="TestC11", timeout_quick=600, timeout_thorough=2400)],
    reason_text={"1": "the real client's observation differs from every outcome of the Gallina model (Model/Client.v, all orders of internal rules)",
                 "2": "at the final quiescent point, with both wires drained, a call is still blocked, or a unary call (the probe, an RPC in flight) did not get its answer / its context's error",
                 "3": "the run wedged: a goroutine waits for a mutex for ever (watchdog: quiescent-with-lock-waiters)",
                 "4": "a registry lock is held at the final quiescent point (a read loop is parked inside its critical section)",
                 "5": "Serve has returned although no transport fault was injected: the connection was given up (every RPC in flight and later is lost)"},
    rule="end-to-end lock-step in synctest bubbles + watchdog for mutex waiters: 3 stream kinds x handlers returning after k of n client messages, "
         "r of them arrived before the return (all 0 <= k <= r <= n, k < n <= 4; thorough n <= 8) x 0..2 other RPCs in flight (gated unary, idle "
         "bidi stream) x probe unary call afterwards with and without deadline; callers abandoning with m = 0..4 (8) responses unread by "
         "cancel / deadline / just not reading (back-pressure by a live caller, released at the end) x others x probe; peers that send more than "
         "expected (replies to a unary call whose caller has gone, duplicate replies, bodies after the trailer, unread bodies then cancel, 1..4 "
         "(8) extra) x probe; 2..5 replies to ONE unary call handed over in a burst (+ one later) then probe unary + stream; a streaming call with a deadline whose handler "
         "stopped consuming and does not return, read loop parked: the hold ends at the handler's deadline, probe and others complete; the HALF-CLOSE delivered before the handler returns with k of n messages read (k = n-1: the half-close itself waits in the "
         "forwarding select) x others x probe + a new stream; per-envelope write faults on the teardown paths: exactly the RST_STREAM Write of the abandoned stream is refused (or "
         "blocks and fails at its own 30 s deadline), reads and later Writes work: cancel / deadline / abort on undecodable metadata x 0..3 unread x "
         "2..5 further envelopes for the dead stream (bodies, trailer) x probe, against a scripted peer and end to end (handler never learns, keeps "
         "sending) x others; the trailer in the server writer's hands with the transport Write held up (server-side back-pressure) x cancel / deadline "
         "reaching the server x release x probe; the same with a MESSAGE (not the trailer) of the stream in the writer's hands (0..1 further SendMsg "
         "parked behind it; the Endpoint's blocked Write returns the error of the context it was given) x others x probe, Serve still serving; the reply of a unary call BEHIND 3..6 (10) unread responses of a stream whose caller cancels while the "
         "client's Writes are blocked for good: after the virtual clock has passed the reset Write's 30 s bound (30.001 s / 31 s / 1 h) the call completes; "
         "caller contexts of every kind (see C07); judged: client half against Model/Client.v, at the final quiescent point every call has returned, every unary "
         "call got its answer (or its context's error), no registry lock is held; a wedge (probe pending / watchdog) is a failing input",
    assumptions=["payloads are opaque tokens; wires FIFO and lossless",
                 "quiescence = testing/synctest durable blocking; a goroutine blocked on sync.Mutex is detected by the real-time watchdog (600 ms without progress)"])

"""Configuration of ./check C11 (see lib/registry.py for the fields)."""
DEBUG = dict(
    claim="debug", props="Props/C08.v", theorems=[],
    imports=["Model.Client", "Check.ClientC", "Model.Protocol", "Check.CwC", "Check.C11c"],
    case_type="cwcase", find_bad_from="find_bad_from", go_tags="cw",
    rigs=[dict(test="TestC11", timeout_quick=600, timeout_thorough=2400)],
    reason_text={"1": "the real client's observation differs from every outcome of the Gallina model (Model/Client.v, all orders of internal rules)",
                 "2": "at the final quiescent point, with both wires drained, a call is still blocked, or a unary call (the probe, an RPC in flight) did not get its answer / its context's error",
                 "3": "the run wedged: a goroutine waits for a mutex for ever (watchdog: quiescent-with-lock-waiters)",
                 "4": "a registry lock is held at the final quiescent point (a read loop is parked inside its critical section)"},
    rule="debug")

"""Configuration of ./check C02 (see lib/registry.py for the fields)."""
DEBUG = dict(
    claim="debug: end-to-end rig and spec predicates of C02; theorems pending (Model/Sys.v)",
    props="Props/C08.v",
    theorems=[],
    imports=["Check.SysC", "Check.C02c"],
    case_type="c02case",
    find_bad_from="find_bad_from",
    go_tags="sy",
    rigs=[dict(test="TestC02", timeout_quick=300, timeout_thorough=1500)],
    reason_text={"2": "the handler received a message that is not the next one its caller sent (lost, duplicated, reordered, altered or fabricated)",
                 "3": "the caller received a message that is not the next one its handler sent (lost, duplicated, reordered, altered or fabricated)",
                 "4": "the handler saw io.EOF before the caller half-closed, or while messages the caller had sent were still unreceived",
                 "5": "the caller saw io.EOF although its handler had not returned nil, or before having received all the handler's messages",
                 "6": "a receive failed with something else than io.EOF on a fault-free, uncancelled stream whose handler did not fail (e.g. Canceled instead of EOF)",
                 "7": "at the end of a complete schedule an operation had never returned",
                 "8": "an open, send or half-close failed on a stream whose handler had not returned"},
    rule="real goat.ClientConn - in-memory FIFO wires - real goat.Server (direct, through the real Proxy, through the real Demux; serialising "
         "and by-reference wires) inside synctest bubbles",
    assumptions=[],
)

"""Configuration of ./check C02 (see lib/registry.py for the fields)."""
CFG = dict(
    claim="PARTIAL. Model: coq/Model/Sys.v (client model x server model x two FIFO wires), arbitrary caller and handler programs, any "
          "number of streams, any interleaving. Proved in coq/Props/C02.v: the transport-level half, per stream id and position by "
          "position: C02_wire_c2s_prefix_partial / C02_wire_s2c_prefix_partial (what a side has read for a stream is a prefix of what the "
          "other side wrote for it: no loss, duplication, reordering, alteration, fabrication) and C02_wire_complete_partial (equal once "
          "wires and read queues are empty); and two API-level clauses end to end: C02_handler_eof_sound_partial (the handler observes "
          "io.EOF only if its caller half-closed that stream) and C02_handler_recv_was_sent_partial (every message a handler received is "
          "the body of an envelope its caller wrote on that stream) and C02_caller_eof_sound_partial (the caller observes io.EOF only if "
          "the handler of that stream returned nil: the envelope it took is the trailer SendTrailer built from that return). and "
          "C02_handler_order_partial (the RecvMsg results of a stream handler, in order, classify a subsequence of the envelopes its "
          "caller wrote on that stream in the order of writing: no reordering, duplication, fabrication, alteration towards the "
          "handler) and C02_caller_order_partial (the messages RecvMsg returned on a call, in order, are a subsequence of the bodies of "
          "the envelopes the server wrote with the call's id, in the order of writing). NOT proved: no loss in fault-free runs (prefix "
          "instead of subsequence), EOF only after everything was received (both sides), caller EOF complete (never Canceled on success): they need per-id FIFO facts of the two component models that do not exist yet. The tie: the boolean predicates spec_c02 of coq/Check/C02c.v (position-wise delivery in both directions, "
          "handler EOF only after half-close with nothing outstanding, caller EOF only after the handler returned nil with nothing "
          "outstanding, no non-EOF failure of a successful stream - the Canceled-instead-of-EOF outcome -, nothing hangs) are evaluated "
          "on every history recorded from the REAL client connection + server.",
    props="Props/C02.v",
    theorems=["C02_wire_c2s_prefix_partial", "C02_wire_s2c_prefix_partial", "C02_wire_complete_partial",
              "C02_handler_eof_sound_partial", "C02_handler_recv_was_sent_partial", "C02_caller_eof_sound_partial", "C02_handler_order_partial", "C02_caller_order_partial"],
    imports=["Check.SysC", "Check.C02c"],
    case_type="c02case",
    find_bad_from="find_bad_from",
    go_tags="sy",
    rigs=[dict(test="TestC02", timeout_quick=300, timeout_thorough=1500)],
    reason_text={"2": "the handler received a message that is not the next one its caller sent (lost, duplicated, reordered, altered or fabricated)",
                 "3": "the caller received a message that is not the next one its handler sent (lost, duplicated, reordered, altered or fabricated)",
                 "4": "the handler saw io.EOF before the caller half-closed, or while messages the caller had sent were still unreceived",
                 "5": "the caller saw io.EOF although its handler had not returned nil, or before having received all the handler's messages",
                 "6": "a receive failed with something else than io.EOF on a fault-free, uncancelled stream whose handler did not fail (e.g. Canceled instead of EOF)",
                 "7": "at the end of a complete schedule an operation had never returned",
                 "8": "an open, send or half-close failed on a stream whose handler had not returned",
                 "9": "two stream-opening envelopes on the client's transport carry the same id"},
    rule="real goat.ClientConn - in-memory FIFO wires - real goat.Server inside synctest bubbles; caller and handler programs are data. "
         "(A) directed: the terminal Recv (or the last Send) parked at the cs.recv.checked / cs.send.checked yield point after its "
         "done-check, everything else run to completion (trailer delivered, stream torn down), then released: 3 kinds x {0,1,2} messages "
         "x {echo, burst, reply-after-EOF}; (A2) fault after successful completion: handler returned nil, n in 0..3 messages + OK trailer "
         "delivered to the client's transport, the slow caller has consumed p <= n of them, then the connection fails: the caller must "
         "still get the rest and io.EOF; (A3) a SendMsg parked in a blocked transport Write while the handler returns nil and the OK "
         "trailer is processed: the receiver must see io.EOF; two services x two stream methods of each kind, each with its own handler "
         "(a wrong-handler dispatch fails the stream); (B) seeded random lock-step schedules over {user step, handler step, deliver c2s, deliver "
         "s2c, release}: 1..4 (thorough up to 32) concurrent streams x 3 kinds x counts {0,1,2,5,20} (thorough 50, 200) x caller programs "
         "{send-all-then-receive, ping-pong, concurrent sender + receiver threads, early half-close, receive-only} x handler programs "
         "{echo, burst n, reply-after-EOF, return-before-EOF, recv 1 + burst n; 1 in 8 returning an error status} x a yield placement, "
         "direct / Proxy / Demux, serialising / by-reference; (C) free-running: sender and receiver goroutines per stream, 2..8 "
         "(thorough 32) streams, GOMAXPROCS 1/4/16, payloads up to 64 KiB; every history judged by spec_c02",
    assumptions=["payload bytes are identified by a 59-bit hash taken at the moment of each observation",
                 "handler and stream are linked by a request-metadata tag (sy-k)",
                 "quiescence after a lock-step action is synctest.Wait, or - when the server's read loop may be holding its registry "
                 "mutex while a stream queue is full, so that a returning handler waits for a sync.Mutex - two identical all-blocked "
                 "goroutine dumps with no event in between",
                 "through the Proxy at most 14 envelopes are in flight per direction (its 16-slot overflow is finding D-16 of C16)"],
)

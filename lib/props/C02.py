"""Configuration of ./check C02 (see lib/registry.py for the fields)."""
CFG = dict(
    claim="FULL (fault-free clauses) + the clauses that survive faults. Model: coq/Model/Sys.v (client model x server model x two FIFO wires), "
          "arbitrary caller and handler programs, any number of streams and unary calls, any interleaving. coq/Props/C02.v. FAULT-FREE runs "
          "(no read failure, no write failure or blocked write, no Stop, no cancellation of Serve's context); the caller->handler clauses ask "
          "that the client wrote no reset under the id of THAT stream (other streams may be cancelled or reset): "
          "C02_prefix_c2h (the RecvMsg results of a stream handler are the classifications of a PREFIX of the envelopes its caller wrote on "
          "the stream after the opening one - SendMsg's bodies, CloseSend's trailer - in order: nothing lost, duplicated, reordered, altered, "
          "fabricated); C02_prefix_h2c (the messages the caller's RecvMsg returned are a PREFIX of the messages in the envelopes the server's "
          "writer accepted under the stream's id = the handler's SendMsg calls that returned nil); C02_handler_eof_after_all (handler io.EOF "
          "=> the caller half-closed and every envelope written before the half-close was received, in order, before it), "
          "C02_handler_eof_complete / C02_handler_eof_delivered (Q-form: a handler waiting in RecvMsg in a quiescent state with empty wires and "
          "inboxes has been given every envelope the caller wrote, io.EOF included if the caller half-closed); C02_caller_eof_after_all (a "
          "caller told io.EOF has been given ALL the messages its handler sent); C02_caller_eof_complete (Q-form; caller's context not ended, "
          "no SendMsg of the stream failed, the handler returned nil and the writer accepted its trailer: in every quiescent state with empty "
          "wires and inboxes either a message waits for a RecvMsg the caller has not issued, or the terminal state (done, io.EOF) is "
          "published, no RecvMsg is pending, RecvMsg has returned all the handler's messages and never returned another error than io.EOF - "
          "or Unmarshal for an undecodable message: never Canceled); C02_link_send / C02_link_send_arg / C02_link_hsend / C02_link_haccept / "
          "C02_args_c2h (list-level link, ALL runs: the body envelopes written under a stream's id, in wire order, are body_env id b for the "
          "arguments b of the stream's SendMsg calls that returned nil, in call order) and C02_args_prefix_c2h (with it: the messages the "
          "handler's RecvMsg was given are a PREFIX of those ARGUMENTS - no envelope in the statement); C02_args_h2c (the list-level link handler->caller, all runs of the system: the bare "
          "messages the server's writer took under the id of an open stream are exactly the frames of the SendMsg calls of THE handler of that "
          "stream that returned nil, in call order; the handler of an id is unique along the run: sv/cw's pv_uniq under sys_sconf) and "
          "C02_args_prefix_h2c (the messages the caller's RecvMsg returned are a PREFIX of the decodable ARGUMENTS of those calls); C02_link_msg_frame (step lemmas: SendMsg(b) writes body_env id b and returns nil in one step; a handler's SendMsg(b) offers "
          "msg_frame k b and returns nil exactly when the writer takes that frame). ALL runs (arbitrary faults, cancellation, resets): "
          "C02_wire_c2s_prefix / C02_wire_s2c_prefix / C02_wire_complete (per stream id what a side has read is a prefix of what the other "
          "side wrote, equal once wires and inboxes are empty); C02_caller_prefix (the messages RecvMsg returned are a PREFIX of the messages "
          "in the envelopes the server WROTE under the stream's id: cancellation only truncates); C02_handler_order / C02_caller_order "
          "(subsequence: a gap is an envelope dropped because its receiver had gone or was reset); C02_handler_eof_sound, "
          "C02_handler_recv_was_sent, C02_caller_eof_sound (io.EOF at the handler only if the caller half-closed; every message received was "
          "sent; io.EOF at the caller only if the handler returned nil). Hypotheses stated on states, not labels: 'no reset written' is "
          "forall e, In (EvWrite e) log -> eid e = id of the stream -> erst e = false (per stream); 'caller's context not ended' is ctx_done (k_ctx k) = false; "
          "head-of-line blocking is why the Q-forms ask for empty inboxes. The tie: the boolean predicates spec_c02 of coq/Check/C02c.v "
          "(position-wise delivery in both directions, handler EOF only after half-close with nothing outstanding, caller EOF only after the "
          "handler returned nil with nothing outstanding, no non-EOF failure of a successful stream - the Canceled-instead-of-EOF outcome -, "
          "nothing hangs) are evaluated on every history recorded from the REAL client connection + server.",
    props="Props/C02.v",
    theorems=["C02_prefix_c2h", "C02_prefix_h2c", "C02_handler_eof_after_all", "C02_handler_eof_complete", "C02_handler_eof_delivered",
              "C02_caller_eof_after_all", "C02_caller_eof_complete", "C02_caller_msgs_complete", "C02_link_send_reach",
              "C02_args_prefix_c2h", "C02_args_c2h", "C02_args_prefix_h2c", "C02_args_h2c",
              "C02_link_send", "C02_link_send_arg", "C02_link_hsend", "C02_link_haccept", "C02_link_msg_frame",
              "C02_wire_c2s_prefix", "C02_wire_s2c_prefix", "C02_wire_complete", "C02_caller_prefix",
              "C02_handler_eof_sound", "C02_handler_recv_was_sent", "C02_caller_eof_sound", "C02_handler_order", "C02_caller_order"],
    imports=["Check.SysC", "Check.C02c"],
    case_type="c02case",
    find_bad_from="find_bad_from",
    go_tags="sy",
    rigs=[dict(test="TestC02", timeout_quick=300, timeout_thorough=1500)],
    reason_text={"2": "the handler received a message that is not the next one its caller sent (lost, duplicated, reordered, altered or fabricated)",
                 "3": "the caller received a message that is not the next one its handler sent (lost, duplicated, reordered, altered or fabricated)",
                 "4": "the handler saw io.EOF before the caller half-closed, or while messages the caller had sent were still unreceived",
                 "5": "the caller saw io.EOF although its handler had not returned nil, or before having received all the handler's messages",
                 "6": "a receive failed with something else than io.EOF on a fault-free, uncancelled stream whose handler did not fail (e.g. Canceled instead of EOF)",
                 "7": "at the end of a complete schedule (no action enabled any more; free-running: everything that can finish has finished) an operation had never returned",
                 "8": "an open, send or half-close failed on a stream whose handler had not returned",
                 "9": "two stream-opening envelopes on the client's transport carry the same id"},
    rule="real goat.ClientConn - in-memory FIFO wires - real goat.Server inside synctest bubbles; caller and handler programs are data. "
         "(A) directed: the terminal Recv (or the last Send) parked at the cs.recv.checked / cs.send.checked yield point after its "
         "done-check, everything else run to completion (trailer delivered, stream torn down), then released: 3 kinds x {0,1,2} messages "
         "x {echo, burst, reply-after-EOF}; (A2) fault after successful completion: handler returned nil, n in 0..3 messages + OK trailer "
         "delivered to the client's transport, the slow caller has consumed p <= n of them, then the connection fails: the caller must "
         "still get the rest and io.EOF; (A3) a SendMsg parked in a blocked transport Write while the handler returns nil and the OK "
         "trailer is processed: the receiver must see io.EOF; (A4) the stream's own goroutine parked at the cs.loop.read yield point before "
         "its first Read while the handler sends n in 0..3 messages and returns nil and everything reaches the client's transport, then "
         "released: n messages, then io.EOF (the same placement at random in (B)); (A5) CONCURRENT handlers - a receiver goroutine "
         "inside RecvMsg while the handler's main goroutine sends / returns: push-while-receiving (the caller waits for the n pushes before it "
         "sends and half-closes) and return-while-receiving (the handler returns nil while its receiver goroutine is parked in RecvMsg; the "
         "caller must get the n pushes, then io.EOF), n in 0..2, two kinds, the receiver stepped first; 1 in 6 of the streams of (B) and (C) "
         "has such a handler (a RecvMsg of the receiver goroutine that fails after the handler returned is not an error); (A7) the Write of the 1st / 3rd / 5th of five messages delivers it and then reports a timeout (acknowledgement lost): the message may "
         "arrive, once; the failed SendMsg tears the stream down, what fails afterwards on that stream is excused; (A6) full-duplex use over "
         "a link WITHOUT slack (goat's channel transport over unbuffered channels, by reference), free-running under the wedge detection: a "
         "concurrent handler against a caller that sends n in {8, 20, 100} messages before it starts receiving, a caller with sender and receiver "
         "goroutines against an echo handler (n in {20, 100}), both sides concurrent (random programs are NOT run over this link: a caller and a "
         "handler that both send before they receive deadlock there by themselves, which is flow control, not a defect); every RecvMsg - caller's "
         "and handler's - goes into ONE reused, pre-populated message object per stream, zero-byte messages mixed with others; every lock-step "
         "scenario runs under the wedge watcher of harness/wedge.go (no step for a second, a goroutine of the bubble waiting for a lock, nothing "
         "running: the scenario is a failing input, the run resumes after it); two services x two stream methods of each kind, each with its own handler "
         "(a wrong-handler dispatch fails the stream); (B) 260 (thorough 900; 2000 until round 2, cut to keep the thorough tier under 15 minutes now that half of the cases find quiescence "
         "by goroutine dumps) seeded random lock-step schedules over {user step, handler step, deliver c2s, deliver "
         "s2c, release}: 1..4 (thorough up to 32) concurrent streams x 3 kinds x counts {0,1,2,5,20} (thorough 50, 200) x caller programs "
         "{send-all-then-receive, ping-pong, concurrent sender + receiver threads, early half-close, receive-only} x handler programs "
         "{echo, burst n, reply-after-EOF, return-before-EOF, recv 1 + burst n; 1 in 8 returning an error status} x a yield placement, "
         "direct / Proxy / Demux, serialising / by-reference; (C) free-running (6 configurations x 4 seeds; thorough 10 x 8; 8 resp. 12 rounds of 64 simultaneous opens): sender and receiver goroutines per stream, 2..8 "
         "(thorough 32) streams, GOMAXPROCS 1/4/16, payloads up to 64 KiB; every history judged by spec_c02",
    assumptions=["payload bytes are identified by a 59-bit hash taken at the moment of each observation",
                 "handler and stream are linked by a request-metadata tag (sy-k)",
                 "quiescence after a lock-step action is synctest.Wait, or - when the server's read loop may be holding its registry "
                 "mutex while a stream queue is full, so that a returning handler waits for a sync.Mutex - two identical all-blocked "
                 "goroutine dumps with no event in between",
                 "through the Proxy at most 14 envelopes are in flight per direction (its 16-slot overflow is finding D-16 of C16)"],
)

"""Configuration of ./check C03 (see lib/registry.py for the fields)."""
CFG = dict(
    claim="Theorems C03_unary_roundtrip, C03_stream_roundtrip, C03_stream_program (for EVERY handler result - nil, status errors of any "
          "code/message/details, wrapped, other errors - the caller observes success iff nil, else exactly the handler's status with an OK "
          "code replaced by Internal), C03_unary_status_error, C03_stream_status_error, C03_unary_plain_error, C03_expected_nonok, "
          "C03_no_false_success_unary/_stream/_run (iff-characterisation of success for every final envelope / response sequence), "
          "C03_reset_not_success, C03_ok_with_body, C03_unary_foreign, C03_stream_foreign, C03_wire_code_nonok in coq/Props/C03.v; "
          "on interleavings (every run of Model/Client.v, Model/Server.v, Model/Sys.v): C03_client_observes (what RecvMsg can return at "
          "the end of a stream and why), C03_server_trailer (SendTrailer's envelope is a function of the handler's result), "
          "C03_sys_no_false_success_partial (io.EOF only if the handler returned nil; the non-OK identification is composed per "
          "component), C03_client_model_link; C03_stream_plain_error, C03_stream_ok_trailer_with_body; "
          "grpc's conversions are arguments of the model whose laws are premises validated on the real library on every run; the model "
          "is run against processUnaryRpc, serverStream.SendTrailer, Invoke, the client stream and whole RPCs on every run.",
    props="Props/C03.v",
    theorems=["C03_unary_roundtrip", "C03_stream_roundtrip", "C03_stream_program", "C03_expected_nonok",
              "C03_unary_status_error", "C03_stream_status_error", "C03_unary_plain_error",
              "C03_no_false_success_unary", "C03_no_false_success_stream", "C03_no_false_success_run",
              "C03_reset_not_success", "C03_ok_with_body", "C03_unary_foreign", "C03_stream_foreign", "C03_wire_code_nonok",
              "C03_client_observes", "C03_client_model_link", "C03_server_trailer", "C03_sys_no_false_success_partial",
              "C03_stream_plain_error", "C03_stream_ok_trailer_with_body", "C03_wire_carries_status", "C03_sys_status_partial"],
    imports=["Model.Status", "Check.C03c"],
    case_type="c03case",
    find_bad_from="find_bad_from",
    go_tags="st",
    rigs=[dict(test="TestC03Pure", timeout_quick=300, timeout_thorough=900),
          dict(test="TestC03E2E", timeout_quick=300, timeout_thorough=1200),
          dict(test="TestGenEquivC03", timeout_quick=300, timeout_thorough=300)],
    technique="machine-checked proof (Rocq/Coq 8.16.1) of theorems about a hand-written Gallina model + correspondence check on every run; "
              "for errorIfDone (client stream classification) additionally: model regenerated from source by tools/go2coq + equivalence "
              "proof (coq/Gen/ErrorIfDoneEquiv.v) re-checked on every run",
    reason_text={"1": "implementation output differs from the Gallina model (Model/Status.v), or errorIfDone regenerated from the source is "
                      "no longer proved equal to client_stream_final / left the translator's subset",
                 "2": "the caller's observation is not the handler's status (Check/C03c.v: spec_unary_obs / spec_stream_obs: success iff the "
                      "handler returned nil, else code, message, details of the handler's status, never OK)",
                 "3": "a call was reported successful although its final envelope carries a reset or a non-OK status or no body (nfs_unary / nfs_stream)",
                 "4": "grpc's status conversion differs from the instance the model is run with / violates a premise of the theorems"},
    rule="grid: 20 codes (the 17 + 99, 2^31, 2^32-1) x messages {empty, ASCII, Unicode, 4 KiB} x details 0..3 (Any values, one of unknown "
         "type) x kinds {status error, wrapped status error, error with an OK-coded status, plain, context.Canceled/DeadlineExceeded bare "
         "and wrapped, io.EOF}: grpc's conversions; unary pipeline (real processUnaryRpc -> real Invoke; with and without a reply besides "
         "the error); stream pipeline (real serverStream after 0..2 messages -> real client stream); foreign finals: ALL combinations of "
         "10 statuses x 4 bodies x 3 trailers x 3 resets as unary reply and as stream response (alone / after a message, a clean trailer "
         "behind); end to end lock-step in bubbles: four RPC kinds x error kinds x every position of small stream programs; a RecvMsg "
         "already blocked when the handler returns with the read loop parked inside its own cancel() (caller context with a gated Value())",
    assumptions=["status.FromError / FromContextError / FromProto(..).Err() are grpc's: arguments of the model; the concrete instance "
                 "(Check/C03c.v g_from_error, g_from_ctx) is compared with the real library on every grid point",
                 "messages, details, bodies are compared through tokens handed out by the rig's registry (equal values <-> equal tokens)"],
)

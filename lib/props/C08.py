"""Configuration of ./check C08 (see lib/registry.py for the fields)."""
CFG = dict(
    claim="Theorems C08_grammar, C08_no_misread, C08_transfer, C08_deadline, C08_none, C08_key_case_insensitive, C08_pick_sound "
          "(coq/Props/C08.v) hold for every byte string / every remaining time of the Gallina model of parseGrpcTimeout, the deadline "
          "branch of headersFromContext and the header scan of contextFromHeaders; model and code are run on the same inputs on every run.",
    props="Props/C08.v",
    theorems=["C08_grammar", "C08_no_misread", "C08_transfer", "C08_deadline", "C08_none",
              "C08_key_case_insensitive", "C08_pick_sound"],
    imports=["Base.Bytes", "Model.Timeout", "Check.C08c"],
    case_type="c08case",
    find_bad_from="find_bad_from",
    rigs=[dict(test="TestC08", timeout_quick=300, timeout_thorough=900)],
    reason_text={"1": "implementation output differs from the Gallina model (Model/Timeout.v)",
                 "2": "implementation output violates the property predicate (Check/C08c.v: spec_*_ok)"},
    rule="cases = inputs to parseGrpcTimeout (grammar grid 6 units x 1..20 digits x {zero,one,nines,random,"
         "saturation boundary +-2}, int64 boundary, malformed and mutated strings), remaining times for the client "
         "header (ms boundaries 1ms..10^11ms +-1ns, expired, random), header lists for the server-side scan; "
         "non-trivial = every case (each is a distinct input by its description hash)",
    assumptions=["strconv.ParseInt, fmt.Sprintf(%d), context.WithTimeout and the clock are Go's (modelled, validated differentially)",
                 "transit time is an abstract t1 - t0 >= 0"],
)

"""Configuration of ./check C08 (see lib/registry.py for the fields)."""
CFG = dict(
    claim="Theorems C08_grammar, C08_no_misread, C08_transfer, C08_deadline, C08_none, C08_key_case_insensitive, C08_pick_sound "
          "(coq/Props/C08.v) hold for every byte string / every remaining time of the Gallina model of parseGrpcTimeout, the deadline "
          "branch of headersFromContext and the header scan of contextFromHeaders; C08_sys_deadline, C08_sys_none, C08_sys_foreign: the "
          "composition caller context -> header -> handler context, for unary and streaming calls alike, for every caller deadline, "
          "server clock and caller metadata; model and code are run on the same inputs on every run, the composition against whole RPCs "
          "(real client, link, real server) on the virtual clock of synctest bubbles; parseGrpcTimeout and the deadline branch of "
          "headersFromContext are moreover translated from /repo's source on every run (tools/go2coq) and the generated definitions proved "
          "equal to the models for all inputs (coq/Gen/*Equiv.v, re-checked by coqc against the fresh text).",
    props="Props/C08.v",
    theorems=["C08_grammar", "C08_no_misread", "C08_transfer", "C08_deadline", "C08_none",
              "C08_key_case_insensitive", "C08_pick_sound", "C08_sys_deadline", "C08_sys_none", "C08_sys_foreign"],
    go_tags="st",
    imports=["Base.Bytes", "Model.Timeout", "Check.C08c"],
    case_type="c08case",
    find_bad_from="find_bad_from",
    rigs=[dict(test="TestC08", timeout_quick=300, timeout_thorough=900),
          dict(test="TestC08Sys", timeout_quick=300, timeout_thorough=900),
          dict(test="TestC08Seq", timeout_quick=300, timeout_thorough=300),
          dict(test="TestGenEquivC08", timeout_quick=300, timeout_thorough=300)],
    technique="machine-checked proof (Rocq/Coq 8.16.1) of theorems about a hand-written Gallina model + correspondence check on every run; "
              "for parseGrpcTimeout and the deadline branch of headersFromContext additionally: model regenerated from source by "
              "tools/go2coq + equivalence proof (coq/Gen/ParseGrpcTimeoutEquiv.v, DeadlineHeaderEquiv.v) re-checked on every run",
    reason_text={"1": "implementation output differs from the Gallina model (Model/Timeout.v), or the definition regenerated from the source "
                      "is no longer proved equal to the model / the source left the translator's subset (gen-equiv cases)",
                 "2": "implementation output violates the property predicate (Check/C08c.v: spec_*_ok)"},
    rule="cases = inputs to parseGrpcTimeout (grammar grid 6 units x 1..20 digits x {zero,one,nines,random,"
         "saturation boundary +-2}, int64 boundary, malformed and mutated strings), remaining times for the client "
         "header (ms boundaries 1ms..10^11ms +-1ns, expired, random), header lists for the server-side scan; end to end in bubbles "
         "(virtual clock): {unary, client-, server-, bidi stream} x the same remaining times (-1h .. 10^4 h and beyond) x transit "
         "{0, 2.5 ms, 3 s} x caller metadata {none, ordinary, reserved key}: handler ctx.Deadline() compared exactly with sys_deadline; "
         "sequences of 2..3 calls (unary / stream mix, one or two client connections) under ONE deadline context with 1 ms .. 1 h of "
         "virtual time between them; no caller deadline; header lists and the timeout-value inputs (all grammar values of the grid, every 5th other one; 4 key "
         "spellings) put on the wire by a scripted peer for a unary and a streaming method of a real server; "
         "non-trivial = every case (each is a distinct input by its description hash)",
    assumptions=["strconv.ParseInt, fmt.Sprintf(%d), context.WithTimeout and the clock are Go's (modelled, validated differentially)",
                 "transit time is an abstract t1 - t0 >= 0"],
)

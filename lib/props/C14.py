"""Configuration of ./check C14 (see lib/registry.py for the fields)."""
CFG = dict(
    claim="Client half. Theorems C14_bounded (in EVERY reachable state the client registry and the live stream-loop goroutines are at "
          "most the calls that have not terminated: no growth over arbitrarily long histories), C14_released (a terminated call, "
          "whatever its outcome - reply, error status, cancel, deadline, reset, read failure, failed open - holds no registration "
          "and no goroutine), C14_idle (Q: quiescent and every issued call terminated => registry empty, no stream loop alive, the "
          "read loop holds nothing) and C14_cancel_released (Q: no stream loop survives the context of its RPC) in coq/Props/C14.v, "
          "over all label sequences of the small-step client model coq/Model/Client.v (unbounded calls, any inbound envelopes, "
          "faults, interleavings); the model is run lock-step against the real client on every run. End to end over the product coq/Model/Sys.v (Proofs/SysRelease.v: composition of sy's projection, sv's server release lemmas and cw's cancellation theorem): C14_sys_released_partial (in every reachable state of the product, however the client ended the RPC, a stream handler whose goroutine has ended holds nothing on the server connection; partial: 'the handler has returned' cannot be dropped, the handler is the environment) and C14_sys_ctx_release_Q (Q: after the caller's context ended on a stream without a trailer, exactly one reset is on the wire, the context of every handler registered under the id is cancelled, and one that has returned is gone and unregistered; hypothesis no_wfail: the write-fault case, where D-14f lived, is covered by the rig only). Server half (coq/Model/Server.v, Proofs/ServerInv.v, ServerLive.v, over all label sequences): C14_server_bounded (the registry of a server connection has exactly one entry per live stream-handler goroutine, in every reachable state) and C14_server_idle (Q: quiescent, every handler returned, writes not blocked or connection over => registry empty); the goroutine side is C12_never_stalls / C10_no_leak; the server model is run lock-step against the real server by ./check C10 and C12.",
    props="Props/C14.v",
    theorems=["C14_bounded", "C14_released", "C14_idle", "C14_cancel_released", "C14_final_released", "C14_server_bounded", "C14_server_idle", "C14_sys_released_partial", "C14_sys_ctx_release_Q", "C14_server_released", "C14_server_release_enabled", "C14_server_released_Q", "C14_server_collections_bounded"],
    imports=["Model.Client", "Check.ClientC", "Check.C14c"],
    case_type="c14case",
    find_bad_from="Check.C14c.find_bad_from",
    go_tags="cl,sv",
    rigs=[dict(test="TestC14Srv", timeout_quick=200, timeout_thorough=300),
          dict(test="TestC14Steps", timeout_quick=300, timeout_thorough=1200),
          dict(test="TestC14SendFail", timeout_quick=200, timeout_thorough=300),
          dict(test="TestC14Long", timeout_quick=300, timeout_thorough=1500)],
    reason_text={"11": "wedged: the scenario could not be run to its end - a goroutine of the client waits for a lock for ever; every call behind that lock hangs, also after the connection has failed",
                 "8": "server side: every started handler has returned, yet the server connection still holds something for them: a goroutine beyond writer + workers (none after the end of the connection), or a registry entry", "1": "the real client's observation differs from every outcome of the Gallina model (Model/Client.v, all orders of internal rules)",
                 "9": "long history: at an idle point (no RPC in flight, the callers' contexts alive) more goroutines have a frame of the library on their stack than at the first idle point: something a call started has outlived the call",
                 "7": "release of the peer's state: a stream whose open succeeded and whose own context ended (cancel, or the caller's deadline) before any final envelope "
                      "for it was delivered has not written exactly one RST_STREAM with its id by the next quiescent point (scenario without read failure / write faults)",
                 "2": "bounded: at a quiescent point the client registry holds more entries than calls still pending plus live stream loops",
                 "3": "idle: every issued call has ended (returned / open failed / stream cancelled, expired, terminal RecvMsg error, or the "
                      "connection is dead) yet the registry is not empty or a stream-loop goroutine is alive",
                 "4": "long history: registry size or stream-loop goroutines exceed the RPCs (streams) in flight as the callers see them",
                 "5": "long history: no RPC in flight, yet the registry is not empty or a stream-loop goroutine is alive",
                 "6": "long history: the client has no RPC in flight, yet the server connection still holds stream registrations for it "
                      "(the client ended an RPC without telling the server: no trailer / reset written), or holds one for an RPC nobody issued"},
    rule="(a) lock-step in synctest bubbles on the real client against a scripted peer: 160 (thorough 3000) seeded histories of 2..5 RPC "
         "lifecycles, unary and stream, each with one of the outcomes ok / error status / cancel / deadline / server reset / failed open "
         "(transport write fails) / late (replies after completion, unread messages then cancel), 1..3 in flight, some closed by a read "
         "failure, with and without stats handler; registry size (verif accessor), pending calls and goroutine census compared with the "
         "model after EVERY action and judged by the bound/idle predicates; (b) one connection real client - real server, 10^3 (thorough "
         "10^5) RPCs of the four kinds (unary, bidi, client-stream, server-stream) x the outcomes ok / error status / cancel / deadline / server reset / failed open / SendMsg whose transport write fails on a healthy connection with one of five error values (plain, wrapped context.DeadlineExceeded, wrapped context.Canceled, io.EOF, a net-style timeout) / handler aborting while the client still sends (late zero-length message, no CloseSend) / bigmsg: one request, one LARGE response whose size on the wire sits at a round binary limit (64 KiB, 1 MiB, 4 MiB, 16 MiB: -1, exact, +1; 5 MiB; sizes are length tokens), the handler then waits for the end of the RPC, the caller takes the message and cancels / NewStream cancelled at once, the opener and the reset reaching the server's read loop back to back (the stream's context may be over before its handler goroutine has run), <= 32 in flight, gated handlers, "
         "virtual-time deadlines; caller metadata is a dimension of every open (lock-step: all of clientrig.go mdKinds; long history: one RPC in two carries grpc-trace-id / Grpc-Status / key with a space / upper case / non-ASCII / empty key / NUL / control bytes / -bin / pseudo-header / 17 keys) + 54 lock-step cases 'open with such metadata, then the call ends by cancel / reply / read failure: registry idle'; (c) TestC14SendFail (60 cases): real client - real server, one stream, a SendMsg whose transport write fails with one of the five error values, the sender optionally held at the yield point cs.teardown.mid between the two steps of its teardown until the stream's loop goroutine has ended (D-14f, fixed in /repo 029d2b2), the caller drops the stream or calls RecvMsg: the server registry must be empty at the next quiescent point; client registry size, stream-loop census, RPCs in flight AND the server connection's stream registry sampled at every quiescent point; EVERY goroutine with a library frame (not only read loop / stream loop) is counted at the idle points - the callers' contexts of RPCs that ended by themselves are never cancelled - and must never exceed the count of the first idle point (C14Gor, reason 9); the history is emitted as records of <= 2000 samples (every sample is judged on its own)",
    assumptions=["payloads, metadata and methods are opaque tokens in the model",
                 "transport writes succeed or fail at once (a Write that blocks for ever without honouring its context is outside the hypothesis)",
                 "quiescence = testing/synctest's durable blocking; goroutine roles are read from runtime.Stack frames",
                 "heap growth that is not a registration, queue or goroutine is out of the model"],
)

"""Configuration of ./check C18 (see lib/registry.py for the fields)."""
CFG = dict(
    claim="Theorems C18_route_exact, C18_route_live, C18_route_key, C18_one_instance, C18_route_uncancelled (per logical "
          "connection the sequence read is exactly, in order and once each, the sub-sequence of the shared read log routed to it by "
          "key), C18_announce_once, C18_announce_first_use, C18_write_exact, C18_calls (every accepted logical write appears unchanged, "
          "once, in per-connection order on the shared transport), C18_no_crash, C18_cancel_unblocks, C18_cancel_settles, "
          "C18_cancel_errors (after Cancel reads/writes fail: no crash, no call blocked in a quiescent state, only errors once settled) "
          "C18_stop_dead (after Stop every quiescent state has a dead run loop and dead writer goroutines) and C18_run_alive (the run loop "
          "ends only by Stop or a failed shared Read, never by a Cancel(key)) and C18_after_cancel_fresh (once Cancel(k) is processed every envelope "
          "with key k that the run loop reads, the very next one included, is routed to an instance created after the Cancel - announced, "
          "carrying the key - never to the cancelled one); liveness beyond the quiescent-state form: C18_terminates (a measure every internal step "
          "lowers: no internal continuation of s is longer than mu s), C18_maximal_exists, C18_delivered (at the end of ANY maximal internal "
          "continuation from a reachable state, not stopped: every envelope taken from the shared transport for an instance that is not cancelled "
          "and whose consumer is reading has been handed to it, in order; everything that arrived has been taken unless the run loop is parked "
          "in the hand-off to an instance whose consumer is not reading) in coq/Props/C18.v, "
          "over all label sequences of the small-step model coq/Model/Demux.v (unbounded keys, envelopes, calls; any interleaving); "
          "the model is run lock-step against the real goat.Demux on every run.",
    props="Props/C18.v",
    theorems=["C18_route_exact", "C18_route_live", "C18_route_key", "C18_one_instance", "C18_route_uncancelled",
              "C18_announce_once", "C18_announce_first_use", "C18_write_exact", "C18_calls", "C18_no_crash",
              "C18_cancel_unblocks", "C18_cancel_settles", "C18_cancel_errors", "C18_stop_dead", "C18_run_alive",
              "C18_after_cancel_fresh", "C18_terminates", "C18_maximal_exists", "C18_delivered"],
    imports=["Model.Demux", "Check.C18c"],
    case_type="c18case",
    find_bad_from="find_bad_from",
    go_tags="px",
    rigs=[dict(test="TestC18", timeout_quick=300, timeout_thorough=1200)],
    reason_text={"1": "the real Demux's observation differs from every outcome of the Gallina model (Model/Demux.v, all orders of internal rules)",
                 "2": "route: what the logical connections of a key returned is not the in-order, once-each, unchanged sub-sequence of the envelopes delivered with that key "
                      "(more lost than Cancels, or an envelope lost that was delivered AFTER the last Cancel of its key that could have cost it)",
                 "3": "announce: a key was announced while it already had a live connection, or before any envelope carried it, or an envelope whose key "
                      "had no live connection arrived while the run loop was free and no connection was announced for it (first use, also after a Cancel)",
                 "4": "write: an envelope on the shared transport is not the unchanged envelope of an accepted logical Write, or appears twice, out of per-connection order, "
                      "or is missing - also: once the shared transport accepts writes AGAIN (it never failed, no Stop) an envelope whose logical Write had returned nil "
                      "on a live connection is not on the shared transport at the last quiescent point (whatever happened to the caller's context after the Write "
                      "returned), or a Write on such a connection is still parked",
                 "5": "cancel: a panic, a call blocked on a cancelled connection at a quiescent point, a call issued after the Cancel that did not fail, "
                      "or Demux.Cancel / Demux.Stop itself had not returned at a quiescent point (o_ctl: e.g. it waits for a hand-off in progress "
                      "or for a consumer that is not reading)",
                 "6": "stop: the run loop or a writer goroutine is alive at a quiescent point after Stop",
                 "8": "alive: the run loop ended although Stop was not called and the shared transport's Read had not failed",
                 "7": "end-to-end: an RPC through the real Demux ended differently from the same RPC on a direct connection"},
    rule="lock-step in synctest bubbles on the real goat.Demux + logical connections (one action, synctest.Wait, snapshot: announcements, "
         "call returns, shared-transport writes, blocked calls, Cancel/Stop calls that have not returned (issued on goroutines of their own), "
         "Run / writer goroutines by runtime.Stack, registered keys): ALL action "
         "words of length <= 4 (thorough 5) over {deliver k1,k2; read c0,c1; write c0; Cancel k1; Stop; cancel call 0}; ALL key sequences "
         "of length <= 5 (thorough 6) over 3 keys x consumption orders (eager, all 6 drain orders), with Cancel(key) and Stop inserted at "
         "EVERY step; 1..3 concurrent writers with the shared transport ok/blocked/failing x Cancel/Stop at every step x the end of each Write call's "
         "context (Canceled / DeadlineExceeded) at every step, also after the call has returned nil; seeded random walks "
         "over 1..8 keys, 5 key functions (source, destination, id, constant, names), by-reference and serialising transports, transport faults, "
         "ticks of the virtual clock (time.Sleep in the bubble; the model's no-op ATick), envelope shapes (no body, zero-byte body) and error kinds "
         "(io.EOF, errors wrapping io.EOF / context.Canceled / DeadlineExceeded as the shared Read's failure and as the calls' context errors); ALL words of "
         "length <= 3 (thorough 4) containing a tick + a final 60 s tick; one key's consumer not reading (run loop parked in its hand-off) while "
         "another key has traffic x {Cancel of either key, Stop, write on either connection, blocked shared transport, tick} at EVERY position, "
         "also with a blocked shared write in progress; key NAMES that collide under concatenation, are prefixes of one another or empty "
         "('' c-1 c-11 12 c-112: all sequences of length <= 3, Cancel at every step); the all-default envelope Rpc{} / no body / zero-byte body / reset-only / bare trailer / "
         "status + trailer without body / body without header through every key function, as the FIRST envelope of a never-used key and of a "
         "key that was used and cancelled, with Cancel at every step; "
         "end-to-end: 2..5 real clients - one shared transport - real Demux keyed by source - one real Server object, unary + bidi + "
         "client-stream + server-stream RPCs compared with the direct-connection outcomes",
    assumptions=["payloads and keys are opaque to the Demux (tokens); the key function and the callback return",
                 "the shared transport returns queued envelopes in order, honours its context in Read and in a blocked Write",
                 "the shared transport's Write is safe to call from several writer goroutines at once and each call is atomic (the model's r_dw_write is "
                 "one step per envelope; demux.go calls gsd.rw.Write from every per-connection writer goroutine without a lock of its own)",
                 "quiescence = testing/synctest's durable blocking; goroutine roles are read from runtime.Stack frames"],
)

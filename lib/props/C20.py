"""Configuration of ./check C20 (see lib/registry.py for the fields)."""
CFG = dict(
    claim="Theorems C20_chain, C20_chain_stream, C20_chain_empty, C20_chain_order, C20_chain_order_stream, C20_chain_transform, "
          "C20_site_none, C20_site_single, C20_site_chain, C20_client_site (coq/Props/C20.v): for every non-empty list of arbitrary "
          "interceptors the interceptor installed by Chain{Unary,Stream}Interceptor is the nesting in registration order around the "
          "handler; the model is run against the installed interceptors of real servers, the exported recursion and real RPCs on every run.",
    props="Props/C20.v",
    theorems=["C20_chain", "C20_chain_stream", "C20_chain_empty", "C20_chain_order", "C20_chain_order_stream",
              "C20_chain_transform", "C20_site_none", "C20_site_single", "C20_site_chain", "C20_client_site"],
    imports=["Model.Chain", "Model.Stats", "Check.C20c"],
    case_type="c20case",
    find_bad_from="find_bad_from",
    go_tags="st",
    rigs=[dict(test="TestC20Chain", timeout_quick=300, timeout_thorough=1200),
          dict(test="TestC20Stats", timeout_quick=300, timeout_thorough=1200),
          dict(test="TestC20E2E", timeout_quick=300, timeout_thorough=1200)],
    reason_text={"1": "implementation output differs from the Gallina model of the code (Model/Chain.v get_chain / chain; Model/Stats.v)",
                 "2": "implementation violates the specification: the observed calls are not the nesting in registration order (Check/C20c.v run_nest)",
                 "3": "a stage or the handler did not run exactly once, in order (Check/C20c.v spec_once)"},
    rule="chain: recording interceptors with behaviours {Pass, ModCtx, ModReq, ModRep, ModErr, Short e, Twice}: ALL lists of length "
         "1..3 (thorough: 4) + seeded lists of length 4..6 + all-pass chains 1..6, handler ok / failing, unary and stream, against "
         "the interceptor installed on a real server; the exported recursion at every index; end to end (real client, Link, real "
         "server, bubbles) with 0..1 client interceptor x server chains of length 0..6",
    assumptions=["interceptors are modelled as functions of (next, argument) into a result that carries their effects (event log); "
                 "the Go interceptors of the rig are the hand-written twins of Check/C20c.v interp"],
)

"""Configuration of ./check C20 (see lib/registry.py for the fields)."""
CFG = dict(
    claim="Theorems C20_chain, C20_chain_stream, C20_chain_empty, C20_chain_order, C20_chain_order_stream, C20_chain_transform, "
          "C20_site_none, C20_site_single, C20_site_chain, C20_client_site (coq/Props/C20.v): for every non-empty list of arbitrary "
          "interceptors the interceptor installed by Chain{Unary,Stream}Interceptor is the nesting in registration order around the "
          "handler; stats: C20_stats_client_unary, C20_stats_client_stream_open_failed, C20_stats_client_stream, "
          "C20_stats_server_unary_partial, C20_stats_server_stream_partial, C20_stats_refused, C20_conn: for every role and every exit "
          "(client stream: every sequence of calls and arrivals; server stream: every handler program) one Begin first, one End, "
          "End.Error nil iff success (client unary: full statement; server: except for io.EOF, C20_stats_end_eof_refuted, finding server-end-eof-nil); "
          "the models are run against the installed interceptors, the exported recursion, every exit of the real code and real RPCs on every run.",
    props="Props/C20.v",
    theorems=["C20_chain", "C20_chain_stream", "C20_chain_empty", "C20_chain_order", "C20_chain_order_stream",
              "C20_chain_transform", "C20_site_none", "C20_site_single", "C20_site_chain", "C20_client_site",
              "C20_stats_client_unary", "C20_stats_client_stream_open_failed", "C20_stats_client_stream",
              "C20_stats_server_unary_partial", "C20_stats_server_stream_partial", "C20_stats_end_eof_refuted",
              "C20_stats_refused", "C20_conn", "C20_stats_tagged",
              "C20_stats_tables_are_paths", "C20_stats_begin_first", "C20_stats_end_once_last", "C20_stats_order"],
    imports=["Model.Chain", "Model.Stats", "Check.C20c"],
    case_type="c20case",
    find_bad_from="find_bad_from",
    go_tags="st",
    rigs=[dict(test="TestC20Chain", timeout_quick=300, timeout_thorough=1200),
          dict(test="TestC20Stats", timeout_quick=300, timeout_thorough=1200),
          dict(test="TestC20E2E", timeout_quick=300, timeout_thorough=1200),
          dict(test="TestC20ServerDone", timeout_quick=300, timeout_thorough=1200),
          dict(test="TestC20WorkersBusy", timeout_quick=300, timeout_thorough=1200),
          dict(test="TestC20SendHeaderWriteFails", timeout_quick=300, timeout_thorough=300),
          dict(test="TestC20ClientRaces", timeout_quick=300, timeout_thorough=300)],
    reason_text={"1": "implementation output differs from the Gallina model of the code (Model/Chain.v get_chain / chain; Model/Stats.v)",
                 "2": "implementation violates the specification: the observed calls are not the nesting in registration order (Check/C20c.v run_nest)",
                 "3": "a stage or the handler did not run exactly once, in order (Check/C20c.v spec_once)",
                 "5": "End.Error is nil although the RPC failed at that role, or non-nil although it succeeded (spec_end)",
                 "6": "not exactly one Begin before every other event / not exactly one End for a finished RPC / events after End (spec_shape)",
                 "7": "an event carried no tag or the tag of another RPC, or was delivered with a context that lacks the handler's own "
                      "TagRPC value (CStatsCtx: depth of the delivered context)",
                 "8": "not exactly one tagged ConnBegin and ConnEnd for a served connection"},
    rule="chain: recording interceptors with behaviours {Pass, ModCtx, ModReq, ModRep, ModErr, Short e, Twice}: ALL lists of length "
         "1..3 + seeded lists of length 4..6 (150 per kind; thorough: 1500) + all-pass chains 1..6, handler ok / failing, unary and stream, against "
         "the interceptor installed on a real server; the exported recursion at every index; end to end (real client, Link, real "
         "server, bubbles) with 0..1 client interceptor x server chains of length 0..6; stats: recording handlers (own context key = tag), "
         "1..3 per side: client unary every exit (15 scenarios); client stream failed opens + ALL operation sequences of length<=3 "
         "over 13 caller/peer operations + seeded longer; server unary 10 scenarios; server stream ALL handler programs of "
         "length<=3 x {nil, error, io.EOF}; connections; end to end {unary, client-, server-, bidi stream} x {ok, handler error, handler "
         "EOF, cancel, deadline, read failure, failed open, undecodable metadata, server reset} x 1..3 handlers, both sides; requests "
         "whose context is already done at pick-up (scripted peer with a zero grpc-timeout 0n/0m/0S/00000000H; request delivered after "
         "the context given to Serve was cancelled) x {unary, stream} x 1..3 stats handlers x chains of length 0..3; all 8 unary workers "
         "busy + 1..2 further requests, then Stop / failing reply write / read failure, then the handlers return: every RPC's event list",
    assumptions=["interceptors are modelled as functions of (next, argument) into a result that carries their effects (event log); "
                 "the Go interceptors of the rig are the hand-written twins of Check/C20c.v interp",
                 "stats: the model lists are those of lock-step executions (one caller/peer step, quiescence, next step); InPayload of a "
                 "RecvMsg racing with the read loop's End is outside the model",
                 "client side of the property text says 0..3 interceptors: dialoption.go offers exactly one per kind (no chaining)"],
)

//go:build st

package verifharness

import (
	"context"
	"fmt"
	"sync"

	goat "github.com/avos-io/goat"
	"google.golang.org/grpc/stats"
)

// tagStats is a recording stats.Handler: TagRPC returns a context carrying a
// fresh tag under a key of its own; every event is filed under the tag found
// in its context (C20, stats part).
type tagStats struct {
	id       int
	mu       sync.Mutex
	next     int64
	rpcs     map[int64][]string
	untagged int
	nh       int             // number of handlers installed side by side (ids 0..nh-1)
	depths   map[int64][]int // per RPC and event: how many of those handlers' tags the delivered context carried
	expect   string          // FullMethodName every TagRPC must carry ("" = not checked)
	conn     []string
}

type tsKey struct {
	id   int
	conn bool
}

func newTagStats(id int) *tagStats {
	return &tagStats{id: id, nh: 1, rpcs: map[int64][]string{}, depths: map[int64][]int{}}
}

// depth of a context: the number of side-by-side handlers whose TagRPC value it carries
func (s *tagStats) depth(ctx context.Context) int {
	d := 0
	for j := 0; j < s.nh; j++ {
		if _, ok := ctx.Value(tsKey{j, false}).(int64); ok {
			d++
		}
	}
	return d
}

func (s *tagStats) TagRPC(ctx context.Context, info *stats.RPCTagInfo) context.Context {
	s.mu.Lock()
	defer s.mu.Unlock()
	if s.expect != "" && info.FullMethodName != s.expect {
		s.untagged++ // the RPC was announced under another method's name
	}
	s.next++
	s.rpcs[s.next] = []string{"TagRPC"}
	out := context.WithValue(ctx, tsKey{s.id, false}, s.next)
	s.depths[s.next] = []int{s.depth(out)} // the context TagRPC returns
	return out
}

func (s *tagStats) HandleRPC(ctx context.Context, ev stats.RPCStats) {
	var name string
	switch e := ev.(type) {
	case *stats.Begin:
		name = "Begin"
	case *stats.OutHeader:
		name = "OutHeader"
	case *stats.OutPayload:
		name = "OutPayload"
	case *stats.InHeader:
		name = "InHeader"
	case *stats.InPayload:
		name = "InPayload"
	case *stats.OutTrailer:
		name = "OutTrailer"
	case *stats.End:
		name = fmt.Sprintf("(End %v)", e.Error == nil)
	default:
		name = fmt.Sprintf("(* %T *) TagRPC", ev)
	}
	s.mu.Lock()
	defer s.mu.Unlock()
	tag, ok := ctx.Value(tsKey{s.id, false}).(int64)
	if !ok {
		s.untagged++
		return
	}
	s.rpcs[tag] = append(s.rpcs[tag], name)
	s.depths[tag] = append(s.depths[tag], s.depth(ctx))
}

func (s *tagStats) TagConn(ctx context.Context, _ *stats.ConnTagInfo) context.Context {
	s.mu.Lock()
	defer s.mu.Unlock()
	s.conn = append(s.conn, "TagConn")
	return context.WithValue(ctx, tsKey{s.id, true}, int64(len(s.conn)))
}

func (s *tagStats) HandleConn(ctx context.Context, ev stats.ConnStats) {
	_, tagged := ctx.Value(tsKey{s.id, true}).(int64)
	s.mu.Lock()
	defer s.mu.Unlock()
	switch ev.(type) {
	case *stats.ConnBegin:
		s.conn = append(s.conn, fmt.Sprintf("ConnBegin %v", tagged))
	case *stats.ConnEnd:
		s.conn = append(s.conn, fmt.Sprintf("ConnEnd %v", tagged))
	}
}

// events of RPC number n (1-based, in TagRPC order) and the number of events
// that carried no tag or belong to another RPC than n
func (s *tagStats) rpc(n int64) ([]string, int) {
	s.mu.Lock()
	defer s.mu.Unlock()
	stray := s.untagged
	for t, evs := range s.rpcs {
		if t != n {
			stray += len(evs)
		}
	}
	return append([]string(nil), s.rpcs[n]...), stray
}

// events of RPC number n and the number of events without a tag (other RPCs of the scenario are not strays)
func (s *tagStats) rpcOnly(n int64) ([]string, int) {
	s.mu.Lock()
	defer s.mu.Unlock()
	return append([]string(nil), s.rpcs[n]...), s.untagged
}

func (s *tagStats) connEvents() []string {
	s.mu.Lock()
	defer s.mu.Unlock()
	var out []string
	for _, e := range s.conn {
		if e == "TagConn" {
			out = append(out, e)
		} else {
			out = append(out, "("+e+")")
		}
	}
	return out
}

func newStatsSet(n int) []*tagStats {
	var hs []*tagStats
	for i := 0; i < n; i++ {
		h := newTagStats(i)
		h.nh = n
		hs = append(hs, h)
	}
	return hs
}

func dialStats(hs []*tagStats) []goat.DialOption {
	var o []goat.DialOption
	for _, h := range hs {
		o = append(o, goat.WithStatsHandler(h))
	}
	return o
}

func serverStats(hs []*tagStats) []goat.ServerOption {
	var o []goat.ServerOption
	for _, h := range hs {
		o = append(o, goat.StatsHandler(h))
	}
	return o
}

// emitStats writes one CStats case per handler for RPC number n of the scenario.
func emitStats(em *Emitter, idx *int, kind string, desc map[string]any, tags []string, exit string, hs []*tagStats, n int64, finished, succ bool) {
	for i, h := range hs {
		evs, stray := h.rpc(n)
		d := map[string]any{"h": i, "nh": len(hs)}
		for k, v := range desc {
			d[k] = v
		}
		em.Emit(Rec{Idx: *idx, Kind: kind, Desc: d, Obs: map[string]any{"events": evs, "stray": stray},
			Tags: append(append([]string(nil), tags...), fmt.Sprintf("handlers=%d", len(hs))),
			Coq:  fmt.Sprintf("CStats %s %d %d %s %s %s %d", exit, len(hs), i, coqBool(finished), coqBool(succ), coqList(evs), stray)})
		// the tag clause (same scenario index): every event with the depth of the context it was delivered with
		h.mu.Lock()
		ds := append([]int(nil), h.depths[n]...)
		h.mu.Unlock()
		var pairs []string
		for j, e := range evs {
			dj := -1
			if j < len(ds) {
				dj = ds[j]
			}
			pairs = append(pairs, fmt.Sprintf("(%s, %s)", e, coqZ(int64(dj))))
		}
		em.Emit(Rec{Idx: *idx, Kind: kind + "-ctx", Desc: d, Obs: map[string]any{"events": evs, "depths": ds},
			Tags: append(append([]string(nil), tags...), fmt.Sprintf("handlers=%d", len(hs)), "clause=context-tagging"),
			Coq:  fmt.Sprintf("CStatsCtx %s %d %d %s", exit, len(hs), i, coqList(pairs))})
		*idx++
	}
}

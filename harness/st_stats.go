//go:build st

package verifharness

import (
	"context"
	"fmt"
	"sync"

	"google.golang.org/grpc/stats"
)

type tagStats struct {
	mu  sync.Mutex
	evs []string
}

func (s *tagStats) TagRPC(ctx context.Context, _ *stats.RPCTagInfo) context.Context { return ctx }
func (s *tagStats) HandleRPC(ctx context.Context, ev stats.RPCStats) {
	s.mu.Lock()
	defer s.mu.Unlock()
	switch e := ev.(type) {
	case *stats.End:
		s.evs = append(s.evs, fmt.Sprintf("End(%v)", e.Error))
	default:
		s.evs = append(s.evs, fmt.Sprintf("%T", ev))
	}
}
func (s *tagStats) TagConn(ctx context.Context, _ *stats.ConnTagInfo) context.Context { return ctx }
func (s *tagStats) HandleConn(context.Context, stats.ConnStats)                       {}

//go:build st

package verifharness

import (
	"context"
	"fmt"
	"io"
	"testing"
	"testing/synctest"

	goat "github.com/avos-io/goat"
	"github.com/avos-io/goat/gen/goatorepo"
	"google.golang.org/grpc"
	"google.golang.org/protobuf/proto"
	"google.golang.org/protobuf/types/known/wrapperspb"
)

// Requests whose context is ALREADY DONE when the server picks them up: a peer
// that sends a zero GRPC-Timeout (what grpc-go sends for an expired deadline;
// goat's own client clamps to 1m), or a request that arrives after the context
// given to Serve was cancelled while the server keeps reading. Such an RPC is
// received and answered like any other: every interceptor must run exactly
// once, every stats handler must see exactly one Begin ... one End.
func TestC20ServerDone(t *testing.T) {
	em := NewEmitter()
	defer em.Close()
	idx := 0
	triggers := []string{"0n", "0m", "0S", "00000000H", "serve-ctx-cancelled"}
	for _, trig := range triggers {
		for _, stream := range []bool{false, true} {
			for nh := 1; nh <= 3; nh++ {
				for clen := 0; clen <= 3; clen++ {
					if !anyWanted(idx, nh+1) {
						idx += nh + 1
						continue
					}
					stBegin(em, idx)
					first := idx
					hs := newStatsSet(nh)
					log := &chainLog{}
					bs := make([]beh, clen)
					sopts := serverStats(hs)
					if !stream {
						var is []grpc.UnaryServerInterceptor
						for j, b := range bs {
							is = append(is, recUnary(log, int64(j+1), b))
						}
						switch {
						case clen == 1:
							sopts = append(sopts, goat.UnaryInterceptor(is[0]))
						case clen > 1:
							sopts = append(sopts, goat.ChainUnaryInterceptor(is...))
						}
					} else {
						var is []grpc.StreamServerInterceptor
						for j, b := range bs {
							is = append(is, recStream(log, int64(j+1), b))
						}
						switch {
						case clen == 1:
							sopts = append(sopts, goat.StreamInterceptor(is[0]))
						case clen > 1:
							sopts = append(sopts, goat.ChainStreamInterceptor(is...))
						}
					}
					impl := &echoImpl{
						unary: func(ctx context.Context, req []byte) ([]byte, bool, error) {
							log.add(fmt.Sprintf("EHandler %s %s", zs(ctxToks(ctx)), zs(msgToks(bv(req)))))
							return req, true, nil
						},
						stream: func(kind string, ss grpc.ServerStream) error {
							log.add(fmt.Sprintf("EHandler %s %s", zs(ctxToks(ss.Context())), zs(marksOf(ss))))
							return nil
						},
					}
					answered := false
					var rep []int64
					var ecode int64
					bubble(t, func(t *testing.T) {
						ep := NewEndpoint("s")
						srv := newEchoServer("dst", impl, sopts...)
						ctx, cancel := context.WithCancel(context.Background())
						defer cancel()
						ret := make(chan error, 1)
						go func() { ret <- srv.Serve(ctx, ep) }()
						synctest.Wait()
						path := "/verif.Echo/Unary"
						if stream {
							path = "/verif.Echo/Bidi"
						}
						hh := hdr(path, "src", "dst")
						if trig == "serve-ctx-cancelled" {
							cancel()
							synctest.Wait()
						} else {
							hh.Headers = []*goatorepo.KeyValue{{Key: "grpc-timeout", Value: trig}}
						}
						env := &Rpc{Id: 1, Header: hh}
						if !stream {
							body, _ := protoMarshal(bv([]byte{7}))
							env.Body = &goatorepo.Body{Data: body}
						}
						ep.Deliver(env)
						synctest.Wait()
						for _, w := range ep.WrittenCopy() {
							if w.Id == 1 {
								answered = true
								if !stream {
									ecode = int64(w.GetStatus().GetCode())
									var m wrapperspb.BytesValue
									if w.GetBody() != nil && proto.Unmarshal(w.GetBody().GetData(), &m) == nil && ecode == 0 {
										rep = msgToks(&m)
									}
								}
							}
						}
						ep.FailRead(io.EOF)
						synctest.Wait()
						<-ret
					})
					kind := "unary"
					exit := "(XSU (SU_run DecOk RNil))"
					if stream {
						kind = "stream"
						exit = "(XSS (SS_run [] RNil))"
					}
					tags := []string{"role=server-ctx-done-at-pickup", "done:trigger=" + trig, "done:rpc=" + kind, fmt.Sprintf("chainlen=%d", clen), fmt.Sprintf("done:answered=%v", answered)}
					desc := map[string]any{"trigger": trig, "rpc": kind, "chain": clen}
					emitStats(em, &idx, "stats-server-done", desc, tags, exit, hs, 1, true, true)
					// unary: the reply is part of the observation; stream: whether the trailer gets out is a race of
					// its own when the handler's context is done (two-way select), only the calls are judged
					em.Emit(Rec{Idx: idx, Kind: "chain-server-done", Desc: desc, Tags: tags,
						Coq: fmt.Sprintf("CChainE2E %s None %s 0 %s", coqBool(stream), behsCoq(bs), cresCoq(rep, ecode, log.take()))})
					idx++
					stEnd(em, first)
				}
			}
		}
	}
}

// All 8 unary workers of a connection busy, more requests arrive, the
// connection ends (Stop, or a failing reply write) before a worker frees up,
// then the handlers return. Every RPC a stats handler was told about (TagRPC)
// must have exactly one Begin and one End; in the unchanged code the request
// that waits for a worker has not been started at all (no event).
func TestC20WorkersBusy(t *testing.T) {
	em := NewEmitter()
	defer em.Close()
	idx := 0
	for _, how := range []string{"stop", "write-failure", "read-failure"} {
		for _, extra := range []int{1, 2} {
			for nh := 1; nh <= 3; nh++ {
				total := 8 + extra
				if !anyWanted(idx, nh*total) {
					idx += nh * total
					continue
				}
				stBegin(em, idx)
				first := idx
				hs := newStatsSet(nh)
				bubble(t, func(t *testing.T) {
					ep := NewEndpoint("s")
					release := make(chan struct{})
					impl := &echoImpl{unary: func(ctx context.Context, req []byte) ([]byte, bool, error) {
						<-release
						return req, true, nil
					}}
					srv := newEchoServer("dst", impl, serverStats(hs)...)
					ret := make(chan error, 1)
					go func() { ret <- srv.Serve(context.Background(), ep) }()
					body, _ := protoMarshal(bv([]byte("q")))
					for i := 0; i < total; i++ {
						ep.Deliver(&Rpc{Id: uint64(1 + i), Header: hdr("/verif.Echo/Unary", "src", "dst"), Body: &goatorepo.Body{Data: body}})
						synctest.Wait()
					}
					switch how {
					case "stop":
						srv.Stop()
					case "write-failure":
						ep.FailWrites(errInjected) // the next reply's write fails: the connection is cancelled
					case "read-failure":
						ep.FailRead(errInjected)
					}
					synctest.Wait()
					close(release)
					synctest.Wait()
					ep.FailRead(io.EOF)
					synctest.Wait()
					<-ret
				})
				for i, h := range hs {
					for n := 1; n <= total; n++ {
						evs, stray := h.rpcOnly(int64(n))
						// the model: a started RPC runs to its End (the handler returned nil); what was never
						// handed to a worker was never started
						exit := "(XSU (SU_run DecOk RNil))"
						if len(evs) == 0 {
							exit = "(XSU SU_undispatched)"
						}
						if want(idx) {
							em.Emit(Rec{Idx: idx, Kind: "stats-workers-busy", Desc: map[string]any{"how": how, "extra": extra, "nh": nh, "h": i, "rpc": n},
								Obs:  map[string]any{"events": evs},
								Tags: []string{"role=server-unary", "exit=workers-busy-then-" + how, fmt.Sprintf("busy:started=%v", len(evs) > 0), fmt.Sprintf("handlers=%d", nh)},
								Coq:  fmt.Sprintf("CStats %s %d %d true true %s %d", exit, nh, i, coqList(evs), stray)})
						}
						idx++
					}
				}
				stEnd(em, first)
			}
		}
	}
}

// The row "SendHeader whose write fails" of the server stream object (Stats.v
// SSendHeader false): the writer goroutine is stuck in a blocked transport write
// (a unary reply), the stream's context is cancelled by the caller's reset, then the
// handler calls SendHeader: the write path's select can only take ctx.Done. The
// OutHeader event was emitted, the headers stay pending, and the next SendMsg emits
// OutHeader again.
func TestC20SendHeaderWriteFails(t *testing.T) {
	em := NewEmitter()
	defer em.Close()
	idx := 0
	for nh := 1; nh <= 3; nh++ {
		if !anyWanted(idx, nh) {
			idx += nh
			continue
		}
		stBegin(em, idx)
		first := idx
		hs := newStatsSet(nh)
		bubble(t, func(t *testing.T) {
			ep := NewEndpoint("s")
			cmds := make(chan string)
			acks := make(chan struct{})
			impl := &echoImpl{
				unary: func(ctx context.Context, req []byte) ([]byte, bool, error) { return req, true, nil },
				stream: func(kind string, ss grpc.ServerStream) error {
					for c := range cmds {
						switch c {
						case "sendheader":
							ss.SendHeader(tokenMD(1))
						case "send":
							ss.SendMsg(bv([]byte("r")))
						}
						acks <- struct{}{}
					}
					return codeErr(9)
				},
			}
			srv := newEchoServer("dst", impl, serverStats(hs)...)
			ret := make(chan error, 1)
			go func() { ret <- srv.Serve(context.Background(), ep) }()
			ep.BlockWrites()
			body, _ := protoMarshal(bv([]byte("q")))
			ep.Deliver(&Rpc{Id: 1, Header: hdr("/verif.Echo/Unary", "src", "dst"), Body: &goatorepo.Body{Data: body}})
			synctest.Wait() // the writer is now stuck writing the unary reply
			ep.Deliver(&Rpc{Id: 2, Header: hdr("/verif.Echo/Bidi", "src", "dst")})
			synctest.Wait()
			ep.Deliver(&Rpc{Id: 2, Header: hdr("/verif.Echo/Bidi", "src", "dst"), Reset_: &goatorepo.Reset{Type: "RST_STREAM"}})
			synctest.Wait() // the handler's context is cancelled
			for _, c := range []string{"sendheader", "send"} {
				cmds <- c
				<-acks
				synctest.Wait()
			}
			close(cmds)
			synctest.Wait()
			ep.UnblockWrites()
			synctest.Wait()
			ep.FailRead(io.EOF)
			synctest.Wait()
			<-ret
		})
		for i, h := range hs {
			evs, stray := h.rpcOnly(2) // RPC 1 is the unary call that keeps the writer busy
			if want(idx) {
				em.Emit(Rec{Idx: idx, Kind: "stats-server-stream", Desc: map[string]any{"scenario": "sendheader-write-fails", "nh": nh, "h": i},
					Obs:  map[string]any{"events": evs},
					Tags: []string{"role=server-stream", "exit=sendheader-write-fails", fmt.Sprintf("handlers=%d", nh)},
					Coq:  fmt.Sprintf("CStats (XSS (SS_run [(SSendHeader false); SSendMsg] RErr)) %d %d true false %s %d", nh, i, coqList(evs), stray)})
			}
			idx++
		}
		stEnd(em, first)
	}
}

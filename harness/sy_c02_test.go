//go:build sy

package verifharness

import (
	"context"
	"fmt"
	"math/rand"
	"os"
	"runtime"
	"strings"
	"sync"
	"sync/atomic"
	"testing"
	"testing/synctest"
	"time"
)

var syCProgs = []string{"send-all-then-receive", "ping-pong", "concurrent", "early-half-close", "receive-only", "receive-first"}

// one stream of a C02 scenario
type c02Stream struct {
	Kind  int
	N     int // messages the caller sends
	CProg int
	H     syHProg
	Sizes []int
	ParkR int  // index of the Recv that parks after its done-check (-1: none)
	ParkS int  // index of the Send that parks after its done-check (-1: none)
	ParkL bool // the stream's loop parks at cs.loop.read before its first Read
	AckS  int  // index + 1 of the Send whose Write delivers and then reports a timeout (0: none)
}

func (s c02Stream) String() string {
	return fmt.Sprintf("%s n=%d %s / %s parkR=%d parkS=%d parkL=%v ackS=%d", syKinds[s.Kind], s.N, syCProgs[s.CProg], s.H, s.ParkR, s.ParkS, s.ParkL, s.AckS)
}

// threads of one stream (slot = stream index)
func (s c02Stream) threads(slot int, rng *rand.Rand) [][]syCop {
	pay := func(i int) []byte {
		sz := syPickSize(rng)
		return syBytes(rng, sz)
	}
	recvAll := syCop{Op: "recv*", Slot: slot}
	var a []syCop
	a = append(a, syCop{Op: "open", Slot: slot, Kind: s.Kind, M: slot + s.N, Park: s.ParkL})
	nrecv := 0
	recv1 := func() syCop {
		c := syCop{Op: "recv", Slot: slot, Park: nrecv == s.ParkR}
		nrecv++
		return c
	}
	send := func(i int) syCop {
		return syCop{Op: "send", Slot: slot, Pay: pay(i), Park: i == s.ParkS, Ack: s.AckS == i+1}
	}
	switch s.CProg {
	case 0:
		for i := 0; i < s.N; i++ {
			a = append(a, send(i))
		}
		a = append(a, syCop{Op: "close", Slot: slot})
	case 1:
		for i := 0; i < s.N; i++ {
			a = append(a, send(i), recv1())
		}
		a = append(a, syCop{Op: "close", Slot: slot})
	case 2:
		for i := 0; i < s.N; i++ {
			a = append(a, send(i))
		}
		a = append(a, syCop{Op: "close", Slot: slot})
		recvAll.Park = s.ParkR == 0
		return [][]syCop{a, {recvAll}}
	case 3:
		for i := 0; i < s.N/2; i++ {
			a = append(a, send(i))
		}
		a = append(a, syCop{Op: "close", Slot: slot})
	case 4:
	case 5: // wait for the handler's pushes before sending anything
		for i := 0; i < s.H.N; i++ {
			a = append(a, recv1())
		}
		for i := 0; i < s.N; i++ {
			a = append(a, send(i))
		}
		a = append(a, syCop{Op: "close", Slot: slot})
	}
	// the terminal receive loop; its first iteration may park
	if s.ParkR >= nrecv {
		recvAll.Park = true
	}
	a = append(a, recvAll)
	return [][]syCop{a}
}

func genC02Stream(rng *rand.Rand, maxN int) c02Stream {
	counts := []int{0, 1, 2, 5, 20}
	if maxN > 20 {
		counts = append(counts, 50, maxN)
	}
	s := c02Stream{Kind: rng.Intn(3), N: counts[rng.Intn(len(counts))], CProg: rng.Intn(5), ParkR: -1, ParkS: -1}
	seed := rng.Int63n(1 << 30)
	nb := counts[rng.Intn(len(counts))]
	switch s.CProg {
	case 1: // ping-pong needs one reply per message
		s.H = syHProg{J: -1, Echo: true, Ping: true}
	case 4: // receive-only needs a handler that does not wait for the caller
		s.H = syHProg{J: 0, N: nb}
		s.N = 0
	default:
		switch rng.Intn(5) {
		case 0:
			s.H = syHProg{J: -1, Echo: true, Ping: true}
		case 1:
			s.H = syHProg{J: 0, N: nb} // burst without reading
		case 2:
			s.H = syHProg{J: -1, Echo: true} // reply after EOF
		case 3:
			j := 0
			if s.N > 0 {
				j = rng.Intn(s.N)
			}
			s.H = syHProg{J: j, N: 1} // return before EOF
		case 4:
			s.H = syHProg{J: 1, N: nb} // the natural server-streaming handler
		}
	}
	if rng.Intn(6) == 0 { // a concurrent handler: receiver goroutine + sender
		if rng.Intn(2) == 0 {
			s.CProg, s.H = 5, syHProg{Conc: 1, N: nb}
			if s.N > 5 {
				s.N = 5
			}
		} else {
			s.CProg, s.N, s.H = 4, 0, syHProg{Conc: 2, N: nb}
		}
		if s.Kind == 0 {
			s.Kind = 2
		}
	}
	s.H.Seed = seed
	if rng.Intn(8) == 0 && s.H.Conc == 0 {
		s.H.Code = 7 + rng.Intn(3) // a failing handler: the caller must not see EOF
	}
	switch rng.Intn(4) {
	case 0:
		s.ParkR = rng.Intn(3)
	case 1:
		if s.N > 0 {
			s.ParkS = rng.Intn(s.N)
		}
	case 2:
		s.ParkL = rng.Intn(2) == 0
	}
	return s
}

type c02Cfg struct {
	topo  int
	byRef bool
}

func recC02(kind string, cfg c02Cfg, streams []c02Stream, steps []syStep, complete bool, extra ...string) Rec {
	tr := "serialising"
	if cfg.byRef {
		tr = "by-reference"
	}
	tags := append([]string{"topo:" + syTopos[cfg.topo], "transport:" + tr, fmt.Sprintf("streams=%d", len(streams))}, extra...)
	var ds []string
	for _, s := range streams {
		ds = append(ds, s.String())
		tags = append(tags, "kind:"+syKinds[s.Kind], "cprog:"+syCProgs[s.CProg], "hprog:"+s.H.String()[:4], fmt.Sprintf("n=%d", s.N))
		if s.ParkR >= 0 {
			tags = append(tags, "yield:recv")
		}
		if s.ParkS >= 0 {
			tags = append(tags, "yield:send")
		}
		if s.ParkL {
			tags = append(tags, "yield:loop")
		}
		if s.AckS > 0 {
			tags = append(tags, "write-fault:ack-lost")
		}
	}
	nev := 0
	for _, s := range steps {
		nev += len(s.evs)
	}
	if !complete {
		tags = append(tags, "incomplete")
	}
	coq := "C02Run " + coqBool(complete) + " " + syStepsCoq(steps)
	// outcome histogram: terminal receives
	for _, s := range steps {
		for _, e := range s.evs {
			switch {
			case len(e) > 6 && e[:6] == "CRecvR" && e[len(e)-8:] == "(RErr 1)":
				tags = append(tags, "caller:EOF")
			case len(e) > 6 && e[:6] == "HRecvR" && e[len(e)-8:] == "(RErr 1)":
				tags = append(tags, "handler:EOF")
			}
		}
	}
	desc := map[string]any{"streams": ds, "topo": syTopos[cfg.topo], "byRef": cfg.byRef, "schedule": sySchedString(steps)}
	if syEndDump != "" && kind != "c02-free" && kind != "c02-opens" {
		desc["end_state"] = syEndDump
		syEndDump = ""
	}
	return Rec{Kind: kind, Desc: desc,
		Obs: map[string]any{"events": nev, "complete": complete, "steps": len(steps)}, Tags: tags, Coq: coq}
}

var syGuardSp *sySpread // the emitter of the running test (wedge watcher of the lock-step scenarios)

func runC02Lock(t *testing.T, cfg c02Cfg, streams []c02Stream, seed int64, choose func(step int, en []syAct) int) (steps []syStep, complete bool) {
	if syGuardSp != nil && !want(syGuardSp.idx) {
		return nil, false // a resumed run: this scenario is not wanted (it may be the one that wedged)
	}
	var ds []string
	for _, s := range streams {
		ds = append(ds, s.String())
	}
	wstep, wstop := syGuardSp.guard("c02-lock", map[string]any{"streams": ds, "topo": syTopos[cfg.topo], "byRef": cfg.byRef},
		[]string{"topo:" + syTopos[cfg.topo], "mode:lock-step"})
	defer wstop()
	syOnStep = wstep
	defer func() { syOnStep = nil }()
	bubble(t, func(t *testing.T) {
		r := newSyRig(cfg.topo, cfg.byRef, true)
		rng := rand.New(rand.NewSource(seed))
		for k, s := range streams {
			if s.H.Conc != 0 {
				r.dumpWait = true
			}
			r.hprogs[int64(k)] = s.H
			for _, p := range s.threads(k, rng) {
				r.addThread(p)
			}
		}
		steps, complete = r.runSchedule(choose, 20000)
		r.close()
		synctest.Wait()
	})
	return
}

// a random scheduler that leaves a thread parked at a yield point alone as long as something else can move
// (probability 1/8 of releasing it earlier): the windows stay open while the rest of the system runs
func lazyRelease(rng *rand.Rand) func(step int, en []syAct) int {
	return func(step int, en []syAct) int {
		var other []int
		for i, a := range en {
			if a.K != 'R' {
				other = append(other, i)
			}
		}
		if len(other) == 0 || (len(other) < len(en) && rng.Intn(8) == 0) {
			return rng.Intn(len(en))
		}
		return other[rng.Intn(len(other))]
	}
}

// syAwait waits for the goroutines of a free-running scenario. It returns true when they can never finish:
// every goroutine of the bubble is durably blocked or waits for a sync.Mutex (two identical pictures in a row),
// which is a wedge of the system under test (synctest alone cannot see a wedge that involves a mutex waiter).
func syAwait(wg *sync.WaitGroup) (wedged bool) {
	all := make(chan struct{})
	go func() { wg.Wait(); close(all) }()
	buf := make([]byte, 4<<20)
	prev, same := "", 0
	for spins := 0; ; spins++ {
		select {
		case <-all:
			return false
		default:
		}
		if spins%512 == 511 {
			n := runtime.Stack(buf, true)
			fp, quiet := syBubbleQuiet(string(buf[:n]))
			// several identical pictures in a row (more when a goroutine waits for a mutex whose holder may be about to
			// release it: on a heavily loaded machine two pictures were once identical in such an instant)
			if quiet && fp == prev {
				same++
				need := 5
				if strings.Contains(fp, "sync.Mutex.Lock") {
					need = 12
				}
				if same >= need {
					return true
				}
			} else if quiet {
				prev, same = fp, 0
			} else {
				prev, same = "", 0
			}
		}
		runtime.Gosched()
	}
}

// syQuiesce ends a scenario: synctest.Wait, or - after a wedge, when goroutines may still be waiting for a
// mutex - the dump-based detection of rest
func syQuiesce(wedged bool) {
	if !wedged {
		synctest.Wait()
		return
	}
	buf := make([]byte, 4<<20)
	prev, same := "", 0
	for spins := 0; spins < 400000; spins++ {
		if spins%256 == 255 {
			n := runtime.Stack(buf, true)
			fp, quiet := syBubbleQuiet(string(buf[:n]))
			if quiet && fp == prev {
				same++
				if same >= 5 {
					return
				}
			} else if quiet {
				prev, same = fp, 0
			} else {
				prev, same = "", 0
			}
		}
		runtime.Gosched()
	}
}

// simultaneous opens: in each of `rounds` rounds n goroutines leave the fail-fast check of NewStreamReadWriter at
// the same instant (spin barrier at the mux.checked hook) on ONE connection; every stream is half-closed at once
// and its handler returns nil without reading; the history of each round is one case
func runC02Opens(t *testing.T, rep, n, rounds int, byRef bool) (epochs [][]string, wedged bool) {
	old := runtime.GOMAXPROCS(16)
	defer runtime.GOMAXPROCS(old)
	bubble(t, func(t *testing.T) {
		r := newSyRig(0, byRef, false)
		var arrived, round atomic.Int64
		r.mu.Lock()
		r.yieldF = func(pt string) {
			if pt != "mux.checked" {
				return
			}
			arrived.Add(1)
			target := (round.Load() + 1) * int64(n)
			for arrived.Load() < target {
				runtime.Gosched()
			}
		}
		for k := 0; k < n*rounds; k++ {
			r.hprogs[int64(k)] = syHProg{J: 0, N: 0}
		}
		r.mu.Unlock()
		for rd := 0; rd < rounds && !wedged; rd++ {
			m := r.hist.mark()
			var wg sync.WaitGroup
			for g := 0; g < n; g++ {
				wg.Add(1)
				go func(k int64) {
					defer wg.Done()
					ctx, cancel := context.WithTimeout(r.ctx, 10*time.Minute) // virtual time
					defer cancel()
					cs, err := r.open(ctx, k, 2)
					if err != nil {
						return
					}
					r.closeSend(cs, k)
					for r.recv(cs, k) == nil {
					}
				}(int64(rd*n + g))
			}
			wedged = syAwait(&wg)
			if !wedged {
				synctest.Wait()
			}
			round.Add(1)
			epochs = append(epochs, r.hist.since(m))
		}
		r.close()
		syQuiesce(wedged)
	})
	return
}

// one free-running scenario: a goroutine per caller thread, no gating, seeded yields; a wedge ends it
func runC02FreeOnce(t *testing.T, topo int, byRef bool, procs int, yseed int64, streams []c02Stream, rng *rand.Rand) (evs []string, wedged bool) {
	old := runtime.GOMAXPROCS(procs)
	defer runtime.GOMAXPROCS(old)
	bubble(t, func(t *testing.T) {
		r := newSyRig(topo, byRef, false)
		r.mu.Lock()
		r.yieldF = syRandomYield(yseed)
		for k, s := range streams {
			r.hprogs[int64(k)] = s.H
		}
		r.mu.Unlock()
		var wg sync.WaitGroup
		for k, s := range streams {
			thr := s.threads(k, rng)
			// the first thread opens; a second one (if any) waits for the stream
			ready := make(chan struct{})
			for ti, prog := range thr {
				wg.Add(1)
				go func(ti int, prog []syCop) {
					defer wg.Done()
					if ti > 0 {
						<-ready
					}
					th := &syThread{prog: prog}
					for th.pc < len(th.prog) {
						if th.prog[th.pc].Op != "open" && r.slot(th.prog[th.pc].Slot) == nil {
							return // the open failed
						}
						wasOpen := th.prog[th.pc].Op == "open"
						r.exec(th)
						if wasOpen {
							close(ready)
						}
					}
				}(ti, prog)
			}
		}
		wedged = syAwait(&wg)
		if wedged && os.Getenv("SY_DEBUG") != "" {
			fmt.Fprintf(os.Stderr, "WEDGED free-running scenario: %v\n%s\n", streams, goroutineDump())
		}
		if !wedged {
			synctest.Wait()
		}
		evs = r.hist.since(0)
		r.close()
		syQuiesce(wedged)
	})
	return
}

func TestC02(t *testing.T) {
	syDebugWait = os.Getenv("SY_DEBUGW") != ""
	em := NewEmitter()
	defer em.Close()
	sp := &sySpread{em: em, every: 6}
	syGuardSp = sp
	defer func() { syGuardSp = nil }()

	// ---- C (run first, emitted spread). Free-running: a sender and a receiver goroutine per stream, no gating.
	type freeCfg struct{ procs, streams, maxN, topo int }
	frees := []freeCfg{{4, 4, 20, 0}, {16, 4, 20, 0}, {1, 4, 20, 0}, {16, 2, 20, 1}, {16, 4, 20, 2}, {16, 8, 20, 0}}
	if thorough() {
		frees = append(frees, freeCfg{16, 32, 50, 0}, freeCfg{4, 32, 50, 0}, freeCfg{16, 4, 200, 0}, freeCfg{16, 32, 20, 2})
	}
	reps := 4
	if thorough() {
		reps = 8
	}
	em.Marker("begin", 0)
	for fi, fc := range frees {
		for rep := 0; rep < reps; rep++ {
			rng := newRand(int64(700000 + 100*fi + rep))
			cfg := c02Cfg{fc.topo, rep%2 == 1}
			var streams []c02Stream
			for k := 0; k < fc.streams; k++ {
				s := genC02Stream(rng, fc.maxN)
				s.ParkR, s.ParkS = -1, -1
				if fc.topo == 1 && s.N > 4 {
					s.N = 4 // 2 streams x (open + 4 + half-close) stay below the proxy's 16-slot buffer: its overflow (finding D-16) is C16's business
				}
				if fc.topo == 1 && s.H.N > 4 {
					s.H.N = 4
				}
				if s.CProg == 1 {
					s.CProg = 2 // free-running: the concurrent program instead of the strict ping-pong
				}
				streams = append(streams, s)
			}
			evs, wedged := runC02FreeOnce(t, fc.topo, cfg.byRef, fc.procs, *flagSeed+int64(fi*100+rep), streams, rng)
			// complete unless an operation is still blocked: wg.Wait returned, so every caller-side operation returned;
			// handlers that never returned leave their receive open (judged by code 7)
			sp.big = append(sp.big, recC02("c02-free", cfg, streams, []syStep{{syAct{'F', 0}, evs}}, true, "mode:free-running", fmt.Sprintf("procs=%d", fc.procs), fmt.Sprintf("wedged=%v", wedged)))
		}
	}
	// ---- A6. full-duplex use over a link WITHOUT slack (goat's channel transport over unbuffered channels: a Write returns
	// when the peer has read), free-running under the wedge detection: (a) a concurrent handler (receiver goroutine +
	// pushing main goroutine) against a caller that sends everything before it starts receiving; (b) a caller with a
	// sender and a receiver goroutine against an echo handler; (c) both sides concurrent
	type duplexCfg struct {
		cprog, n int
		h        syHProg
	}
	var dups []duplexCfg
	for _, n := range []int{8, 20, 100} {
		dups = append(dups, duplexCfg{0, n, syHProg{Conc: 1, N: 5}}, duplexCfg{0, n, syHProg{Conc: 1, N: n}})
	}
	for _, n := range []int{20, 100} {
		dups = append(dups, duplexCfg{2, n, syHProg{J: -1, Echo: true, Ping: true}}, duplexCfg{2, n, syHProg{Conc: 1, N: n}})
	}
	for di, d := range dups {
		for rep := 0; rep < 2; rep++ {
			rng := newRand(int64(710000 + 10*di + rep))
			st := c02Stream{Kind: 2, N: d.n, CProg: d.cprog, ParkR: -1, ParkS: -1, H: d.h}
			st.H.Seed = int64(9100 + di)
			cfg := c02Cfg{3, true}
			procs := []int{16, 4}[rep]
			evs, wedged := runC02FreeOnce(t, 3, true, procs, *flagSeed+int64(5000+di*10+rep), []c02Stream{st}, rng)
			sp.big = append(sp.big, recC02("c02-duplex", cfg, []c02Stream{st}, []syStep{{syAct{'F', 0}, evs}}, true, "mode:free-running-no-slack", fmt.Sprintf("procs=%d", procs), fmt.Sprintf("wedged=%v", wedged)))
		}
	}
	// simultaneous opens (id allocation of streams)
	nopens := 8
	if thorough() {
		nopens = 12
	}
	for rep := 0; rep < nopens; rep++ {
		epochs, wedged := runC02Opens(t, rep, 64, 20, rep%2 == 1)
		cfg := c02Cfg{0, rep%2 == 1}
		for _, evs := range epochs {
			rec := recC02("c02-opens", cfg, nil, []syStep{{syAct{'F', 0}, evs}}, true, "mode:simultaneous-opens", fmt.Sprintf("wedged=%v", wedged))
			sp.big = append(sp.big, rec)
		}
	}
	em.Marker("end", 0)

	// ---- A. the EOF-vs-Canceled window (fixed by f59bee5) and its neighbours, directed: the terminal Recv (or a
	// Send) is parked after its done-check, everything else runs to completion, then the parked operation is released
	for kind := 0; kind < 3; kind++ {
		for _, n := range []int{0, 1, 2} {
			for hp := 0; hp < 3; hp++ {
				for _, parkSend := range []bool{false, true} {
					if parkSend && n == 0 {
						continue
					}
					s := c02Stream{Kind: kind, N: n, CProg: 0, ParkR: 0, ParkS: -1}
					switch hp {
					case 0:
						s.H = syHProg{J: -1, Echo: true, Ping: true}
					case 1:
						s.H = syHProg{J: 0, N: 2}
					case 2:
						s.H = syHProg{J: -1, Echo: true}
					}
					if parkSend {
						s.ParkR, s.ParkS = -1, n-1
					}
					s.H.Seed = int64(kind*100 + n*10 + hp)
					cfg := c02Cfg{0, (kind+n+hp)%2 == 1}
					steps, complete := runC02Lock(t, cfg, []c02Stream{s}, int64(kind*1000+n), func(step int, en []syAct) int {
						for i, a := range en {
							if a.K != 'R' {
								return i
							}
						}
						return 0
					})
					rec := recC02("c02-window", cfg, []c02Stream{s}, steps, complete, "mode:directed-yield")
					sp.small(&rec)
				}
			}
		}
	}

	// ---- A4. the stream's loop is parked at cs.loop.read before its first Read; the handler sends n messages and returns
	// nil, everything is delivered to the client's transport and the caller's receives are issued; then the loop is
	// released: the caller must get the n messages and io.EOF
	for kind := 1; kind < 3; kind++ {
		for _, n := range []int{0, 1, 2, 3} {
			s := c02Stream{Kind: kind, N: 0, CProg: 2, ParkR: -1, ParkS: -1, ParkL: true, H: syHProg{J: 0, N: n, Seed: int64(kind*10 + n)}}
			if kind == 2 {
				s.N, s.H = n, syHProg{J: -1, Echo: true, Seed: int64(kind*10 + n)}
			}
			cfg := c02Cfg{0, (kind+n)%2 == 1}
			steps, complete := runC02Lock(t, cfg, []c02Stream{s}, int64(7000+kind*100+n), func(step int, en []syAct) int {
				for i, a := range en {
					if a.K != 'R' {
						return i
					}
				}
				return 0
			})
			rec := recC02("c02-loop-parked", cfg, []c02Stream{s}, steps, complete, "mode:directed-yield")
			sp.small(&rec)
		}
	}

	// ---- A5. concurrent handlers (a receiver goroutine parked in RecvMsg while the main goroutine sends / returns):
	// push-while-receiving (the caller waits for the n pushes before it sends m messages and half-closes) and
	// return-while-receiving (the caller only receives: n pushes, then io.EOF). The receiver goroutine is stepped
	// first (it is inside RecvMsg when the sender starts), then everything else in canonical order.
	for kind := 1; kind < 3; kind++ {
		for _, n := range []int{0, 1, 2} {
			for conc := 1; conc <= 2; conc++ {
				s := c02Stream{Kind: kind, N: n % 2, CProg: 5, ParkR: -1, ParkS: -1, H: syHProg{Conc: conc, N: n, Seed: int64(900 + kind*10 + n)}}
				if conc == 2 {
					s.CProg, s.N = 4, 0
				}
				cfg := c02Cfg{0, (kind+n+conc)%2 == 1}
				steps, complete := runC02Lock(t, cfg, []c02Stream{s}, int64(8000+kind*100+n*10+conc), func(step int, en []syAct) int {
					for i, a := range en {
						if a.K == 'G' && a.N >= 1000 { // the receiver goroutine enters RecvMsg as soon as it can
							return i
						}
					}
					return 0
				})
				rec := recC02("c02-concurrent-handler", cfg, []c02Stream{s}, steps, complete, "mode:directed-concurrent-handler")
				sp.small(&rec)
			}
		}
	}

	// ---- A7. the Write of the i-th message delivers it and then reports a timeout (acknowledgement lost): the message may
	// arrive, once; the failed SendMsg tears the stream down
	for kind := 0; kind < 3; kind += 2 {
		for _, hp := range []syHProg{{J: -1, Echo: true, Ping: true}, {J: -1, Echo: true}, {J: 3, N: 1}} {
			for _, at := range []int{1, 3, 5} {
				s := c02Stream{Kind: kind, N: 5, CProg: 0, ParkR: -1, ParkS: -1, AckS: at, H: hp}
				s.H.Seed = int64(9500 + kind*10 + at)
				cfg := c02Cfg{0, (kind+at)%2 == 1}
				steps, complete := runC02Lock(t, cfg, []c02Stream{s}, int64(9500+kind*100+at), func(step int, en []syAct) int { return 0 })
				rec := recC02("c02-ack-lost", cfg, []c02Stream{s}, steps, complete, "mode:directed-fault")
				sp.small(&rec)
			}
		}
	}

	// ---- A2. a fault AFTER a successful completion must not turn it into a failure: the handler has returned nil and
	// every response (n messages + the OK trailer) has reached the client's transport; the caller, slow, has consumed p
	// of the messages; then the connection fails; the caller must still receive the remaining messages and io.EOF
	for kind := 0; kind < 3; kind++ {
		for n := 0; n <= 3; n++ {
			for p := 0; p <= n; p++ {
				st := c02Stream{Kind: kind, N: 0, CProg: 2, ParkR: -1, ParkS: -1, H: syHProg{J: 0, N: n, Seed: int64(kind*10 + n)}}
				cfg := c02Cfg{0, (kind+n+p)%2 == 1}
				recvd, failed := 0, false
				steps, complete := runC02Lock(t, cfg, []c02Stream{st}, int64(5000+kind*100+n*10+p), func(step int, en []syAct) int {
					// thread 0 opens and half-closes, thread 1 receives; everything but the receiver runs first
					for i, a := range en {
						if !(a.K == 'U' && a.N == 1) {
							return i
						}
					}
					if recvd < p {
						recvd++
						return 0
					}
					if !failed {
						failed = true
						return -2 // inject the failure now
					}
					return 0
				})
				rec := recC02("c02-fail-after-success", cfg, []c02Stream{st}, steps, complete, "mode:directed-fault", fmt.Sprintf("unread=%d", n+1-p))
				sp.small(&rec)
			}
		}
	}

	// ---- A3. a SendMsg parked in a blocked transport Write while the handler returns nil and the OK trailer is processed:
	// the stream completed successfully, the receiver must see io.EOF (the parked SendMsg itself may fail)
	for kind := 0; kind < 3; kind++ {
		for _, nb := range []int{0, 1, 2} {
			st := c02Stream{Kind: kind, N: 1, CProg: 2, ParkR: -1, ParkS: -1, H: syHProg{J: 0, N: nb, Seed: int64(kind*10 + nb)}}
			cfg := c02Cfg{0, (kind+nb)%2 == 1}
			phase := 0
			steps, complete := runC02Lock(t, cfg, []c02Stream{st}, int64(6000+kind*10+nb), func(step int, en []syAct) int {
				switch phase {
				case 0: // open (thread 0's first operation), then block the transport
					phase = 1
					return 0
				case 1:
					phase = 2
					return -3 // block writes
				case 2: // the sender enters SendMsg and parks in Write
					phase = 3
					for i, a := range en {
						if a.K == 'U' && a.N == 0 {
							return i
						}
					}
				case 3: // everything else except the receiver: handler runs and returns, responses are delivered and processed
					for i, a := range en {
						if a.K != 'U' {
							return i
						}
					}
					phase = 4
					return -4 // unblock writes
				}
				return 0
			})
			rec := recC02("c02-blocked-send", cfg, []c02Stream{st}, steps, complete, "mode:directed-backpressure")
			sp.small(&rec)
		}
	}

	// ---- B. seeded random lock-step schedules: 1..4 concurrent streams, all kinds / counts / programs / yields
	nrand := 260
	maxN := 20
	if thorough() {
		// 900 (was 2000 in round 1): since round 2 about half of the random cases contain a concurrent handler and find
		// their quiescence by goroutine dumps at every step, which is several times slower than synctest.Wait
		nrand = 900
		maxN = 200
	}
	for i := 0; i < nrand; i++ {
		if !want(sp.idx) {
			sp.small(nil)
			continue
		}
		rng := newRand(int64(300000 + i))
		cfg := c02Cfg{0, i%2 == 1}
		if i%5 == 3 {
			cfg.topo = 1
		}
		if i%5 == 4 {
			cfg.topo = 2
		}
		ns := 1 + rng.Intn(4)
		if thorough() && i%50 == 0 {
			ns = 32
		}
		var streams []c02Stream
		for k := 0; k < ns; k++ {
			s := genC02Stream(rng, maxN)
			if ns > 4 && s.N > 20 {
				s.N = 20
			}
			if cfg.topo == 1 && s.N > 5 {
				s.N = 5
			}
			if cfg.topo == 1 && s.H.N > 5 {
				s.H.N = 5
			}
			streams = append(streams, s)
		}
		steps, complete := runC02Lock(t, cfg, streams, int64(i), lazyRelease(rng))
		rec := recC02("c02-random", cfg, streams, steps, complete, "mode:random-lockstep")
		sp.small(&rec)
	}
	sp.flush()
}

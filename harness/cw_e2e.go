//go:build cw

package verifharness

// End-to-end lock-step rig of work package "cw" (C06, C07, C11): the real
// client - two held FIFO wires (Link) - the real server, all in one synctest
// bubble. User programs and handler programs are data; one schedule action at
// a time, synctest.Wait(), snapshot. Three modes: "e2e" (client + server),
// "client" (real client against a scripted peer: steps "peer"), "server"
// (real server against a scripted client: steps "cli").
//
// Per case the rig emits: the client-side projection of the run as actions of
// Model/Client.v with the client's observations (judged by the lock-step
// agreement of Check/ClientC.v), the handler/server observations after every
// step and the complete wire histories of both directions (judged by the spec
// predicates of Check/CwC.v).

import (
	"context"
	"encoding/json"
	"errors"
	"fmt"
	"io"
	"os"
	"os/exec"
	"runtime"
	"sort"
	"strconv"
	"strings"
	"sync"
	"testing"
	"testing/synctest"
	"time"

	goat "github.com/avos-io/goat"
	"github.com/avos-io/goat/gen/goatorepo"
	"github.com/avos-io/goat/internal"
	"github.com/avos-io/goat/internal/verifhook"
	"golang.org/x/sync/errgroup"
	"google.golang.org/grpc"
	"google.golang.org/grpc/codes"
	"google.golang.org/grpc/metadata"
	"google.golang.org/grpc/stats"
	"google.golang.org/grpc/status"
	"google.golang.org/protobuf/proto"
	"google.golang.org/protobuf/types/known/wrapperspb"
)

// ---------------------------------------------------------------- scenario

type HOp struct {
	Op   string `json:"op"`             // recv | send | sendheader | setheader | settrailer | await | return
	B    int64  `json:"b,omitempty"`    // payload / metadata token
	Code int    `json:"code,omitempty"` // return: status code (0 = nil error)
	Msg  int64  `json:"msg,omitempty"`  // return: status message token
	Ctx  bool   `json:"ctx,omitempty"`  // return: the handler context's error
	Raw  string `json:"raw,omitempty"`  // return: a raw error of the handler's own making: canceled | deadline | plain | eof
	Hold string `json:"hold,omitempty"` // return: where the return path is held until the step "hrelease": "trailer" (in the stats handler's OutTrailer event: handler returned, trailer not yet handed to the writer) | "post" (in the stream interceptor, after the handler function has returned)
}

type Step struct {
	Op   string   `json:"op"` // open unary send recv closesend header trailer cancel tick h hu c2s s2c peer cli dup srvstop
	C    int      `json:"c,omitempty"`
	Kind string   `json:"kind,omitempty"` // open: CStream | SStream | Bidi
	B    int64    `json:"b,omitempty"`
	D    int64    `json:"d,omitempty"`    // open/unary: deadline in ms (0 = none); tick: ms
	Gate bool     `json:"gate,omitempty"` // unary: the server handler waits for "hu"
	Ctx  string   `json:"ctxk,omitempty"` // open/unary: the kind of caller context (see newCtx)
	Deaf bool     `json:"deaf,omitempty"` // unary / cli with gate: the gated server method ignores its context
	At   string   `json:"at,omitempty"`   // open: the caller's context ends INSIDE NewStream's transport Write: "after-write" (cancelled right after the transport accepted the opener) | "after-write-deadline" (the deadline D passes there) | "blocked" (the Write is held up, the caller cancels, the Write is released)
	H    *HOp     `json:"h,omitempty"`
	Env  *EnvSpec `json:"env,omitempty"` // peer / cli: scripted envelope (Call = index of the call whose id it carries)
	M    string   `json:"m,omitempty"`   // cli: method of the scripted envelope
}

type cwScenario struct {
	Mode  string   `json:"mode"` // e2e | client | server
	Steps []Step   `json:"steps"`
	Tags  []string `json:"tags,omitempty"`
	// what the property check is told about the scenario
	Cancel int `json:"cancel_at,omitempty"`
}

// ---------------------------------------------------------------- rig state

type cwHandler struct {
	c        int
	cmd      chan HOp
	ctx      context.Context
	busy     bool
	returned bool
}

type cwCtxKey struct{}

type cwRig struct {
	t    *testing.T
	mode string
	link *Link
	cc   *goat.ClientConn
	srv  *goat.Server

	mu            sync.Mutex
	sendWFailed   map[int]bool         // calls with an operation that failed with a transport write error (see classFor)
	keepAlive     []context.CancelFunc // cancel functions of inner contexts (released when the scenario is over)
	urun          int                  // unary handler invocations that have not returned
	udeaf         map[int64]bool       // gated unary handlers that ignore their context
	wireMu        sync.Mutex
	c2sWire       []*Rpc        // the client\'s envelopes in the order they were put on the wire
	holdTrailer   chan struct{} // non-nil: the next OutTrailer stats event waits for it
	holdPost      chan struct{} // non-nil: the stream interceptor waits for it after the next handler return
	held          []chan struct{}
	onWriteCancel int           // >= 0: the call whose context is cancelled inside the next client Write
	onWriteGate   chan struct{} // non-nil: the next client Write returns only when the gate is closed
	events        []string      // client API events since the last snapshot
	hevents       []string      // handler events since the last snapshot
	pend          map[string]bool
	ctxs          []context.Context
	cancels       []context.CancelFunc
	deadline      []time.Time // zero = none
	expired       []bool
	strs          []grpc.ClientStream
	kinds         []string
	ids           map[int]uint64
	payloads      []int64
	nCalls        int
	handlers      map[int]*cwHandler
	ugates        map[int64]chan struct{}
	serveRet      bool
	// the stream loop held at the yield point cs.loop.read
	loopArmed bool
	loopGate  chan struct{}
	// scripted client (server mode): what it sent
	cliSent []*Rpc
	nCli    int
}

func (r *cwRig) ev(s string) {
	r.mu.Lock()
	r.events = append(r.events, s)
	r.mu.Unlock()
}

func (r *cwRig) hev(s string) {
	r.mu.Lock()
	r.hevents = append(r.hevents, s)
	r.mu.Unlock()
}

func (r *cwRig) setPending(k string, on bool) {
	r.mu.Lock()
	if on {
		r.pend[k] = true
	} else {
		delete(r.pend, k)
	}
	r.mu.Unlock()
}

func (r *cwRig) isPending(k string) bool {
	r.mu.Lock()
	defer r.mu.Unlock()
	return r.pend[k]
}

func (r *cwRig) stream(c int) grpc.ClientStream {
	r.mu.Lock()
	defer r.mu.Unlock()
	if c < 0 || c >= len(r.strs) {
		return nil
	}
	return r.strs[c]
}

func (r *cwRig) handler(c int) *cwHandler {
	r.mu.Lock()
	defer r.mu.Unlock()
	return r.handlers[c]
}

var kindDesc = map[string]*grpc.StreamDesc{"CStream": descCStream, "SStream": descSStream, "Bidi": descBidi}

func herrClass(err error) string {
	if err == nil {
		return "HNil"
	}
	if err == io.EOF {
		return "HEof"
	}
	msg := err.Error()
	switch {
	case strings.Contains(msg, "context canceled"):
		return "HCanceled"
	case strings.Contains(msg, "context deadline exceeded"):
		return "HDeadline"
	case strings.Contains(msg, "headers already sent"):
		return "HHdrSent"
	}
	if st, ok := status.FromError(err); ok {
		return fmt.Sprintf("(HStatus %d)", st.Code())
	}
	return "HOther"
}

// the stream handler: an interpreter of HOp commands, one per "h" step
func (r *cwRig) streamHandler(kind string, s grpc.ServerStream) error {
	c := -1
	if md, ok := metadata.FromIncomingContext(s.Context()); ok {
		if v := md.Get("call"); len(v) == 1 {
			c, _ = strconv.Atoi(v[0])
		}
	}
	h := &cwHandler{c: c, cmd: make(chan HOp), ctx: s.Context()}
	cz := coqZ(int64(c))
	r.mu.Lock()
	_, dup := r.handlers[c]
	stray := dup || c < 0
	if stray {
		// an invocation no program was written for (a second handler on an id, an envelope without call index):
		// the empty program - it returns at once
		h.returned = true
		r.handlers[1000+len(r.handlers)] = h
	} else {
		r.handlers[c] = h
	}
	r.mu.Unlock()
	r.hev(fmt.Sprintf("HStarted %s", cz))
	if stray {
		r.hev(fmt.Sprintf("HReturn %s", cz))
		return nil
	}
	for {
		op, ok := <-h.cmd
		if !ok {
			r.mu.Lock()
			h.returned = true
			r.mu.Unlock()
			return nil
		}
		switch op.Op {
		case "recv":
			var m wrapperspb.BytesValue
			err := s.RecvMsg(&m)
			if err == nil {
				r.hev(fmt.Sprintf("HRecv %s (HMsg %s)", cz, coqZ(tokenOf(m.Value))))
			} else {
				r.hev(fmt.Sprintf("HRecv %s (HErr %s)", cz, herrClass(err)))
			}
		case "send":
			var err error
			if op.B < 0 {
				// a message the codec rejects: Marshal fails before anything is written
				err = s.SendMsg("not a protobuf message")
			} else {
				err = s.SendMsg(bv(payloadOf(op.B)))
			}
			r.hev(fmt.Sprintf("HSend %s %s", cz, herrClass(err)))
		case "sendheader":
			err := s.SendHeader(mdMD(op.B))
			r.hev(fmt.Sprintf("HSendHeader %s %s", cz, herrClass(err)))
		case "setheader":
			err := s.SetHeader(mdMD(op.B))
			r.hev(fmt.Sprintf("HSetHeader %s %s", cz, herrClass(err)))
		case "settrailer":
			s.SetTrailer(mdMD(op.B))
			r.hev(fmt.Sprintf("HSetTrailer %s", cz))
		case "await":
			<-s.Context().Done()
			r.hev(fmt.Sprintf("HAwaited %s", cz))
		case "return":
			var err error
			if op.Ctx {
				err = s.Context().Err()
			} else if op.Raw != "" {
				err = map[string]error{"canceled": context.Canceled, "deadline": context.DeadlineExceeded,
					"plain": fmt.Errorf("plain failure"), "eof": io.EOF}[op.Raw]
			} else if op.Code != 0 {
				err = status.Error(codes.Code(op.Code), fmt.Sprintf("m%d", op.Msg))
			}
			r.mu.Lock()
			h.returned = true
			h.busy = false
			r.mu.Unlock()
			r.hev(fmt.Sprintf("HReturn %s", cz))
			return err
		}
		r.mu.Lock()
		h.busy = false
		r.mu.Unlock()
	}
}

// mdMD: the metadata of a token. Tokens 9001.. are value / key classes a stricter library (grpc-go's metadata
// validation) would refuse; goat carries keys and values as opaque strings, so none of them may cost an envelope.
func mdMD(tok int64) metadata.MD {
	switch tok {
	case 0:
		return metadata.MD{}
	case 9001:
		return metadata.MD{"k9001": {"r\u00e9sum\u00e9 re\u00e7u"}} // non-ASCII UTF-8
	case 9002:
		return metadata.MD{"k9002": {"a\tb\nc"}} // control characters
	case 9003:
		return metadata.MD{"Upper-Key": {"v9003"}} // an upper-case key (metadata.Pairs would lower it)
	case 9004:
		return metadata.MD{"": {"v9004"}} // the empty key
	case 9005:
		// illegal key characters, DEL, an empty value (NOT invalid UTF-8: no protobuf transport can carry that in a string
		// field - the rig's own wire panics in proto.Marshal -, which is a transport failure, another regime)
		return metadata.MD{"k 9005!": {"\x7f"}, "k9005": {""}}
	}
	return metadata.Pairs(fmt.Sprintf("k%d", tok), fmt.Sprintf("v%d", tok))
}

var mdClasses = []int64{5, 9001, 9002, 9003, 9004, 9005}

func (r *cwRig) unaryHandler(ctx context.Context, req []byte) ([]byte, bool, error) {
	tok := tokenOf(req)
	r.mu.Lock()
	g := r.ugates[tok]
	deaf := r.udeaf[tok]
	r.urun++
	r.mu.Unlock()
	defer func() {
		r.mu.Lock()
		r.urun--
		r.mu.Unlock()
	}()
	if g != nil && deaf {
		// a method that ignores its context: it outlives the call's deadline and answers when it is done
		<-g
	} else if g != nil {
		select {
		case <-g:
		case <-ctx.Done():
			return nil, false, ctx.Err()
		}
	}
	return req, true, nil
}

// ---------------------------------------------------------------- one step on the real code

// errCallerCause / errCallerDeadlineCause: the causes recorded by the cause-carrying caller contexts. No operation of
// the client may report them in place of the Canceled / DeadlineExceeded status.
var errCallerCause = errors.New("caller gave up: batch superseded")
var errCallerDeadlineCause = errors.New("caller budget exhausted")

// newCtx: the context of call c, built with the real constructors of package context; kind selects which:
//
//	"" | "cancel"   WithCancel (+ WithDeadline when d > 0)
//	"timeout"       WithCancel + WithTimeout(d)
//	"cause"         WithCancelCause, cancelled with errCallerCause (+ WithDeadlineCause when d > 0)
//	"timeoutcause"  WithCancelCause + WithTimeoutCause(d, errCallerDeadlineCause)
//	"parent"        a WithCancel child (with a value) of the context that is cancelled / carries the deadline
//	"errgroup"      the context of an errgroup.Group: cancelled when a goroutine of the group returns an error
//	"grandparent"   a child of a child of a cause-carrying context
func (r *cwRig) newCtx(c int, d int64, withCall bool, kind string) context.Context {
	var ctx context.Context
	var cancel context.CancelFunc
	var dl time.Time
	dur := time.Duration(d) * time.Millisecond
	if d > 0 {
		dl = time.Now().Add(dur)
	}
	keep := func(f context.CancelFunc) { r.keepAlive = append(r.keepAlive, f) }
	switch kind {
	case "", "cancel":
		ctx, cancel = context.WithCancel(context.Background())
		if d > 0 {
			var c2 context.CancelFunc
			ctx, c2 = context.WithDeadline(ctx, dl)
			keep(c2)
		}
	case "timeout":
		ctx, cancel = context.WithCancel(context.Background())
		if d > 0 {
			var c2 context.CancelFunc
			ctx, c2 = context.WithTimeout(ctx, dur)
			keep(c2)
		}
	case "cause", "grandparent":
		c1, cc := context.WithCancelCause(context.Background())
		ctx, cancel = c1, func() { cc(errCallerCause) }
		if d > 0 {
			var c2 context.CancelFunc
			ctx, c2 = context.WithDeadlineCause(ctx, dl, errCallerDeadlineCause)
			keep(c2)
		}
		if kind == "grandparent" {
			mid, c2 := context.WithCancel(ctx)
			keep(c2)
			var c3 context.CancelFunc
			ctx, c3 = context.WithCancel(context.WithValue(mid, cwCtxKey{}, c))
			keep(c3)
		}
	case "timeoutcause":
		c1, cc := context.WithCancelCause(context.Background())
		ctx, cancel = c1, func() { cc(errCallerCause) }
		if d > 0 {
			var c2 context.CancelFunc
			ctx, c2 = context.WithTimeoutCause(ctx, dur, errCallerDeadlineCause)
			keep(c2)
		}
	case "parent":
		var parent context.Context
		parent, cancel = context.WithCancel(context.Background())
		if d > 0 {
			var c2 context.CancelFunc
			parent, c2 = context.WithDeadline(parent, dl)
			keep(c2)
		}
		var c3 context.CancelFunc
		ctx, c3 = context.WithCancel(context.WithValue(parent, cwCtxKey{}, c))
		keep(c3)
	case "errgroup":
		base := context.Background()
		if d > 0 {
			var c2 context.CancelFunc
			base, c2 = context.WithDeadline(base, dl)
			keep(c2)
		}
		g, gctx := errgroup.WithContext(base)
		trigger := make(chan struct{})
		g.Go(func() error {
			select {
			case <-trigger:
				return errCallerCause
			case <-gctx.Done():
				return gctx.Err()
			}
		})
		var once sync.Once
		ctx, cancel = gctx, func() { once.Do(func() { close(trigger) }) }
	default:
		panic("cw: unknown context kind " + kind)
	}
	if withCall {
		ctx = metadata.AppendToOutgoingContext(ctx, "call", strconv.Itoa(c))
	}
	r.ctxs = append(r.ctxs, ctx)
	r.cancels = append(r.cancels, cancel)
	r.deadline = append(r.deadline, dl)
	r.expired = append(r.expired, false)
	return ctx
}

// do performs one step; it returns the Client.v actions the step stands for.
func (r *cwRig) do(a Step) []string {
	switch a.Op {
	case "unary":
		c := r.nCalls
		r.nCalls++
		ctx := r.newCtx(c, a.D, false, a.Ctx)
		r.strs = append(r.strs, nil)
		r.kinds = append(r.kinds, "unary")
		r.payloads = append(r.payloads, a.B)
		if a.Gate {
			r.mu.Lock()
			r.ugates[a.B] = make(chan struct{})
			if a.Deaf {
				if r.udeaf == nil {
					r.udeaf = map[int64]bool{}
				}
				r.udeaf[a.B] = true
			}
			r.mu.Unlock()
		}
		k := fmt.Sprintf("(%d, 0)", c)
		r.setPending(k, true)
		b := a.B
		go func() {
			var out wrapperspb.BytesValue
			err := r.cc.Invoke(ctx, "/verif.Echo/Unary", bv(payloadOf(b)), &out)
			if err == nil {
				r.ev(fmt.Sprintf("EvUnaryRet %d (UOk %s)", c, coqZ(tokenOf(out.Value))))
			} else {
				r.ev(fmt.Sprintf("EvUnaryRet %d (UErr %s)", c, classOf(err)))
			}
			r.setPending(k, false)
		}()
		return []string{fmt.Sprintf("ANewUnary %s false", coqZ(a.B))}
	case "open":
		c := r.nCalls
		r.nCalls++
		ctx := r.newCtx(c, a.D, true, a.Ctx)
		r.strs = append(r.strs, nil)
		r.kinds = append(r.kinds, a.Kind)
		r.payloads = append(r.payloads, 0)
		k := fmt.Sprintf("(%d, 0)", c)
		r.setPending(k, true)
		kind := a.Kind
		var gate chan struct{}
		switch a.At {
		case "after-write":
			r.mu.Lock()
			r.onWriteCancel = c
			r.mu.Unlock()
		case "after-write-deadline":
			r.mu.Lock()
			r.onWriteGate = make(chan struct{})
			gate = r.onWriteGate
			r.mu.Unlock()
		case "blocked", "blocked-deadline":
			r.link.C.BlockWrites()
		}
		go func() {
			desc, method := kindDesc[kind], "/verif.Echo/"+kind
			switch kind {
			case "Missing": // a method the server has not registered (a client built against a newer service)
				desc, method = descBidi, "/verif.Echo/Missing"
			case "NoService": // a service the server does not know
				desc, method = descBidi, "/verif.Nobody/Bidi"
			}
			cs, err := r.cc.NewStream(ctx, desc, method)
			r.mu.Lock()
			r.strs[c] = cs
			r.mu.Unlock()
			r.ev(fmt.Sprintf("EvOpenRet %d %s", c, optErr(err)))
			r.setPending(k, false)
		}()
		switch a.At {
		case "after-write":
			return []string{"ANewStream false", fmt.Sprintf("ACancel %d", c)}
		case "after-write-deadline":
			// the transport has accepted the opener, its Write has not returned: the deadline passes
			synctest.Wait()
			time.Sleep(time.Duration(a.D)*time.Millisecond + time.Millisecond)
			r.expired[c] = true
			close(gate)
			return []string{"ANewStream false", fmt.Sprintf("AExpire %d", c)}
		case "blocked":
			synctest.Wait()
			r.cancels[c]()
			synctest.Wait()
			r.link.C.UnblockWrites()
			return []string{"ANewStream false", fmt.Sprintf("ACancel %d", c)}
		case "blocked-deadline":
			// NewStream is parked in the opener's Write (back-pressure) when the caller's deadline passes; then released
			synctest.Wait()
			time.Sleep(time.Duration(a.D)*time.Millisecond + time.Millisecond)
			r.expired[c] = true
			synctest.Wait()
			r.link.C.UnblockWrites()
			return []string{"ANewStream false", fmt.Sprintf("AExpire %d", c)}
		}
		return []string{"ANewStream false"}
	case "recv":
		cs := r.stream(a.C)
		k := fmt.Sprintf("(%d, 1)", a.C)
		if cs == nil || r.isPending(k) {
			return nil
		}
		r.setPending(k, true)
		c := a.C
		go func() {
			var m wrapperspb.BytesValue
			err := func() (err error) {
				defer func() {
					if p := recover(); p != nil {
						err = errPanicked
					}
				}()
				return cs.RecvMsg(&m)
			}()
			if err == errPanicked {
				r.ev(fmt.Sprintf("EvPanic %d", c))
			} else if err == nil {
				r.ev(fmt.Sprintf("EvRecvRet %d (RMsg %s)", c, coqZ(tokenOf(m.Value))))
			} else {
				r.ev(fmt.Sprintf("EvRecvRet %d (RErr %s)", c, r.classAfter(c, err)))
			}
			r.setPending(k, false)
		}()
		return []string{fmt.Sprintf("ARecv %d false", a.C)}
	case "send":
		cs := r.stream(a.C)
		k := fmt.Sprintf("(%d, 2)", a.C)
		if cs == nil || r.isPending(k) {
			return nil
		}
		r.setPending(k, true)
		c, b := a.C, a.B
		go func() {
			var err error
			if b < 0 {
				// a message the codec rejects: Marshal fails before anything is written
				err = cs.SendMsg("not a protobuf message")
			} else {
				err = cs.SendMsg(bv(payloadOf(b)))
			}
			r.ev(fmt.Sprintf("EvSendRet %d %s", c, r.optErrFor(c, err)))
			r.setPending(k, false)
		}()
		return []string{fmt.Sprintf("ASend %d %s", a.C, coqZ(a.B))}
	case "closesend":
		cs := r.stream(a.C)
		k := fmt.Sprintf("(%d, 2)", a.C)
		if cs == nil || r.isPending(k) {
			return nil
		}
		r.setPending(k, true)
		c := a.C
		go func() {
			err := cs.CloseSend()
			r.ev(fmt.Sprintf("EvCloseSendRet %d %s", c, r.optErrFor(c, err)))
			r.setPending(k, false)
		}()
		return []string{fmt.Sprintf("ACloseSend %d", a.C)}
	case "header":
		cs := r.stream(a.C)
		k := fmt.Sprintf("(%d, 3)", a.C)
		if cs == nil || r.isPending(k) {
			return nil
		}
		r.setPending(k, true)
		c := a.C
		go func() {
			md, err := cs.Header()
			if err != nil {
				r.ev(fmt.Sprintf("EvHeaderRet %d (inr %s)", c, r.classAfter(c, err)))
			} else {
				r.ev(fmt.Sprintf("EvHeaderRet %d (inl (MdOk %s))", c, coqZ(mdTokenOf(md))))
			}
			r.setPending(k, false)
		}()
		return []string{fmt.Sprintf("AHeader %d", a.C)}
	case "trailer":
		cs := r.stream(a.C)
		k := fmt.Sprintf("(%d, 4)", a.C)
		if cs == nil || r.isPending(k) {
			return nil
		}
		r.setPending(k, true)
		c := a.C
		go func() {
			md := cs.Trailer()
			if md == nil {
				r.ev(fmt.Sprintf("EvTrailerRet %d None", c))
			} else {
				r.ev(fmt.Sprintf("EvTrailerRet %d (Some %s)", c, coqZ(mdTokenOf(md))))
			}
			r.setPending(k, false)
		}()
		return []string{fmt.Sprintf("ATrailer %d", a.C)}
	case "cancel":
		if a.C < len(r.cancels) {
			r.cancels[a.C]()
			return []string{fmt.Sprintf("ACancel %d", a.C)}
		}
		return nil
	case "cancelunblock":
		// the client's transport takes no Write (step "cblock" before: a SendMsg may be parked in it); the caller cancels
		// (D > 0: the virtual clock advances by D ms instead, deadlines expire) and THEN the back-pressure ends, all in one
		// step: at the quiescent point the parked operation has returned and the reset is on the wire
		var acts []string
		if a.D > 0 {
			time.Sleep(time.Duration(a.D) * time.Millisecond)
			now := time.Now()
			for c := range r.deadline {
				if !r.deadline[c].IsZero() && !r.expired[c] && !now.Before(r.deadline[c]) {
					r.expired[c] = true
					acts = append(acts, fmt.Sprintf("AExpire %d", c))
				}
			}
		} else if a.C < len(r.cancels) {
			r.cancels[a.C]()
			acts = append(acts, fmt.Sprintf("ACancel %d", a.C))
		}
		synctest.Wait()
		r.link.C.UnblockWrites()
		return acts
	case "cancelall":
		// every stream call opened so far is cancelled, back to back without yielding (as under one cancelled parent);
		// B != 0: while the client's transport takes no Write, which is released afterwards within the step
		if a.B != 0 {
			r.link.C.BlockWrites()
		}
		var acts []string
		for c := 0; c < len(r.cancels) && c < len(r.kinds); c++ {
			if r.kinds[c] != "unary" {
				r.cancels[c]()
				acts = append(acts, fmt.Sprintf("ACancel %d", c))
			}
		}
		if a.B != 0 {
			synctest.Wait()
			r.link.C.UnblockWrites()
		}
		return acts
	case "cancelblk":
		// the caller cancels while the client's transport accepts no Write: the teardown's RST_STREAM Write blocks until
		// its own 30 s deadline and then fails (back-pressure, then a per-message failure); afterwards Writes work again.
		// For the model: a cancellation whose reset Write is refused.
		if a.C >= len(r.cancels) {
			return nil
		}
		// D: how far the virtual clock advances (default: just past the Write's 30 s bound); B != 0: the back-pressure
		// on the client's Writes stays (the scenario performs no client Write afterwards).
		r.link.C.BlockWrites()
		r.cancels[a.C]()
		if a.D > 0 {
			time.Sleep(time.Duration(a.D) * time.Millisecond)
		} else {
			time.Sleep(30*time.Second + time.Millisecond)
		}
		if a.B == 0 {
			r.link.C.UnblockWrites()
		}
		if a.D > 0 && a.D < 30000 && a.B == 0 {
			// released BEFORE the Write's 30 s bound: the reset is written after all: for the model a plain cancellation
			return []string{fmt.Sprintf("ACancel %d", a.C)}
		}
		// (the generators follow this step with "wfail 0": the model's transport accepts Writes again)
		return []string{"ASetWriteFail true", fmt.Sprintf("ACancel %d", a.C)}
	case "holdloop":
		// the next time a stream loop is about to re-enter its Read it is held (yield point cs.loop.read)
		r.mu.Lock()
		r.loopArmed = true
		r.loopGate = make(chan struct{})
		r.mu.Unlock()
		return nil
	case "cancelsendf":
		// D-07s, forced: with the loop held before its Read, the caller cancels and calls SendMsg (which observes the
		// cancelled context and tears the registration down); only then the loop enters Read
		cs := r.stream(a.C)
		if cs == nil || a.C >= len(r.cancels) {
			return nil
		}
		r.cancels[a.C]()
		err := cs.SendMsg(bv(payloadOf(a.B)))
		r.ev(fmt.Sprintf("EvSendRet %d %s", a.C, r.optErrFor(a.C, err)))
		r.mu.Lock()
		g := r.loopGate
		r.loopGate = nil
		r.mu.Unlock()
		if g != nil {
			close(g)
		}
		return []string{fmt.Sprintf("ACancel %d", a.C), fmt.Sprintf("ASend %d %s", a.C, coqZ(a.B))}
	case "cancelsend":
		// the caller cancels and, without yielding, calls SendMsg: the send may observe the cancelled context and tear
		// the registration down before the stream loop has noticed the cancellation (witness of C07_recv_refuted)
		cs := r.stream(a.C)
		if cs == nil || a.C >= len(r.cancels) {
			return nil
		}
		r.cancels[a.C]()
		err := cs.SendMsg(bv(payloadOf(a.B)))
		r.ev(fmt.Sprintf("EvSendRet %d %s", a.C, r.optErrFor(a.C, err)))
		return []string{fmt.Sprintf("ACancel %d", a.C), fmt.Sprintf("ASend %d %s", a.C, coqZ(a.B))}
	case "tick":
		time.Sleep(time.Duration(a.D) * time.Millisecond)
		var acts []string
		now := time.Now()
		for c := range r.deadline {
			if !r.deadline[c].IsZero() && !r.expired[c] && !now.Before(r.deadline[c]) {
				r.expired[c] = true
				acts = append(acts, fmt.Sprintf("AExpire %d", c))
			}
		}
		return acts
	case "h":
		h := r.handler(a.C)
		if h == nil {
			return nil
		}
		r.mu.Lock()
		ok := !h.busy && !h.returned
		if ok {
			h.busy = true
		}
		r.mu.Unlock()
		if ok {
			if a.H.Hold != "" {
				g := make(chan struct{})
				r.mu.Lock()
				if a.H.Hold == "trailer" {
					r.holdTrailer = g
				} else {
					r.holdPost = g
				}
				r.held = append(r.held, g)
				r.mu.Unlock()
			}
			h.cmd <- *a.H
		}
		return nil
	case "hrelease":
		// the held return path goes on: the trailer is handed to the writer
		r.releaseHeld()
		return nil
	case "hu":
		r.mu.Lock()
		g := r.ugates[a.B]
		delete(r.ugates, a.B)
		r.mu.Unlock()
		if g != nil {
			close(g)
		}
		return nil
	case "c2s":
		r.link.StepC2S()
		return nil
	case "s2c":
		// the envelope handed to the client's transport is an action of the client model
		r.link.mu.Lock()
		var e *Rpc
		if len(r.link.s2c) > 0 {
			e = r.link.s2c[0]
		}
		r.link.mu.Unlock()
		if e == nil {
			return nil
		}
		r.link.StepS2C()
		return []string{"ADeliver " + envCoqOfRpc(e)}
	case "dup":
		// the peer repeats the last envelope it sent to the client (a peer that sends more than expected)
		ws := r.link.S.WrittenCopy()
		if len(ws) == 0 {
			return nil
		}
		e := clone(ws[len(ws)-1])
		r.link.C.Deliver(e)
		return []string{"ADeliver " + envCoqOfRpc(e)}
	case "peer":
		id := uint64(9999)
		method := "/verif.Echo/Unary"
		if a.Env.Call >= 0 {
			if v, ok := r.ids[a.Env.Call]; ok {
				id = v
				if a.Env.Call < len(r.kinds) && r.kinds[a.Env.Call] != "unary" {
					method = "/verif.Echo/" + r.kinds[a.Env.Call]
				}
			}
		}
		e := a.Env.build(id, method)
		r.link.C.Deliver(e)
		acts := []string{"ADeliver " + envCoqOfRpc(e)}
		// B > 1: a burst: B copies handed to the client's transport back to back, without yielding in between
		for i := int64(1); i < a.B; i++ {
			e2 := clone(e)
			r.link.C.Deliver(e2)
			acts = append(acts, "ADeliver "+envCoqOfRpc(e2))
		}
		return acts
	case "cli":
		// scripted client envelope for the server: Call = scripted call index (id = 100 + index)
		id := uint64(100 + a.Env.Call)
		if a.Env.Call >= r.nCli {
			r.nCli = a.Env.Call + 1
		}
		if a.Gate && a.Env.Body != nil {
			r.mu.Lock()
			r.ugates[*a.Env.Body] = make(chan struct{})
			if a.Deaf {
				if r.udeaf == nil {
					r.udeaf = map[int64]bool{}
				}
				r.udeaf[*a.Env.Body] = true
			}
			r.mu.Unlock()
		}
		e := a.Env.build(id, a.M)
		if e.Header != nil {
			e.Header.Source, e.Header.Destination = "src", "dst"
			if a.Env.Hdr != "bad" {
				e.Header.Headers = append(e.Header.Headers, &goatorepo.KeyValue{Key: "call", Value: strconv.Itoa(a.Env.Call)})
				if a.D > 0 {
					e.Header.Headers = append(e.Header.Headers, &goatorepo.KeyValue{Key: "GRPC-Timeout", Value: fmt.Sprintf("%dm", a.D)})
				}
			}
		}
		r.mu.Lock()
		r.cliSent = append(r.cliSent, clone(e))
		r.mu.Unlock()
		r.link.S.Deliver(e)
		return nil
	case "failread":
		r.link.C.FailRead(errInjected)
		return []string{"AFailRead"}
	case "wfail":
		if a.B != 0 {
			r.link.C.FailWrites(errWriteInjected)
		} else {
			r.link.C.FailWrites(nil)
		}
		return []string{"ASetWriteFail " + coqBool(a.B != 0)}
	case "sblock":
		// back-pressure on the server's side of the transport: its Writes block (B != 0) / are released (B == 0)
		if a.B != 0 {
			r.link.S.BlockWrites()
		} else {
			r.link.S.UnblockWrites()
		}
		return nil
	case "cblock":
		// back-pressure on the client's side of the transport (no model action: the scenario performs no client Write
		// while it lasts, except a teardown's reset: see cancelblk)
		if a.B != 0 {
			r.link.C.BlockWrites()
		} else {
			r.link.C.UnblockWrites()
		}
		return nil
	case "srvfail":
		// the server's transport fails: Serve returns
		r.link.S.FailRead(errInjected)
		return nil
	}
	panic("cw: unknown op " + a.Op)
}

// c2sHistory: what the client wrote, in wire order
func (r *cwRig) c2sHistory() []*Rpc {
	w := r.link.C.WrittenCopy()
	r.wireMu.Lock()
	defer r.wireMu.Unlock()
	if len(r.c2sWire) == len(w) {
		return append([]*Rpc(nil), r.c2sWire...)
	}
	return w
}

func (r *cwRig) releaseHeld() {
	r.mu.Lock()
	hs := r.held
	r.held, r.holdTrailer, r.holdPost = nil, nil, nil
	r.mu.Unlock()
	for _, g := range hs {
		close(g)
	}
}

// cwStats: a server stats handler under the schedule's control: the OutTrailer event (reported by SendTrailer just
// before the trailer is handed to the writer) can be held: "handler returned, trailer not yet written" becomes a
// quiescent point.
type cwStats struct{ r *cwRig }

func (s *cwStats) TagRPC(ctx context.Context, _ *stats.RPCTagInfo) context.Context   { return ctx }
func (s *cwStats) TagConn(ctx context.Context, _ *stats.ConnTagInfo) context.Context { return ctx }
func (s *cwStats) HandleConn(context.Context, stats.ConnStats)                       {}
func (s *cwStats) HandleRPC(_ context.Context, ev stats.RPCStats) {
	if _, ok := ev.(*stats.OutTrailer); !ok {
		return
	}
	s.r.mu.Lock()
	g := s.r.holdTrailer
	s.r.holdTrailer = nil
	s.r.mu.Unlock()
	if g != nil {
		<-g
	}
}

// the stream interceptor: its part after the handler function can be held
func (r *cwRig) intercept(srv any, ss grpc.ServerStream, _ *grpc.StreamServerInfo, handler grpc.StreamHandler) error {
	err := handler(srv, ss)
	r.mu.Lock()
	g := r.holdPost
	r.holdPost = nil
	r.mu.Unlock()
	if g != nil {
		<-g
	}
	return err
}

// classFor: the class of an error returned by an operation on call c. ONE observable is canonicalised: after a
// SendMsg of the call failed with a transport write error or in the codec (both exits call teardown(false)),
// clientStream.teardown unregisters the handler and only
// then cancels the stream context; the stream loop, parked in Read, may wake in between (handler closed, context
// still live) and then ends with "respChan closed" instead of Canceled (measured: 9 of 300 runs of one scenario).
// Model/Client.v's teardown is atomic (always Canceled); the race breaks none of C06/C07/C11, so for operations on a
// call AFTER such a failed SendMsg both values are the same class: "respChan closed" is reported as Canceled.
func (r *cwRig) classFor(c int, err error) string {
	cl := classOf(err)
	r.mu.Lock()
	failed := r.sendWFailed[c]
	if cl == "EWrite" || cl == "EUnmarshal" {
		if r.sendWFailed == nil {
			r.sendWFailed = map[int]bool{}
		}
		r.sendWFailed[c] = true
	}
	r.mu.Unlock()
	if failed && cl == "EClosed" {
		return "ECanceled"
	}
	return cl
}

// classAfter: as classFor, for operations that do not write (RecvMsg, Header): they never set the flag
func (r *cwRig) classAfter(c int, err error) string {
	cl := classOf(err)
	r.mu.Lock()
	failed := r.sendWFailed[c]
	r.mu.Unlock()
	if failed && cl == "EClosed" {
		return "ECanceled"
	}
	return cl
}

func (r *cwRig) optErrFor(c int, err error) string {
	if err == nil {
		return "None"
	}
	return "(Some " + r.classFor(c, err) + ")"
}

// ---------------------------------------------------------------- envelopes as Coq terms

func msgTok(st *goatorepo.ResponseStatus) int64 {
	var tok int64
	if _, err := fmt.Sscanf(st.GetMessage(), "m%d", &tok); err == nil {
		return tok
	}
	if st.GetCode() == 0 {
		return 0
	}
	return -777
}

func kvTok(kvs []*goatorepo.KeyValue) (tok int64, bad bool) {
	md, err := internal.ToMetadata(kvs)
	if err != nil {
		return 0, true
	}
	return mdTokenOf(md), false
}

func bodyTok(b *goatorepo.Body) int64 {
	var v wrapperspb.BytesValue
	if err := proto.Unmarshal(b.Data, &v); err != nil {
		return -1
	}
	return tokenOf(v.Value)
}

// envCoqOfRpc: an envelope delivered to the client, as a Model/Client.v env
func envCoqOfRpc(w *Rpc) string {
	hdr := "None"
	if w.Header != nil {
		if tok, bad := kvTok(w.Header.Headers); bad {
			hdr = "(Some MdBad)"
		} else {
			hdr = fmt.Sprintf("(Some (MdOk %s))", coqZ(tok))
		}
	}
	st := "None"
	if w.Status != nil {
		st = fmt.Sprintf("(Some (mkSt %d %s))", w.Status.Code, coqZ(msgTok(w.Status)))
	}
	body := "None"
	if w.Body != nil {
		body = fmt.Sprintf("(Some %s)", coqZ(bodyTok(w.Body)))
	}
	trl := "None"
	if w.Trailer != nil {
		if tok, bad := kvTok(w.Trailer.Metadata); bad {
			trl = "(Some MdBad)"
		} else {
			trl = fmt.Sprintf("(Some (MdOk %s))", coqZ(tok))
		}
	}
	return fmt.Sprintf("(mkEnv %d %s %s %s %s %s)", w.Id, hdr, st, body, trl, coqBool(w.Reset_ != nil))
}

var methodTok = map[string]int{"/verif.Echo/Unary": 1, "/verif.Echo/CStream": 2, "/verif.Echo/SStream": 3, "/verif.Echo/Bidi": 4,
	"/verif.Echo/Unary2": 5, "verif.Echo/Unary": 11, "verif.Echo/CStream": 12, "verif.Echo/SStream": 13, "verif.Echo/Bidi": 14}
var nameTok = map[string]int{"": 0, "src": 1, "dst": 2}

// mdTokReq: token of request/response metadata on the wire, ignoring the keys the
// rig itself adds (call index, timeout)
func mdTokWire(kvs []*goatorepo.KeyValue) int64 {
	var rest []*goatorepo.KeyValue
	for _, kv := range kvs {
		k := strings.ToLower(kv.Key)
		if k == "call" || k == "grpc-timeout" {
			continue
		}
		rest = append(rest, kv)
	}
	if len(rest) == 0 {
		return 0
	}
	tok, bad := kvTok(rest)
	if bad {
		return -1
	}
	return tok
}

// penvCoq: a wire envelope in full (Model/Protocol.v penv)
func penvCoq(w *Rpc) string {
	hdr := "None"
	if w.Header != nil {
		m, ok := methodTok[w.Header.Method]
		if !ok {
			m = 900 + len(w.Header.Method)
		}
		s, ok := nameTok[w.Header.Source]
		if !ok {
			s = 99
		}
		d, ok := nameTok[w.Header.Destination]
		if !ok {
			d = 99
		}
		hdr = fmt.Sprintf("(Some (mkHd %d %d %d %s))", m, s, d, coqZ(mdTokWire(w.Header.Headers)))
	}
	st := "None"
	if w.Status != nil {
		st = fmt.Sprintf("(Some %d)", w.Status.Code)
	}
	body := "None"
	if w.Body != nil {
		body = fmt.Sprintf("(Some %s)", coqZ(bodyTok(w.Body)))
	}
	trl := "None"
	if w.Trailer != nil {
		tok, bad := kvTok(w.Trailer.Metadata)
		if bad {
			tok = -1
		}
		trl = fmt.Sprintf("(Some %s)", coqZ(tok))
	}
	rst := "false"
	if w.Reset_ != nil {
		rst = "true"
	}
	return fmt.Sprintf("(mkP %d %s %s %s %s %s)", w.Id, hdr, st, body, trl, rst)
}

// ---------------------------------------------------------------- snapshots

type cwSrvObs struct {
	HEvents []string `json:"hev"`
	HCtx    []string `json:"hctx"`  // "(c, done)" per started, not yet returned handler
	HBusy   []string `json:"hbusy"` // calls whose handler is parked INSIDE an operation (RecvMsg, SendMsg, ...) at this point
	URun    int      `json:"urun"`  // unary handler invocations that have not returned
	SReg    int      `json:"sreg"`  // server stream registry size (-1: lock held, -2: no server)
	WC      int      `json:"wc"`    // envelopes written so far by the client
	WS      int      `json:"ws"`    // ... by the server
	DC      int      `json:"dc"`    // envelopes handed so far to the server's transport
	DS      int      `json:"ds"`    // ... to the client's transport
	SrvG    int      `json:"srvg"`  // live goroutines of the server side
	Serve   bool     `json:"serve"` // Serve has returned
}

func (r *cwRig) snapshot() (stepObs, cwSrvObs) {
	r.mu.Lock()
	evs := append([]string(nil), r.events...)
	r.events = r.events[:0]
	hevs := append([]string(nil), r.hevents...)
	r.hevents = r.hevents[:0]
	var pend []string
	for k := range r.pend {
		pend = append(pend, k)
	}
	var hctx, hbusy []string
	var hk []int
	for c := range r.handlers {
		hk = append(hk, c)
	}
	sort.Ints(hk)
	for _, c := range hk {
		h := r.handlers[c]
		if h.returned {
			continue
		}
		hctx = append(hctx, fmt.Sprintf("(%s, %s)", coqZ(int64(h.c)), coqBool(h.ctx.Err() != nil)))
		if h.busy {
			hbusy = append(hbusy, coqZ(int64(h.c)))
		}
	}
	serveRet := r.serveRet
	urun := r.urun
	r.mu.Unlock()
	sort.Strings(evs)
	sort.Strings(pend)
	mux, loops, srvg := cwCensus()
	co := stepObs{Events: evs, Pending: pend, Loops: loops, MuxLoop: mux}
	if r.cc != nil {
		co.Reg = r.cc.VerifNumHandlers()
	}
	so := cwSrvObs{HEvents: hevs, HCtx: hctx, HBusy: hbusy, URun: urun, SReg: -2, SrvG: srvg, Serve: serveRet}
	if r.srv != nil {
		cs := goat.VerifServerStreamCounts()
		if len(cs) > 0 {
			so.SReg = cs[len(cs)-1]
		}
	}
	so.WC = len(r.link.C.WrittenCopy())
	so.WS = len(r.link.S.WrittenCopy())
	nc, ns := r.link.InFlight()
	so.DC = so.WC - nc
	so.DS = so.WS - ns
	if r.mode == "server" {
		// the scripted client's envelopes are handed to the server's transport at once
		r.mu.Lock()
		so.WC = len(r.cliSent)
		r.mu.Unlock()
		so.DC = so.WC
	}
	return co, so
}

func sobsCoq(o cwSrvObs) string {
	return fmt.Sprintf("(mkSO %s %s %s %d %d %d %d %d %s %s %d)", coqList(o.HEvents), coqList(o.HCtx), coqZ(int64(o.SReg)),
		o.WC, o.WS, o.DC, o.DS, o.SrvG, coqBool(o.Serve), coqList(o.HBusy), o.URun)
}

func stepTag(a Step) string {
	switch a.Op {
	case "h":
		return fmt.Sprintf("(KH %d %s)", a.C, hopCoq(a.H))
	case "c2s":
		return "KC2S"
	case "s2c":
		return "KS2C"
	case "tick":
		return fmt.Sprintf("(KTick %d)", a.D)
	case "peer", "dup":
		return "KPeer"
	case "cli":
		return "KCli"
	case "hu":
		return "KHU"
	case "srvfail":
		return "KSrvFail"
	case "sblock", "hrelease":
		return "KSBlock"
	}
	return "KUser"
}

func hopCoq(h *HOp) string {
	switch h.Op {
	case "recv":
		return "HoRecv"
	case "send":
		return fmt.Sprintf("(HoSend %s)", coqZ(h.B))
	case "sendheader":
		return "HoSendHeader"
	case "setheader":
		return "HoSetHeader"
	case "settrailer":
		return "HoSetTrailer"
	case "await":
		return "HoAwait"
	case "return":
		if h.Ctx {
			return "(HoReturn (-1))"
		}
		return fmt.Sprintf("(HoReturn %d)", h.Code)
	}
	panic("hop " + h.Op)
}

// ---------------------------------------------------------------- running a scenario

type cwStepRec struct {
	Step Step     `json:"step"`
	Acts []string `json:"acts"`
	C    stepObs  `json:"c"`
	S    cwSrvObs `json:"s"`
}

// the id of a call is the id of the first envelope it wrote
func (r *cwRig) learnIDs(newW []*Rpc, a Step) {
	if a.Op != "open" && a.Op != "unary" {
		return
	}
	c := r.nCalls - 1
	if _, ok := r.ids[c]; ok {
		return
	}
	for _, w := range newW {
		if w.GetReset_() == nil {
			r.ids[c] = w.Id
			return
		}
	}
}

func runCwScenario(t *testing.T, idx int, kind string, sc cwScenario, em *Emitter) {
	startWatchdog()
	var recs []cwStepRec
	var rig *cwRig
	var coqSteps []string
	var c2s, s2c []*Rpc
	wedgeTerm := func() string {
		// called by the watchdog (outside the bubble) when a goroutine waits for a mutex for ever
		var ws, wsS []*Rpc
		if rig != nil {
			ws, wsS = rig.c2sHistory(), rig.link.S.WrittenCopy()
			if rig.mode == "server" {
				rig.mu.Lock()
				ws = append([]*Rpc(nil), rig.cliSent...)
				rig.mu.Unlock()
			}
		}
		return cwCaseCoq("CwWedged", sc, coqSteps, ws, wsS, rig)
	}
	em.Marker("begin", idx)
	if os.Getenv("CW_SHARD") != "" && *flagOut != "" {
		// for the parent: the scenario this process is in, should it die (panic in goat's code, runtime fatal error)
		if b, err := json.Marshal(map[string]any{"idx": idx, "kind": kind, "scenario": sc}); err == nil {
			os.WriteFile(*flagOut+".cur", b, 0o644)
		}
	}
	var srvCancel context.CancelFunc
	leaked := bubble(t, func(t *testing.T) {
		link := NewLink(false)
		link.C.CheckCtx = true
		cwBase = cwCensusRaw()
		rig = &cwRig{t: t, mode: sc.Mode, link: link, pend: map[string]bool{}, ids: map[int]uint64{},
			handlers: map[int]*cwHandler{}, ugates: map[int64]chan struct{}{}}
		rig.onWriteCancel = -1
		fwd := link.C.OnWrite
		link.C.OnWrite = func(w *Rpc) {
			// the Endpoint appends to Written under its lock but forwards to the wire after releasing it: with concurrent
			// writers (mass cancellation) the two orders can differ; the history that is judged is the WIRE's order
			rig.wireMu.Lock()
			fwd(w)
			rig.c2sWire = append(rig.c2sWire, w)
			rig.wireMu.Unlock()
			rig.mu.Lock()
			k, g := rig.onWriteCancel, rig.onWriteGate
			rig.onWriteCancel, rig.onWriteGate = -1, nil
			rig.mu.Unlock()
			if k >= 0 {
				rig.cancels[k]() // the transport has accepted the envelope; its Write has not returned yet
			}
			if g != nil {
				<-g
			}
		}
		verifhook.SetYield(func(pt string) {
			if pt != "cs.loop.read" {
				return
			}
			rig.mu.Lock()
			hold := rig.loopArmed
			g := rig.loopGate
			rig.loopArmed = false
			rig.mu.Unlock()
			if hold && g != nil {
				<-g
			}
		})
		goat.VerifResetTracking()
		if sc.Mode != "server" {
			rig.cc = goat.NewClientConn(link.C, "src", "dst")
		}
		if sc.Mode != "client" {
			rig.srv = newEchoServer("dst", &echoImpl{unary: rig.unaryHandler, stream: rig.streamHandler},
				goat.StatsHandler(&cwStats{rig}), goat.StreamInterceptor(rig.intercept))
			var srvCtx context.Context
			srvCtx, srvCancel = context.WithCancel(context.Background())
			go func() {
				rig.srv.Serve(srvCtx, link.S)
				rig.mu.Lock()
				rig.serveRet = true
				rig.mu.Unlock()
			}()
		}
		synctest.Wait()
		wd.mu.Lock()
		wd.active, wd.idx, wd.kind, wd.desc, wd.tags, wd.em = true, idx, kind, sc, sc.Tags, em
		wd.coqActs, wd.coqObs, wd.obs, wd.step = []string{""}, nil, nil, 0
		wd.pendFn = func() []string {
			rig.mu.Lock()
			defer rig.mu.Unlock()
			var p []string
			for k := range rig.pend {
				p = append(p, k)
			}
			sort.Strings(p)
			return p
		}
		wd.wedgeCoq = func(_, _, _ []string) string { return wedgeTerm() }
		wd.mu.Unlock()
		lastW := 0
		oneStep := func(i int, a Step) {
			wd.mu.Lock()
			wd.step = i
			wd.mu.Unlock()
			acts := rig.do(a)
			synctest.Wait()
			wdProgress.Add(1)
			ws := link.C.WrittenCopy()
			for _, w := range ws[lastW:] {
				rig.ev("EvWrite " + envProj(w))
			}
			rig.learnIDs(ws[lastW:], a)
			lastW = len(ws)
			co, so := rig.snapshot()
			recs = append(recs, cwStepRec{Step: a, Acts: acts, C: co, S: so})
			coqSteps = append(coqSteps, fmt.Sprintf("(mkStep %s %s %s %s)", stepTag(a), coqList(acts), obsCoq(co), sobsCoq(so)))
		}
		for i, a := range sc.Steps {
			if a.Op == "drain" {
				// deliver everything in flight, one envelope per step, until both wires are empty
				for n := 0; n < 60+4*len(sc.Steps); n++ {
					nc, ns := link.InFlight()
					if nc == 0 && ns == 0 {
						break
					}
					if nc > 0 {
						oneStep(i, Step{Op: "c2s"})
					} else {
						oneStep(i, Step{Op: "s2c"})
					}
				}
				continue
			}
			oneStep(i, a)
		}
		// the cleanup below STAYS under the watchdog (a read loop parked for good under the registry lock shows there at
		// the latest: the handlers released by the cleanup wait for that lock for ever): reported as a wedge of the scenario
		wdProgress.Add(1)
		c2s, s2c = rig.c2sHistory(), link.S.WrittenCopy()
		if sc.Mode == "server" {
			rig.mu.Lock()
			c2s = append([]*Rpc(nil), rig.cliSent...)
			rig.mu.Unlock()
		}
		// cleanup (not compared): release everything, fail both transports
		rig.mu.Lock()
		if rig.loopGate != nil {
			close(rig.loopGate)
			rig.loopGate = nil
		}
		rig.mu.Unlock()
		verifhook.SetYield(nil)
		for _, c := range rig.cancels {
			c()
		}
		for _, c := range rig.keepAlive {
			c()
		}
		rig.mu.Lock()
		for k, g := range rig.ugates {
			close(g)
			delete(rig.ugates, k)
		}
		rig.mu.Unlock()
		rig.releaseHeld()
		link.C.UnblockWrites()
		link.S.UnblockWrites()
		link.C.FailRead(errInjected)
		link.S.FailRead(errInjected)
		if srvCancel != nil {
			srvCancel() // a read loop held by back-pressure leaves through the Serve context
		}
		synctest.Wait()
		// handlers still waiting for a command return now
		for round := 0; round < 3; round++ {
			rig.mu.Lock()
			var hs []*cwHandler
			for _, h := range rig.handlers {
				if !h.returned && !h.busy {
					h.busy = true
					hs = append(hs, h)
				}
			}
			rig.mu.Unlock()
			for _, h := range hs {
				close(h.cmd)
			}
			synctest.Wait()
		}
	})
	wd.mu.Lock()
	wd.active = false
	wd.mu.Unlock()
	tags := append([]string{}, sc.Tags...)
	tags = append(tags, "mode:"+sc.Mode)
	if leaked {
		tags = append(tags, "leaked-at-end")
	}
	tags = append(tags, cwOutcomeTags(recs)...)
	tags = append(tags, cwFindingTags(recs)...)
	em.Emit(Rec{Idx: idx, Kind: kind, Desc: sc, Obs: recs, Tags: tags, Coq: cwCaseCoq("CwRun", sc, coqSteps, c2s, s2c, rig)})
	em.Marker("end", idx)
}

func cwCaseCoq(ctor string, sc cwScenario, steps []string, c2s, s2c []*Rpc, rig *cwRig) string {
	var a, b []string
	for _, w := range c2s {
		a = append(a, penvCoq(w))
	}
	for _, w := range s2c {
		b = append(b, penvCoq(w))
	}
	var ids []string
	if rig != nil && rig.mode == "server" {
		for c := 0; c < rig.nCli; c++ {
			ids = append(ids, coqU(uint64(100+c)))
		}
	} else if rig != nil {
		for c := 0; c < rig.nCalls; c++ {
			ids = append(ids, coqU(rig.ids[c]))
		}
	}
	mode := map[string]string{"e2e": "ME2E", "client": "MClient", "server": "MServer", "e2efree": "MFree"}[sc.Mode]
	return fmt.Sprintf("%s %s %s %s %s %s", ctor, mode, coqList(steps), coqList(a), coqList(b), coqList(ids))
}

// tags for the evidence histograms: which API outcomes and handler events occurred
func cwOutcomeTags(recs []cwStepRec) []string {
	seen := map[string]bool{}
	for _, r := range recs {
		for _, e := range r.C.Events {
			f := strings.Fields(e)
			switch f[0] {
			case "EvRecvRet", "EvSendRet", "EvCloseSendRet", "EvUnaryRet", "EvOpenRet":
				rest := strings.Join(f[2:], " ")
				rest = strings.NewReplacer("(", "", ")", "").Replace(rest)
				g := strings.Fields(rest)
				o := g[0]
				if len(g) > 1 && (g[0] == "RErr" || g[0] == "UErr" || g[0] == "Some") {
					o = g[1]
				}
				seen["out:"+f[0][2:]+"="+o] = true
			case "EvWrite":
				if strings.HasSuffix(e, "true)") {
					seen["wire:client-reset"] = true
				}
			}
		}
		for _, e := range r.S.HEvents {
			f := strings.Fields(e)
			seen["hev:"+strings.Join(append([]string{f[0]}, f[2:]...), "")] = true
		}
	}
	var out []string
	for k := range seen {
		out = append(out, k)
	}
	sort.Strings(out)
	return out
}

var (
	cwProf     = make([]runtime.StackRecord, 256)
	cwRoleOfPC = map[uintptr]int{}
	cwBase     [4]int
)

// cwCensusRaw counts the live goroutines of the process by the role of their root
// function (1 multiplexer read loop, 2 client stream loop, 3 server side). It uses
// runtime.GoroutineProfile (program counters only: far cheaper than a formatted dump).
func cwCensusRaw() (n [4]int) {
	for {
		k, ok := runtime.GoroutineProfile(cwProf)
		if ok {
			for _, rec := range cwProf[:k] {
				st := rec.Stack()
				if len(st) == 0 {
					continue
				}
				// the root function is the last frame that is not runtime.goexit
				role := 0
				for j := len(st) - 1; j >= 0 && j >= len(st)-2; j-- {
					pc := st[j]
					r, seen := cwRoleOfPC[pc]
					if !seen {
						name := ""
						if f := runtime.FuncForPC(pc - 1); f != nil {
							name = f.Name()
						}
						switch {
						case strings.Contains(name, "internal/client.NewRpcMultiplexer.func"):
							r = 1
						case strings.HasSuffix(name, "internal/client.(*clientStream).readLoop"):
							r = 2
						case strings.Contains(name, "goat.(*handler).serve.func") || strings.HasSuffix(name, "goat.(*handler).runStream"):
							r = 3
						default:
							r = 0
						}
						cwRoleOfPC[pc] = r
					}
					if r != 0 {
						role = r
						break
					}
				}
				n[role]++
			}
			return n
		}
		cwProf = make([]runtime.StackRecord, 2*len(cwProf))
	}
}

// cwCensus: goroutines created by goat's code since the scenario began, by role.
func cwCensus() (muxLoops, streamLoops, serverSide int) {
	n := cwCensusRaw()
	return n[1] - cwBase[1], n[2] - cwBase[2], n[3] - cwBase[3]
}

// cwFindingTags: the shapes of the known findings, recognised from the run itself.
//
//	reset-behind-backpressure: after a cancellation the server's read loop sits, at a quiescent
//	point, in the forwarding select of processStreamingRpc holding the registry lock (its stream's
//	queue is full and the handler is not reading): the reset that follows cannot be read.
func cwFindingTags(recs []cwStepRec) []string {
	if t := cwDeadlineTag(recs); t != "" {
		return []string{t}
	}
	// ... which takes stream_cap+1 = 2 client envelopes (messages / half-close) of one stream: without them a read loop
	// parked under the registry lock is NOT this finding (e.g. a loop waiting for a free slot of some per-connection cap)
	cancelled := false
	data := map[int]int{}
	full := false
	for _, r := range recs {
		if r.Step.Op == "send" || r.Step.Op == "closesend" || r.Step.Op == "cancelsend" || r.Step.Op == "cancelsendf" {
			data[r.Step.C]++
			if data[r.Step.C] >= 2 {
				full = true
			}
		}
		for _, a := range r.Acts {
			if strings.HasPrefix(a, "ACancel") || strings.HasPrefix(a, "AExpire") {
				cancelled = true
			}
		}
		if cancelled && full && r.S.SReg == -1 {
			return []string{"sig:reset-behind-backpressure"}
		}
	}
	return nil
}

// trailer-lost-on-handler-deadline: a handler returns after ITS OWN deadline (GRPC-Timeout) has expired while
// the scripted caller has sent no reset and the connection is alive: SendTrailer's write is a select between
// the expired context and the writer, so the trailer is dropped about half of the time.
func cwDeadlineTag(recs []cwStepRec) string {
	if t := cwDeadlineTagE2E(recs); t != "" {
		return t
	}
	if len(recs) == 0 || recs[0].Step.Op != "cli" {
		return ""
	}
	ticked := false
	for i, r := range recs {
		if r.Step.Op == "tick" {
			ticked = true
		}
		if r.Step.Op == "srvfail" {
			return ""
		}
		for _, e := range r.S.HEvents {
			var c int
			if _, err := fmt.Sscanf(e, "HReturn %d", &c); err == nil && ticked && i > 0 {
				for _, h := range recs[i-1].S.HCtx {
					if h == fmt.Sprintf("(%d, true)", c) {
						reset := false
						for _, q := range recs[:i+1] {
							if q.Step.Op == "cli" && q.Step.Env.Rst && q.Step.Env.Call == c {
								reset = true
							}
						}
						if !reset && recs[0].Step.D > 0 {
							return "sig:trailer-lost-on-handler-deadline"
						}
					}
				}
			}
		}
	}
	return ""
}

// the same defect reached end to end: the real client's RST_STREAM is lost (exactly that Write is refused), so the
// server has seen no reset when the handler, whose context carries the call's deadline (GRPC-Timeout), returns after
// that deadline has expired, connection alive.
func cwDeadlineTagE2E(recs []cwStepRec) string {
	calls := 0
	withDeadline := map[int]bool{}
	wfail, lost, ticked := false, false, false
	for i, r := range recs {
		switch r.Step.Op {
		case "cli", "srvfail", "failread":
			return ""
		case "open", "unary":
			if r.Step.Op == "open" && r.Step.D > 0 {
				withDeadline[calls] = true
			}
			calls++
		case "wfail":
			wfail = r.Step.B != 0
		case "tick":
			ticked = true
			if wfail {
				lost = true
			}
		}
		if !lost || !ticked || i == 0 {
			continue
		}
		for _, e := range r.S.HEvents {
			var c int
			if _, err := fmt.Sscanf(e, "HReturn %d", &c); err == nil && withDeadline[c] {
				for _, h := range recs[i-1].S.HCtx {
					if h == fmt.Sprintf("(%d, true)", c) {
						return "sig:trailer-lost-on-handler-deadline"
					}
				}
			}
		}
	}
	return ""
}

// ---------------------------------------------------------------- sharding

// cwSharded re-executes the test binary as n child processes (CW_SHARD=i/n); child i runs the scenarios whose index
// is congruent to i. A child that leaves through the watchdog (exit code 3, record and end marker already written) or
// dies is resumed after the scenario it was in; a death is recorded as a failing case of that scenario. The children's
// output files are merged into -out. Returns (i, n, true) in a child and (0, 0, false) in the parent when all is done.
func cwSharded(t *testing.T, testName string, n int) (int, int, bool) {
	if s := os.Getenv("CW_SHARD"); s != "" {
		var i, m int
		fmt.Sscanf(s, "%d/%d", &i, &m)
		return i, m, true
	}
	if *flagOut == "" || *flagOnly >= 0 {
		return 0, 1, true
	}
	var wg sync.WaitGroup
	outs := make([]string, n)
	errs := make([]error, n)
	for i := 0; i < n; i++ {
		outs[i] = fmt.Sprintf("%s.shard%d", *flagOut, i)
		os.Remove(outs[i])
		wg.Add(1)
		go func(i int) {
			defer wg.Done()
			from := *flagFrom
			deaths := 0
			for attempt := 0; attempt < 400; attempt++ {
				cmd := exec.Command(os.Args[0], "-test.run", "^"+testName+"$", "-test.timeout", "0", "-out", outs[i],
					"-seed", fmt.Sprint(*flagSeed), "-tier", *flagTier, "-from", fmt.Sprint(from))
				cmd.Env = append(os.Environ(), fmt.Sprintf("CW_SHARD=%d/%d", i, n))
				out, err := cmd.CombinedOutput()
				if err == nil {
					return
				}
				lastBegin, lastEnd := -1, -1
				if b, e := os.ReadFile(outs[i]); e == nil {
					for _, line := range strings.Split(string(b), "\n") {
						var m struct {
							Marker string `json:"marker"`
							Idx    int    `json:"idx"`
						}
						if strings.HasPrefix(line, `{"marker"`) && json.Unmarshal([]byte(line), &m) == nil {
							if m.Marker == "begin" {
								lastBegin = m.Idx
							} else if m.Marker == "end" {
								lastEnd = m.Idx
							}
						}
					}
				}
				exit := -1
				if ee, ok := err.(*exec.ExitError); ok {
					exit = ee.ExitCode()
				}
				if exit == 3 && lastBegin >= from && lastBegin == lastEnd {
					// the watchdog's exit: the wedged scenario's record and end marker are written
					from = lastBegin + 1
					continue
				}
				// The process DIED (panic in goat's code, runtime fatal error, kill): a failing case of its own, attributed
				// to the scenario it was in - the one whose begin marker has no end marker; if it died after an end marker
				// (a goroutine left behind by scenario lastEnd) to that scenario; if before any marker of this attempt, to
				// the scenario it was about to run. The scenario itself (steps, tags) is in the record: it is the replay.
				died := lastBegin
				if lastBegin < from {
					died = from
				}
				var cur struct {
					Idx      int        `json:"idx"`
					Kind     string     `json:"kind"`
					Scenario cwScenario `json:"scenario"`
				}
				desc := map[string]any{"process-died": fmt.Sprintf("exit status %d", exit), "output": cwTail(string(out), 1500)}
				tags := []string{"process-died"}
				if b, e := os.ReadFile(outs[i] + ".cur"); e == nil && json.Unmarshal(b, &cur) == nil && cur.Idx == died {
					desc["mode"], desc["steps"], desc["in-kind"] = cur.Scenario.Mode, cur.Scenario.Steps, cur.Kind
					tags = append(tags, cur.Scenario.Tags...)
				}
				f, _ := os.OpenFile(outs[i], os.O_WRONLY|os.O_APPEND|os.O_CREATE, 0o644)
				b, _ := json.Marshal(Rec{Idx: died, Kind: "process-died", Desc: desc, Tags: tags, Coq: "CwWedged ME2E [] [] [] []"})
				if lastBegin == lastEnd || lastBegin < from {
					fmt.Fprintf(f, "{\"marker\":\"begin\",\"idx\":%d}\n", died)
				}
				fmt.Fprintf(f, "%s\n{\"marker\":\"end\",\"idx\":%d}\n", b, died)
				f.Close()
				deaths++
				if deaths >= 25 {
					errs[i] = fmt.Errorf("shard %d: %d process deaths, giving up after scenario %d: %s", i, deaths, died, cwTail(string(out), 600))
					return
				}
				from = died + 1
			}
		}(i)
	}
	wg.Wait()
	f, err := os.OpenFile(*flagOut, os.O_CREATE|os.O_WRONLY|os.O_APPEND, 0o644)
	if err != nil {
		t.Fatal(err)
	}
	for i := 0; i < n; i++ {
		if b, err := os.ReadFile(outs[i]); err == nil {
			f.Write(b)
		}
		os.Remove(outs[i])
		os.Remove(outs[i] + ".cur")
	}
	f.Close()
	for _, e := range errs {
		if e != nil {
			t.Errorf("%v", e)
		}
	}
	return 0, 0, false
}

func cwTail(s string, n int) string {
	if len(s) > n {
		return s[len(s)-n:]
	}
	return s
}

//go:build sy

package verifharness

import (
	"context"
	"fmt"
	"math/rand"
	"runtime"
	"strings"
	"sync"
	"sync/atomic"
	"testing"
	"testing/synctest"
	"time"

	"google.golang.org/protobuf/types/known/wrapperspb"
)

var syTopos = []string{"direct", "proxy", "demux", "rendezvous"}

func syPickSize(rng *rand.Rand) int {
	// all seven sizes; the 64 KiB one less often
	w := []int{2, 2, 3, 3, 3, 3, 1}
	n := rng.Intn(17)
	for i, x := range w {
		if n < x {
			return sySizes[i]
		}
		n -= x
	}
	return 17
}

// odometer enumerates every choice sequence of a schedule tree (stateless depth-first search: each
// schedule is replayed from the initial state).
type odometer struct {
	prefix []int
	choice []int
	width  []int
}

func (o *odometer) choose(step int, n int) int {
	c := 0
	step = len(o.choice) // position in the tree, not in the schedule
	if step < len(o.prefix) {
		c = o.prefix[step]
	}
	if c >= n {
		c = n - 1
	}
	o.choice = append(o.choice, c)
	o.width = append(o.width, n)
	return c
}

func (o *odometer) next() bool {
	for i := len(o.choice) - 1; i >= 0; i-- {
		if o.choice[i]+1 < o.width[i] {
			o.prefix = append(append([]int(nil), o.choice[:i]...), o.choice[i]+1)
			o.choice, o.width = nil, nil
			return true
		}
	}
	return false
}

type c01Cfg struct {
	topo    int
	byRef   bool
	k       int
	per     int  // calls per caller (0 = 1), all of one method when plain
	plain   bool // the calls carry no metadata and no deadline
	dead    int  // further callers whose context has already ended (the transport tests the context of a Write)
	doomed  int  // calls in flight on an EARLIER connection of the same Server whose transport then fails
	faulted int  // callers whose request Write delivers the envelope and then reports an error
	stream  bool // thread 0 holds an open server stream on the same connection (opened first)
}

func (c c01Cfg) tags() []string {
	tr := "serialising"
	if c.byRef {
		tr = "by-reference"
	}
	out := []string{"topo:" + syTopos[c.topo], "transport:" + tr, fmt.Sprintf("callers=%d", c.k)}
	if c.plain {
		out = append(out, "calls:plain")
	}
	if c.dead > 0 {
		out = append(out, "dead-callers")
	}
	if c.doomed > 0 {
		out = append(out, fmt.Sprintf("doomed-connection=%d", c.doomed))
	}
	if c.faulted > 0 {
		out = append(out, "write-fault:ack-lost")
	}
	return out
}

// one lock-step C01 run: k threads with the given unary programs; choose picks among the enabled actions
func runC01Lock(t *testing.T, cfg c01Cfg, progs [][]syCop, choose func(step int, en []syAct) int) (steps []syStep, complete, leaked bool) {
	leaked = bubble(t, func(t *testing.T) {
		r := newSyRigOpt(cfg.topo, cfg.byRef, true, cfg.dead > 0)
		if cfg.doomed > 0 {
			r.addDoomedConn(cfg.byRef)
		}
		if cfg.stream {
			r.hideStreams = true
			r.hprogs[0] = syHProg{J: 0, N: 2, Seed: 5}
		}
		for _, p := range progs {
			r.addThread(p)
		}
		steps, complete = r.runSchedule(choose, 4000)
		r.close()
		synctest.Wait()
	})
	return
}

// sySpread assigns the case indices: small cases in run order, and one buffered big case (free-running
// epochs, run first) after every few small ones, so that the Coq shards of ./check are balanced.
type sySpread struct {
	em    *Emitter
	idx   int
	every int
	n     int
	big   []Rec
	begun bool // the begin marker of case idx has been written (by guard)
}

// guard is called before a lock-step scenario runs: its case will get index sp.idx. The scenario runs under the wedge
// watcher of wedge.go (real time, outside the bubble): when no step is made for a second while a goroutine of the
// bubble waits for a lock and nothing runs, the scenario is reported as wedged (a failing input) and the process
// exits with status 3; ./check resumes after it.
func (sp *sySpread) guard(kind string, desc any, tags []string) (step func(), stop func()) {
	if sp == nil || !want(sp.idx) {
		return func() {}, func() {}
	}
	sp.em.Marker("begin", sp.idx)
	sp.begun = true
	return guardWedge(sp.em, sp.idx, kind, desc, tags)
}

func (sp *sySpread) emit(r Rec) {
	r.Idx = sp.idx
	if !sp.begun {
		sp.em.Marker("begin", sp.idx)
	}
	sp.begun = false
	if want(sp.idx) {
		sp.em.Emit(r)
	}
	sp.em.Marker("end", sp.idx)
	sp.idx++
}

// small emits a small case (nil: the case was skipped, its index is consumed) and perhaps a big one
func (sp *sySpread) small(r *Rec) {
	if r == nil {
		if sp.begun {
			sp.em.Marker("end", sp.idx)
			sp.begun = false
		}
		sp.idx++
	} else {
		sp.emit(*r)
	}
	sp.n++
	if sp.n%sp.every == 0 && len(sp.big) > 0 {
		sp.emit(sp.big[0])
		sp.big = sp.big[1:]
	}
}

func (sp *sySpread) flush() {
	for _, r := range sp.big {
		sp.emit(r)
	}
	sp.big = nil
}

func recC01(kind string, cfg c01Cfg, desc map[string]any, steps []syStep, complete bool, extra ...string) Rec {
	tags := append(cfg.tags(), extra...)
	nev := 0
	for _, s := range steps {
		nev += len(s.evs)
	}
	if !complete {
		tags = append(tags, "incomplete")
	}
	tags = append(tags, fmt.Sprintf("steps~%d", 10*((len(steps)+9)/10)))
	desc["topo"] = syTopos[cfg.topo]
	desc["byRef"] = cfg.byRef
	desc["callers"] = cfg.k
	return Rec{Kind: kind, Desc: desc, Obs: map[string]any{"events": nev, "complete": complete},
		Tags: tags, Coq: "C01Run " + syStepsCoq(steps)}
}

type freeCfg struct {
	procs, callers, calls int
	topo                  int
	byRef, barrier        bool
	plain                 bool // no metadata, no deadline (a watchdog cancels a call that hangs)
	dead                  int  // further goroutines calling with a context that has already ended
}

// runC01Free: real goroutines, no gating, one connection; the calls of a caller are issued in epochs of
// 25 (all callers finish an epoch before the next starts), the history of each epoch is one case.
func runC01Free(t *testing.T, fi int, fc freeCfg) (epochs [][]string, wedged bool) {
	old := runtime.GOMAXPROCS(fc.procs)
	defer runtime.GOMAXPROCS(old)
	const epochLen = 25
	bubble(t, func(t *testing.T) {
		r := newSyRigOpt(fc.topo, fc.byRef, false, fc.dead > 0)
		var arrived, round atomic.Int64
		r.mu.Lock()
		if fc.barrier {
			r.yieldF = func(pt string) {
				if pt != "mux.checked" {
					return
				}
				// spin barrier per round of calls: everybody leaves the fail-fast check together
				arrived.Add(1)
				target := (round.Load() + 1) * int64(fc.callers)
				for arrived.Load() < target {
					runtime.Gosched()
				}
			}
		} else {
			r.yieldF = syRandomYield(*flagSeed + int64(fi))
		}
		r.mu.Unlock()
		// roundCh[n] is closed when every caller has finished its n-th call (a caller blocked here is durably
		// blocked, so that the virtual clock can run and end a call that hangs)
		roundCh := make([]chan struct{}, fc.calls+1)
		for i := range roundCh {
			roundCh[i] = make(chan struct{})
		}
		close(roundCh[0])
		var finished atomic.Int64
		rngs := make([]*rand.Rand, fc.callers)
		ins := make([]*wrapperspb.BytesValue, fc.callers)
		outs := make([]*wrapperspb.BytesValue, fc.callers)
		for g := range rngs {
			rngs[g] = newRand(int64(900000 + 1000*fi + g))
			ins[g], outs[g] = &wrapperspb.BytesValue{}, syUsedReply() // one request and one reply object per caller, reused
		}
		for e0 := 0; e0 < fc.calls; e0 += epochLen {
			m := r.hist.mark()
			var wg sync.WaitGroup
			for g := 0; g < fc.callers; g++ {
				wg.Add(1)
				go func(g int) {
					defer wg.Done()
					rng := rngs[g]
					in, out := ins[g], outs[g]
					for n := e0; n < e0+epochLen && n < fc.calls; n++ {
						if fc.barrier {
							<-roundCh[n] // the previous round must be complete
						}
						size := syPickSize(rng)
						if fc.barrier && size > 4096 {
							size = 1024
						}
						if fc.plain {
							// no deadline: a watchdog on the virtual clock ends a call that hangs; one method per caller
							ctx, cancel := context.WithCancel(r.ctx)
							wd := time.AfterFunc(10*time.Minute, cancel)
							r.invokePlain(ctx, int64(g*fc.calls+n), g%syNUnary, syBytes(rng, size), in, out)
							wd.Stop()
							cancel()
						} else {
							ctx, cancel := context.WithTimeout(r.ctx, 10*time.Minute) // virtual time: fires only when everything is blocked
							r.invoke(ctx, int64(g*fc.calls+n), (g+n)%syNUnary, syBytes(rng, size), in, out)
							cancel()
						}
						if fc.barrier {
							if f := finished.Add(1); f%int64(fc.callers) == 0 {
								round.Store(f / int64(fc.callers))
								close(roundCh[f/int64(fc.callers)])
							}
						}
					}
				}(g)
			}
			for d := 0; d < fc.dead; d++ {
				wg.Add(1)
				go func(d int) {
					defer wg.Done()
					rng := newRand(int64(990000 + 1000*fi + 31*d + e0))
					for n := 0; n < epochLen; n++ {
						r.invokeDead(int64(d*fc.calls+e0+n), 1+(d+n)%2, (d+n)%syNUnary, syBytes(rng, 17))
						runtime.Gosched()
					}
				}(d)
			}
			// a wedge (every goroutine blocked for good, some on a mutex) ends the run: the calls without result are
			// judged by the spec
			wedged = syAwait(&wg)
			if !wedged {
				synctest.Wait()
			}
			epochs = append(epochs, r.hist.since(m))
			if wedged {
				break
			}
		}
		r.close()
		syQuiesce(wedged)
	})
	return
}

func TestC01(t *testing.T) {
	em := NewEmitter()
	defer em.Close()
	sp := &sySpread{em: em, every: 8}

	// ---- C (run first, emitted spread among the small cases). Free-running: real goroutines, no gating.
	var frees []freeCfg
	ncalls := 100 // quick: 64 x 100 (it was 64 x 200 until the last round: the quick tier must stay short on a busy machine)
	if thorough() {
		ncalls = 200
	}
	for i, p := range []int{1, 4, 16} {
		frees = append(frees, freeCfg{p, 64, ncalls, 0, i%2 == 1, false, false, 0})
	}
	frees = append(frees, freeCfg{16, 8, 100, 1, false, false, false, 0}, freeCfg{16, 8, 100, 2, true, false, false, 0})
	// plain calls (no metadata, no deadline) over by-reference transports, one method per caller; callers with dead contexts
	frees = append(frees, freeCfg{16, 8, 50, 1, true, false, true, 0}, freeCfg{16, 8, 50, 2, true, false, true, 0},
		freeCfg{4, 32, 50, 0, true, false, true, 0}, freeCfg{16, 32, 50, 0, false, false, false, 6}, freeCfg{4, 16, 50, 2, true, false, true, 4})
	// zero slack: goat's channel transport over unbuffered channels (a Write returns when the peer has read), by reference
	frees = append(frees, freeCfg{16, 24, 50, 3, true, false, false, 0}, freeCfg{16, 64, 50, 3, true, false, true, 0}, freeCfg{4, 24, 25, 3, true, false, false, 0})
	rounds := 12
	if thorough() {
		rounds = 60
		frees = append(frees, freeCfg{16, 64, 200, 0, false, false, false, 0}, freeCfg{4, 64, 200, 0, true, false, false, 0},
			freeCfg{16, 16, 200, 1, true, false, true, 0}, freeCfg{16, 64, 200, 0, true, false, false, 16})
	}
	for i := 0; i < rounds; i++ {
		// simultaneous starts: 64 goroutines leave the fail-fast check of CallUnaryMethod at the same instant, 25 times
		frees = append(frees, freeCfg{16, 64, 25, 0, i%2 == 1, true, false, 0})
	}
	em.Marker("begin", 0)
	for fi, fc := range frees {
		cfg := c01Cfg{topo: fc.topo, byRef: fc.byRef, k: fc.callers, plain: fc.plain, dead: fc.dead}
		mode := "mode:free-running"
		if fc.barrier {
			mode = "mode:simultaneous-starts"
		}
		eps, wedged := runC01Free(t, fi, fc)
		for ei, evs := range eps {
			sp.big = append(sp.big, recC01("c01-free", cfg,
				map[string]any{"procs": fc.procs, "calls_per_caller": fc.calls, "barrier": fc.barrier, "epoch": ei, "run": fi},
				[]syStep{{syAct{'F', 0}, evs}}, true, mode, fmt.Sprintf("procs=%d", fc.procs), fmt.Sprintf("wedged=%v", wedged)))
		}
	}
	em.Marker("end", 0)

	// ---- A. every interleaving of the 2k wire deliveries and the k handler releases
	maxK := 3
	if thorough() {
		maxK = 4
	}
	var cfgs []c01Cfg
	for k := 1; k <= maxK; k++ {
		for _, byRef := range []bool{false, true} {
			cfgs = append(cfgs, c01Cfg{topo: 0, byRef: byRef, k: k})
		}
	}
	for _, topo := range []int{1, 2} {
		for k := 1; k <= 2; k++ {
			cfgs = append(cfgs, c01Cfg{topo: topo, byRef: k == 2, k: k})
		}
		if thorough() {
			cfgs = append(cfgs, c01Cfg{topo: topo, byRef: false, k: 3})
		}
	}
	// plain calls (no metadata, no deadline), several in sequence per caller on one method, by-reference and
	// serialising, every topology
	for _, topo := range []int{0, 1, 2} {
		cfgs = append(cfgs, c01Cfg{topo: topo, byRef: true, k: 1, per: 3, plain: true}, c01Cfg{topo: topo, byRef: false, k: 1, per: 2, plain: true})
		if thorough() {
			cfgs = append(cfgs, c01Cfg{topo: topo, byRef: true, k: 2, per: 2, plain: true})
		}
	}
	// the Write of a request delivers the envelope and then reports an error (acknowledgement lost), next to ordinary calls
	cfgs = append(cfgs, c01Cfg{topo: 0, byRef: false, k: 1, faulted: 1}, c01Cfg{topo: 0, byRef: true, k: 2, faulted: 1},
		c01Cfg{topo: 2, byRef: false, k: 1, faulted: 1}, c01Cfg{topo: 1, byRef: true, k: 1, faulted: 1}, c01Cfg{topo: 0, k: 0, faulted: 2})
	// callers whose context has already ended, next to calls in flight
	cfgs = append(cfgs, c01Cfg{topo: 0, byRef: false, k: 2, dead: 1}, c01Cfg{topo: 0, byRef: true, k: 1, dead: 2},
		c01Cfg{topo: 2, byRef: true, k: 2, dead: 1}, c01Cfg{topo: 1, byRef: false, k: 1, per: 2, plain: true, dead: 1})
	for ci, cfg := range cfgs {
		od := &odometer{}
		nsched := 0
		for {
			// the run is needed to know the tree, wanted or not
			rng := newRand(int64(1000*ci + nsched))
			progs := make([][]syCop, cfg.k)
			sizes := make([]int, cfg.k)
			per := cfg.per
			if per == 0 {
				per = 1
			}
			for i := range progs {
				sizes[i] = syPickSize(rng)
				for x := 0; x < per; x++ {
					m := i + nsched
					if cfg.plain {
						m = i // one method per caller: its header is the same for every call
					}
					progs[i] = append(progs[i], syCop{Op: "invoke", Pay: syBytes(rng, sizes[i]), M: m, Plain: cfg.plain})
				}
			}
			for d := 0; d < cfg.dead; d++ {
				progs = append(progs, []syCop{{Op: "invoke", Pay: syBytes(rng, 17), M: d, Dead: 1 + d%2}})
			}
			for d := 0; d < cfg.faulted; d++ {
				progs = append(progs, []syCop{{Op: "invoke", Pay: syBytes(rng, 17), M: d, Dead: 4}})
			}
			steps, complete, _ := runC01Lock(t, cfg, progs, func(step int, en []syAct) int {
				// callers first (their order fixes the ids), then every order of the rest
				if en[0].K == 'U' {
					return 0
				}
				return od.choose(step, len(en))
			})
			rec := recC01("c01-interleaving", cfg, map[string]any{"sizes": sizes, "schedule": sySchedString(steps)}, steps, complete, "mode:exhaustive")
			sp.small(&rec)
			nsched++
			if !od.next() {
				break
			}
		}
		t.Logf("C01 exhaustive %v: %d schedules", cfg, nsched)
	}

	// ---- A'. batches of concurrent calls separated by gaps of virtual time (6 s, 1 min, 1 h): every caller issues one
	// call, everything runs to completion, the clock advances while the connection is idle, then the next batch.
	// Whatever a timer does to an idle connection (retiring workers, expiring registrations) shows in the next batch.
	// inner: the clock also advances INSIDE a batch, when every request has been delivered and no handler has returned yet
	// (a ninth request is then waiting for a worker): 100 ms, 300 ms, 6 s
	type gapCfg struct{ k, per, tick, topo, inner int }
	gaps := []gapCfg{{8, 2, -5, 0, 0}, {9, 2, -5, 0, 0}, {8, 3, -6, 0, 0}, {3, 4, -5, 0, 0}, {8, 2, -7, 2, 0}, {2, 3, -5, 1, 0},
		{9, 2, -5, 0, -9}, {9, 2, -5, 0, -10}, {10, 1, -5, 0, -5}, {9, 1, -6, 2, -10}, {12, 1, -5, 0, -10}}
	for gi, g := range gaps {
		cfg := c01Cfg{topo: g.topo, byRef: gi%2 == 1, k: g.k, per: g.per}
		rng := newRand(int64(77000 + gi))
		progs := make([][]syCop, g.k)
		for i := range progs {
			for x := 0; x < g.per; x++ {
				progs[i] = append(progs[i], syCop{Op: "invoke", Pay: syBytes(rng, syPickSize(rng)), M: i + x, Plain: (i+gi)%2 == 0})
			}
		}
		issued, ticked, innerDone := 0, false, false
		steps, complete, _ := runC01Lock(t, cfg, progs, func(step int, en []syAct) int {
			// all the requests of a batch reach the server before any handler returns (8 workers busy at once)
			nonU := -1
			hasC := false
			for i, a := range en {
				if a.K == 'C' {
					nonU = i
					hasC = true
					break
				}
				if a.K != 'U' && nonU < 0 {
					nonU = i
				}
			}
			if issued < g.k && en[0].K == 'U' {
				issued++
				return 0
			}
			if g.inner != 0 && !innerDone && !hasC && nonU >= 0 && en[nonU].K == 'H' {
				innerDone = true
				return g.inner // every request is at the server, no handler has returned: the clock advances
			}
			if nonU >= 0 {
				return nonU
			}
			// only user steps are left: the batch is complete
			if !ticked {
				ticked = true
				return g.tick
			}
			issued, ticked, innerDone = 1, false, false
			return 0
		})
		rec := recC01("c01-gaps", cfg, map[string]any{"gap_ms": map[int]int{-5: 6000, -6: 60000, -7: 3600000}[g.tick], "schedule": sySchedString(steps)}, steps, complete, "mode:batches-and-gaps")
		sp.small(&rec)
	}

	// ---- A''. ONE Server, two connections: on connection A k calls are in flight at their (gated) handlers when A's
	// transport fails; the handlers return afterwards; then ordinary calls on connection B of the same Server: each must
	// get the reply to its own request (what a dying connection does to anything the Server shares must not be felt)
	for di, dc := range []c01Cfg{{topo: 0, k: 2, per: 2, doomed: 1}, {topo: 0, byRef: true, k: 2, per: 2, doomed: 8}, {topo: 0, k: 3, per: 1, doomed: 9},
		{topo: 2, byRef: true, k: 2, per: 1, doomed: 8}, {topo: 1, k: 1, per: 2, doomed: 8}} {
		rng := newRand(int64(78000 + di))
		var progs [][]syCop
		for d := 0; d < dc.doomed; d++ {
			progs = append(progs, []syCop{{Op: "invoke", Pay: syBytes(rng, 17), M: d, Dead: 3}})
		}
		for i := 0; i < dc.k; i++ {
			var p []syCop
			for x := 0; x < dc.per; x++ {
				p = append(p, syCop{Op: "invoke", Pay: syBytes(rng, syPickSize(rng)), M: i + x, Plain: i%2 == 1})
			}
			progs = append(progs, p)
		}
		issued, failed := 0, false
		steps, complete, _ := runC01Lock(t, dc, progs, func(step int, en []syAct) int {
			if issued < dc.doomed {
				issued++
				return 0 // the doomed callers are the first threads
			}
			if !failed {
				failed = true
				return -8
			}
			for i, a := range en {
				if a.K == 'H' && a.N >= syDoomedBase {
					return i // the handlers of the dead connection return
				}
			}
			return 0
		})
		rec := recC01("c01-doomed-connection", dc, map[string]any{"doomed": dc.doomed, "schedule": sySchedString(steps)}, steps, complete, "mode:two-connections")
		sp.small(&rec)
	}

	// ---- A'''. a stream and unary calls on ONE connection: thread 0 opens a server stream first (it stays open), the others
	// invoke; the requests are delivered, the stream's handler pushes its messages, then the unary handlers return: the
	// stream's messages reach the client BEFORE the unary replies. Each caller must get the reply to its own request.
	for si, sc := range []c01Cfg{{topo: 0, k: 1, stream: true}, {topo: 0, byRef: true, k: 2, stream: true}, {topo: 2, k: 1, stream: true}, {topo: 1, byRef: true, k: 1, stream: true}} {
		rng := newRand(int64(79000 + si))
		progs := [][]syCop{{{Op: "open", Slot: 0, Kind: 1, M: 0}, {Op: "recv", Slot: 0}, {Op: "recv", Slot: 0}, {Op: "recv*", Slot: 0}}}
		for i := 0; i < sc.k; i++ {
			progs = append(progs, []syCop{{Op: "invoke", Pay: syBytes(rng, syPickSize(rng)), M: i}, {Op: "invoke", Pay: syBytes(rng, 17), M: i + 1}})
		}
		prio := "UCGHSR"
		opened := false
		steps, complete, _ := runC01Lock(t, sc, progs, func(step int, en []syAct) int {
			if !opened { // the stream is opened (and its opening envelope delivered) before any unary call starts
				for i, a := range en {
					if a.K == 'U' && a.N == 0 {
						opened = true
						return i
					}
				}
			}
			best, bi := 99, 0
			for i, a := range en {
				p := strings.IndexByte(prio, a.K)
				if a.K == 'U' && a.N == 0 {
					p = 50 // the stream's own receives come last
				}
				if p >= 0 && p < best {
					best, bi = p, i
				}
			}
			return bi
		})
		rec := recC01("c01-with-stream", sc, map[string]any{"schedule": sySchedString(steps)}, steps, complete, "mode:stream-and-unary")
		sp.small(&rec)
	}

	// ---- B. seeded random lock-step schedules: 1..8 callers, several calls each, all topologies
	nrand := 120
	if thorough() {
		nrand = 1500
	}
	for i := 0; i < nrand; i++ {
		if !want(sp.idx) {
			sp.small(nil)
			continue
		}
		rng := newRand(int64(50000 + i))
		cfg := c01Cfg{topo: i % 3, byRef: (i/3)%2 == 1, k: 1 + rng.Intn(8)}
		if i%4 >= 2 {
			cfg.dead = rng.Intn(3)
		}
		progs := make([][]syCop, cfg.k)
		ncalls := 0
		for j := range progs {
			n := 1 + rng.Intn(3)
			plain := rng.Intn(2) == 0
			cfg.plain = cfg.plain || plain
			mj := rng.Intn(syNUnary)
			for x := 0; x < n; x++ {
				m := rng.Intn(syNUnary)
				if plain {
					m = mj
				}
				progs[j] = append(progs[j], syCop{Op: "invoke", Pay: syBytes(rng, syPickSize(rng)), M: m, Plain: plain})
				ncalls++
			}
		}
		if i%4 == 1 && rng.Intn(2) == 0 {
			cfg.faulted = 1
			at := rng.Intn(len(progs) + 1)
			progs = append(progs[:at], append([][]syCop{{{Op: "invoke", Pay: syBytes(rng, 17), M: rng.Intn(syNUnary), Dead: 4}}}, progs[at:]...)...)
		}
		for d := 0; d < cfg.dead; d++ {
			var p []syCop
			for x := 0; x <= rng.Intn(2); x++ {
				p = append(p, syCop{Op: "invoke", Pay: syBytes(rng, 17), M: rng.Intn(syNUnary), Dead: 1 + rng.Intn(2)})
			}
			// somewhere among the callers
			at := rng.Intn(len(progs) + 1)
			progs = append(progs[:at], append([][]syCop{p}, progs[at:]...)...)
		}
		steps, complete, _ := runC01Lock(t, cfg, progs, func(step int, en []syAct) int {
			if i%3 == 0 && rng.Intn(20) == 0 {
				return -5 - rng.Intn(3) // the clock advances
			}
			return rng.Intn(len(en))
		})
		rec := recC01("c01-random", cfg, map[string]any{"calls": ncalls, "schedule": sySchedString(steps)}, steps, complete, "mode:random-lockstep")
		sp.small(&rec)
	}
	sp.flush()
}

//go:build sv

package verifharness

import (
	"fmt"
	"testing"
)

// TestSrvWalk: random walks over deliveries, handler operations and transport faults on one real server
// connection; model agreement only (Check/ServerC.v).
func TestSrvWalk(t *testing.T) {
	em := NewEmitter()
	defer em.Close()
	n := 400
	if thorough() {
		n = 4000
	}
	for idx := 0; idx < n; idx++ {
		rnd := newRand(int64(7000 + idx))
		steps := 6 + rnd.Intn(30)
		faults := idx%3 != 0
		if !want(idx) {
			continue
		}
		em.Marker("begin", idx)
		res := runServerScenario(t, idx, "walk", svWalk(rnd, steps, faults), em, []string{"walk"})
		tags := append([]string{"walk", fmt.Sprintf("faults=%v", faults)}, svTagsOf(res)...)
		if res.Leaked {
			tags = append(tags, "leaked-at-end")
		}
		em.Emit(Rec{Idx: idx, Kind: "walk", Desc: svScenario{Acts: res.Acts}, Obs: res.Obs, Tags: tags, Coq: svCase(res)})
		em.Marker("end", idx)
	}
}

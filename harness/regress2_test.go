package verifharness

import (
	"context"
	"errors"
	"io"
	"sync"
	"testing"
	"testing/synctest"
	"time"

	goat "github.com/avos-io/goat"
	"github.com/avos-io/goat/gen/goatorepo"
	"github.com/avos-io/goat/internal/verifhook"
	"google.golang.org/grpc"
	"google.golang.org/grpc/stats"
)

// D-17b: after the proxy's context is cancelled no goroutine of the proxy stays behind.
func TestRegressD17b(t *testing.T) {
	leaked := bubble(t, func(t *testing.T) {
		ctx, cancel := context.WithCancel(context.Background())
		a, b := NewEndpoint("a"), NewEndpoint("b")
		p := goat.NewProxy(ctx, "proxy", func(id string) (goat.RpcReadWriter, error) { return nil, errors.New("no dial") }, nil, nil)
		p.AddClient("a", a)
		p.AddClient("b", b)
		done := make(chan struct{})
		go func() { p.Serve(); close(done) }()
		synctest.Wait()
		cancel()
		synctest.Wait()
		<-done
	})
	if leaked {
		t.Errorf("D-17b: goroutines of the proxy remain after its context was cancelled")
	}
}

type countStats struct {
	mu         sync.Mutex
	begin, end int
	endErrs    []error
}

func (c *countStats) TagRPC(ctx context.Context, _ *stats.RPCTagInfo) context.Context { return ctx }
func (c *countStats) HandleRPC(_ context.Context, s stats.RPCStats) {
	c.mu.Lock()
	defer c.mu.Unlock()
	switch e := s.(type) {
	case *stats.Begin:
		c.begin++
	case *stats.End:
		c.end++
		c.endErrs = append(c.endErrs, e.Error)
	}
}
func (c *countStats) TagConn(ctx context.Context, _ *stats.ConnTagInfo) context.Context { return ctx }
func (c *countStats) HandleConn(context.Context, stats.ConnStats)                       {}

// D-20a: a stream started on a failed connection still gets exactly one Begin and one End.
func TestRegressD20a(t *testing.T) {
	bubble(t, func(t *testing.T) {
		ep := NewEndpoint("c")
		cs := &countStats{}
		cc := goat.NewClientConn(ep, "src", "dst", goat.WithStatsHandler(cs))
		ep.FailRead(errInjected)
		synctest.Wait()
		_, err := cc.NewStream(context.Background(), descBidi, "/verif.Echo/Bidi")
		if err == nil {
			t.Fatal("open succeeded on a failed connection")
		}
		synctest.Wait()
		if cs.begin != 1 || cs.end != 1 || cs.endErrs[0] == nil {
			t.Errorf("D-20a: begin=%d end=%d errs=%v", cs.begin, cs.end, cs.endErrs)
		}
	})
}

// D-06a: the server's reset for a late body must not overtake the stream's trailer.
func TestRegressD06a(t *testing.T) {
	bubble(t, func(t *testing.T) {
		ep := NewEndpoint("s")
		release := make(chan struct{})
		srv := newEchoServer("dst", &echoImpl{stream: func(kind string, s grpc.ServerStream) error {
			<-release
			return nil
		}})
		go srv.Serve(context.Background(), ep)
		ep.Deliver(&Rpc{Id: 1, Header: hdr("/verif.Echo/Bidi", "src", "dst")})
		synctest.Wait()
		gate := make(chan struct{})
		parked := make(chan struct{}, 1)
		verifhook.SetYield(func(pt string) {
			if pt == "srv.writer.taken" {
				select {
				case parked <- struct{}{}:
					<-gate
				default:
				}
			}
		})
		close(release) // handler returns; the writer takes the trailer and parks
		synctest.Wait()
		<-parked
		body, _ := protoMarshal(bv([]byte("late")))
		ep.Deliver(&Rpc{Id: 1, Header: hdr("/verif.Echo/Bidi", "src", "dst"), Body: &goatorepo.Body{Data: body}})
		synctest.Wait()
		close(gate)
		verifhook.SetYield(nil)
		synctest.Wait()
		var order []string
		for _, w := range ep.WrittenCopy() {
			if w.GetReset_() != nil {
				order = append(order, "reset")
			} else if w.GetTrailer() != nil {
				order = append(order, "trailer")
			}
		}
		if len(order) == 0 || order[0] != "trailer" {
			t.Errorf("D-06a: wire order %v (the reset overtook the trailer)", order)
		}
		ep.FailRead(io.EOF)
		synctest.Wait()
	})
}

// D-19a: a blocked Read on an HTTP connection returns once its context is done.
func TestRegressD19a(t *testing.T) {
	goh := goat.NewGoatOverHttp(func(string, goat.RpcReadWriter) {}, func(s string) (string, error) { return s, nil })
	defer goh.Cancel()
	rw := goh.NewConnection("127.0.0.1:1")
	ctx, cancel := context.WithTimeout(context.Background(), 50*time.Millisecond)
	defer cancel()
	done := make(chan error, 1)
	go func() { _, err := rw.Read(ctx); done <- err }()
	select {
	case err := <-done:
		if err == nil {
			t.Errorf("D-19a: Read returned without error")
		}
	case <-time.After(2 * time.Second):
		t.Errorf("D-19a: Read still blocked 2s after its context expired")
	}
}

// D-18: after Cancel(key) reads and writes on the logical connection fail instead of crashing.
func TestRegressD18(t *testing.T) {
	bubble(t, func(t *testing.T) {
		ep := NewEndpoint("shared")
		conns := make(chan goat.RpcReadWriter, 4)
		d := goat.NewDemux(context.Background(), ep, func(r *goat.Rpc) string { return r.GetHeader().GetSource() },
			func(rw goat.RpcReadWriter) { conns <- rw })
		go d.Run()
		ep.Deliver(&Rpc{Id: 1, Header: hdr("/x/y", "k1", "srv")})
		synctest.Wait()
		rw := <-conns
		if _, err := rw.Read(context.Background()); err != nil {
			t.Fatalf("first read: %v", err)
		}
		d.Cancel("k1")
		synctest.Wait()
		res := make(chan any, 2)
		go func() {
			defer func() { res <- recover() }()
			ctx, cancel := context.WithTimeout(context.Background(), time.Second)
			defer cancel()
			err := rw.Write(ctx, &Rpc{Id: 1, Header: hdr("/x/y", "srv", "k1")})
			if err == nil {
				res <- "write after cancel succeeded"
			} else if errors.Is(err, context.DeadlineExceeded) {
				res <- "write after cancel blocked until its deadline"
			}
		}()
		synctest.Wait()
		time.Sleep(2 * time.Second)
		select {
		case r := <-res:
			if r != nil {
				t.Errorf("D-18: write after Cancel: %v", r)
			}
		default:
			t.Errorf("D-18: write after Cancel blocked")
		}
		// a hand-off in progress when the key is cancelled must not crash the run loop
		ep.Deliver(&Rpc{Id: 2, Header: hdr("/x/y", "k2", "srv")})
		synctest.Wait()
		<-conns
		ep.Deliver(&Rpc{Id: 3, Header: hdr("/x/y", "k2", "srv")}) // second envelope: run loop parks in hand-off (nobody reads k2)
		synctest.Wait()
		d.Stop()
		synctest.Wait()
		ep.FailRead(io.EOF)
		synctest.Wait()
	})
}

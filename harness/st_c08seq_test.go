//go:build st

package verifharness

import (
	"context"
	"fmt"
	"io"
	"sync"
	"testing"
	"testing/synctest"
	"time"

	goat "github.com/avos-io/goat"
	"google.golang.org/grpc"
	"google.golang.org/protobuf/types/known/wrapperspb"
)

// Sequences of 2..3 calls under ONE deadline context (unary / stream mix, one or
// two client connections) with virtual time passing between them: for every call
// the handler's deadline must be the caller's (minus the millisecond rounding),
// i.e. the announced timeout must be computed anew from what is left at that call.
func TestC08Seq(t *testing.T) {
	em := NewEmitter()
	defer em.Close()
	idx := 0
	type seq struct {
		r     time.Duration
		tick  time.Duration
		kinds string // U = unary, S = stream (bidi), C = client stream; lower case = on the second connection
	}
	var seqs []seq
	for _, r := range []time.Duration{50 * time.Millisecond, 10 * time.Second, 2 * time.Hour} {
		for _, tick := range []time.Duration{time.Millisecond, 7 * time.Millisecond, time.Second, time.Hour} {
			if 3*tick >= r && r < time.Hour {
				continue // the third call would start after the deadline; the expired case is in the last loop
			}
			for _, kinds := range []string{"UU", "US", "SU", "SS", "USU", "SCU", "Uu", "Su", "uUs"} {
				seqs = append(seqs, seq{r, tick, kinds})
			}
		}
	}
	// the later calls start after the deadline has passed: conveyed as 1 ms every time
	seqs = append(seqs, seq{5 * time.Millisecond, 10 * time.Millisecond, "UUS"}, seq{5 * time.Millisecond, time.Hour, "SU"})
	for _, sq := range seqs {
		n := len(sq.kinds)
		if !anyWanted(idx, n) {
			idx += n
			continue
		}
		stBegin(em, idx)
		first := idx
		type obs struct {
			t1  int64
			has bool
			rem int64
		}
		var mu sync.Mutex
		var got []obs
		var t0s []int64
		bubble(t, func(t *testing.T) {
			epoch := time.Now()
			rec := func(ctx context.Context) {
				dl, has := ctx.Deadline()
				o := obs{t1: int64(time.Since(epoch)), has: has}
				if has {
					o.rem = int64(dl.Sub(time.Now()))
				}
				mu.Lock()
				got = append(got, o)
				mu.Unlock()
			}
			impl := &echoImpl{
				unary:  func(ctx context.Context, req []byte) ([]byte, bool, error) { rec(ctx); return req, true, nil },
				stream: func(kind string, ss grpc.ServerStream) error { rec(ss.Context()); return nil },
			}
			srv := newEchoServer("dst", impl)
			var links []*Link
			var conns []*goat.ClientConn
			rets := make(chan error, 2)
			for i := 0; i < 2; i++ {
				l := NewLink(false)
				l.Auto = true
				links = append(links, l)
				go func() { rets <- srv.Serve(context.Background(), l.S) }()
				conns = append(conns, goat.NewClientConn(l.C, "src", "dst"))
			}
			ctx, cancel := context.WithDeadline(context.Background(), time.Now().Add(sq.r))
			defer cancel()
			for i, k := range sq.kinds {
				if i > 0 {
					time.Sleep(sq.tick)
				}
				cc := conns[0]
				if k >= 'a' {
					cc = conns[1]
					k -= 'a' - 'A'
				}
				t0s = append(t0s, int64(time.Since(epoch)))
				before := len(got)
				switch k {
				case 'U':
					go func() {
						var out wrapperspb.BytesValue
						cc.Invoke(ctx, "/verif.Echo/Unary", bv([]byte("q")), &out)
					}()
				case 'S':
					go cc.NewStream(ctx, descBidi, "/verif.Echo/Bidi")
				case 'C':
					go cc.NewStream(ctx, descCStream, "/verif.Echo/CStream")
				}
				synctest.Wait()
				mu.Lock()
				ran := len(got) > before
				mu.Unlock()
				if !ran {
					mu.Lock()
					got = append(got, obs{t1: -1})
					mu.Unlock()
				}
			}
			cancel()
			synctest.Wait()
			for _, l := range links {
				l.C.FailRead(io.EOF)
				l.S.FailRead(io.EOF)
			}
			synctest.Wait()
			<-rets
			<-rets
		})
		for i := range sq.kinds {
			if want(idx) {
				o := obs{t1: -1}
				if i < len(got) {
					o = got[i]
				}
				stream := sq.kinds[i] != 'U' && sq.kinds[i] != 'u'
				left := int64(sq.r) - t0s[i]
				em.Emit(Rec{Idx: idx, Kind: "sys-seq", Desc: map[string]any{"deadline_ns": int64(sq.r), "tick_ns": int64(sq.tick), "kinds": sq.kinds, "call": i},
					Obs:  map[string]any{"t0": t0s[i], "t1": o.t1, "has": o.has, "rem": o.rem},
					Tags: []string{"seq:calls-under-one-deadline", fmt.Sprintf("seq:call=%d", i), "seq:tick=" + sq.tick.String(), fmt.Sprintf("seq:left>0=%v", left > 0)},
					Coq:  fmt.Sprintf("CSys %s %s %s [] (Some %s) %s", coqBool(stream), coqZ(t0s[i]), coqZ(o.t1), coqZ(left), coqOpt(o.has, coqZ(o.rem)))})
			}
			idx++
		}
		stEnd(em, first)
	}
}

//go:build sv

package verifharness

import (
	"fmt"
	"math/rand"
	"strings"
	"testing"

	goat "github.com/avos-io/goat"
)

// svConversation delivers the frames one by one; between deliveries every handler follows the scripted
// policy until nothing is left to do: a unary handler returns the echo of its request; a stream handler
// keeps a RecvMsg outstanding and returns when its stream ends (EOF -> nil, status -> that status, context
// error -> Canceled, undecodable message -> Internal). The last frame is the probe.
func svConversation(frames []*FrameSpec) func(r *svRig, step int) *SAct {
	next := 0
	var queue []*SAct
	seen := map[int]int{}
	return func(r *svRig, step int) *SAct {
		if len(queue) == 0 {
			for i, h := range r.hs {
				if h.returned || h.inOp {
					continue
				}
				if h.unary {
					queue = append(queue, &SAct{Op: "hstep", H: i, Hop: &HopSpec{Op: "return", Rep: i64(h.payload)}})
					continue
				}
				hop := &HopSpec{Op: "recv"}
				if h.nRes > seen[i] {
					seen[i] = h.nRes
					switch {
					case h.lastRes == "ORecvEof":
						hop = &HopSpec{Op: "return"}
					case strings.HasPrefix(h.lastRes, "(ORecvStatus"):
						hop = &HopSpec{Op: "return", Err: "status", Code: 9, Msg: 3}
					case h.lastRes == "OCtx":
						hop = &HopSpec{Op: "return", Err: "canceled"}
					case h.lastRes == "ORecvUnmarshal":
						hop = &HopSpec{Op: "return", Err: "status", Code: 13, Msg: 4}
					}
				}
				queue = append(queue, &SAct{Op: "hstep", H: i, Hop: hop})
			}
		}
		if len(queue) > 0 {
			a := queue[0]
			queue = queue[1:]
			return a
		}
		if next < len(frames) {
			next++
			return &SAct{Op: "deliver", F: frames[next-1]}
		}
		return nil
	}
}

// svDrainProbe: after the walk, every handler returns (the one the read loop waits for first), then the
// probe is delivered and answered.
func svDrainProbe(walk func(r *svRig, step int) *SAct, probe *FrameSpec) func(r *svRig, step int) *SAct {
	phase := 0
	drained := 0
	return func(r *svRig, step int) *SAct {
		if phase > 0 {
			if drained++; drained > 100 {
				return nil // give up: the case then does not end idle (reason 6)
			}
		}
		if phase == 0 {
			if a := walk(r, step); a != nil {
				return a
			}
			phase = 1
		}
		if phase <= 2 {
			if t := r.fwdTarget(); t >= 0 && !r.hs[t].inOp {
				if r.ep.Pending() > 0 {
					// drain its queue first: more envelopes are waiting behind the parked read loop
					return &SAct{Op: "hstep", H: t, Hop: &HopSpec{Op: "recv"}}
				}
				return &SAct{Op: "hstep", H: t, Hop: &HopSpec{Op: "return"}}
			}
			for i, h := range r.hs {
				if h.returned || h.inOp {
					continue
				}
				if h.unary {
					return &SAct{Op: "hstep", H: i, Hop: &HopSpec{Op: "return", Rep: i64(h.payload)}}
				}
				return &SAct{Op: "hstep", H: i, Hop: &HopSpec{Op: "return"}}
			}
			for _, h := range r.hs {
				if !h.returned && h.inOp {
					// parked in an operation of its body: a stream handler in RecvMsg / await is woken by a reset from the peer
					if !h.unary {
						return &SAct{Op: "deliver", F: &FrameSpec{Id: r.delivered[h.seq].Id, Hdr: "ok:0", Method: r.delivered[h.seq].Method, Src: "src", Dst: "dst", Rst: "rst"}}
					}
				}
			}
			if phase == 1 {
				phase = 2
				return &SAct{Op: "deliver", F: probe}
			}
			phase = 3
		}
		return nil
	}
}

func svProbe(pay int64) *FrameSpec {
	return &FrameSpec{Id: 99, Hdr: "ok:0", Method: mUnary, Src: "src", Dst: "dst", Body: i64(pay)}
}

// a valid conversation on stream id (open, bodies, close) and two unary calls, as a frame list
func svValidConversation(rnd *rand.Rand) []*FrameSpec {
	var out []*FrameSpec
	id := uint64(1 + rnd.Intn(2))
	m := []string{mBidi, mCStr, mSStr}[rnd.Intn(3)]
	out = append(out, &FrameSpec{Id: id, Hdr: fmt.Sprintf("ok:%d", rnd.Intn(2)*8), Method: m, Src: "src", Dst: "dst"})
	for i := 0; i < 1+rnd.Intn(3); i++ {
		out = append(out, &FrameSpec{Id: id, Hdr: "ok:0", Method: m, Src: "src", Dst: "dst", Body: i64(int64(2000 + rnd.Intn(500)))})
		if rnd.Intn(3) == 0 {
			out = append(out, &FrameSpec{Id: uint64(5 + rnd.Intn(3)), Hdr: "ok:0", Method: mUnary, Src: "src", Dst: "dst", Body: i64(int64(2600 + rnd.Intn(300)))})
		}
	}
	out = append(out, &FrameSpec{Id: id, Hdr: "ok:0", Method: m, Src: "src", Dst: "dst", Status: &[2]int64{0, 0}, Trl: "ok:0"})
	return out
}

// one field-level mutation of a frame
func svMutate(rnd *rand.Rand, f *FrameSpec) (*FrameSpec, string) {
	g := *f
	switch rnd.Intn(14) {
	case 0:
		g.Hdr = "none"
		return &g, "drop-header"
	case 1:
		g.Hdr = "bad"
		return &g, "bad-metadata"
	case 2:
		g.Dst = "elsewhere"
		return &g, "wrong-dst"
	case 3:
		g.Method = strings.ReplaceAll(g.Method, "/", "")
		return &g, "method-no-slash"
	case 4:
		g.Method = "/verif.Echo/Missing"
		return &g, "unknown-method"
	case 5:
		g.Method = "/nobody" + g.Method
		return &g, "unknown-service"
	case 6:
		g.Id = g.Id + 10
		return &g, "other-id"
	case 7:
		if g.Body == nil {
			g.Body = i64(3000 + int64(rnd.Intn(100)))
		} else {
			g.Body = nil
		}
		return &g, "toggle-body"
	case 8:
		g.Body = i64(-1)
		return &g, "bad-body"
	case 9:
		if g.Trl == "" || g.Trl == "none" {
			g.Trl = "ok:0"
		} else {
			g.Trl = "none"
		}
		return &g, "toggle-trailer"
	case 10:
		g.Rst = "rst"
		return &g, "add-reset"
	case 11:
		g.Rst = "other"
		return &g, "add-reset-othertype"
	case 12:
		g.Status = &[2]int64{int64(1 + rnd.Intn(15)), 5}
		return &g, "add-status"
	default:
		g.Method = strings.TrimPrefix(g.Method, "/")
		return &g, "method-strip-slash"
	}
}

func svSeqs(alpha int, n int) [][]int {
	var out [][]int
	var rec func(p []int)
	rec = func(p []int) {
		if len(p) > 0 {
			out = append(out, append([]int(nil), p...))
		}
		if len(p) == n {
			return
		}
		for i := 0; i < alpha; i++ {
			rec(append(p, i))
		}
	}
	rec(nil)
	return out
}

func TestC12(t *testing.T) {
	shard, nShards, child := svSharded(t, "TestC12", 12, func(idx int, wedged bool) string {
		return fmt.Sprintf("C12Dead %s", coqBool(wedged))
	})
	if !child {
		return
	}
	want := func(idx int) bool { return want(idx) && idx%nShards == shard }
	em := NewEmitter()
	defer em.Close()
	idx := 0
	emitPlain := func(kind string, desc any, coq string, tags ...string) {
		if want(idx) {
			em.Marker("begin", idx)
			em.Emit(Rec{Idx: idx, Kind: kind, Desc: desc, Coq: coq, Tags: tags})
			em.Marker("end", idx)
		}
		idx++
	}
	// ---- the method parser against Model/Method.v, and the rig's classification table
	methods := []string{"", "/", "//", "a", "/a", "a/", "/a/", "a/b", "/a/b", "//a/b", "a//b", "/a/b/c", "a/b/c/", "/verif.Echo/Unary",
		"verif.Echo/Unary", "//verif.Echo/Unary", "/verif.Echo//Unary", "/verif.Echo/Unary/", "/x/verif.Echo/Unary", "nomethod",
		"/other.Svc/Unary", "/verif.Echo/Nope", "/verif.Echo/Unary2", mBidi, mCStr, mSStr, "/verif.Echo/bidi", "/Verif.Echo/Bidi",
		"/nobody/verif.Echo/Bidi", "verif.EchoBidi", "\x00/\xff", "/\xe2\x82\xac/m"}
	rm := newRand(1200)
	for i := 0; i < 200; i++ {
		n := rm.Intn(12)
		b := make([]byte, n)
		for j := range b {
			b[j] = "/ab/.E/"[rm.Intn(7)]
		}
		methods = append(methods, string(b))
	}
	// every placement of slashes in strings of length <= 4 over {a, /} (31 strings: no slash, only a leading one, only a
	// trailing one, doubled, ...)
	slashy := svSlashStrings(4)
	methods = append(methods, slashy...)
	// the parser is called by the owning shard only, inside the case's markers, and a panic of the parser is a case of
	// its own (the read loop calls it with nothing recovering: reason 7) - it must not take the other families with it
	safeParse := func(m string) (svc, meth string, err error, pan any) {
		defer func() { pan = recover() }()
		svc, meth, err = goat.VerifParseRawMethod(m)
		return
	}
	for _, m := range methods {
		if want(idx) {
			em.Marker("begin", idx)
			svc, meth, err, pan := safeParse(m)
			if pan != nil {
				em.Emit(Rec{Idx: idx, Kind: "method", Desc: map[string]any{"method": m, "panic": fmt.Sprint(pan)}, Coq: "C12Dead false",
					Tags: []string{"method-parse", "method-parse-panic"}})
			} else {
				r := "None"
				if err == nil {
					r = fmt.Sprintf("(Some (%s, %s))", coqStr(svc), coqStr(meth))
				}
				em.Emit(Rec{Idx: idx, Kind: "method", Desc: m, Coq: fmt.Sprintf("C12Method %s %s", coqStr(m), r), Tags: []string{"method-parse"}})
			}
			em.Marker("end", idx)
		}
		idx++
		emitPlain("shape", m, fmt.Sprintf("C12Shape %s %s", coqStr(m), svMethodKind(m)), "method-kind:"+strings.Trim(strings.Fields(svMethodKind(m))[0], "()"))
	}

	run := func(kind string, frames []*FrameSpec, tags []string) {
		if !want(idx) {
			idx++
			return
		}
		em.Marker("begin", idx)
		res := runServerScenario(t, idx, kind, svConversation(frames), em, tags)
		tags = append(tags, svTagsOf(res)...)
		if res.Leaked {
			tags = append(tags, "leaked-at-end")
		}
		em.Emit(Rec{Idx: idx, Kind: kind, Desc: map[string]any{"frames": frames}, Obs: res.Obs, Tags: tags, Coq: "C12Seq (" + svCase(res) + ")"})
		em.Marker("end", idx)
		idx++
	}

	// ---- every envelope sequence over the alphabet, each followed by the probe
	maxLen := 3
	nAlpha := len(svAlphabet(1, 2, 3, 0))
	for si, seq := range svSeqs(nAlpha, maxLen) {
		// quick: every sequence of length <= 2 and a seeded quarter of those of length 3; thorough: all
		if len(seq) == 3 && !thorough() && (uint64(si)*2654435761+uint64(*flagSeed))%4 != 0 {
			idx++
			continue
		}
		var frames []*FrameSpec
		tags := []string{"exhaustive", fmt.Sprintf("len=%d", len(seq))}
		for pos, k := range seq {
			frames = append(frames, svAlphabet(1, 2, 3, int64(100*(pos+1)))[k])
			if len(seq) == 1 {
				tags = append(tags, "shape:"+svAlphabetNames[k])
			}
		}
		frames = append(frames, svProbe(901))
		run("seq", frames, tags)
	}

	// ---- garbage method strings on the wire: every placement of slashes in strings of length <= 4 over {a, /}, and the
	// registered names cut at their slashes ("/Unary", "/verif.Echo", "verif.Echo/", ...), as a unary-looking request
	// (with body) and as a stream-looking opener, alone and behind an open stream; then the probe
	wireMethods := append(append([]string{}, slashy...), "/Unary", "/Bidi", "/verif.Echo", "verif.Echo/", "/verif.Echo/", "verif.Echo", "Unary",
		"//Unary", "/verif.Echo//", "///", "////", "/.", "./", "/ ", " /")
	for _, m := range wireMethods {
		for _, body := range []bool{true, false} {
			for _, behind := range []bool{false, true} {
				var frames []*FrameSpec
				if behind {
					frames = append(frames, &FrameSpec{Id: 1, Hdr: "ok:0", Method: mBidi, Src: "src", Dst: "dst"})
				}
				f := &FrameSpec{Id: 5, Hdr: "ok:0", Method: m, Src: "src", Dst: "dst"}
				if body {
					f.Body = i64(840)
				}
				frames = append(frames, f, svProbe(912))
				run("wiremethod", frames, []string{"wire-method", fmt.Sprintf("slashes=%d", strings.Count(m, "/")), fmt.Sprintf("body=%v", body), fmt.Sprintf("behind=%v", behind)})
			}
		}
	}

	// ---- "-bin" request metadata: values of every length mod 4 (0..9 characters), valid and invalid alphabet, padded and
	// not, lower- and upper-case key, on a unary request and on a stream opener; then more traffic and the probe
	binVals := []string{"", "A", "QQ", "QUI", "QUJD", "QUJDR", "QUJDRA", "QUJDREU", "QUJDREVG", "QUJDREVGR", "QQ==", "QUI=", "QUJDRA==",
		"QUJDREU=", "A===", "=", "==", "====", "!", "!!", "%%%", "!!!!", "abc*", "ab*de", "a b c", "QUJD\n", "QQ=", "QUI==", "-_-_", "-_-_-", "+/+/", "+/+/+"}
	for _, v := range binVals {
		for _, key := range []string{"bin:", "BIN:"} {
			for _, stream := range []bool{false, true} {
				f := &FrameSpec{Id: 3, Hdr: key + v, Method: mUnary, Src: "src", Dst: "dst", Body: i64(820)}
				if stream {
					f = &FrameSpec{Id: 1, Hdr: key + v, Method: mBidi, Src: "src", Dst: "dst"}
				}
				frames := []*FrameSpec{f, {Id: 1, Hdr: "ok:0", Method: mBidi, Src: "src", Dst: "dst", Body: i64(821)},
					{Id: 1, Hdr: "ok:0", Method: mBidi, Src: "src", Dst: "dst", Status: &[2]int64{0, 0}, Trl: "ok:0"}, svProbe(910)}
				run("binmd", frames, []string{"binmd", fmt.Sprintf("len%%4=%d", len(v)%4), fmt.Sprintf("stream=%v", stream)})
			}
		}
	}

	// ---- destination classes: only an envelope whose Destination IS the server's name is for it - not the empty string, a
	// blank, another case, the name with a suffix / a prefix of it / with blanks or a NUL around it, a wildcard; as unary
	// request, stream opener, message / half-close / reset for a stream (unknown, and one that is open), then the probe
	for _, dst := range []string{"", " ", "DST", "Dst", "dstx", "ds", "d", "dst ", " dst", "dst\x00", "dst/", "*"} {
		for _, shape := range []string{"unary", "open", "body", "close", "reset"} {
			for _, behind := range []bool{false, true} {
				var frames []*FrameSpec
				if behind {
					frames = append(frames, &FrameSpec{Id: 1, Hdr: "ok:0", Method: mBidi, Src: "src", Dst: "dst"})
				}
				f := &FrameSpec{Id: 1, Hdr: "ok:0", Method: mBidi, Src: "src", Dst: dst}
				switch shape {
				case "unary":
					f = &FrameSpec{Id: 5, Hdr: "ok:0", Method: mUnary, Src: "src", Dst: dst, Body: i64(860)}
				case "open":
					f.Id = 7
				case "body":
					f.Body = i64(861)
				case "close":
					f.Status, f.Trl = &[2]int64{0, 0}, "ok:0"
				case "reset":
					f.Rst = "rst"
				}
				frames = append(frames, f, svProbe(914))
				run("dstclass", frames, []string{"dst-class", "shape:" + shape, fmt.Sprintf("behind=%v", behind), fmt.Sprintf("dstlen=%d", len(dst))})
			}
		}
	}

	// ---- odd metadata KEYS: empty, pseudo-headers, "-bin" alone, upper case, blanks, control characters, non-ASCII, invalid
	// UTF-8, reserved names, 64 KiB; alone and next to ordinary metadata; on a unary request and on a stream opener
	for n := range svOddKeys {
		for _, tok := range []int64{0, 9} {
			for _, stream := range []bool{false, true} {
				hdr := fmt.Sprintf("key:%d:%d", n, tok)
				f := &FrameSpec{Id: 3, Hdr: hdr, Method: mUnary, Src: "src", Dst: "dst", Body: i64(850)}
				if stream {
					f = &FrameSpec{Id: 1, Hdr: hdr, Method: mBidi, Src: "src", Dst: "dst"}
				}
				frames := []*FrameSpec{f, {Id: 1, Hdr: hdr, Method: mBidi, Src: "src", Dst: "dst", Body: i64(851)},
					{Id: 1, Hdr: "ok:0", Method: mBidi, Src: "src", Dst: "dst", Status: &[2]int64{0, 0}, Trl: "ok:0"}, svProbe(913)}
				run("mdkey", frames, []string{"md-key", fmt.Sprintf("key=%d", n), fmt.Sprintf("stream=%v", stream)})
			}
		}
	}

	// ---- long sequences of pairwise DISTINCT ignorable envelopes (distinct unparsable / unknown methods, unknown services,
	// foreign destinations, mixed), then the probe
	distinctN := []int{129, 257}
	if thorough() {
		distinctN = append(distinctN, 1025)
	}
	for _, n := range distinctN {
		for _, kind := range []string{"method", "service", "dst", "badmethod", "mixed"} {
			var frames []*FrameSpec
			for i := 0; i < n; i++ {
				k := kind
				if kind == "mixed" {
					k = []string{"method", "service", "dst", "badmethod"}[i%4]
				}
				f := &FrameSpec{Id: uint64(1000 + i), Hdr: "ok:0", Method: mUnary, Src: "src", Dst: "dst", Body: i64(int64(830 + i%50))}
				switch k {
				case "method":
					f.Method = fmt.Sprintf("/verif.Echo/Nope%d", i)
				case "service":
					f.Method = fmt.Sprintf("/svc%d.Other/Unary", i)
				case "dst":
					f.Dst = fmt.Sprintf("elsewhere-%d", i)
				case "badmethod":
					f.Method = fmt.Sprintf("nomethod%d", i)
				}
				frames = append(frames, f)
			}
			frames = append(frames, svProbe(911))
			run("distinct", frames, []string{"distinct-ignorable", fmt.Sprintf("n=%d", n), "kind:" + kind})
		}
	}

	// ---- several sources on one connection: the registry is ONE id space per connection, whatever the source
	// names are (also names and ids whose concatenations coincide: "c-1"+"12" = "c-11"+"2" = "c-"+"112")
	type sid struct {
		src string
		id  uint64
	}
	pairs := []sid{{"c-1", 12}, {"c-11", 2}, {"c-1", 2}, {"c-111", 2}, {"c-11", 12}, {"c-", 112}, {"c-1", 112}}
	for ai, a := range pairs {
		for bi, b := range pairs {
			if ai == bi {
				continue
			}
			for _, order := range []string{"ab", "ba"} {
				mk := func(p sid, body *int64, trl bool) *FrameSpec {
					f := &FrameSpec{Id: p.id, Hdr: "ok:0", Method: mBidi, Src: p.src, Dst: "dst", Body: body}
					if trl {
						f.Status, f.Trl = &[2]int64{0, 0}, "ok:0"
					}
					return f
				}
				frames := []*FrameSpec{mk(a, nil, false), mk(b, nil, false)}
				if order == "ab" {
					frames = append(frames, mk(a, i64(801), false), mk(b, i64(802), false), mk(a, nil, true), mk(b, nil, true))
				} else {
					frames = append(frames, mk(b, i64(802), false), mk(a, i64(801), false), mk(b, nil, true), mk(a, nil, true))
				}
				frames = append(frames, svProbe(908))
				run("sources", frames, []string{"sources", fmt.Sprintf("sameid=%v", a.id == b.id), "order:" + order})
			}
		}
	}

	// ---- thorough: a seeded sample of the sequences of length 4
	if thorough() {
		for i := 0; i < 8000; i++ {
			rnd := newRand(int64(40000 + i))
			var frames []*FrameSpec
			for pos := 0; pos < 4; pos++ {
				frames = append(frames, svAlphabet(1, 2, 3, int64(100*(pos+1)))[rnd.Intn(nAlpha)])
			}
			frames = append(frames, svProbe(906))
			run("seq", frames, []string{"sampled", "len=4"})
		}
	}

	// ---- random longer sequences
	nRand := 150
	if thorough() {
		nRand = 1500
	}
	for i := 0; i < nRand; i++ {
		rnd := newRand(int64(12000 + i))
		n := 4 + rnd.Intn(37)
		var frames []*FrameSpec
		for pos := 0; pos < n; pos++ {
			al := svAlphabet(1, 2, uint64(3+rnd.Intn(3)), int64(100*(pos+1)))
			frames = append(frames, al[rnd.Intn(len(al))])
		}
		frames = append(frames, svProbe(902))
		run("randseq", frames, []string{"random", fmt.Sprintf("len=%d", n/10*10)})
	}

	// ---- handlers that abandon their input: k unconsumed bodies, then the handler returns, then the probe
	runWalk := func(kind string, next func(r *svRig, step int) *SAct, tags []string) {
		if !want(idx) {
			idx++
			return
		}
		em.Marker("begin", idx)
		res := runServerScenario(t, idx, kind, next, em, tags)
		tags = append(tags, svTagsOf(res)...)
		if res.Leaked {
			tags = append(tags, "leaked-at-end")
		}
		em.Emit(Rec{Idx: idx, Kind: kind, Desc: svScenario{Acts: res.Acts}, Obs: res.Obs, Tags: tags, Coq: "C12Walk (" + svCase(res) + ")"})
		em.Marker("end", idx)
		idx++
	}
	for k := 0; k <= 4; k++ {
		for _, first := range []string{"", "recv", "await-after-reset", "send"} {
			for _, other := range []bool{false, true} {
				acts := []SAct{{Op: "deliver", F: &FrameSpec{Id: 1, Hdr: "ok:0", Method: mBidi, Src: "src", Dst: "dst"}}}
				if other {
					acts = append(acts, SAct{Op: "deliver", F: &FrameSpec{Id: 2, Hdr: "ok:0", Method: mCStr, Src: "src", Dst: "dst"}})
				}
				switch first {
				case "await-after-reset":
					acts = append(acts, SAct{Op: "deliver", F: &FrameSpec{Id: 1, Hdr: "ok:0", Method: mBidi, Src: "src", Dst: "dst", Rst: "rst"}})
				case "recv":
					acts = append(acts, SAct{Op: "hstep", H: 0, Hop: &HopSpec{Op: "recv"}})
				case "send":
					acts = append(acts, SAct{Op: "hstep", H: 0, Hop: &HopSpec{Op: "send", B: 77}})
				}
				for j := 0; j < k; j++ {
					acts = append(acts, SAct{Op: "deliver", F: &FrameSpec{Id: 1, Hdr: "ok:0", Method: mBidi, Src: "src", Dst: "dst", Body: i64(int64(500 + j))}})
				}
				if first == "await-after-reset" {
					acts = append(acts, SAct{Op: "hstep", H: 0, Hop: &HopSpec{Op: "await"}})
				}
				// more traffic behind the blocked read loop
				acts = append(acts, SAct{Op: "deliver", F: &FrameSpec{Id: 7, Hdr: "ok:0", Method: mUnary, Src: "src", Dst: "dst", Body: i64(640)}})
				pos := 0
				script := func(r *svRig, step int) *SAct {
					if pos < len(acts) {
						pos++
						return &acts[pos-1]
					}
					return nil
				}
				runWalk("abandon", svDrainProbe(script, svProbe(904)), []string{"abandon", fmt.Sprintf("unconsumed=%d", k), "first:" + first})
			}
		}
	}

	// ---- leftovers: a handler returns with k messages unconsumed; then another stream is opened (same or other id)
	// whose handler reads: it must see its own messages only
	for k := 0; k <= 2; k++ {
		for _, last := range []string{"body", "close", "emptybody"} {
			for _, sameID := range []bool{false, true} {
				for _, late := range []bool{false, true} {
					id2 := uint64(2)
					if sameID {
						id2 = 1
					}
					mk := func(id uint64, b *int64, trl bool) *FrameSpec {
						f := &FrameSpec{Id: id, Hdr: "ok:0", Method: mBidi, Src: "src", Dst: "dst", Body: b}
						if trl {
							f.Status, f.Trl = &[2]int64{0, 0}, "ok:0"
						}
						return f
					}
					acts := []SAct{{Op: "deliver", F: mk(1, nil, false)}}
					for j := 0; j < k; j++ {
						switch {
						case j == k-1 && last == "close":
							acts = append(acts, SAct{Op: "deliver", F: mk(1, nil, true)})
						case j == k-1 && last == "emptybody":
							acts = append(acts, SAct{Op: "deliver", F: mk(1, i64(0), false)})
						default:
							acts = append(acts, SAct{Op: "deliver", F: mk(1, i64(int64(700+j)), false)})
						}
					}
					acts = append(acts, SAct{Op: "hstep", H: 0, Hop: &HopSpec{Op: "return", Err: "status", Code: 3, Msg: 9}})
					if late {
						// a message of the finished call that was still in flight
						b := int64(730)
						if last == "emptybody" {
							b = 0
						}
						acts = append(acts, SAct{Op: "deliver", F: mk(1, &b, false)})
					}
					acts = append(acts, SAct{Op: "deliver", F: mk(id2, nil, false)})
					acts = append(acts, SAct{Op: "hstep", H: 1, Hop: &HopSpec{Op: "recv"}})
					acts = append(acts, SAct{Op: "deliver", F: mk(id2, i64(750), false)})
					acts = append(acts, SAct{Op: "hstep", H: 1, Hop: &HopSpec{Op: "recv"}})
					acts = append(acts, SAct{Op: "deliver", F: mk(id2, nil, true)})
					pos := 0
					script := func(r *svRig, step int) *SAct {
						if pos < len(acts) {
							pos++
							return &acts[pos-1]
						}
						return nil
					}
					runWalk("leftover", svDrainProbe(script, svProbe(907)), []string{"leftover", fmt.Sprintf("unconsumed=%d", k), "last:" + last, fmt.Sprintf("sameid=%v", sameID), fmt.Sprintf("late=%v", late)})
				}
			}
		}
	}

	// ---- the transport blocks (a peer that is slow to read): an envelope parks the writer in Write, then envelopes
	// arrive that must be answered with a reset; virtual time passes; the transport unblocks: every reset due MUST
	// have been written (nothing may give up because time passed)
	for _, park := range []string{"unary-reply", "stream-msg"} {
		for _, stray := range []string{"body", "badmd-open", "two-bodies"} {
			for _, d := range []int64{10, 1000, 60000, 3600000} {
				acts := []SAct{{Op: "wblock", On: true}}
				if park == "unary-reply" {
					acts = append(acts, SAct{Op: "deliver", F: &FrameSpec{Id: 7, Hdr: "ok:0", Method: mUnary, Src: "src", Dst: "dst", Body: i64(810)}},
						SAct{Op: "hstep", H: 0, Hop: &HopSpec{Op: "return", Rep: i64(810)}})
				} else {
					acts = append(acts, SAct{Op: "deliver", F: &FrameSpec{Id: 1, Hdr: "ok:0", Method: mBidi, Src: "src", Dst: "dst"}},
						SAct{Op: "hstep", H: 0, Hop: &HopSpec{Op: "send", B: 811}})
				}
				switch stray {
				case "body":
					acts = append(acts, SAct{Op: "deliver", F: &FrameSpec{Id: 41, Hdr: "ok:0", Method: mBidi, Src: "src", Dst: "dst", Body: i64(812)}})
				case "badmd-open":
					acts = append(acts, SAct{Op: "deliver", F: &FrameSpec{Id: 41, Hdr: "bad", Method: mBidi, Src: "src", Dst: "dst"}})
				case "two-bodies":
					acts = append(acts, SAct{Op: "deliver", F: &FrameSpec{Id: 41, Hdr: "ok:0", Method: mBidi, Src: "src", Dst: "dst", Body: i64(812)}},
						SAct{Op: "deliver", F: &FrameSpec{Id: 42, Hdr: "ok:0", Method: mCStr, Src: "src2", Dst: "dst", Body: i64(813)}})
				}
				acts = append(acts, SAct{Op: "tick", D: d}, SAct{Op: "wblock", On: false}, SAct{Op: "tick", D: d})
				pos := 0
				script := func(r *svRig, step int) *SAct {
					if pos < len(acts) {
						pos++
						return &acts[pos-1]
					}
					return nil
				}
				runWalk("slowpeer", svDrainProbe(script, svProbe(909)), []string{"slowpeer", "park:" + park, "stray:" + stray, fmt.Sprintf("tick=%dms", d)})
			}
		}
	}

	// ---- random walks (handlers do anything, no transport faults), then every handler returns, then the probe
	nWalk := 120
	if thorough() {
		nWalk = 1500
	}
	for i := 0; i < nWalk; i++ {
		rnd := newRand(int64(18000 + i))
		runWalk("walk", svDrainProbe(svWalk(rnd, 8+rnd.Intn(30), false), svProbe(905)), []string{"walk+drain+probe"})
	}

	// ---- field-level mutations of valid conversations
	nMut := 150
	if thorough() {
		nMut = 1500
	}
	for i := 0; i < nMut; i++ {
		rnd := newRand(int64(15000 + i))
		frames := svValidConversation(rnd)
		tags := []string{"mutation"}
		for k := 0; k < 1+rnd.Intn(2); k++ {
			pos := rnd.Intn(len(frames))
			g, what := svMutate(rnd, frames[pos])
			frames[pos] = g
			tags = append(tags, "mut:"+what)
		}
		if rnd.Intn(4) == 0 {
			// a duplicated envelope
			pos := rnd.Intn(len(frames))
			dup := append([]*FrameSpec{}, frames[:pos+1]...)
			frames = append(dup, frames[pos:]...)
			tags = append(tags, "mut:duplicate")
		}
		frames = append(frames, svProbe(903))
		run("mutation", frames, tags)
	}
}

// svSlashStrings: every string of length 0..n over {a, /}
func svSlashStrings(n int) []string {
	out := []string{""}
	prev := []string{""}
	for l := 1; l <= n; l++ {
		var cur []string
		for _, p := range prev {
			cur = append(cur, p+"a", p+"/")
		}
		out = append(out, cur...)
		prev = cur
	}
	return out
}

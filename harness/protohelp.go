package verifharness

import (
	"google.golang.org/protobuf/proto"
	"google.golang.org/protobuf/reflect/protoreflect"
)

type protoreflectMessage = protoreflect.Message

func protoMarshalAny(m any) ([]byte, error) { return proto.Marshal(m.(proto.Message)) }

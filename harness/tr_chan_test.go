//go:build tr

package verifharness

import (
	"context"
	"encoding/json"
	"errors"
	"fmt"
	"os"
	"sort"
	"strings"
	"sync"
	"testing"
	"testing/synctest"
	"time"

	goat "github.com/avos-io/goat"
	"google.golang.org/protobuf/proto"
)

// TestC19Chan drives the real NewGoatOverChannel lock-step inside synctest
// bubbles: every sequence of at most N actions (Write / Read with a live or an
// already cancelled context, cancellation of any call still blocked, closing
// the channel) for channel capacities 0, 1, 2; after each action the bubble is
// run to quiescence and the returns and the calls still blocked are recorded.

type chAct struct {
	Op   string `json:"op"` // W, R, CW, CR, X, T (the virtual clock advances: no action of the model)
	Done bool   `json:"done,omitempty"`
	I    int    `json:"i,omitempty"`
	V    int64  `json:"v,omitempty"`
}

func (a chAct) coq() string {
	switch a.Op {
	case "W":
		return fmt.Sprintf("CWrite %d %s", a.V, coqBool(a.Done))
	case "R":
		return fmt.Sprintf("CRead %s", coqBool(a.Done))
	case "CW":
		return fmt.Sprintf("CCancelW %d%%nat", a.I)
	case "CR":
		return fmt.Sprintf("CCancelR %d%%nat", a.I)
	case "T":
		return ""
	default:
		return "CClose"
	}
}

// trWedgeStep, when set, is called at every step of a lock-step scenario of the tr rigs: the progress signal of
// guardWedge (a scenario that stops making steps while a goroutine waits for a lock is reported as wedged and
// attributed to its index instead of hanging the rig until its timeout)
var trWedgeStep func()

func trStep() {
	if trWedgeStep != nil {
		trWedgeStep()
	}
}

// trJournal: an enumeration whose alphabet depends on the outcome of the prefix (channel, HTTP) re-runs the earlier
// prefixes without emitting when ./check resumes it after a scenario that wedged or killed the process - and would
// wedge on the very same prefix again, this time unguarded. So every emitted scenario is journalled ("running idx"
// before, removed after); a resumed run (-from > 0) that finds a journal entry adds it to the skip list: such a
// scenario is neither run again nor extended. A fresh run (-from 0) starts with empty files.
type trJournal struct {
	run, skipf string
	skip       map[string]bool // by CONTENT of the scenario: indices are not stable across restarts (the alphabet of a
	// prefix depends on which parked sender Go's select happened to pick)
}

func newTrJournal(name string) *trJournal {
	j := &trJournal{skip: map[string]bool{}}
	if *flagOut == "" {
		return j
	}
	j.run, j.skipf = *flagOut+"."+name+"-running", *flagOut+"."+name+"-skip"
	if *flagFrom == 0 && *flagOnly < 0 {
		os.Remove(j.run)
		os.Remove(j.skipf)
	}
	if b, err := os.ReadFile(j.run); err == nil {
		f, _ := os.OpenFile(j.skipf, os.O_CREATE|os.O_WRONLY|os.O_APPEND, 0o644)
		f.Write(b)
		f.Close()
		os.Remove(j.run)
	}
	if b, err := os.ReadFile(j.skipf); err == nil {
		for _, l := range strings.Split(string(b), "\n") {
			if l != "" {
				j.skip[l] = true
			}
		}
	}
	return j
}

func trKey(v any) string {
	b, _ := json.Marshal(v)
	return string(b)
}

func (j *trJournal) begin(key string) {
	if j.run != "" {
		os.WriteFile(j.run, []byte(key+"\n"), 0o644)
	}
}

func (j *trJournal) end() {
	if j.run != "" {
		os.Remove(j.run)
	}
}

// trGuard starts the watcher for scenario idx; the returned function ends it
func trGuard(em *Emitter, idx int, kind string, desc any, tags []string) func() {
	step, stop := guardWedge(em, idx, kind, desc, tags)
	trWedgeStep = step
	return func() { trWedgeStep = nil; stop() }
}

type chCall struct {
	cancel context.CancelFunc
	done   bool   // returned
	ev     string // Coq event
}

type chRun struct {
	mu      sync.Mutex
	writes  []*chCall
	reads   []*chCall
	fresh   []string
	closed  bool
	aborted bool
	steps   []string
	obsDesc []string
}

func classifyCtxErr(err error) string {
	switch {
	case err == nil:
		return "ok"
	case errors.Is(err, context.Canceled), errors.Is(err, context.DeadlineExceeded):
		return "ctx"
	case strings.Contains(err.Error(), "closed"):
		return "closed"
	default:
		return "other:" + err.Error()
	}
}

// runChan executes the actions on a fresh transport over one channel of the
// given capacity and returns the run (steps as Coq terms) plus, for the
// enumeration, the indices of the calls still blocked at the end.
func runChan(t *testing.T, capacity int, acts []chAct) (run *chRun, pw, pr []int, bad string) {
	run = &chRun{}
	leaked := bubble(t, func(t *testing.T) {
		ch := make(chan *Rpc, capacity)
		rw := goat.NewGoatOverChannel(ch, ch)
		var wg sync.WaitGroup
		for _, a := range acts {
			trStep()
			switch a.Op {
			case "T":
				time.Sleep(100 * time.Millisecond) // virtual: a timer due by then fires
			case "W":
				ctx, cancel := context.WithCancel(context.Background())
				if a.Done {
					cancel()
				}
				c := &chCall{cancel: cancel}
				i := len(run.writes)
				run.writes = append(run.writes, c)
				v := a.V
				wg.Add(1)
				go func() {
					defer wg.Done()
					err := rw.Write(ctx, &Rpc{Id: uint64(v)})
					res := map[string]string{"ok": "CWOk", "ctx": "CWCtx"}[classifyCtxErr(err)]
					run.mu.Lock()
					defer run.mu.Unlock()
					if res == "" {
						bad = "Write returned " + fmt.Sprint(err)
						res = "CWCtx"
					}
					c.done = true
					run.fresh = append(run.fresh, fmt.Sprintf("CEvWrite %d%%nat %d %s", i, v, res))
				}()
			case "R":
				ctx, cancel := context.WithCancel(context.Background())
				if a.Done {
					cancel()
				}
				c := &chCall{cancel: cancel}
				j := len(run.reads)
				run.reads = append(run.reads, c)
				wg.Add(1)
				go func() {
					defer wg.Done()
					rpc, err := rw.Read(ctx)
					var res string
					switch classifyCtxErr(err) {
					case "ok":
						res = fmt.Sprintf("(CROk %d)", rpc.GetId())
					case "ctx":
						res = "CRCtx"
					case "closed":
						res = "CRClosed"
					default:
						res = "CRClosed"
						bad = "Read returned " + fmt.Sprint(err)
					}
					run.mu.Lock()
					defer run.mu.Unlock()
					c.done = true
					run.fresh = append(run.fresh, fmt.Sprintf("CEvRead %d%%nat %s", j, res))
				}()
			case "CW":
				run.writes[a.I].cancel()
			case "CR":
				run.reads[a.I].cancel()
			case "X":
				// closing under a parked sender is the caller's bug (it panics the sender):
				// whether a sender is parked depends on earlier select choices, so look now
				run.mu.Lock()
				parked := false
				for _, c := range run.writes {
					parked = parked || !c.done
				}
				run.mu.Unlock()
				if parked {
					run.aborted = true
				} else {
					close(ch)
					run.closed = true
				}
			}
			if run.aborted {
				break
			}
			synctest.Wait()
			run.mu.Lock()
			evs := append([]string(nil), run.fresh...)
			run.fresh = nil
			pw, pr = nil, nil
			for i, c := range run.writes {
				if !c.done {
					pw = append(pw, i)
				}
			}
			for j, c := range run.reads {
				if !c.done {
					pr = append(pr, j)
				}
			}
			run.mu.Unlock()
			sort.Strings(evs)
			run.steps = append(run.steps, fmt.Sprintf("([%s], mkChObs %s %s %s)", a.coq(), coqList(evs), coqInts(pw), coqInts(pr)))
			run.obsDesc = append(run.obsDesc, fmt.Sprintf("%s pw=%v pr=%v", strings.Join(evs, ","), pw, pr))
		}
		// clean up: cancel whatever is still blocked. A call that ignores its context would keep the scenario from
		// ever being emitted (and judged: reason 3 is about exactly such calls), so what is still parked after the
		// cancellations is released the other way: parked Writes by draining the channel, parked Reads by closing it.
		for _, c := range run.writes {
			c.cancel()
		}
		for _, c := range run.reads {
			c.cancel()
		}
		synctest.Wait()
		for round := 0; round < 64; round++ {
			run.mu.Lock()
			stuckW, stuckR := 0, 0
			for _, c := range run.writes {
				if !c.done {
					stuckW++
				}
			}
			for _, c := range run.reads {
				if !c.done {
					stuckR++
				}
			}
			run.mu.Unlock()
			if stuckW == 0 && stuckR == 0 {
				break
			}
			if stuckW > 0 {
				select {
				case <-ch:
				default:
				}
			} else if !run.closed {
				close(ch)
				run.closed = true
			}
			synctest.Wait()
		}
		wg.Wait()
	})
	if leaked {
		bad = "goroutines left behind"
	}
	return
}

func coqInts(xs []int) string {
	items := make([]string, len(xs))
	for i, x := range xs {
		items[i] = fmt.Sprint(x)
	}
	return coqList(items)
}

func TestC19Chan(t *testing.T) {
	em := NewEmitter()
	defer em.Close()
	maxLen := 4
	if thorough() {
		maxLen = 5
	}
	idx := 0
	var next int64
	jr := newTrJournal("chan")
	for _, capacity := range []int{0, 1, 2} {
		var rec func(prefix []chAct)
		rec = func(prefix []chAct) {
			var pw, pr []int
			closed := false
			nW := 0
			for _, a := range prefix {
				if a.Op == "X" {
					closed = true
				}
				if a.Op == "W" {
					nW++
				}
			}
			key := trKey(map[string]any{"cap": capacity, "acts": prefix})
			if len(prefix) > 0 && jr.skip[key] { // wedged or died in an earlier attempt of this run: reported then
				idx++
				return
			}
			if len(prefix) > 0 {
				if want(idx) {
					em.Marker("begin", idx)
					jr.begin(key)
					unguard := trGuard(em, idx, "chan-lockstep", map[string]any{"cap": capacity, "acts": prefix}, []string{fmt.Sprintf("chan-cap:%d", capacity)})
					run, w, r, bad := runChan(t, capacity, prefix)
					unguard()
					jr.end()
					pw, pr = w, r
					if run.aborted {
						em.Marker("end", idx)
						return
					}
					tags := []string{fmt.Sprintf("chan-cap:%d", capacity), fmt.Sprintf("chan-len:%d", len(prefix))}
					if bad != "" {
						tags = append(tags, "chan-bad")
					}
					em.Emit(Rec{Idx: idx, Kind: "chan-lockstep", Desc: map[string]any{"cap": capacity, "acts": prefix},
						Obs: map[string]any{"steps": run.obsDesc, "bad": bad},
						Coq: fmt.Sprintf("CChan %d%%nat %s", capacity, coqList(run.steps)), Tags: tags})
					em.Marker("end", idx)
				} else {
					var run *chRun
					unguard := trGuard(em, idx, "chan-lockstep", map[string]any{"cap": capacity, "acts": prefix, "rerun": true}, []string{"chan-rerun"})
					run, pw, pr, _ = runChan(t, capacity, prefix) // a re-run for the enumeration's sake: guarded all the same
					unguard()
					if run.aborted {
						return
					}
				}
				idx++
			}
			if len(prefix) >= maxLen {
				return
			}
			ext := []chAct{{Op: "R"}, {Op: "R", Done: true}}
			if len(prefix) > 0 && prefix[len(prefix)-1].Op != "T" {
				ext = append(ext, chAct{Op: "T"})
			}
			if !closed {
				next++
				ext = append(ext, chAct{Op: "W", V: int64(nW + 1)}, chAct{Op: "W", V: int64(nW + 1), Done: true})
				if len(pw) == 0 {
					ext = append(ext, chAct{Op: "X"})
				}
			}
			for _, i := range pw {
				ext = append(ext, chAct{Op: "CW", I: i})
			}
			for _, j := range pr {
				ext = append(ext, chAct{Op: "CR", I: j})
			}
			for _, a := range ext {
				rec(append(append([]chAct{}, prefix...), a))
			}
		}
		rec(nil)
	}
	// the upper end of the body range (1 MiB and just below, the largest envelope): the channel transport
	// carries envelopes by reference, so size cannot matter - which is what this shows: what is read is the
	// envelope that was written, field for field, for an unbuffered and a buffered channel
	for _, capacity := range []int{0, 1} {
		for k, g := range genEdgeEnvelopes(newRand(1916)) {
			if want(idx) {
				em.Marker("begin", idx)
				ch := make(chan *goat.Rpc, capacity)
				rw := goat.NewGoatOverChannel(ch, ch)
				werr := make(chan error, 1)
				go func() { werr <- rw.Write(context.Background(), g.E) }()
				got, rerr := rw.Read(context.Background())
				we := <-werr
				same := we == nil && rerr == nil && got != nil && proto.Equal(got, g.E) && len(got.GetBody().GetData()) == len(g.E.Body.Data)
				em.Emit(Rec{Idx: idx, Kind: "chan-edge-size", Desc: map[string]any{"cap": capacity, "envelope": describeRpc(g.E), "k": k},
					Obs: map[string]any{"write_err": fmt.Sprint(we), "read_err": fmt.Sprint(rerr), "equal": same},
					Coq: fmt.Sprintf("CAssert 2 %s", coqBool(same)), Tags: []string{"chan:edge-size"}})
				em.Marker("end", idx)
			}
			idx++
		}
	}
	// concurrent writers on one channel transport (free-running)
	for _, k := range []int{2, 8} {
		if want(idx) {
			em.Marker("begin", idx)
			ch := make(chan *goat.Rpc, 1)
			rw := goat.NewGoatOverChannel(ch, ch)
			emitConc(em, idx, "chan", k, 400, concWriters(k, 400, rw.Write, rw.Read))
			em.Marker("end", idx)
		}
		idx++
	}
}

//go:build st

package verifharness

import (
	"context"
	"fmt"
	"io"
	"testing"
	"testing/synctest"

	goat "github.com/avos-io/goat"
	"github.com/avos-io/goat/gen/goatorepo"
	"google.golang.org/protobuf/types/known/wrapperspb"
)

// Client unary calls whose reply is ALREADY QUEUED for the call at the instant the
// caller's context ends (receive's select then has both cases ready and picks at
// random), and calls that span ClientConn.Close() (which only reports ConnEnd: it
// does not stop the connection). For every call: End.Error is nil iff Invoke
// returned nil, every Begin has exactly one End.
func TestC20ClientRaces(t *testing.T) {
	em := NewEmitter()
	defer em.Close()
	idx := 0
	okBody, _ := protoMarshal(bv([]byte("reply")))
	reply := func(id uint64) *Rpc {
		return &Rpc{Id: id, Header: hdr("/verif.Echo/Unary", "dst", "src"), Body: &goatorepo.Body{Data: okBody}, Trailer: &goatorepo.Trailer{}}
	}

	// ---- reply queued, then the context ends, then the caller reaches receive
	for rep := 0; rep < 16; rep++ {
		for nh := 1; nh <= 2; nh++ {
			if !anyWanted(idx, nh) {
				idx += nh
				continue
			}
			stBegin(em, idx)
			first := idx
			hs := newStatsSet(nh)
			var err error
			bubble(t, func(t *testing.T) {
				ep := NewEndpoint("c")
				cc := goat.NewClientConn(ep, "src", "dst", dialStats(hs)...)
				ctx, cancel := context.WithCancel(context.Background())
				defer cancel()
				// the transport's Write (the call is registered by then) delivers the reply, lets the
				// multiplexer queue it for the call, ends the caller's context, and only then returns
				ep.OnWrite = func(r *Rpc) {
					ep.Deliver(reply(r.Id))
					synctest.Wait()
					cancel()
				}
				var out wrapperspb.BytesValue
				err = cc.Invoke(ctx, "/verif.Echo/Unary", bv([]byte("q")), &out)
				synctest.Wait()
				ep.FailRead(io.EOF)
				synctest.Wait()
			})
			exit, outcome := "(XCU CU_ok)", "reply-taken"
			if err != nil {
				exit, outcome = "(XCU (CU_early RErr))", "context-taken"
			}
			emitStats(em, &idx, "stats-client-unary", map[string]any{"scenario": "reply-queued-then-context-ends", "rep": rep, "err": fmt.Sprint(err)},
				[]string{"role=client-unary", "exit=reply-queued-then-context-ends", "race:" + outcome}, exit, hs, 1, true, err == nil)
			stEnd(em, first)
		}
	}

	// ---- calls that span Close(): one in flight when Close runs, one made after it
	for _, closes := range []int{1, 2} {
		for nh := 1; nh <= 3; nh++ {
			if !anyWanted(idx, 2*nh+1) {
				idx += 2*nh + 1
				continue
			}
			stBegin(em, idx)
			first := idx
			hs := newStatsSet(nh)
			var err1, err2 error
			bubble(t, func(t *testing.T) {
				ep := NewEndpoint("c")
				cc := goat.NewClientConn(ep, "src", "dst", dialStats(hs)...)
				done := make(chan error, 1)
				go func() {
					var out wrapperspb.BytesValue
					done <- cc.Invoke(context.Background(), "/verif.Echo/Unary", bv([]byte("q")), &out)
				}()
				synctest.Wait() // the call is past its Begin, waiting for the reply
				for i := 0; i < closes; i++ {
					cc.Close()
				}
				w := ep.WrittenCopy()
				ep.Deliver(reply(w[len(w)-1].Id))
				synctest.Wait()
				err1 = <-done
				// a call made after Close: the connection still works, its events must still be reported
				ep.OnWrite = func(r *Rpc) { ep.Deliver(reply(r.Id)) }
				var out wrapperspb.BytesValue
				err2 = cc.Invoke(context.Background(), "/verif.Echo/Unary", bv([]byte("q2")), &out)
				synctest.Wait()
				ep.FailRead(io.EOF)
				synctest.Wait()
			})
			for n, e := range []error{err1, err2} {
				exit := "(XCU CU_ok)"
				if e != nil {
					exit = "(XCU (CU_early RErr))"
				}
				for i, h := range hs {
					evs, stray := h.rpcOnly(int64(n + 1))
					if want(idx) {
						em.Emit(Rec{Idx: idx, Kind: "stats-client-unary", Desc: map[string]any{"scenario": "call-spans-close", "closes": closes, "nh": nh, "h": i, "call": n, "err": fmt.Sprint(e)},
							Obs:  map[string]any{"events": evs},
							Tags: []string{"role=client-unary", map[int]string{0: "exit=in-flight-when-Close-runs", 1: "exit=made-after-Close"}[n], fmt.Sprintf("handlers=%d", nh)},
							Coq:  fmt.Sprintf("CStats %s %d %d true %s %s %d", exit, nh, i, coqBool(e == nil), coqList(evs), stray)})
					}
					idx++
				}
			}
			if want(idx) {
				em.Emit(Rec{Idx: idx, Kind: "conn-client", Desc: map[string]any{"closes": closes, "nh": nh, "scenario": "close-with-call-in-flight"}, Tags: []string{"role=conn-client"},
					Coq: fmt.Sprintf("CConnC %d%%nat %s", closes, coqList(hs[0].connEvents()))})
			}
			idx++
			stEnd(em, first)
		}
	}
}

//go:build px

package verifharness

import (
	"fmt"
	"math/rand"
	"testing"
	"time"
)

// Scenario generators for C16 (quantifier: all sets of attached peers,
// dial-on-demand and pre-attached, all address-rewriting functions from a small
// family, all envelope sequences with sources and destinations drawn from
// attached, dialable and unknown names, bursts above the buffer).
//
// Names: 1..3 are peers (attached at the start, or dialled on demand), 4 is a
// dialable name (the dial is answered), 5 an unknown one (the dial fails),
// 6 a slow one (the dial is answered late or never).

func att(n int64) []PAct { return []PAct{{Op: "attach", N: n}} }

type pxBuilder struct {
	steps [][]PAct
	tok   int64
}

func (b *pxBuilder) add(a ...PAct) { b.steps = append(b.steps, a) }
func (b *pxBuilder) send(from, to int64) PAct {
	b.tok++
	return PAct{Op: "deliver", N: from, Dst: to, V: b.tok}
}

// every sequence of length n over the alphabet
func pxWordsOver(alpha [][2]int64, n int) [][][2]int64 {
	var out [][][2]int64
	var rec func(p [][2]int64)
	rec = func(p [][2]int64) {
		if len(p) == n {
			out = append(out, append([][2]int64(nil), p...))
			return
		}
		for _, a := range alpha {
			rec(append(p, a))
		}
	}
	rec(nil)
	return out
}

// after each send to a dialable / unknown name the dial is answered (ok for 4, error for 5; 6 stays pending
// until the end of the scenario, where it is answered ok)
func pxDialPolicy(b *pxBuilder, to int64) {
	switch to {
	case 4:
		b.add(PAct{Op: "dial", N: 4, M: "ok"})
	case 5:
		b.add(PAct{Op: "dial", N: 5, M: "fail"})
	}
}

// all words: every sequence of <= n envelopes, each from one of the attached peers to an attached, dialable,
// unknown or slow name
func pxWordScenarios(n int, attached []int64, dsts []int64, icp int, byref bool, sample func(i int) bool) []pxScenario {
	var alpha [][2]int64
	for _, s := range attached {
		for _, d := range dsts {
			alpha = append(alpha, [2]int64{s, d})
		}
	}
	var out []pxScenario
	i := 0
	for l := 1; l <= n; l++ {
		for _, w := range pxWordsOver(alpha, l) {
			i++
			if sample != nil && !sample(i) {
				continue
			}
			b := &pxBuilder{tok: 100}
			for _, a := range attached {
				b.add(att(a)...)
			}
			for _, sd := range w {
				b.add(b.send(sd[0], sd[1]))
				pxDialPolicy(b, sd[1])
			}
			b.add(PAct{Op: "dial", N: 6, M: "ok"})
			out = append(out, pxScenario{Icp: icp, ByRef: byref, Steps: b.steps,
				Tags: []string{"words", fmt.Sprintf("len=%d", l), fmt.Sprintf("peers=%d", len(attached))}})
		}
	}
	return out
}

// all interleavings (merges) of per-peer sequences
func pxMerges(counts []int) [][]int {
	var out [][]int
	var rec func(p []int, left []int)
	rec = func(p []int, left []int) {
		done := true
		for i, c := range left {
			if c > 0 {
				done = false
				left[i]--
				rec(append(p, i), left)
				left[i]++
			}
		}
		if done {
			out = append(out, append([]int(nil), p...))
		}
	}
	rec(nil, append([]int(nil), counts...))
	return out
}

// three peers, each with its own sequence of destinations; all interleavings of the sends; in the "conc" variant
// consecutive sends of different peers are performed without waiting in between (concurrent senders)
func pxInterleavings(plan [][]int64, pre []int64, icp int, conc bool, sample func(i int) bool) []pxScenario {
	counts := make([]int, len(plan))
	for i, p := range plan {
		counts[i] = len(p)
	}
	var out []pxScenario
	for mi, m := range pxMerges(counts) {
		if sample != nil && !sample(mi) {
			continue
		}
		b := &pxBuilder{tok: 200}
		for _, a := range pre {
			b.add(att(a)...)
		}
		pos := make([]int, len(plan))
		var group []PAct
		seen := map[int]bool{}
		flush := func() {
			if len(group) > 0 {
				b.add(group...)
				group = nil
				seen = map[int]bool{}
			}
		}
		for _, who := range m {
			to := plan[who][pos[who]]
			pos[who]++
			a := b.send(int64(who+1), to)
			if conc {
				if seen[who] {
					flush()
				}
				seen[who] = true
				group = append(group, a)
			} else {
				b.add(a)
				pxDialPolicy(b, to)
			}
		}
		flush()
		if conc {
			b.add(PAct{Op: "dial", N: 4, M: "ok"})
			b.add(PAct{Op: "dial", N: 5, M: "fail"})
		}
		b.add(PAct{Op: "dial", N: 6, M: "ok"})
		tag := "interleave"
		if conc {
			tag = "interleave-conc"
		}
		out = append(out, pxScenario{Icp: icp, ByRef: mi%2 == 0, Steps: b.steps, Tags: []string{tag, fmt.Sprintf("n=%d", len(m))}})
	}
	return out
}

// burst of n envelopes to a destination whose writer is blocked / whose dial is slow, from one or two
// sources; then the destination is released and a last envelope follows
func pxBurst(n int, mode string, sources int, icp int) pxScenario {
	b := &pxBuilder{tok: 300}
	b.add(att(1)...)
	if sources > 1 {
		b.add(att(3)...)
	}
	dst := int64(2)
	switch mode {
	case "blocked":
		b.add(att(2)...)
		b.add(PAct{Op: "setw", N: 2, M: "block"})
	case "slowdial":
		dst = 6
	case "free":
		b.add(att(2)...)
	}
	for i := 0; i < n; i++ {
		from := int64(1)
		if sources > 1 && i%2 == 1 {
			from = 3
		}
		b.add(b.send(from, dst))
	}
	switch mode {
	case "blocked":
		b.add(PAct{Op: "setw", N: 2, M: "ok"})
	case "slowdial":
		b.add(PAct{Op: "dial", N: 6, M: "ok"})
	}
	b.add(b.send(1, dst))
	return pxScenario{Icp: icp, ByRef: n%2 == 0, Steps: b.steps,
		Tags: []string{"burst", "burst-" + mode, fmt.Sprintf("burst=%d", n), fmt.Sprintf("sources=%d", sources)}}
}

// the rewrite family x route records / return routes x sources and destinations
func pxRouting() []pxScenario {
	var out []pxScenario
	nexts := []struct {
		has  bool
		next []int64
		tag  string
	}{{false, nil, "next=nil"}, {true, nil, "next=empty"}, {true, []int64{2}, "next=1hop"}, {true, []int64{3, 2}, "next=2hops"},
		{true, []int64{2, 4}, "next=to-dialable"}, {true, []int64{7}, "next=to-unknown"},
		{true, []int64{99}, "next=own-id"}, {true, []int64{2, 99}, "next=x,own-id"}, {true, []int64{99, 99}, "next=own-id,own-id"},
		{true, []int64{99, 2, 7}, "next=3hops"}}
	recs := [][]int64{nil, {8}, {8, 99}}
	dsts := []int64{1, 2, 3, 4, 5, 102, 103, 107}
	for icp := 0; icp <= 5; icp++ {
		for ni, nx := range nexts {
			for ri, rc := range recs {
				b := &pxBuilder{tok: 400}
				b.add(att(1)...)
				b.add(att(2)...)
				if (ni+ri)%2 == 0 {
					b.add(att(3)...)
				}
				for _, d := range dsts {
					a := b.send(1, d)
					a.Next, a.HasN, a.Rec = nx.next, nx.has, rc
					b.add(a)
					a2 := b.send(2, d)
					a2.Next, a2.HasN, a2.Rec = nx.next, nx.has, rc
					b.add(a2)
					for _, n := range []int64{3, 4, 7} {
						b.add(PAct{Op: "dial", N: n, M: "ok"})
					}
					b.add(PAct{Op: "dial", N: 5, M: "fail"})
				}
				out = append(out, pxScenario{Icp: icp, ByRef: (icp+ni+ri)%2 == 0, Steps: b.steps,
					Tags: []string{"routing", nx.tag, fmt.Sprintf("rec=%d", len(rc))}})
			}
		}
	}
	return out
}

// a peer reached by dial on demand whose connection then fails (read / write / the dial itself): later
// envelopes for the name must make the proxy dial again and arrive on the new connection
func pxDialThenFail(how string, variant int) pxScenario {
	b := &pxBuilder{tok: 600}
	b.add(att(1)...)
	b.add(att(2)...)
	name := int64(4)
	b.add(b.send(1, name))
	if how == "dialerror" {
		b.add(PAct{Op: "dial", N: name, M: "fail"})
	} else {
		b.add(PAct{Op: "dial", N: name, M: "ok"})
		b.add(b.send(2, name))
		if variant%2 == 1 {
			b.add(b.send(4, 1)) // the dialled peer answers
		}
		switch how {
		case "read":
			b.add(PAct{Op: "failread", N: name})
		case "write":
			b.add(PAct{Op: "setw", N: name, M: "fail"})
			b.add(b.send(1, name))
		case "write-blocked":
			b.add(PAct{Op: "setw", N: name, M: "block"})
			b.add(b.send(1, name))
			b.add(b.send(2, name))
			b.add(PAct{Op: "setw", N: name, M: "fail"})
		}
	}
	for round := 0; round < 1+variant%2; round++ {
		b.add(b.send(1, name)) // must dial again
		b.add(b.send(2, name))
		b.add(PAct{Op: "dial", N: name, M: "ok"})
		b.add(b.send(1, name))
		b.add(b.send(4, 2))
		if round == 0 && variant%2 == 1 {
			b.add(PAct{Op: "failread", N: name}) // and once more
		}
	}
	b.add(b.send(2, 1))
	return pxScenario{Icp: variant % 3 * 2 % 5, ByRef: variant%2 == 0, Steps: b.steps,
		Tags: []string{"dial-then-fail", "dialled-fails=" + how}}
}

// every combination of present / absent sub-messages (body none / empty / token / large, status, trailer, reset of
// every type, request headers): 288 shapes, 24 per scenario, through the three kinds of path (attached destination,
// return route, dial on demand); the rig compares the whole envelope modulo the routing fields
func pxShapeScenarios() []pxScenario {
	var out []pxScenario
	for base := 0; base < pxNumShapes; base += 24 {
		b := &pxBuilder{tok: 800}
		b.add(att(1)...)
		b.add(att(2)...)
		for sh := base; sh < base+24 && sh < pxNumShapes; sh++ {
			a := b.send(1, 2)
			a.Shape = sh
			switch sh % 3 {
			case 1:
				a.Dst, a.Next, a.HasN = 7, []int64{2}, true // by return route
			case 2:
				a.Dst = 4 // dialled on demand
			}
			b.add(a)
			a2 := b.send(2, 1)
			a2.Shape = sh
			b.add(a2)
			b.add(PAct{Op: "dial", N: 4, M: "ok"})
		}
		out = append(out, pxScenario{Icp: base / 24 % 3 * 2 % 5, ByRef: base/24%2 == 0, Steps: b.steps,
			Tags: []string{"shapes", fmt.Sprintf("shapes=%d..%d", base, base+23)}})
	}
	return out
}

// writer faults: the connection's Write hands the envelope over and THEN returns an error ("failafter"), directly or
// after having been blocked; a plain failing Write for comparison. The peer is removed, reported and dialled again;
// no envelope may reach a peer twice (hand-overs whose Write failed count).
func pxWriterFaults(how string, variant int) pxScenario {
	b := &pxBuilder{tok: 900}
	b.add(att(1)...)
	b.add(att(2)...)
	if variant%2 == 1 {
		b.add(att(3)...)
	}
	b.add(b.send(1, 2))
	switch how {
	case "failafter":
		b.add(PAct{Op: "setw", N: 2, M: "failafter", Err: variant})
		b.add(b.send(1, 2))
	case "blocked-failafter":
		b.add(PAct{Op: "setw", N: 2, M: "block"})
		b.add(b.send(1, 2))
		b.add(b.send(1, 2))
		b.add(PAct{Op: "setw", N: 2, M: "failafter", Err: variant})
	case "fail":
		b.add(PAct{Op: "setw", N: 2, M: "fail", Err: variant})
		b.add(b.send(1, 2))
	case "failafter-burst":
		b.add(PAct{Op: "setw", N: 2, M: "failafter", Err: variant})
		b.add(b.send(1, 2), b.send(1, 2), b.send(1, 2))
	}
	b.add(b.send(2, 1)) // the peer itself still speaks (its read loop goes down with the write loop)
	b.add(b.send(1, 2)) // dialled again
	b.add(PAct{Op: "dial", N: 2, M: "ok"})
	b.add(b.send(1, 2))
	if variant%2 == 1 {
		b.add(PAct{Op: "setw", N: 2, M: "failafter", Err: variant + 3}) // the dialled connection too
		b.add(b.send(3, 2))
		b.add(b.send(1, 2))
		b.add(PAct{Op: "dial", N: 2, M: "ok"})
	}
	b.add(b.send(2, 1))
	return pxScenario{Icp: 0, ByRef: variant%2 == 0, Steps: b.steps, Tags: []string{"writer-faults", "write=" + how}}
}

// a connection fails and the disconnect callback re-attaches a peer by calling AddClient from inside the callback
// (the same name, or another one); then traffic for the re-attached name must arrive on the new connection
func pxReattachInCallback(how string, same bool, variant int) pxScenario {
	b := &pxBuilder{tok: 950}
	b.add(att(1)...)
	b.add(att(2)...)
	b.add(b.send(1, 2))
	target := int64(2)
	if !same {
		target = 3
	}
	b.add(PAct{Op: "onfail-attach", N: 2, Dst: target}, PAct{Op: "setw", N: 2, M: "ok"})
	switch how {
	case "read":
		b.add(PAct{Op: "failread", N: 2, Err: variant})
	case "write":
		b.add(PAct{Op: "setw", N: 2, M: "fail", Err: variant})
		b.add(b.send(1, 2))
	}
	b.add(b.send(1, target))
	b.add(b.send(target, 1))
	b.add(b.send(1, 2))
	b.add(PAct{Op: "dial", N: 2, M: "ok"})
	b.add(b.send(1, 2))
	return pxScenario{Icp: 0, ByRef: variant%2 == 0, Steps: b.steps,
		Tags: []string{"reattach-in-callback", "fails=" + how, fmt.Sprintf("same-name=%v", same)}}
}

func pxRandomWalk(r *rand.Rand, n int, faults bool) pxScenario {
	b := &pxBuilder{tok: 1000}
	names := []int64{1, 2, 3, 4, 5, 6, 102, 7}
	natt := 1 + r.Intn(3)
	for i := 0; i < natt; i++ {
		b.add(PAct{Op: "attach", N: int64(1 + i), Deaf: faults && r.Intn(8) == 0})
	}
	for len(b.steps) < n {
		x := r.Intn(100)
		switch {
		case x < 50:
			k := 1 + r.Intn(3)
			var g []PAct
			for i := 0; i < k; i++ {
				a := b.send(names[r.Intn(6)], names[r.Intn(len(names))])
				a.Gen = 0
				if r.Intn(6) == 0 {
					a.Gen = 1
				}
				if r.Intn(3) == 0 {
					a.Shape = r.Intn(pxNumShapes)
				}
				switch r.Intn(12) {
				case 0:
					a.Bad, a.Src = "spoof", names[r.Intn(4)]
					// sender-controlled routing fields naming the sender
					switch r.Intn(4) {
					case 0:
						a.Rec = []int64{a.N}
					case 1:
						a.Rec = []int64{8, a.N}
					case 2:
						a.Next, a.HasN = []int64{a.N}, true
					}
				case 1:
					a.Bad = "nohdr"
				case 2:
					a.Bad = "nilrpc"
				}
				switch r.Intn(6) {
				case 0:
					a.HasN = true
				case 1:
					a.Next = []int64{names[r.Intn(len(names))]}
				case 2:
					a.Next = []int64{names[r.Intn(len(names))], names[r.Intn(len(names))]}
				}
				if r.Intn(4) == 0 {
					a.Rec = []int64{8}
				}
				g = append(g, a)
				if r.Intn(3) > 0 {
					break
				}
			}
			b.add(g...)
		case x < 62:
			b.add(PAct{Op: "dial", N: names[r.Intn(len(names))], M: []string{"ok", "ok", "fail"}[r.Intn(3)], Deaf: faults && r.Intn(8) == 0,
				Err: r.Intn(pxNumErrKinds) * btoi(faults)})
		case x < 70:
			b.add(PAct{Op: "attach", N: names[r.Intn(5)], Deaf: faults && r.Intn(8) == 0})
		case x < 80:
			b.add(PAct{Op: "setw", N: names[r.Intn(6)], Gen: r.Intn(2) * r.Intn(2), Err: r.Intn(pxNumErrKinds),
				M: []string{"ok", "block", "ok", "fail", "failafter"}[r.Intn(3+2*btoi(faults))]})
		case x < 86 && faults:
			b.add(PAct{Op: "failread", N: names[r.Intn(6)], Gen: r.Intn(2) * r.Intn(2), Err: r.Intn(pxNumErrKinds)})
		case x < 88 && faults && len(b.steps) > n/2:
			b.add(PAct{Op: "cancel"})
		default:
			b.add(b.send(names[r.Intn(3)], names[r.Intn(3)]))
		}
	}
	tag := "walk"
	if faults {
		tag = "walk-faults"
	}
	return pxScenario{Icp: r.Intn(6), ByRef: r.Intn(2) == 0, Steps: b.steps, Tags: []string{tag}}
}

func btoi(b bool) int {
	if b {
		return 1
	}
	return 0
}

func c16Scenarios() []pxScenario {
	var out []pxScenario
	r := newRand(1600)
	every := func(k int) func(int) bool { return func(i int) bool { return thorough() || i%k == 0 } }
	// 1. all words of <= 3 envelopes (thorough 4) from 2 attached peers to attached / dialable / unknown / slow names
	wl := 3
	if thorough() {
		wl = 4
	}
	out = append(out, pxWordScenarios(wl, []int64{1, 2}, []int64{1, 2, 4, 5, 6}, 0, false, nil)...)
	out = append(out, pxWordScenarios(2, []int64{1, 2, 3}, []int64{1, 2, 3, 4, 5}, 2, true, nil)...)
	// 2. all interleavings of <= 6 envelopes from <= 3 peers
	plans := [][][]int64{
		{{3, 3}, {3, 3}, {1, 2}},    // two sources, one destination; the destination answers
		{{2, 3}, {1, 3}, {1, 1}},    // crossing pairs
		{{4, 4}, {4, 4}, {4, 1}},    // a dialable destination
		{{5, 2}, {5, 1}, {2, 5}},    // an unknown destination among attached ones
		{{2, 2, 2}, {1, 1, 1}, nil}, // two peers talking to each other
	}
	for pi, plan := range plans {
		pre := []int64{1, 2, 3}
		if pi == 4 {
			pre = []int64{1, 2}
		}
		out = append(out, pxInterleavings(plan, pre, pi%3*2%5, false, every(3))...)
		out = append(out, pxInterleavings(plan, pre, 0, true, every(3))...)
	}
	// 3. bursts around the buffer size
	for _, n := range []int{12, 16, 17, 18, 40} {
		for _, mode := range []string{"blocked", "slowdial", "free"} {
			for s := 1; s <= 2; s++ {
				if !thorough() && n == 40 && s == 2 {
					continue
				}
				out = append(out, pxBurst(n, mode, s, (n+s)%2*2))
			}
		}
	}
	// 3b. dial on demand, then the dialled connection fails, then more traffic for the name
	for _, how := range []string{"read", "write", "write-blocked", "dialerror"} {
		for v := 0; v < 4; v++ {
			out = append(out, pxDialThenFail(how, v))
		}
	}
	// 3b'. writes that deliver and then fail
	for _, how := range []string{"failafter", "blocked-failafter", "fail", "failafter-burst"} {
		for v := 0; v < 4; v++ {
			out = append(out, pxWriterFaults(how, v))
		}
	}
	// 3b''. AddClient from inside the disconnect callback
	for _, how := range []string{"read"} { // (a write failure needs an envelope in the same step: AddClient would not be alone in it)
		for _, same := range []bool{true, false} {
			for v := 0; v < 2; v++ {
				out = append(out, pxReattachInCallback(how, same, v))
			}
		}
	}
	// 3c. every envelope shape
	out = append(out, pxShapeScenarios()...)
	// 4. routing fields x interceptors
	out = append(out, pxRouting()...)
	// 5. seeded random walks (no faults: everything accepted must arrive; with faults)
	nw := 150
	if thorough() {
		nw = 2500
	}
	for i := 0; i < nw; i++ {
		out = append(out, pxRandomWalk(r, 8+r.Intn(20), i%3 == 2))
	}
	return out
}

// scenarios on which the reduction of the model exploration (Check/C16c.v: rules taken alone, deliveries performed
// first) is re-checked against the full exploration, outcome set against outcome set: small enough for the full
// exploration (<= 4 records), chosen to exercise every reduced rule: buffer full / nearly full with the writer
// released, dial answered with queued envelopes, every third-peer role and re-attachment with the context
// cancelled at every step, transports that ignore their context, concurrent senders, short walks with faults
func redSmallBases() []pxScenario {
	var out []pxScenario
	mk := func(f func(b *pxBuilder)) {
		b := &pxBuilder{tok: 700}
		b.add(att(1)...)
		b.add(att(2)...)
		f(b)
		out = append(out, pxScenario{Icp: 0, ByRef: len(out)%2 == 0, Steps: b.steps, Tags: []string{"small"}})
	}
	mk(func(b *pxBuilder) { // blocked writer, released
		b.add(b.send(1, 2))
		b.add(PAct{Op: "setw", N: 2, M: "block"})
		b.add(b.send(1, 2))
		b.add(b.send(1, 2))
		b.add(b.send(2, 1))
		b.add(PAct{Op: "setw", N: 2, M: "ok"})
		b.add(b.send(2, 1), b.send(1, 2))
	})
	mk(func(b *pxBuilder) { // dial pending with queued envelopes, answered
		b.add(b.send(1, 6))
		b.add(b.send(2, 6))
		b.add(b.send(6, 1))
		b.add(PAct{Op: "dial", N: 6, M: "ok"})
		b.add(b.send(1, 6))
		b.add(b.send(6, 2))
	})
	mk(func(b *pxBuilder) { // reader fails, name dialled again, dial fails, dialled again
		b.add(PAct{Op: "failread", N: 2})
		b.add(b.send(1, 2))
		b.add(PAct{Op: "dial", N: 2, M: "fail"})
		b.add(b.send(1, 2))
		b.add(PAct{Op: "dial", N: 2, M: "ok"})
		b.add(b.send(1, 2))
	})
	mk(func(b *pxBuilder) { // failing writer, forged and header-less envelopes
		b.add(PAct{Op: "setw", N: 2, M: "fail"})
		a := b.send(1, 2)
		a.Bad, a.Src = "spoof", 2
		b.add(a)
		b.add(b.send(1, 2))
		a = b.send(1, 2)
		a.Bad = "nohdr"
		b.add(a)
		b.add(b.send(2, 1))
	})
	mk(func(b *pxBuilder) { // blocked write that then fails; transports ignoring their context come from c17Deaf
		b.add(PAct{Op: "setw", N: 2, M: "block"})
		b.add(b.send(1, 2))
		b.add(PAct{Op: "setw", N: 2, M: "fail"})
		b.add(b.send(1, 2))
	})
	return out
}

func redScenarios() []pxScenario {
	var out []pxScenario
	pick := func(i, quickEvery int) bool { return thorough() || i%quickEvery == 0 }
	k := 0
	add := func(sc pxScenario, quickEvery int) {
		k++
		if pick(k, quickEvery) {
			sc.Tags = append([]string{"reduction-recheck"}, sc.Tags...)
			out = append(out, sc)
		}
	}
	for _, sc := range pxWordScenarios(2, []int64{1, 2}, []int64{1, 2, 4, 5, 6}, 0, false, nil) {
		add(sc, 25)
	}
	for _, n := range []int{16, 17, 18} {
		for _, mode := range []string{"blocked", "slowdial"} {
			add(pxBurst(n, mode, 1, 0), 3)
			add(pxBurst(n, mode, 2, 0), 6)
		}
	}
	for _, how := range []string{"read", "write", "write-blocked", "dialerror"} {
		add(pxDialThenFail(how, 1), 4)
	}
	// every third-peer role and re-attachment, as they are (no cancellation: 4-5 records are too many for the full
	// exploration of a cancellation step)
	for _, role := range c17Roles {
		add(c17Role(role, "all", false, 3), 4)
		add(c17Role(role, "honest", true, 3), 4)
	}
	for _, when := range []string{"before", "after"} {
		for _, how := range []string{"read", "write-blocked"} {
			add(c17Reattach(when, how, false), 3)
		}
	}
	// cancellation at every step of small scenarios (2-3 records): blocked writer with a full-ish buffer, pending
	// and answered dial with queued envelopes, failed reader + re-dial, failing writer
	for bi, sc := range redSmallBases() {
		for pos := 1; pos <= len(sc.Steps); pos++ {
			add(c17CancelAt(sc, pos), 7+bi%3)
		}
	}
	for v := 0; v < 12; v++ {
		add(c17Deaf(v), 6)
	}
	plan := [][]int64{{3, 3}, {3, 1}, {1, 2}}
	for _, sc := range pxInterleavings(plan, []int64{1, 2, 3}, 0, true, func(i int) bool { return i%9 == 0 }) {
		add(sc, 5)
	}
	r := newRand(1690)
	nw := 40
	if thorough() {
		nw = 300
	}
	for i := 0; i < nw; i++ {
		add(pxRandomWalk(r, 5+r.Intn(6), i%4 == 0), 10)
	}
	return out
}

func TestC16(t *testing.T) {
	var jobs []func(idx int, em *Emitter)
	for _, sc := range c16Scenarios() {
		sc := sc
		jobs = append(jobs, func(idx int, em *Emitter) { runPxScenario(t, idx, "proxy", sc, em) })
	}
	// end-to-end: real clients - real Proxy - real Demux keyed by source - real Servers
	for i := 0; i < proxyE2ECount(); i++ {
		i := i
		jobs = append(jobs, func(idx int, em *Emitter) { runProxyE2E(t, idx, i, em) })
	}
	// resets through the proxy: a cancelled stream cancels the handler, a body for an unknown stream is answered by a reset
	for i := 0; i < 2; i++ {
		i := i
		jobs = append(jobs, func(idx int, em *Emitter) { runProxyResetE2E(t, idx, i, em) })
	}
	// the server's reply rule (return route echoed): tie of Model/Proxy.v reply_of to the real Server
	jobs = append(jobs, func(idx int, em *Emitter) { runServerReplyTie(t, idx, em) })
	// free-running stress judged by the property predicates
	for i := 0; i < proxyFreeCount(); i++ {
		i := i
		jobs = append(jobs, func(idx int, em *Emitter) { runProxyFree(t, idx, i, em) })
	}
	// attach race: AddClient(X) while the first envelope for X is being routed. Placed deterministically from a log
	// hook inside the forwarding loop; and searched for by free-running goroutines under GOMAXPROCS 1/4/16 for a
	// fixed time (a probabilistic search: the number of rounds is whatever fits)
	placedRounds, box, maxFree := 40, 3*time.Second, 100000
	if thorough() {
		placedRounds, box, maxFree = 400, 60*time.Second, 1000000
	}
	for _, procs := range []int{1, 4, 16} {
		procs := procs
		jobs = append(jobs, func(idx int, em *Emitter) { runProxyAttachRace(t, idx, em, true, procs, 0, placedRounds) })
		jobs = append(jobs, func(idx int, em *Emitter) { runProxyAttachRace(t, idx, em, false, procs, box, maxFree) })
	}
	// overflow race: bursts above the buffer towards a slow consumer, free-running (probabilistic)
	brounds := 60
	if thorough() {
		brounds = 1500
	}
	for _, procs := range []int{1, 4, 16} {
		procs := procs
		jobs = append(jobs, func(idx int, em *Emitter) { runProxyBurstRace(t, idx, em, procs, brounds) })
	}
	// re-check of the exploration reduction against the full exploration (a sample in the quick tier)
	for _, sc := range redScenarios() {
		sc := sc
		jobs = append(jobs, func(idx int, em *Emitter) { runPxScenario(t, idx, "proxy-red", sc, em) })
	}
	pxRunJobs(t, "TestC16", jobs)
}

//go:build tr

package verifharness

import (
	"bytes"
	"fmt"
	"math/rand"
	"strings"

	"github.com/avos-io/goat/gen/goatorepo"
	"google.golang.org/protobuf/proto"
	"google.golang.org/protobuf/types/known/anypb"
)

// Envelope generator and Coq printers of the C19 rigs (Model/WireFormat.v).

// lcgBody mirrors WireFormat.lcg_body: x' = 75x+74 mod 65537, one byte per step.
func lcgBody(seed uint64, n int) []byte {
	b := make([]byte, n)
	x := seed
	for i := range b {
		x = (x*75 + 74) % 65537
		b[i] = byte(x % 256)
	}
	return b
}

// cycBody mirrors C19c.cyc_body: the 251 bytes lcgBody(seed, 251) repeated. Used for the bodies at
// the upper end of the quantified range (around 1 MiB), where lcg_body would cost the Coq side ~20 s
// per case (one division per byte); 251 is prime, so a lost or repeated block shifts what follows.
func cycBody(seed uint64, n int) []byte {
	pat := lcgBody(seed, 251)
	b := make([]byte, n)
	for i := range b {
		b[i] = pat[i%251]
	}
	return b
}

const trMiB = 1 << 20

// the body sizes at the upper end of the range the property quantifies over (0..1 MiB)
var trEdgeSizes = []int{trMiB - 4096, trMiB - 1, trMiB}

// bigRef remembers the one large filler of a case so that the Coq term can
// share it through a let binding instead of spelling out a megabyte.
type bigRef struct {
	seed uint64
	body []byte
	cyc  bool // cycBody / cyc_body instead of lcgBody / lcg_body
}

func (b *bigRef) coqLet(term string) string {
	if b == nil {
		return term
	}
	if b.cyc {
		return fmt.Sprintf("let bigbody := cyc_body %d %d in %s", b.seed, len(b.body), term)
	}
	return fmt.Sprintf("let bigbody := lcg_body %d %d in %s", b.seed, len(b.body), term)
}

// coqBytesBig prints a byte string, replacing one occurrence of the large
// filler by the bound variable.
func coqBytesBig(b []byte, big *bigRef) string {
	if big != nil && len(big.body) > 0 {
		if i := bytes.Index(b, big.body); i >= 0 {
			parts := []string{}
			if i > 0 {
				parts = append(parts, coqBytes(b[:i]))
			}
			parts = append(parts, "bigbody")
			if rest := b[i+len(big.body):]; len(rest) > 0 {
				parts = append(parts, coqBytes(rest))
			}
			return "(" + strings.Join(parts, " ++ ") + ")"
		}
	}
	return coqBytes(b)
}

func trCoqKVs(kvs []*goatorepo.KeyValue) string {
	items := make([]string, len(kvs))
	for i, kv := range kvs {
		items[i] = fmt.Sprintf("mkKV %s %s", coqStr(kv.GetKey()), coqStr(kv.GetValue()))
	}
	return coqList(items)
}

func trCoqStrs(ss []string) string {
	items := make([]string, len(ss))
	for i, s := range ss {
		items[i] = coqStr(s)
	}
	return coqList(items)
}

// coqRpc prints the known fields of an envelope as a WireFormat.rpc term.
func coqRpc(r *Rpc, big *bigRef) string {
	hdr := "None"
	if h := r.Header; h != nil {
		hdr = fmt.Sprintf("(Some (mkHeader %s %s %s %s %s %s))", coqStr(h.Method), trCoqKVs(h.Headers), coqStr(h.Source),
			coqStr(h.Destination), trCoqStrs(h.ProxyRecord), trCoqStrs(h.ProxyNext))
	}
	st := "None"
	if s := r.Status; s != nil {
		ds := make([]string, len(s.Details))
		for i, d := range s.Details {
			ds[i] = fmt.Sprintf("mkAny %s %s", coqStr(d.GetTypeUrl()), coqBytes(d.GetValue()))
		}
		st = fmt.Sprintf("(Some (mkStatus %s %s %s))", coqZ(int64(s.Code)), coqStr(s.Message), coqList(ds))
	}
	body := "None"
	if b := r.Body; b != nil {
		body = "(Some " + coqBytesBig(b.Data, big) + ")"
	}
	trl := "None"
	if t := r.Trailer; t != nil {
		trl = "(Some " + trCoqKVs(t.Metadata) + ")"
	}
	rst := "None"
	if x := r.Reset_; x != nil {
		rst = "(Some " + coqStr(x.Type) + ")"
	}
	return fmt.Sprintf("(mkRpc %d%%N %s %s %s %s %s)", r.Id, hdr, st, body, trl, rst)
}

func coqOptRpc(r *Rpc, big *bigRef) string {
	if r == nil {
		return "None"
	}
	return "(Some " + coqRpc(r, big) + ")"
}

// describeRpc is the human-readable form for the evidence.
func describeRpc(r *Rpc) string {
	parts := []string{fmt.Sprintf("id=%d", r.Id)}
	if r.Header != nil {
		parts = append(parts, fmt.Sprintf("hdr(method=%q,src=%q,dst=%q,%d headers,%d record,%d next)", trunc(r.Header.Method), trunc(r.Header.Source),
			trunc(r.Header.Destination), len(r.Header.Headers), len(r.Header.ProxyRecord), len(r.Header.ProxyNext)))
	}
	if r.Status != nil {
		parts = append(parts, fmt.Sprintf("status(%d,%q,%d details)", r.Status.Code, trunc(r.Status.Message), len(r.Status.Details)))
	}
	if r.Body != nil {
		parts = append(parts, fmt.Sprintf("body(%d bytes)", len(r.Body.Data)))
	}
	if r.Trailer != nil {
		parts = append(parts, fmt.Sprintf("trailer(%d)", len(r.Trailer.Metadata)))
	}
	if r.Reset_ != nil {
		parts = append(parts, fmt.Sprintf("reset(%q)", trunc(r.Reset_.Type)))
	}
	return strings.Join(parts, " ")
}

func trunc(s string) string {
	if len(s) > 24 {
		return s[:24] + "..."
	}
	return s
}

var trIDs = []uint64{0, 1, 127, 128, 300, 16383, 16384, 1 << 32, 1<<63 - 1, 1 << 63, 1<<64 - 2, 1<<64 - 1}

var trStrings = []string{"", "a", "/verif.Echo/Unary", "héllo wörld ✓", "日本語 🐐  ", "\x00", "x\x7fy", strings.Repeat("long-", 60),
	"\U0010ffff\uD7FF\uE000"}

// strings that are not UTF-8: proto.Marshal must refuse them, proto.Unmarshal too
var trBadStrings = []string{"\xff", "\xc0\x80", "\xed\xa0\x80", "\xf4\x90\x80\x80", "\xe2\x82", "ok\x80", "\xf0\x80\x80\x80", "\xc1\xbf"}

func pick[T any](r *rand.Rand, xs []T) T { return xs[r.Intn(len(xs))] }

func genKVs(r *rand.Rand) []*goatorepo.KeyValue {
	n := []int{0, 0, 1, 2, 5}[r.Intn(5)]
	out := []*goatorepo.KeyValue{}
	for i := 0; i < n; i++ {
		out = append(out, &goatorepo.KeyValue{Key: pick(r, trStrings), Value: pick(r, trStrings)})
	}
	return out
}

func genStrs(r *rand.Rand) []string {
	n := []int{0, 0, 1, 3}[r.Intn(4)]
	out := []string{}
	for i := 0; i < n; i++ {
		out = append(out, pick(r, trStrings))
	}
	return out
}

func genBody(r *rand.Rand, size int) ([]byte, *bigRef) {
	if size > 1<<17 {
		seed := uint64(1 + r.Intn(1000))
		b := cycBody(seed, size)
		return b, &bigRef{seed: seed, body: b, cyc: true}
	}
	if size >= 1024 {
		seed := uint64(1 + r.Intn(1000))
		b := lcgBody(seed, size)
		return b, &bigRef{seed: seed, body: b}
	}
	b := make([]byte, size)
	r.Read(b)
	return b, nil
}

// genEnvelope builds an envelope with the sub-messages selected by mask
// (1 header, 2 status, 4 body, 8 trailer, 16 reset).
func genEnvelope(r *rand.Rand, mask int, id uint64, bodySize int) (*Rpc, *bigRef) {
	e := &Rpc{Id: id}
	var big *bigRef
	if mask&1 != 0 {
		e.Header = &goatorepo.RequestHeader{Method: pick(r, trStrings), Headers: genKVs(r), Source: pick(r, trStrings),
			Destination: pick(r, trStrings), ProxyRecord: genStrs(r), ProxyNext: genStrs(r)}
	}
	if mask&2 != 0 {
		codes := []int32{0, 1, 2, 13, 16, 127, 128, -1, -2147483648, 2147483647, 65536}
		st := &goatorepo.ResponseStatus{Code: pick(r, codes), Message: pick(r, trStrings)}
		nd := []int{0, 0, 1, 3}[r.Intn(4)]
		for i := 0; i < nd; i++ {
			v := make([]byte, r.Intn(12))
			r.Read(v)
			st.Details = append(st.Details, &anypb.Any{TypeUrl: pick(r, trStrings), Value: v})
		}
		e.Status = st
	}
	if mask&4 != 0 {
		var b []byte
		b, big = genBody(r, bodySize)
		e.Body = &goatorepo.Body{Data: b}
	}
	if mask&8 != 0 {
		e.Trailer = &goatorepo.Trailer{Metadata: genKVs(r)}
	}
	if mask&16 != 0 {
		e.Reset_ = &goatorepo.Reset{Type: pick(r, []string{"", "RST_STREAM", "é"})}
	}
	return e, big
}

var trSmallSizes = []int{0, 1, 17, 300}

type genEnv struct {
	E   *Rpc
	Big *bigRef
}

// genEnvelopes: every present/absent combination of the five sub-messages, ids
// across the uint64 range, the body size classes, then seeded random ones.
func genEnvelopes(r *rand.Rand, sizes []int, extra int) []genEnv {
	out := []genEnv{}
	k := 0
	for mask := 0; mask < 32; mask++ {
		for rep := 0; rep < 2; rep++ {
			size := trSmallSizes[k%len(trSmallSizes)]
			e, big := genEnvelope(r, mask, trIDs[k%len(trIDs)], size)
			out = append(out, genEnv{e, big})
			k++
		}
	}
	// each size class with and without the other sub-messages
	for _, size := range sizes {
		for _, mask := range []int{4, 31} {
			e, big := genEnvelope(r, mask, trIDs[k%len(trIDs)], size)
			out = append(out, genEnv{e, big})
			k++
		}
	}
	for i := 0; i < extra; i++ {
		size := trSmallSizes[r.Intn(len(trSmallSizes))]
		if r.Intn(12) == 0 {
			size = sizes[r.Intn(len(sizes))]
		}
		e, big := genEnvelope(r, r.Intn(32), pick(r, trIDs)+uint64(r.Intn(3)), size)
		out = append(out, genEnv{e, big})
	}
	return out
}

// genEdgeEnvelopes: the upper end of the body range: 1 MiB - 4096, 1 MiB - 1 and exactly 1 MiB with
// nothing but a minimal header around them, and 1 MiB inside an envelope with every sub-message
// present and the long strings (the largest encoding the property still covers). Every transport rig
// carries them in every tier: a size-dependent refusal anywhere up to there is a lost envelope.
func genEdgeEnvelopes(r *rand.Rand) []genEnv {
	out := []genEnv{}
	for i, size := range trEdgeSizes {
		b, big := genBody(r, size)
		out = append(out, genEnv{&Rpc{Id: uint64(900 + i), Header: &goatorepo.RequestHeader{Method: "/verif.Echo/Unary", Source: "a", Destination: "srv"},
			Body: &goatorepo.Body{Data: b}}, big})
	}
	e, big := genEnvelope(r, 31, 1<<64-1, trMiB)
	long := strings.Repeat("long-", 60)
	e.Header.Method, e.Header.Source, e.Header.Destination = long, "a", long
	e.Header.Headers = []*goatorepo.KeyValue{{Key: long, Value: long}, {Key: "k-bin", Value: long}, {Key: "日本語", Value: "héllo wörld ✓"}}
	e.Header.ProxyRecord, e.Header.ProxyNext = []string{long, long, long}, []string{long, long, long}
	e.Status.Message = long
	e.Trailer.Metadata = []*goatorepo.KeyValue{{Key: long, Value: long}, {Key: long, Value: long}}
	return append(out, genEnv{e, big})
}

// unmarshalRpc is proto.Unmarshal; nil = rejected. The printers only read the
// known fields (the model drops unknown ones).
func unmarshalRpc(b []byte) *Rpc {
	var r Rpc
	if err := proto.Unmarshal(b, &r); err != nil {
		return nil
	}
	return &r
}

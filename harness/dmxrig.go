//go:build px

package verifharness

// Rig for C18: the real goat.Demux (and the logical connections it hands out)
// driven lock-step in a synctest bubble: one environment action, synctest.Wait,
// snapshot. Every case is emitted as a Coq term of type c18case (Check/C18c.v).

import (
	"context"
	"fmt"
	"runtime"
	"sort"
	"strconv"
	"strings"
	"sync"
	"testing"
	"testing/synctest"

	goat "github.com/avos-io/goat"
	"github.com/avos-io/goat/gen/goatorepo"
	"google.golang.org/protobuf/proto"
)

// ---------------------------------------------------------------- goroutine census by role

// pxCensus counts the goroutines of the current bubble whose stack contains
// each of the given substrings.
var (
	pxStackMu  sync.Mutex
	pxStackBuf = make([]byte, 4<<20)
)

func pxCensus(pats ...string) []int {
	pxStackMu.Lock()
	defer pxStackMu.Unlock()
	buf := pxStackBuf
	n := runtime.Stack(buf, true)
	gs := strings.Split(string(buf[:n]), "\n\n")
	bubbleTag := ""
	if len(gs) > 0 {
		if i := strings.Index(gs[0], "synctest bubble "); i >= 0 {
			j := strings.IndexAny(gs[0][i:], "]\n,")
			bubbleTag = gs[0][i : i+j]
		}
	}
	out := make([]int, len(pats))
	for _, g := range gs {
		if bubbleTag != "" {
			h := g
			if k := strings.Index(g, "\n"); k >= 0 {
				h = g[:k]
			}
			if !strings.Contains(h, bubbleTag+"]") && !strings.Contains(h, bubbleTag+",") {
				continue
			}
		}
		for i, p := range pats {
			if strings.Contains(g, p) {
				out[i]++
			}
		}
	}
	return out
}

// ---------------------------------------------------------------- scenario

type DAct struct {
	Op string `json:"op"` // deliver | failread | setw | read | write | cancelcall | cancelkey | stop
	K  int64  `json:"k,omitempty"`
	V  int64  `json:"v,omitempty"`
	C  int    `json:"c,omitempty"`
	I  int    `json:"i,omitempty"`
	M  string `json:"m,omitempty"` // ok | fail | block
}

type dmxScenario struct {
	KeyFn string   `json:"keyfn"` // src | dst | id | const
	ByRef bool     `json:"byref,omitempty"`
	Acts  []DAct   `json:"acts"`
	Tags  []string `json:"tags,omitempty"`
}

func parseK(s string) int64 {
	if len(s) < 2 || s[0] != 'k' {
		return -1
	}
	n, err := strconv.ParseInt(s[1:], 10, 64)
	if err != nil {
		return -1
	}
	return n
}

func dmxKeyOf(fn string, r *Rpc) int64 {
	switch fn {
	case "src":
		return parseK(r.GetHeader().GetSource())
	case "dst":
		return parseK(r.GetHeader().GetDestination())
	case "id":
		return int64(r.GetId() % 7)
	default:
		return 0
	}
}

type dcall struct {
	ctx     *manualCtx
	pending bool
}

type dmxObs struct {
	Ann     []int64  `json:"ann"`
	Rets    []string `json:"rets"`
	Shw     []string `json:"shw"`
	Pending []int    `json:"pending"`
	Run     bool     `json:"run"`
	Dw      int      `json:"dw"`
	Keys    []int64  `json:"keys"`
	Crash   bool     `json:"crash"`
}

func (o dmxObs) coq() string {
	ann := make([]string, len(o.Ann))
	for i, k := range o.Ann {
		ann[i] = coqZ(k)
	}
	pend := make([]string, len(o.Pending))
	for i, k := range o.Pending {
		pend[i] = strconv.Itoa(k)
	}
	keys := make([]string, len(o.Keys))
	for i, k := range o.Keys {
		keys[i] = coqZ(k)
	}
	return fmt.Sprintf("(mkDObs %s %s %s %s %s %d %s %s)", coqList(ann), coqList(o.Rets), coqList(o.Shw), coqList(pend),
		coqBool(o.Run), o.Dw, coqList(keys), coqBool(o.Crash))
}

type dmxRig struct {
	sc    dmxScenario
	ep    *Endpoint
	d     *goat.Demux
	mu    sync.Mutex
	conns []goat.RpcReadWriter
	seenK []int64 // keys passed to the key function during this step
	calls []*dcall
	rets  []string
	crash bool
	orig  map[int64]*Rpc // token -> the envelope the harness created
	nDel  int
	lastW int
	nAnn  int
}

func envCoq(k, v int64) string { return fmt.Sprintf("(mkEnv %s %s)", coqZ(k), coqZ(v)) }

func (r *dmxRig) mkRpc(k, v int64, write bool) *Rpc {
	r.nDel++
	h := &goatorepo.RequestHeader{Method: "/x/y", Source: fmt.Sprintf("k%d", k), Destination: fmt.Sprintf("k%d", k)}
	id := uint64(k) + 7*uint64(r.nDel)
	if write {
		h.Source = "srv"
	}
	rpc := &Rpc{Id: id, Header: h, Body: &goatorepo.Body{Data: payloadOf(v)}}
	r.orig[v] = clone(rpc)
	return rpc
}

// tokenChecked returns the payload token of an envelope that came out of the
// code under test, or -777 when the envelope is not the one the harness made.
func (r *dmxRig) tokenChecked(x *Rpc) int64 {
	if x == nil || x.GetBody() == nil {
		return -777
	}
	v := tokenOf(x.GetBody().GetData())
	o, ok := r.orig[v]
	if !ok || !proto.Equal(o, x) {
		return -777
	}
	return v
}

func (r *dmxRig) resCoq(rpc *Rpc, err error, write bool) string {
	if err == nil {
		if write {
			return "RWrote"
		}
		return "(RGot " + envCoq(dmxKeyOf(r.sc.KeyFn, rpc), r.tokenChecked(rpc)) + ")"
	}
	if err == context.Canceled {
		return "RErrCtx"
	}
	if strings.Contains(err.Error(), "demux connection cancelled") {
		return "RErrCancelled"
	}
	return "(RGot (mkEnv (-999) (-999)))" // unknown error: never predicted
}

func (r *dmxRig) do(a DAct) string {
	switch a.Op {
	case "deliver":
		rpc := r.mkRpc(a.K, a.V, false)
		k := dmxKeyOf(r.sc.KeyFn, rpc)
		r.ep.Deliver(rpc)
		return "ADeliver " + envCoq(k, a.V)
	case "failread":
		r.ep.FailRead(errInjected)
		return "AFailRead"
	case "setw":
		switch a.M {
		case "ok":
			r.ep.FailWrites(nil)
			r.ep.UnblockWrites()
			return "ASetWrite WOk"
		case "fail":
			r.ep.FailWrites(errWriteInjected)
			r.ep.UnblockWrites()
			return "ASetWrite WFail"
		default:
			r.ep.FailWrites(nil)
			r.ep.BlockWrites()
			return "ASetWrite WBlock"
		}
	case "read", "write":
		r.mu.Lock()
		var rw goat.RpcReadWriter
		if a.C < len(r.conns) {
			rw = r.conns[a.C]
		}
		r.mu.Unlock()
		term := fmt.Sprintf("ARead %d", a.C)
		var wr *Rpc
		if a.Op == "write" {
			// the key of a written envelope is whatever the key function says; it plays no role
			wr = r.mkRpc(a.K, a.V, true)
			term = fmt.Sprintf("AWrite %d %s", a.C, envCoq(dmxKeyOf(r.sc.KeyFn, wr), a.V))
		}
		if rw == nil {
			return term
		}
		c := &dcall{ctx: newManualCtx(), pending: true}
		r.mu.Lock()
		i := len(r.calls)
		r.calls = append(r.calls, c)
		r.mu.Unlock()
		go func() {
			var res string
			func() {
				defer func() {
					if p := recover(); p != nil {
						r.mu.Lock()
						r.crash = true
						r.mu.Unlock()
						res = "(RGot (mkEnv (-998) (-998)))"
					}
				}()
				if wr != nil {
					err := rw.Write(c.ctx, wr)
					res = r.resCoq(nil, err, true)
				} else {
					rpc, err := rw.Read(c.ctx)
					res = r.resCoq(rpc, err, false)
				}
			}()
			r.mu.Lock()
			c.pending = false
			r.rets = append(r.rets, fmt.Sprintf("(%d, %s)", i, res))
			r.mu.Unlock()
		}()
		return term
	case "cancelcall":
		r.mu.Lock()
		var c *dcall
		if a.I < len(r.calls) {
			c = r.calls[a.I]
		}
		r.mu.Unlock()
		if c != nil {
			c.ctx.finish(context.Canceled)
		}
		return fmt.Sprintf("ACancelCall %d", a.I)
	case "cancelkey":
		k := a.K
		if r.sc.KeyFn == "const" {
			k = 0
		}
		func() {
			defer func() {
				if p := recover(); p != nil {
					r.mu.Lock()
					r.crash = true
					r.mu.Unlock()
				}
			}()
			r.d.Cancel(strconv.FormatInt(k, 10))
		}()
		return "ACancelKey " + coqZ(k)
	case "stop":
		r.d.Stop()
		return "AStop"
	}
	panic("unknown op " + a.Op)
}

func (r *dmxRig) snapshot() dmxObs {
	r.mu.Lock()
	o := dmxObs{Ann: []int64{}, Rets: append([]string{}, r.rets...), Shw: []string{}, Pending: []int{}, Keys: []int64{}, Crash: r.crash}
	r.rets = r.rets[:0]
	nNew := len(r.conns) - r.nAnn
	r.nAnn = len(r.conns)
	if nNew > 0 {
		sk := r.seenK
		if len(sk) >= nNew {
			o.Ann = append(o.Ann, sk[len(sk)-nNew:]...)
		} else {
			for i := 0; i < nNew; i++ {
				o.Ann = append(o.Ann, -997)
			}
		}
	}
	r.seenK = r.seenK[:0]
	for i, c := range r.calls {
		if c.pending {
			o.Pending = append(o.Pending, i)
		}
	}
	r.mu.Unlock()
	sort.Strings(o.Rets)
	ws := r.ep.WrittenCopy()
	for _, w := range ws[r.lastW:] {
		o.Shw = append(o.Shw, envCoq(dmxKeyOf(r.sc.KeyFn, w), r.tokenChecked(w)))
	}
	r.lastW = len(ws)
	cs := pxCensus("goat.(*Demux).Run(", "goat.(*Demux).newConnLocked.func1")
	o.Run = cs[0] > 0
	o.Dw = cs[1]
	for _, k := range r.d.VerifDemuxKeys() {
		n, err := strconv.ParseInt(k, 10, 64)
		if err != nil {
			n = -996
		}
		o.Keys = append(o.Keys, n)
	}
	sort.Slice(o.Keys, func(i, j int) bool { return o.Keys[i] < o.Keys[j] })
	return o
}

func runDmxScenario(t *testing.T, idx int, kind string, sc dmxScenario, em *Emitter) {
	var coqActs, coqObs []string
	var obsList []dmxObs
	em.Marker("begin", idx)
	wstep, wstop := guardWedge(em, idx, kind, sc, sc.Tags)
	defer wstop()
	leaked := bubble(t, func(t *testing.T) {
		rig := &dmxRig{sc: sc, ep: NewEndpoint("shared"), orig: map[int64]*Rpc{}}
		rig.ep.ByRef = sc.ByRef
		rig.d = goat.NewDemux(context.Background(), rig.ep,
			func(r *Rpc) string {
				k := dmxKeyOf(sc.KeyFn, r)
				rig.mu.Lock()
				rig.seenK = append(rig.seenK, k)
				rig.mu.Unlock()
				return strconv.FormatInt(k, 10)
			},
			func(rw goat.RpcReadWriter) {
				rig.mu.Lock()
				rig.conns = append(rig.conns, rw)
				rig.mu.Unlock()
			})
		go func() {
			defer func() {
				if p := recover(); p != nil {
					rig.mu.Lock()
					rig.crash = true
					rig.mu.Unlock()
				}
			}()
			rig.d.Run()
		}()
		synctest.Wait()
		for _, a := range sc.Acts {
			wstep()
			term := rig.do(a)
			synctest.Wait()
			o := rig.snapshot()
			obsList = append(obsList, o)
			coqActs = append(coqActs, term)
			coqObs = append(coqObs, o.coq())
		}
		// cleanup (not compared)
		wstep()
		rig.mu.Lock()
		for _, c := range rig.calls {
			c.ctx.finish(context.Canceled)
		}
		rig.mu.Unlock()
		rig.d.Stop()
		rig.ep.FailWrites(nil)
		rig.ep.UnblockWrites()
		rig.ep.FailRead(errInjected)
		synctest.Wait()
	})
	tags := append([]string{}, sc.Tags...)
	if leaked {
		tags = append(tags, "leaked-at-end")
	}
	em.Emit(Rec{Idx: idx, Kind: kind, Desc: sc, Obs: obsList, Tags: tags,
		Coq: fmt.Sprintf("CDemux %s %s", coqList(coqActs), coqList(coqObs))})
	em.Marker("end", idx)
}

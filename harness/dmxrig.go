//go:build px

package verifharness

// Rig for C18: the real goat.Demux (and the logical connections it hands out)
// driven lock-step in a synctest bubble: one environment action, synctest.Wait,
// snapshot. Every case is emitted as a Coq term of type c18case (Check/C18c.v).

import (
	"context"
	"errors"
	"fmt"
	"io"
	"runtime"
	"sort"
	"strconv"
	"strings"
	"sync"
	"testing"
	"testing/synctest"
	"time"

	goat "github.com/avos-io/goat"
	"github.com/avos-io/goat/gen/goatorepo"
	"google.golang.org/protobuf/proto"
)

// ---------------------------------------------------------------- goroutine census by role

// pxCensus counts the goroutines of the current bubble whose stack contains
// each of the given substrings.
var (
	pxStackMu  sync.Mutex
	pxStackBuf = make([]byte, 4<<20)
)

func pxCensus(pats ...string) []int {
	pxStackMu.Lock()
	defer pxStackMu.Unlock()
	buf := pxStackBuf
	n := runtime.Stack(buf, true)
	gs := strings.Split(string(buf[:n]), "\n\n")
	bubbleTag := ""
	if len(gs) > 0 {
		if i := strings.Index(gs[0], "synctest bubble "); i >= 0 {
			j := strings.IndexAny(gs[0][i:], "]\n,")
			bubbleTag = gs[0][i : i+j]
		}
	}
	out := make([]int, len(pats))
	for _, g := range gs {
		if bubbleTag != "" {
			h := g
			if k := strings.Index(g, "\n"); k >= 0 {
				h = g[:k]
			}
			if !strings.Contains(h, bubbleTag+"]") && !strings.Contains(h, bubbleTag+",") {
				continue
			}
		}
		for i, p := range pats {
			if strings.Contains(g, p) {
				out[i]++
			}
		}
	}
	return out
}

// ---------------------------------------------------------------- scenario

type DAct struct {
	Op string `json:"op"` // deliver | failread | setw | read | write | cancelcall | cancelkey | stop | tick
	K  int64  `json:"k,omitempty"`
	V  int64  `json:"v,omitempty"`
	C  int    `json:"c,omitempty"`
	I  int    `json:"i,omitempty"`
	M  string `json:"m,omitempty"` // setw: ok | fail | block; failread / cancelcall: the kind of error (see dmxErr)
	S  string `json:"s,omitempty"` // deliver / write: shape of the envelope: "" full | nobody | emptybody | zero (the all-default Rpc{}) | reset | trailer | status | bodyonly
	D  int    `json:"d,omitempty"` // tick: milliseconds of virtual time
}

// dmxNames: keys whose names collide under concatenation with each other and with decimal numbers
// ("c-1"+"12" = "c-11"+"2" = "c-112"), prefixes of one another, and the empty name. Key function "names"
// maps key k to dmxNames[k] (the model only sees the number).
var dmxNames = []string{"", "c-1", "c-11", "c-12", "2", "12", "c-", "1", "c-112"}

func dmxKeyStr(fn string, k int64) string {
	if fn == "names" && k >= 0 && int(k) < len(dmxNames) {
		return dmxNames[k]
	}
	return strconv.FormatInt(k, 10)
}

func dmxKeyNum(fn, s string, bad int64) int64 {
	if fn == "names" {
		for i, n := range dmxNames {
			if n == s {
				return int64(i)
			}
		}
		return bad
	}
	n, err := strconv.ParseInt(s, 10, 64)
	if err != nil {
		return bad
	}
	return n
}

// dmxErr: the error values the environment hands to the code: plain ones and ones that WRAP them
func dmxErr(kind string, dflt error) error {
	switch kind {
	case "eof":
		return io.EOF
	case "wrapeof":
		return fmt.Errorf("transport: %w", io.EOF)
	case "canceled":
		return context.Canceled
	case "wrapcanceled":
		return fmt.Errorf("transport: %w", context.Canceled)
	case "deadline":
		return context.DeadlineExceeded
	case "wrapdeadline":
		return fmt.Errorf("call: %w", context.DeadlineExceeded)
	}
	return dflt
}

type dmxScenario struct {
	KeyFn string   `json:"keyfn"` // src | dst | id | const | names
	ByRef bool     `json:"byref,omitempty"`
	Acts  []DAct   `json:"acts"`
	Tags  []string `json:"tags,omitempty"`
}

func parseK(s string) int64 {
	if len(s) < 2 || s[0] != 'k' {
		return -1
	}
	n, err := strconv.ParseInt(s[1:], 10, 64)
	if err != nil {
		return -1
	}
	return n
}

func dmxKeyOf(fn string, r *Rpc) int64 {
	switch fn {
	case "src":
		return parseK(r.GetHeader().GetSource())
	case "dst":
		return parseK(r.GetHeader().GetDestination())
	case "id":
		return int64(r.GetId() % 7)
	case "names":
		return dmxKeyNum("names", r.GetHeader().GetSource(), -1)
	default:
		return 0
	}
}

type dcall struct {
	ctx     *manualCtx
	pending bool
}

type dmxObs struct {
	Ann     []int64  `json:"ann"`
	Rets    []string `json:"rets"`
	Shw     []string `json:"shw"`
	Pending []int    `json:"pending"`
	Run     bool     `json:"run"`
	Dw      int      `json:"dw"`
	Keys    []int64  `json:"keys"`
	Crash   bool     `json:"crash"`
	Ctl     int      `json:"ctl"` // Cancel / Stop calls that have not returned
}

func (o dmxObs) coq() string {
	ann := make([]string, len(o.Ann))
	for i, k := range o.Ann {
		ann[i] = coqZ(k)
	}
	pend := make([]string, len(o.Pending))
	for i, k := range o.Pending {
		pend[i] = strconv.Itoa(k)
	}
	keys := make([]string, len(o.Keys))
	for i, k := range o.Keys {
		keys[i] = coqZ(k)
	}
	return fmt.Sprintf("(mkDObs %s %s %s %s %s %d %s %s %d)", coqList(ann), coqList(o.Rets), coqList(o.Shw), coqList(pend),
		coqBool(o.Run), o.Dw, coqList(keys), coqBool(o.Crash), o.Ctl)
}

type dmxRig struct {
	sc    dmxScenario
	ep    *Endpoint
	d     *goat.Demux
	mu    sync.Mutex
	conns []goat.RpcReadWriter
	seenK []int64 // keys passed to the key function during this step
	calls []*dcall
	rets  []string
	crash bool
	orig  map[int64]*Rpc // token -> the envelope the harness created
	nDel  int
	lastW int
	nAnn  int
	ctl   int // Cancel / Stop calls in progress
}

func envCoq(k, v int64) string { return fmt.Sprintf("(mkEnv %s %s)", coqZ(k), coqZ(v)) }

func (r *dmxRig) mkRpc(k, v int64, write bool, shape string) *Rpc {
	r.nDel++
	name := fmt.Sprintf("k%d", k)
	if r.sc.KeyFn == "names" {
		name = dmxKeyStr("names", k)
	}
	h := &goatorepo.RequestHeader{Method: "/x/y", Source: name, Destination: name}
	id := uint64(k) + 7*uint64(r.nDel)
	if write {
		h.Source = "srv"
	}
	rpc := &Rpc{Id: id, Header: h, Body: &goatorepo.Body{Data: payloadOf(v)}}
	switch shape {
	case "nobody": // no body at all
		rpc.Body = nil
	case "emptybody": // a body of zero bytes
		rpc.Body = &goatorepo.Body{Data: []byte{}}
	case "zero": // the all-default envelope (its key is whatever the key function makes of it)
		rpc = &Rpc{}
	case "reset": // a stream reset: header + Reset, nothing else
		rpc.Body = nil
		rpc.Reset_ = &goatorepo.Reset{Type: "RST_STREAM"}
	case "trailer": // a bare trailer (late half-close): header + Trailer, no body
		rpc.Body = nil
		rpc.Trailer = &goatorepo.Trailer{Metadata: []*goatorepo.KeyValue{{Key: "t", Value: "1"}}}
	case "status": // a unary error reply: header + status + trailer, no body
		rpc.Body = nil
		rpc.Status = &goatorepo.ResponseStatus{Code: 5, Message: "not found"}
		rpc.Trailer = &goatorepo.Trailer{}
	case "bodyonly": // no header at all
		rpc.Header = nil
	}
	r.orig[v] = clone(rpc)
	return rpc
}

// tokenChecked returns the payload token of an envelope that came out of the
// code under test, or -777 when the envelope is not the one the harness made.
func (r *dmxRig) tokenChecked(x *Rpc) int64 {
	if x == nil {
		return -777
	}
	if len(x.GetBody().GetData()) == 0 { // a shape without payload: it must be one of those the harness made
		for v, o := range r.orig {
			if len(o.GetBody().GetData()) == 0 && proto.Equal(o, x) {
				return v
			}
		}
		return -777
	}
	v := tokenOf(x.GetBody().GetData())
	o, ok := r.orig[v]
	if !ok || !proto.Equal(o, x) {
		return -777
	}
	return v
}

func (r *dmxRig) resCoq(rpc *Rpc, err error, write bool, ctxErr error) string {
	if err == nil {
		if write {
			return "RWrote"
		}
		return "(RGot " + envCoq(dmxKeyOf(r.sc.KeyFn, rpc), r.tokenChecked(rpc)) + ")"
	}
	if err == context.Canceled || (ctxErr != nil && errors.Is(err, ctxErr)) { // the call's own context (whatever error it ended with)
		return "RErrCtx"
	}
	if strings.Contains(err.Error(), "demux connection cancelled") {
		return "RErrCancelled"
	}
	return "(RGot (mkEnv (-999) (-999)))" // unknown error: never predicted
}

func (r *dmxRig) do(a DAct) string {
	switch a.Op {
	case "deliver":
		rpc := r.mkRpc(a.K, a.V, false, a.S)
		k := dmxKeyOf(r.sc.KeyFn, rpc)
		r.ep.Deliver(rpc)
		return "ADeliver " + envCoq(k, a.V)
	case "failread":
		r.ep.FailRead(dmxErr(a.M, errInjected))
		return "AFailRead"
	case "tick":
		time.Sleep(time.Duration(a.D) * time.Millisecond) // virtual time: every timer due within it fires
		return "ATick"
	case "setw":
		switch a.M {
		case "ok":
			r.ep.FailWrites(nil)
			r.ep.UnblockWrites()
			return "ASetWrite WOk"
		case "fail":
			r.ep.FailWrites(errWriteInjected)
			r.ep.UnblockWrites()
			return "ASetWrite WFail"
		default:
			r.ep.FailWrites(nil)
			r.ep.BlockWrites()
			return "ASetWrite WBlock"
		}
	case "read", "write":
		r.mu.Lock()
		var rw goat.RpcReadWriter
		if a.C < len(r.conns) {
			rw = r.conns[a.C]
		}
		r.mu.Unlock()
		term := fmt.Sprintf("ARead %d", a.C)
		var wr *Rpc
		if a.Op == "write" {
			// the key of a written envelope is whatever the key function says; it plays no role
			wr = r.mkRpc(a.K, a.V, true, a.S)
			term = fmt.Sprintf("AWrite %d %s", a.C, envCoq(dmxKeyOf(r.sc.KeyFn, wr), a.V))
		}
		if rw == nil {
			return term
		}
		c := &dcall{ctx: newManualCtx(), pending: true}
		r.mu.Lock()
		i := len(r.calls)
		r.calls = append(r.calls, c)
		r.mu.Unlock()
		go func() {
			var res string
			func() {
				defer func() {
					if p := recover(); p != nil {
						r.mu.Lock()
						r.crash = true
						r.mu.Unlock()
						res = "(RGot (mkEnv (-998) (-998)))"
					}
				}()
				if wr != nil {
					err := rw.Write(c.ctx, wr)
					res = r.resCoq(nil, err, true, c.ctx.Err())
				} else {
					rpc, err := rw.Read(c.ctx)
					res = r.resCoq(rpc, err, false, c.ctx.Err())
				}
			}()
			r.mu.Lock()
			c.pending = false
			r.rets = append(r.rets, fmt.Sprintf("(%d, %s)", i, res))
			r.mu.Unlock()
		}()
		return term
	case "cancelcall":
		r.mu.Lock()
		var c *dcall
		if a.I < len(r.calls) {
			c = r.calls[a.I]
		}
		r.mu.Unlock()
		if c != nil {
			c.ctx.finish(dmxErr(a.M, context.Canceled))
		}
		return fmt.Sprintf("ACancelCall %d", a.I)
	case "cancelkey", "stop":
		// Cancel and Stop run on a goroutine of their own: whether they RETURN is observed (o_ctl), not assumed
		k := a.K
		if r.sc.KeyFn == "const" {
			k = 0
		}
		r.mu.Lock()
		r.ctl++
		r.mu.Unlock()
		go func() {
			defer func() {
				p := recover()
				r.mu.Lock()
				if p != nil {
					r.crash = true
				}
				r.ctl--
				r.mu.Unlock()
			}()
			if a.Op == "stop" {
				r.d.Stop()
			} else {
				r.d.Cancel(dmxKeyStr(r.sc.KeyFn, k))
			}
		}()
		if a.Op == "stop" {
			return "AStop"
		}
		return "ACancelKey " + coqZ(k)
	}
	panic("unknown op " + a.Op)
}

func (r *dmxRig) snapshot() dmxObs {
	r.mu.Lock()
	o := dmxObs{Ann: []int64{}, Rets: append([]string{}, r.rets...), Shw: []string{}, Pending: []int{}, Keys: []int64{}, Crash: r.crash, Ctl: r.ctl}
	r.rets = r.rets[:0]
	nNew := len(r.conns) - r.nAnn
	r.nAnn = len(r.conns)
	if nNew > 0 {
		sk := r.seenK
		if len(sk) >= nNew {
			o.Ann = append(o.Ann, sk[len(sk)-nNew:]...)
		} else {
			for i := 0; i < nNew; i++ {
				o.Ann = append(o.Ann, -997)
			}
		}
	}
	r.seenK = r.seenK[:0]
	for i, c := range r.calls {
		if c.pending {
			o.Pending = append(o.Pending, i)
		}
	}
	r.mu.Unlock()
	sort.Strings(o.Rets)
	ws := r.ep.WrittenCopy()
	for _, w := range ws[r.lastW:] {
		o.Shw = append(o.Shw, envCoq(dmxKeyOf(r.sc.KeyFn, w), r.tokenChecked(w)))
	}
	r.lastW = len(ws)
	cs := pxCensus("goat.(*Demux).Run(", "goat.(*Demux).newConnLocked.func1")
	o.Run = cs[0] > 0
	o.Dw = cs[1]
	for _, k := range r.d.VerifDemuxKeys() {
		o.Keys = append(o.Keys, dmxKeyNum(r.sc.KeyFn, k, -996))
	}
	sort.Slice(o.Keys, func(i, j int) bool { return o.Keys[i] < o.Keys[j] })
	return o
}

func runDmxScenario(t *testing.T, idx int, kind string, sc dmxScenario, em *Emitter) {
	var coqActs, coqObs []string
	var obsList []dmxObs
	em.Marker("begin", idx)
	wstep, wstop := guardWedge(em, idx, kind, sc, sc.Tags)
	defer wstop()
	leaked := bubble(t, func(t *testing.T) {
		rig := &dmxRig{sc: sc, ep: NewEndpoint("shared"), orig: map[int64]*Rpc{}}
		rig.ep.ByRef = sc.ByRef
		rig.d = goat.NewDemux(context.Background(), rig.ep,
			func(r *Rpc) string {
				k := dmxKeyOf(sc.KeyFn, r)
				rig.mu.Lock()
				rig.seenK = append(rig.seenK, k)
				rig.mu.Unlock()
				return dmxKeyStr(sc.KeyFn, k)
			},
			func(rw goat.RpcReadWriter) {
				rig.mu.Lock()
				rig.conns = append(rig.conns, rw)
				rig.mu.Unlock()
			})
		go func() {
			defer func() {
				if p := recover(); p != nil {
					rig.mu.Lock()
					rig.crash = true
					rig.mu.Unlock()
				}
			}()
			rig.d.Run()
		}()
		synctest.Wait()
		for _, a := range sc.Acts {
			wstep()
			term := rig.do(a)
			synctest.Wait()
			o := rig.snapshot()
			obsList = append(obsList, o)
			coqActs = append(coqActs, term)
			coqObs = append(coqObs, o.coq())
		}
		// cleanup (not compared)
		wstep()
		rig.mu.Lock()
		for _, c := range rig.calls {
			c.ctx.finish(context.Canceled)
		}
		rig.mu.Unlock()
		rig.d.Stop()
		rig.ep.FailWrites(nil)
		rig.ep.UnblockWrites()
		rig.ep.FailRead(errInjected)
		synctest.Wait()
	})
	tags := append([]string{}, sc.Tags...)
	if leaked {
		tags = append(tags, "leaked-at-end")
	}
	em.Emit(Rec{Idx: idx, Kind: kind, Desc: sc, Obs: obsList, Tags: tags,
		Coq: fmt.Sprintf("CDemux %s %s", coqList(coqActs), coqList(coqObs))})
	em.Marker("end", idx)
}

//go:build sy

package verifharness

// End-to-end rig of C01 / C02: a real goat.ClientConn and a real goat.Server
// joined by in-memory FIFO wires (harness/wire.go Link; optionally with the real
// Proxy or the real Demux in the path). User programs and handler programs are
// data interpreted against the real API; in lock-step mode one schedule action
// is performed at a time (user thread step, handler step, delivery of the
// oldest in-flight envelope of one direction, release of a thread parked at a
// yield point), followed by synctest.Wait(). Everything callers and handlers
// send / receive / return and every envelope on the client's transport is
// recorded as a Coq term of type Check.SysC.hev.

import (
	"context"
	"encoding/binary"
	"errors"
	"fmt"
	"hash/crc64"
	"io"
	"math/rand"
	"os"
	"regexp"
	"runtime"
	"sort"
	"strconv"
	"strings"
	"sync"
	"sync/atomic"
	"testing/synctest"
	"time"

	goat "github.com/avos-io/goat"
	"github.com/avos-io/goat/gen/goatorepo"
	"github.com/avos-io/goat/internal/verifhook"
	"google.golang.org/grpc"
	"google.golang.org/grpc/codes"
	"google.golang.org/grpc/metadata"
	"google.golang.org/grpc/status"
	"google.golang.org/protobuf/proto"
	"google.golang.org/protobuf/types/known/wrapperspb"
)

// ---------------------------------------------------------------- payloads

var sySizes = []int{0, 1, 17, 1023, 1024, 4096, 65536}

var syCrcTab = crc64.MakeTable(crc64.ECMA)

// syTok is the token of a byte string: 0 for the empty message, else a positive
// 59-bit hash of length and content.
func syTok(b []byte) int64 {
	if len(b) == 0 {
		return 0
	}
	v := crc64.Checksum(b, syCrcTab) ^ (uint64(len(b)) * 0x9e3779b97f4a7c15)
	return int64(v>>5) | 1
}

// syT prints a token as "#<n>"; syIntern later replaces the tokens of one case by small numbers
// (first occurrence order; 0 stays 0), which keeps every equality and makes the Coq term small.
func syT(b []byte) string { return "#" + strconv.FormatInt(syTok(b), 10) }

// syTM is the token of a unary REQUEST: content and method (the reply function depends on the method)
func syTM(mi int, b []byte) string { return "#" + strconv.FormatInt(syTok(b)*8+int64(mi)+1, 10) + "m" }

var syTokRe = regexp.MustCompile(`#\d+m?`)

func syIntern(steps []syStep) {
	tab := map[string]string{"#0": "0"}
	for i := range steps {
		for j, e := range steps[i].evs {
			steps[i].evs[j] = syTokRe.ReplaceAllStringFunc(e, func(m string) string {
				v, ok := tab[m]
				if !ok {
					v = strconv.Itoa(len(tab))
					tab[m] = v
				}
				return v
			})
		}
	}
}

func syBytes(rng *rand.Rand, size int) []byte {
	b := make([]byte, size)
	rng.Read(b)
	return b
}

// syMix is the reply of the unary handler: a fixed mixing function of the
// request bytes (same length, reversed, position-dependent xor), so that a
// reply paired with the wrong request is visible.
func syMix(b []byte) []byte {
	n := len(b)
	out := make([]byte, n)
	for i := 0; i < n; i++ {
		out[i] = b[n-1-i] ^ byte(0xa5+7*i)
	}
	return out
}

// syMixM is the reply of unary method number mi (distinguishable handlers: a call that runs another method's
// handler gets a visibly different reply, except for the empty request)
func syMixM(mi int, b []byte) []byte {
	n := len(b)
	out := make([]byte, n)
	for i := 0; i < n; i++ {
		out[i] = b[n-1-i] ^ byte(0xa5+7*i+31*mi)
	}
	return out
}

// Two services, each with three unary methods and two stream methods of each kind; every method has its own
// handler closure (method number mi / si), so that a dispatch to the wrong handler is visible.
type sySvc interface{ isSy() }

func (r *syRig) isSy() {}

const (
	syNUnary  = 6  // U0..U2 of verif.SyA, U0..U2 of verif.SyB
	syNStream = 12 // per service: C0 C1 (client-streaming), S0 S1 (server-streaming), B0 B1 (bidi)
)

var sySvcNames = []string{"verif.SyA", "verif.SyB"}

func syUnaryIndex(path string) int {
	for mi := 0; mi < syNUnary; mi++ {
		if path == syUnaryPath(mi) || path == syUnaryPath(mi)[1:] {
			return mi
		}
	}
	return -1
}
func syUnaryPath(mi int) string { return fmt.Sprintf("/%s/U%d", sySvcNames[mi/3], mi%3) }

// syCallPath: the method string call c uses: every third call spells it WITHOUT the leading slash (hand-written
// callers and generic forwarders do; the server accepts both spellings)
func syCallPath(mi int, c int64) string {
	p := syUnaryPath(mi)
	if c%3 == 2 {
		return p[1:]
	}
	return p
}
func syStreamKind(si int) int { return (si % 6) / 2 }
func syStreamPath(si int) string {
	return fmt.Sprintf("/%s/%c%d", sySvcNames[si/6], "CSB"[syStreamKind(si)], si%2)
}
func syStreamDesc(si int) *grpc.StreamDesc {
	k := syStreamKind(si)
	return &grpc.StreamDesc{StreamName: fmt.Sprintf("%c%d", "CSB"[k], si%2), ClientStreams: k != 1, ServerStreams: k != 0}
}

func syServiceDescs() []*grpc.ServiceDesc {
	var out []*grpc.ServiceDesc
	for a := 0; a < 2; a++ {
		sd := &grpc.ServiceDesc{ServiceName: sySvcNames[a], HandlerType: (*sySvc)(nil)}
		for m := 0; m < 3; m++ {
			mi := a*3 + m
			sd.Methods = append(sd.Methods, grpc.MethodDesc{MethodName: fmt.Sprintf("U%d", m),
				Handler: func(srv any, ctx context.Context, dec func(any) error, _ grpc.UnaryServerInterceptor) (any, error) {
					in := new(wrapperspb.BytesValue)
					if err := dec(in); err != nil {
						return nil, err
					}
					out, has, err := srv.(*syRig).unaryH(ctx, mi, in.Value)
					if !has {
						return nil, err
					}
					return &wrapperspb.BytesValue{Value: out}, err
				}})
		}
		for x := 0; x < 6; x++ {
			si := a*6 + x
			d := syStreamDesc(si)
			d.Handler = func(srv any, stream grpc.ServerStream) error { return srv.(*syRig).streamH(si, stream) }
			sd.Streams = append(sd.Streams, *d)
		}
		out = append(out, sd)
	}
	return out
}

// ---------------------------------------------------------------- history

type syHist struct {
	mu  sync.Mutex
	evs []string
}

func (h *syHist) add(s string) {
	h.mu.Lock()
	h.evs = append(h.evs, s)
	h.mu.Unlock()
}

func (h *syHist) mark() int {
	h.mu.Lock()
	defer h.mu.Unlock()
	return len(h.evs)
}

func (h *syHist) since(m int) []string {
	h.mu.Lock()
	defer h.mu.Unlock()
	return append([]string(nil), h.evs[m:]...)
}

func syErrCls(err error) int64 {
	switch {
	case err == nil:
		return 0
	case err == io.EOF:
		return 1
	case err == context.Canceled:
		return 4
	case err == context.DeadlineExceeded:
		return 5
	}
	if st, ok := status.FromError(err); ok {
		switch st.Code() {
		case codes.Canceled:
			return 2
		case codes.DeadlineExceeded:
			return 3
		}
		return 100 + int64(st.Code())
	}
	if errors.Is(err, context.Canceled) {
		return 4
	}
	if errors.Is(err, context.DeadlineExceeded) {
		return 5
	}
	return 9
}

func syRes(err error, val []byte) string {
	if err == nil {
		return fmt.Sprintf("(ROk %s)", syT(val))
	}
	return fmt.Sprintf("(RErr %d)", syErrCls(err))
}

func syWenv(e *Rpc) string {
	body := "None"
	if e.GetBody() != nil {
		var m wrapperspb.BytesValue
		if err := proto.Unmarshal(e.GetBody().GetData(), &m); err != nil {
			body = "(Some (-1))"
		} else if mi := syUnaryIndex(e.GetHeader().GetMethod()); mi >= 0 && e.GetHeader().GetSource() == "c1" {
			body = fmt.Sprintf("(Some %s)", syTM(mi, m.Value)) // a unary request: content and method
		} else {
			body = fmt.Sprintf("(Some %s)", syT(m.Value))
		}
	}
	st := "None"
	if e.GetStatus() != nil {
		st = fmt.Sprintf("(Some %d)", e.GetStatus().GetCode())
	}
	return fmt.Sprintf("(mkW %d %s %s %s %s)", e.GetId(), body, st, coqBool(e.GetTrailer() != nil), coqBool(e.GetReset_() != nil))
}

// ---------------------------------------------------------------- programs

// one operation of a user thread
type syCop struct {
	Op   string // invoke | open | send | recv | recv* (until an error) | close
	Slot int    // stream slot
	Kind int    // open: 0 CStream, 1 SStream, 2 Bidi
	Pay  []byte // invoke / send
	Park bool   // recv / send: park at the yield point after the done-check
	M    int    // invoke: unary method number (0..5); open: variant (service / method of the kind)
	// invoke: a plain call carries no metadata and no deadline (its handler is linked to it by the payload);
	// Dead: the caller's context is already cancelled (1) / already expired (2) when it calls - the call
	// must fail and must not disturb anybody else (only on a transport whose Write tests its context first)
	Plain bool
	Dead  int
	Ack   bool // send: the transport Write of this message delivers it and then reports a timeout (lock-step only)
}

func (c syCop) String() string {
	s := c.Op
	switch c.Op {
	case "invoke":
		s += fmt.Sprintf("(%dB)", len(c.Pay))
		if c.Plain {
			s += "p"
		}
		if c.Dead != 0 {
			s += fmt.Sprintf("dead%d", c.Dead)
		}
	case "open":
		s += fmt.Sprintf("(%d,%s)", c.Slot, syKinds[c.Kind])
	case "send":
		s += fmt.Sprintf("(%d,%dB)", c.Slot, len(c.Pay))
	default:
		s += fmt.Sprintf("(%d)", c.Slot)
	}
	if c.Park {
		s += "!"
	}
	return s
}

var syKinds = []string{"CStream", "SStream", "Bidi"}
var syDescs = []*grpc.StreamDesc{descCStream, descSStream, descBidi}

// program of the handler of one stream: receive J messages (stopping at EOF;
// J < 0: until EOF), then send (Echo: what was received, one reply right after
// each message when Ping, else all of them after the receiving phase; otherwise
// N fresh messages), then return Code (0 = nil)
type syHProg struct {
	J    int
	Echo bool
	Ping bool
	N    int
	Code int
	Seed int64
	// Conc != 0: a CONCURRENT handler: a receiver goroutine loops in RecvMsg (own gate 1000+k) while the handler's
	// main goroutine sends N fresh messages; 1 = push-while-receiving (then waits for the receiver to see the end of
	// the caller's messages and returns), 2 = return-while-receiving (returns without waiting for the receiver)
	Conc int
}

func (p syHProg) String() string {
	switch {
	case p.Conc == 1:
		return fmt.Sprintf("push-while-receiving(%d)", p.N)
	case p.Conc == 2:
		return fmt.Sprintf("return-while-receiving(%d)", p.N)
	case p.Echo && p.Ping:
		return "echo"
	case p.Echo:
		return fmt.Sprintf("reply-after(%d)", p.J)
	}
	return fmt.Sprintf("recv(%d)+burst(%d)+ret(%d)", p.J, p.N, p.Code)
}

type syThread struct {
	prog  []syCop
	pc    int
	busy  atomic.Bool
	step  chan struct{}
	yield chan struct{}
	atY   atomic.Bool
	calls int                    // unary calls / ops issued (for tags)
	in    *wrapperspb.BytesValue // one request object and one reply object reused by all the calls of the thread
	out   *wrapperspb.BytesValue
}

type syGate struct {
	parked atomic.Bool
	ch     chan struct{}
}

type syAct struct {
	K byte // 'U' thread, 'R' release thread, 'H' unary handler of call, 'G' stream handler of stream, 'C' c2s, 'S' s2c
	N int64
}

func (a syAct) coq() string {
	switch a.K {
	case 'U':
		return fmt.Sprintf("SUStep %d", a.N)
	case 'R':
		return fmt.Sprintf("SRelease %d", a.N)
	case 'H', 'G':
		return fmt.Sprintf("SHStep %d", a.N)
	case 'C':
		return "SC2S"
	case 'S':
		return "SS2C"
	case 'X':
		return "SFailRead"
	case 'A':
		return "SFailRead"
	case 'T':
		return fmt.Sprintf("STick %d", a.N)
	case 'B':
		return "SBlockWrites true"
	case 'b':
		return "SBlockWrites false"
	}
	return "SFree"
}

func (a syAct) String() string {
	if a.K == 'C' || a.K == 'S' || a.K == 'X' || a.K == 'B' || a.K == 'b' {
		return string(a.K)
	}
	return fmt.Sprintf("%c%d", a.K, a.N)
}

// ---------------------------------------------------------------- the rig

type syRig struct {
	hist        *syHist
	lock        bool // lock-step: handlers gated, wires held
	topo        int  // 0 direct, 1 through the real Proxy, 2 through the real Demux
	link        *Link
	cc          grpc.ClientConnInterface
	ctx         context.Context
	cancel      context.CancelFunc
	eps         []*Endpoint
	stops       []func()
	mu          sync.Mutex
	ugates      map[int64]*syGate
	sgates      map[int64]*syGate
	hprogs      map[int64]syHProg
	threads     []*syThread
	streams     map[int]grpc.ClientStream
	nextC       int64
	hideStreams bool            // C01 with a stream on the same connection: the stream's envelopes are kept out of the tap
	faultIds    map[uint64]bool // wire ids of the requests whose Write was reported as failed
	ackLoss     atomic.Bool     // the next Write of the client delivers its envelope and then reports an error
	srv         *goat.Server
	linkA       *Link // an EARLIER connection of the same Server (doomed: its transport fails with calls in flight)
	ccA         *goat.ClientConn
	rvC2S       chan *Rpc // the two unbuffered channels of the rendezvous topology
	rvS2C       chan *Rpc
	rmsgs       map[int64]*wrapperspb.BytesValue // the caller's message object of each stream
	dumpWait    bool                             // quiescence by goroutine dumps only (a concurrent handler may leave a goroutine waiting for a mutex)
	armed       map[string]*syThread
	yieldF      func(pt string) // free-running yield policy
	active      atomic.Int64    // stream handlers entered and not yet returned
	// server-side backlog estimate (see wait): envelopes written by the client that are not unary requests / opens,
	// envelopes still in flight towards the server, receives completed by handlers
	c2sNoQueue atomic.Int64
	c2sDelivQ  atomic.Int64 // envelopes delivered to the server that go through a stream's queue
	c2sTotal   atomic.Int64
	hrecvs     atomic.Int64
}

func syTag(ctx context.Context, key string) int64 {
	md, _ := metadata.FromIncomingContext(ctx)
	vs := md.Get(key)
	if len(vs) != 1 {
		return -1
	}
	n, err := strconv.ParseInt(vs[0], 10, 64)
	if err != nil {
		return -1
	}
	return n
}

func newSyRig(topo int, byRef, lock bool) *syRig { return newSyRigOpt(topo, byRef, lock, false) }

// checkCtx: the client's transport tests the context of a Write first (as the pipe / demux style transports do)
func newSyRigOpt(topo int, byRef, lock, checkCtx bool) *syRig {
	r := &syRig{hist: &syHist{}, lock: lock, topo: topo, ugates: map[int64]*syGate{}, sgates: map[int64]*syGate{},
		hprogs: map[int64]syHProg{}, rmsgs: map[int64]*wrapperspb.BytesValue{}, faultIds: map[uint64]bool{}, streams: map[int]grpc.ClientStream{}, armed: map[string]*syThread{}}
	r.ctx, r.cancel = context.WithCancel(context.Background())
	srv := goat.NewServer("srv")
	for _, sd := range syServiceDescs() {
		srv.RegisterService(sd, r)
	}
	r.srv = srv
	l := NewLink(byRef)
	l.Auto = !lock
	l.C.CheckCtx = checkCtx
	r.link = l
	r.eps = append(r.eps, l.C, l.S)
	// the tap on the client's transport
	cw, sw := l.C.OnWrite, l.S.OnWrite
	l.C.OnWrite = func(e *Rpc) {
		if (r.hideStreams && !strings.Contains(e.GetHeader().GetMethod(), "/U")) ||
			(syEnvTag(e, "sy-c") >= syFaultedBase && syEnvTag(e, "sy-c") < syDoomedBase) {
			// the request of a call whose Write is reported as failed: not judged by the wire predicates
			r.mu.Lock()
			r.faultIds[e.GetId()] = true
			r.mu.Unlock()
		} else {
			r.hist.add("WC2S " + syWenv(e))
		}
		r.c2sTotal.Add(1)
		if strings.Contains(e.GetHeader().GetMethod(), "/U") || (e.GetBody() == nil && e.GetTrailer() == nil) {
			r.c2sNoQueue.Add(1) // unary requests and stream opens do not go through a stream's queue at the server
		}
		cw(e)
	}
	l.S.OnWrite = func(e *Rpc) {
		r.mu.Lock()
		faulted := r.faultIds[e.GetId()]
		r.mu.Unlock()
		if !faulted {
			r.hist.add("WS2C " + syWenv(e))
		}
		sw(e)
	}
	switch topo {
	case 0:
		go srv.Serve(r.ctx, l.S)
	case 1:
		l2 := NewLink(byRef)
		l2.Auto = true
		r.eps = append(r.eps, l2.C, l2.S)
		p := goat.NewProxy(r.ctx, "proxy", func(id string) (goat.RpcReadWriter, error) { return nil, errors.New("no dial") },
			func(h *goatorepo.RequestHeader) error { return nil }, func(id string, reason error) {})
		p.AddClient("c1", l.S)
		p.AddClient("srv", l2.C)
		go p.Serve()
		go srv.Serve(r.ctx, l2.S)
	case 2:
		d := goat.NewDemux(r.ctx, l.S, func(e *Rpc) string { return e.GetHeader().GetSource() },
			func(rw goat.RpcReadWriter) { go srv.Serve(r.ctx, rw) })
		go d.Run()
		r.stops = append(r.stops, d.Stop)
	}
	r.stops = append(r.stops, srv.Stop)
	var crw goat.RpcReadWriter = &syAckRW{inner: l.C, r: r}
	if topo == 3 {
		// zero slack, by reference: goat's own channel transport over UNBUFFERED channels (a Write returns when the peer
		// has read); free-running only; the tap records what the client writes and what it reads
		c2s, s2c := make(chan *Rpc), make(chan *Rpc)
		r.rvC2S, r.rvS2C = c2s, s2c
		crw = &syTapRW{inner: goat.NewGoatOverChannel(s2c, c2s), r: r}
		go srv.Serve(r.ctx, goat.NewGoatOverChannel(c2s, s2c))
	}
	r.cc = goat.NewClientConn(crw, "c1", "srv")
	verifhook.SetYield(r.onYield)
	return r
}

// syAckRW: the client's transport with the write fault "delivered, but the acknowledgement is lost": when armed, the next
// Write hands the envelope to the wire and then returns an error
type syAckRW struct {
	inner goat.RpcReadWriter
	r     *syRig
}

// a timeout-type net.Error (what a transport reports when the acknowledgement of a delivered write is lost)
type syAckErr struct{}

func (syAckErr) Error() string   { return "write: i/o timeout (acknowledgement lost)" }
func (syAckErr) Timeout() bool   { return true }
func (syAckErr) Temporary() bool { return true }

var errAckLost error = syAckErr{}

func (t *syAckRW) Read(ctx context.Context) (*Rpc, error) { return t.inner.Read(ctx) }
func (t *syAckRW) Write(ctx context.Context, e *Rpc) error {
	err := t.inner.Write(ctx, e)
	if err == nil && t.r.ackLoss.CompareAndSwap(true, false) {
		return errAckLost
	}
	return err
}

func syEnvTag(e *Rpc, key string) int64 {
	for _, kv := range e.GetHeader().GetHeaders() {
		if kv.GetKey() == key {
			if n, err := strconv.ParseInt(kv.GetValue(), 10, 64); err == nil {
				return n
			}
		}
	}
	return -1
}

// syTapRW: the client's end of the rendezvous topology
type syTapRW struct {
	inner goat.RpcReadWriter
	r     *syRig
}

func (t *syTapRW) Write(ctx context.Context, e *Rpc) error {
	t.r.hist.add("WC2S " + syWenv(e))
	return t.inner.Write(ctx, e)
}

func (t *syTapRW) Read(ctx context.Context) (*Rpc, error) {
	ctx2, cancel := context.WithCancel(ctx)
	stop := context.AfterFunc(t.r.ctx, cancel) // the end of the scenario ends the client's read loop
	defer stop()
	defer cancel()
	e, err := t.inner.Read(ctx2)
	if err == nil {
		t.r.hist.add("WS2C " + syWenv(e))
	}
	return e, err
}

// close ends the scenario: everything still blocked is released or cancelled.
func (r *syRig) close() {
	verifhook.SetYield(nil)
	r.cancel()
	r.mu.Lock()
	for _, g := range r.ugates {
		close(g.ch)
	}
	for _, g := range r.sgates {
		close(g.ch)
	}
	r.lock = false
	ths := append([]*syThread(nil), r.threads...)
	r.mu.Unlock()
	for _, th := range ths {
		close(th.yield)
		close(th.step)
	}
	for _, f := range r.stops {
		f()
	}
	for _, e := range r.eps {
		e.FailRead(io.EOF)
	}
	if r.rvC2S != nil {
		// rendezvous topology: whatever is still written at the end (a stream's reset, written with its own 30 s
		// deadline while the stream's lock is held) is taken, so that nobody waits for that lock for ever
		go func() {
			t := time.NewTimer(5 * time.Minute) // virtual: fires when everything else is at rest
			defer t.Stop()
			for {
				select {
				case <-r.rvC2S:
				case <-r.rvS2C:
				case <-t.C:
					return
				}
			}
		}()
	}
}

func (r *syRig) onYield(pt string) {
	r.mu.Lock()
	th := r.armed[pt]
	delete(r.armed, pt)
	f := r.yieldF
	r.mu.Unlock()
	if th != nil {
		th.atY.Store(true)
		<-th.yield
		return
	}
	if f != nil {
		f(pt)
	}
}

func (r *syRig) gateOf(m map[int64]*syGate, tag int64) *syGate {
	r.mu.Lock()
	defer r.mu.Unlock()
	g := m[tag]
	if g == nil {
		g = &syGate{ch: make(chan struct{})}
		m[tag] = g
	}
	return g
}

func (r *syRig) gate(m map[int64]*syGate, tag int64) {
	r.mu.Lock()
	lock := r.lock
	f := r.yieldF
	r.mu.Unlock()
	if !lock {
		if f != nil {
			f("handler")
		}
		return
	}
	g := r.gateOf(m, tag)
	g.parked.Store(true)
	<-g.ch
}

// ---- handlers

func (r *syRig) unaryH(ctx context.Context, mi int, req []byte) ([]byte, bool, error) {
	c := syTag(ctx, "sy-c")
	if c < 0 && len(req) >= 9 && req[0] == syPlainMark {
		c = int64(binary.BigEndian.Uint64(req[1:9])) // a plain call: linked by its payload
	}
	if c >= syFaultedBase && c < syDoomedBase {
		// a call whose request Write was reported as failed: its handler may run, once
		r.hist.add(fmt.Sprintf("HStS %d", c-syFaultedBase))
		r.gate(r.ugates, c)
		return syMixM(mi, req), true, nil
	}
	if c >= syDoomedBase {
		// a call of the doomed connection: gated like any other, nothing recorded (its caller gets no reply)
		r.gate(r.ugates, c)
		return syMixM(mi, req), true, nil
	}
	r.hist.add(fmt.Sprintf("HUnS %s %s", coqZ(c), syTM(mi, req)))
	r.gate(r.ugates, c)
	rep := syMixM(mi, req)
	r.hist.add(fmt.Sprintf("HUnR %s %s %s", coqZ(c), syTM(mi, req), syT(rep)))
	return rep, true, nil
}

func syFresh(seed int64, k int64, i int) []byte {
	rng := rand.New(rand.NewSource(seed*7919 + k*104729 + int64(i)))
	return syBytes(rng, sySizes[rng.Intn(len(sySizes))])
}

func (r *syRig) streamH(si int, s grpc.ServerStream) error {
	k := syTag(s.Context(), "sy-k")
	if k < 0 {
		k = 999999 // a stream nobody opened
	}
	r.mu.Lock()
	p, ok := r.hprogs[k]
	r.mu.Unlock()
	r.hist.add(fmt.Sprintf("HStS %d", k))
	r.active.Add(1)
	defer r.active.Add(-1)
	if !ok {
		r.hist.add(fmt.Sprintf("HRet %d %d", k, 2))
		return status.Error(codes.Unknown, "no program for this stream")
	}
	if want := syTag(s.Context(), "sy-m"); want != int64(si) {
		// the handler of another method was run for this stream
		r.hist.add(fmt.Sprintf("HRet %d %d", k, 98))
		return status.Error(codes.Code(98), "wrong handler")
	}
	hm := syUsedReply() // the handler receives every message into this one object
	recv := func() ([]byte, error) {
		r.gate(r.sgates, k)
		r.hist.add(fmt.Sprintf("HRecvS %d", k))
		err := s.RecvMsg(hm)
		r.hist.add(fmt.Sprintf("HRecvR %d %s", k, syRes(err, hm.Value)))
		r.hrecvs.Add(1)
		return append([]byte(nil), hm.Value...), err
	}
	send := func(b []byte) error {
		r.gate(r.sgates, k)
		r.hist.add(fmt.Sprintf("HSendS %d %s", k, syT(b)))
		err := s.SendMsg(bv(b))
		r.hist.add(fmt.Sprintf("HSendR %d %d", k, syErrCls(err)))
		return err
	}
	ret := func(code int, err error) error {
		r.gate(r.sgates, k)
		if err != nil {
			r.hist.add(fmt.Sprintf("HRet %d %d", k, 1000+syErrCls(err)))
			return err
		}
		r.hist.add(fmt.Sprintf("HRet %d %d", k, code))
		if code != 0 {
			return status.Error(codes.Code(code), fmt.Sprintf("m%d", code))
		}
		return nil
	}
	if p.Conc != 0 {
		rdone := make(chan struct{})
		var returned atomic.Bool
		go func() { // the handler's receiver goroutine
			defer close(rdone)
			for {
				r.gate(r.sgates, 1000+k)
				if returned.Load() {
					return // the handler function has returned: the stream must not be used any more
				}
				r.hist.add(fmt.Sprintf("HRecvS %d", k))
				err := s.RecvMsg(hm)
				r.hist.add(fmt.Sprintf("HRecvR %d %s", k, syRes(err, hm.Value)))
				r.hrecvs.Add(1)
				if err != nil {
					return
				}
			}
		}()
		for i := 0; i < p.N; i++ {
			if err := send(syFresh(p.Seed, k, i)); err != nil {
				returned.Store(true)
				return ret(0, err)
			}
		}
		if p.Conc == 1 {
			<-rdone
		}
		r.gate(r.sgates, k)
		returned.Store(true)
		r.hist.add(fmt.Sprintf("HRet %d %d", k, p.Code))
		if p.Code != 0 {
			return status.Error(codes.Code(p.Code), fmt.Sprintf("m%d", p.Code))
		}
		return nil
	}
	var got [][]byte
	for i := 0; p.J < 0 || i < p.J; i++ {
		b, err := recv()
		if err == io.EOF {
			break
		}
		if err != nil {
			return ret(0, err)
		}
		if p.Echo && p.Ping {
			if err := send(b); err != nil {
				return ret(0, err)
			}
		} else {
			got = append(got, b)
		}
	}
	if p.Echo && !p.Ping {
		for _, b := range got {
			if err := send(b); err != nil {
				return ret(0, err)
			}
		}
	}
	for i := 0; i < p.N; i++ {
		if err := send(syFresh(p.Seed, k, i)); err != nil {
			return ret(0, err)
		}
	}
	return ret(p.Code, nil)
}

// ---- caller-side operations (used by lock-step threads and by free-running goroutines)

// invoke issues unary call c on method mi; the request and reply objects are the caller's (reused across its
// calls: Invoke must overwrite the reply object completely, also with an empty reply)
func (r *syRig) invoke(ctx context.Context, c int64, mi int, req []byte, in, out *wrapperspb.BytesValue) error {
	ctx = metadata.AppendToOutgoingContext(ctx, "sy-c", strconv.FormatInt(c, 10))
	in.Value = req
	r.hist.add(fmt.Sprintf("CInvS %d %s %s", c, syTM(mi, req), syT(syMixM(mi, req))))
	err := r.cc.Invoke(ctx, syCallPath(mi, c), in, out)
	r.hist.add(fmt.Sprintf("CInvR %d %s", c, syRes(err, out.Value)))
	return err
}

const syPlainMark = 0xA5

// invokePlain: the call carries neither metadata nor a deadline; the payload starts with the call's number
func (r *syRig) invokePlain(ctx context.Context, c int64, mi int, req []byte, in, out *wrapperspb.BytesValue) error {
	p := make([]byte, 9, 9+len(req))
	p[0] = syPlainMark
	binary.BigEndian.PutUint64(p[1:9], uint64(c))
	req = append(p, req...)
	in.Value = req
	r.hist.add(fmt.Sprintf("CInvS %d %s %s", c, syTM(mi, req), syT(syMixM(mi, req))))
	err := r.cc.Invoke(ctx, syCallPath(mi, c), in, out)
	r.hist.add(fmt.Sprintf("CInvR %d %s", c, syRes(err, out.Value)))
	return err
}

// invokeDead: a caller whose context has already ended. Its call must fail; nothing is recorded unless it
// does not (a result of a call that never started is a failing input), and its handler - if one ever ran -
// would be the handler of no call.
func (r *syRig) invokeDead(n int64, how, mi int, req []byte) {
	var ctx context.Context
	var cancel context.CancelFunc
	if how == 2 {
		ctx, cancel = context.WithDeadline(r.ctx, time.Now().Add(-time.Second))
	} else {
		ctx, cancel = context.WithCancel(r.ctx)
		cancel()
	}
	defer cancel()
	ctx = metadata.AppendToOutgoingContext(ctx, "sy-c", strconv.FormatInt(800000+n, 10))
	var out wrapperspb.BytesValue
	if err := r.cc.Invoke(ctx, syUnaryPath(mi), &wrapperspb.BytesValue{Value: req}, &out); err == nil {
		r.hist.add(fmt.Sprintf("CInvR %d %s", 800000+n, syRes(err, out.Value)))
	}
}

const syDoomedBase = 700000
const syFaultedBase = 600000

// invokeFaulted: the Write of this call's request delivers the envelope and then reports an error (lock-step only: the
// next Write of the connection is this call's). The call may fail; its handler must run at most once (recorded as
// HStS n, judged by the spec); nothing else of it is recorded unless the call succeeds after all.
func (r *syRig) invokeFaulted(n int64, mi int, req []byte) {
	ctx := metadata.AppendToOutgoingContext(r.ctx, "sy-c", strconv.FormatInt(syFaultedBase+n, 10))
	var out wrapperspb.BytesValue
	r.ackLoss.Store(true)
	err := r.cc.Invoke(ctx, syUnaryPath(mi), &wrapperspb.BytesValue{Value: req}, &out)
	r.ackLoss.Store(false)
	if err == nil {
		r.hist.add(fmt.Sprintf("CInvR %d %s", syFaultedBase+n, syRes(err, out.Value)))
	}
}

// addDoomedConn: a second connection A of the SAME Server, serialising or by reference, delivering at once, not tapped.
// Its calls (invokeDoomed) reach their handlers, which park at their gates; then A's transport fails (action 'A') and
// the handlers are released: whatever that does to the Server must not be felt by the other connection.
func (r *syRig) addDoomedConn(byRef bool) {
	l := NewLink(byRef)
	l.Auto = true
	r.linkA = l
	r.eps = append(r.eps, l.C, l.S)
	go r.srv.Serve(r.ctx, l.S)
	r.ccA = goat.NewClientConn(l.C, "c0", "srv")
}

// invokeDoomed: a call on connection A; it ends with an error when A's transport fails; nothing is recorded unless
// it succeeds after all
func (r *syRig) invokeDoomed(n int64, mi int, req []byte) {
	ctx := metadata.AppendToOutgoingContext(r.ctx, "sy-c", strconv.FormatInt(syDoomedBase+n, 10))
	var out wrapperspb.BytesValue
	r.ccA.Invoke(ctx, syUnaryPath(mi), &wrapperspb.BytesValue{Value: req}, &out)
}

// a reply object as a caller may hand it in: already holding something
func syUsedReply() *wrapperspb.BytesValue {
	return &wrapperspb.BytesValue{Value: []byte("stale reply of an earlier call")}
}

func (r *syRig) open(ctx context.Context, k int64, kind int) (grpc.ClientStream, error) {
	return r.openM(ctx, k, kind, int(k))
}

// openM opens stream k of the given kind on variant v (service and method of that kind)
func (r *syRig) openM(ctx context.Context, k int64, kind, v int) (grpc.ClientStream, error) {
	si := (v%4/2)*6 + kind*2 + v%2
	ctx = metadata.AppendToOutgoingContext(ctx, "sy-k", strconv.FormatInt(k, 10), "sy-m", strconv.Itoa(si))
	r.hist.add(fmt.Sprintf("COpenS %d %d", k, kind))
	cs, err := r.cc.NewStream(ctx, syStreamDesc(si), syStreamPath(si))
	r.hist.add(fmt.Sprintf("COpenR %d %d", k, syErrCls(err)))
	return cs, err
}

func (r *syRig) send(cs grpc.ClientStream, k int64, b []byte) error {
	r.hist.add(fmt.Sprintf("CSendS %d %s", k, syT(b)))
	err := cs.SendMsg(bv(b))
	r.hist.add(fmt.Sprintf("CSendR %d %d", k, syErrCls(err)))
	return err
}

// sendAck: the Write of this message hands it to the wire and then reports a timeout; a failure is recorded as class 77
func (r *syRig) sendAck(cs grpc.ClientStream, k int64, b []byte) error {
	r.hist.add(fmt.Sprintf("CSendS %d %s", k, syT(b)))
	r.ackLoss.Store(true)
	err := cs.SendMsg(bv(b))
	r.ackLoss.Store(false)
	cls := 0
	if err != nil {
		cls = 77
	}
	r.hist.add(fmt.Sprintf("CSendR %d %d", k, cls))
	return err
}

func (r *syRig) recv(cs grpc.ClientStream, k int64) error {
	r.hist.add(fmt.Sprintf("CRecvS %d", k))
	// one message object per stream, reused by every RecvMsg and pre-populated: RecvMsg must overwrite it completely,
	// also with an empty message
	r.mu.Lock()
	m := r.rmsgs[k]
	if m == nil {
		m = syUsedReply()
		r.rmsgs[k] = m
	}
	r.mu.Unlock()
	err := cs.RecvMsg(m)
	r.hist.add(fmt.Sprintf("CRecvR %d %s", k, syRes(err, m.Value)))
	return err
}

func (r *syRig) closeSend(cs grpc.ClientStream, k int64) error {
	r.hist.add(fmt.Sprintf("CCloseS %d", k))
	err := cs.CloseSend()
	r.hist.add(fmt.Sprintf("CCloseR %d %d", k, syErrCls(err)))
	return err
}

// ---- lock-step threads

func (r *syRig) addThread(prog []syCop) int {
	th := &syThread{prog: prog, step: make(chan struct{}), yield: make(chan struct{})}
	r.threads = append(r.threads, th)
	t := len(r.threads) - 1
	go func() {
		for range th.step {
			r.exec(th)
			th.busy.Store(false)
		}
	}()
	return t
}

func (r *syRig) slot(s int) grpc.ClientStream {
	r.mu.Lock()
	defer r.mu.Unlock()
	return r.streams[s]
}

func (r *syRig) exec(th *syThread) {
	op := th.prog[th.pc]
	switch op.Op {
	case "invoke":
		r.mu.Lock()
		c := r.nextC
		r.nextC++
		r.mu.Unlock()
		th.pc++
		if th.out == nil {
			th.in, th.out = &wrapperspb.BytesValue{}, syUsedReply()
		}
		switch {
		case op.Dead == 4:
			r.invokeFaulted(c, op.M%syNUnary, op.Pay)
		case op.Dead == 3:
			r.invokeDoomed(c, op.M%syNUnary, op.Pay)
		case op.Dead != 0:
			r.invokeDead(c, op.Dead, op.M%syNUnary, op.Pay)
		case op.Plain:
			r.invokePlain(r.ctx, c, op.M%syNUnary, op.Pay, th.in, th.out)
		default:
			r.invoke(r.ctx, c, op.M%syNUnary, op.Pay, th.in, th.out)
		}
	case "open":
		th.pc++
		r.mu.Lock()
		locked := r.lock
		r.mu.Unlock()
		if op.Park && locked {
			// (lock-step only) the stream's own goroutine parks at its first cs.loop.read (before it reads anything); the handle is a
			// thread without a program, released by its own R action
			lt := &syThread{step: make(chan struct{}), yield: make(chan struct{})}
			r.mu.Lock()
			r.threads = append(r.threads, lt)
			r.mu.Unlock()
			r.arm("cs.loop.read", lt)
		}
		cs, err := r.openM(r.ctx, int64(op.Slot), op.Kind, op.M)
		if err == nil {
			r.mu.Lock()
			r.streams[op.Slot] = cs
			r.mu.Unlock()
		}
	case "send":
		th.pc++
		if op.Park {
			r.arm("cs.send.checked", th)
		}
		r.mu.Lock()
		locked := r.lock
		r.mu.Unlock()
		if op.Ack && locked {
			r.sendAck(r.slot(op.Slot), int64(op.Slot), op.Pay)
		} else {
			r.send(r.slot(op.Slot), int64(op.Slot), op.Pay)
		}
		r.disarm("cs.send.checked", th)
	case "recv", "recv*":
		if op.Op == "recv" {
			th.pc++
		}
		if op.Park {
			r.arm("cs.recv.checked", th)
		}
		err := r.recv(r.slot(op.Slot), int64(op.Slot))
		r.disarm("cs.recv.checked", th)
		if op.Op == "recv*" && err != nil {
			th.pc++
		}
	case "close":
		th.pc++
		r.closeSend(r.slot(op.Slot), int64(op.Slot))
	}
}

func (r *syRig) arm(pt string, th *syThread) {
	r.mu.Lock()
	r.armed[pt] = th
	r.mu.Unlock()
}

func (r *syRig) disarm(pt string, th *syThread) {
	r.mu.Lock()
	if r.armed[pt] == th {
		delete(r.armed, pt)
	}
	r.mu.Unlock()
}

// enabled lists the schedule actions enabled in the current (quiescent) state, in canonical order.
func (r *syRig) enabled() []syAct {
	var out []syAct
	r.mu.Lock()
	ths := append([]*syThread(nil), r.threads...)
	r.mu.Unlock()
	for t, th := range ths {
		if th.busy.Load() || th.pc >= len(th.prog) {
			continue
		}
		op := th.prog[th.pc]
		if op.Op != "invoke" && op.Op != "open" && r.slot(op.Slot) == nil {
			continue
		}
		out = append(out, syAct{'U', int64(t)})
	}
	for t, th := range ths {
		if th.atY.Load() {
			out = append(out, syAct{'R', int64(t)})
		}
	}
	r.mu.Lock()
	var us, ss []int64
	for tag, g := range r.ugates {
		if g.parked.Load() {
			us = append(us, tag)
		}
	}
	for tag, g := range r.sgates {
		if g.parked.Load() {
			ss = append(ss, tag)
		}
	}
	r.mu.Unlock()
	sort.Slice(us, func(i, j int) bool { return us[i] < us[j] })
	sort.Slice(ss, func(i, j int) bool { return ss[i] < ss[j] })
	for _, tag := range us {
		out = append(out, syAct{'H', tag})
	}
	for _, tag := range ss {
		out = append(out, syAct{'G', tag})
	}
	c, s := r.link.InFlight()
	if c > 0 {
		out = append(out, syAct{'C', 0})
	}
	if s > 0 {
		out = append(out, syAct{'S', 0})
	}
	return out
}

func (r *syRig) do(a syAct) {
	switch a.K {
	case 'U':
		th := r.threads[a.N]
		th.busy.Store(true)
		th.step <- struct{}{}
	case 'R':
		r.mu.Lock()
		th := r.threads[a.N]
		r.mu.Unlock()
		th.atY.Store(false)
		th.yield <- struct{}{}
	case 'H':
		g := r.gateOf(r.ugates, a.N)
		g.parked.Store(false)
		g.ch <- struct{}{}
	case 'G':
		g := r.gateOf(r.sgates, a.N)
		g.parked.Store(false)
		g.ch <- struct{}{}
	case 'C':
		// classify the envelope that is about to reach the server: requests of unary calls and stream opens do not
		// go through a stream's queue
		r.link.mu.Lock()
		if len(r.link.c2s) > 0 {
			e := r.link.c2s[0]
			if !(strings.Contains(e.GetHeader().GetMethod(), "/U") || (e.GetBody() == nil && e.GetTrailer() == nil)) {
				r.c2sDelivQ.Add(1)
			}
		}
		r.link.mu.Unlock()
		r.link.StepC2S()
	case 'S':
		r.link.StepS2C()
	case 'A': // connection A of the same Server loses its transport (both directions)
		r.linkA.C.FailRead(errInjected)
		r.linkA.S.FailRead(errInjected)
	case 'T': // the virtual clock advances (the scheduler sleeps: everything else is durably blocked, timers fire)
		time.Sleep(time.Duration(a.N) * time.Millisecond)
	case 'X': // the client's transport fails (after what it has queued)
		r.link.C.FailRead(errInjected)
	case 'B': // the client's transport stops accepting writes (back-pressure)
		r.link.C.BlockWrites()
	case 'b':
		r.link.C.UnblockWrites()
	}
}

type syStep struct {
	act syAct
	evs []string
}

// wait brings the system to quiescence after an action. synctest.Wait needs every goroutine durably blocked, and
// a goroutine waiting for a sync.Mutex is not: the server's read loop keeps the registry mutex while it waits for
// room in a stream's queue (cap 1), and a handler that returns meanwhile waits for that mutex in unregisterStream
// (it is released as soon as the other stream's handler receives: head-of-line blocking, not a deadlock). Whenever
// two or more stream envelopes delivered to the server are not yet received by a handler this can be the case,
// and quiescence is detected from the goroutine dump instead (durably blocked or waiting for a mutex).
func (r *syRig) wait() {
	backlog := r.c2sDelivQ.Load() - r.hrecvs.Load()
	if backlog < 2 && !r.dumpWait {
		synctest.Wait()
		syLastDump = "synctest.Wait"
		return
	}
	buf := make([]byte, 4<<20)
	prev, prevLen, same := "", -1, 0
	for spins := 0; ; spins++ {
		n := runtime.Stack(buf, true)
		fp, quiet := syBubbleQuiet(string(buf[:n]))
		hl := r.hist.mark()
		// consecutive identical all-blocked pictures with no event in between: two when every goroutine is durably
		// blocked; many more (with more yields in between) when one of them waits for a mutex, because its holder may
		// just be about to release it (a picture taken in that instant looked quiescent on a heavily loaded machine and
		// ended a schedule early)
		if quiet && fp == prev && hl == prevLen {
			same++
			need := 1
			if strings.Contains(fp, "sync.Mutex.Lock") {
				need = 40
			}
			if same >= need {
				syLastDump = string(buf[:n])
				return
			}
		} else if quiet {
			prev, prevLen, same = fp, hl, 0
		} else {
			prev, prevLen, same = "", -1, 0
		}
		yields := 4
		if same > 0 {
			yields = 64
		}
		for i := 0; i < yields; i++ {
			runtime.Gosched()
		}
		if spins > 2000000 {
			panic("sy rig: no quiescence")
		}
	}
}

var syLastDump string
var syDebugWait = false

// syBubbleQuiet: every goroutine of a bubble other than the caller is durably blocked or waits for a mutex;
// the fingerprint is the list of their header lines and top frames.
func syBubbleQuiet(dump string) (string, bool) {
	var fp strings.Builder
	first := true
	for _, g := range strings.Split(dump, "\n\n") {
		nl := strings.IndexByte(g, '\n')
		if nl < 0 {
			nl = len(g)
		}
		h := g[:nl]
		if !strings.HasPrefix(h, "goroutine ") {
			continue
		}
		if first { // the caller
			first = false
			continue
		}
		if !strings.Contains(h, "synctest bubble") {
			continue
		}
		if strings.Contains(h, "(durable") || strings.Contains(h, "sync.Mutex.Lock") {
			fp.WriteString(h)
			continue
		}
		return "", false
	}
	return fp.String(), true
}

// runSchedule performs actions chosen by choose among the enabled ones until none is enabled
// (or choose returns -1, or maxSteps is reached).
func (r *syRig) runSchedule(choose func(step int, en []syAct) int, maxSteps int) (steps []syStep, complete bool) {
	synctest.Wait()
	last := r.hist.mark()
	for n := 0; n < maxSteps; n++ {
		if syOnStep != nil {
			syOnStep()
		}
		en := r.enabled()
		if len(en) == 0 {
			// nothing is enabled. If something is still pending (a busy thread, a running handler) make sure that it is
			// really stuck before the schedule ends: the quiescence detection by goroutine dumps has been seen to return
			// early on a heavily loaded machine
			if r.pending() && r.settleAgain() {
				n--
				continue
			}
			break
		}
		i := choose(n, en)
		if i == -1 {
			break
		}
		if i == -8 { // the transport of the doomed connection fails, on both sides
			en = []syAct{{'A', 0}}
			i = 0
		} else if i == -9 || i == -10 { // short advances of the clock: 100 ms, 300 ms
			en = []syAct{{'T', map[int]int64{-9: 100, -10: 300}[i]}}
			i = 0
		} else if i <= -5 { // the virtual clock advances: -5 six seconds, -6 one minute, -7 one hour
			en = []syAct{{'T', map[int]int64{-5: 6000, -6: 60000, -7: 3600000}[i]}}
			i = 0
		} else if i < -1 { // an environment action that is always enabled: -2 read failure, -3 / -4 block / unblock writes
			en = []syAct{{map[int]byte{-2: 'X', -3: 'B', -4: 'b'}[i], 0}}
			i = 0
		}
		m := r.hist.mark()
		// the events of a step are everything recorded until the next action starts (in the rare case that the
		// dump-based quiescence detection of wait() returned early, nothing is lost or misattributed to a later step)
		if len(steps) > 0 {
			steps[len(steps)-1].evs = r.hist.since(last)
		}
		last = m
		r.do(en[i])
		r.wait()
		steps = append(steps, syStep{en[i], nil})
	}
	if len(steps) > 0 {
		steps[len(steps)-1].evs = r.hist.since(last)
	}
	// complete: the schedule ran until no action was enabled; whatever is still pending then (a busy thread, a
	// running handler) can never finish and is judged by the spec ("an operation never returned")
	complete = len(r.enabled()) == 0
	syEndDump = ""
	if complete {
		stuck := r.active.Load() != 0
		for _, th := range r.threads {
			if th.busy.Load() {
				stuck = true
			}
		}
		if stuck {
			// diagnosis of a run that ends with something pending: the goroutines of the bubble (header + top frame)
			syEndDump = syDumpHeads(syLastDump)
			if os.Getenv("SY_RAWDUMP") != "" {
				syEndDump = syLastDump
			}
		}
	}
	return
}

var syEndDump string
var syOnStep func() // progress signal for the wedge watcher

func (r *syRig) pending() bool {
	if r.active.Load() != 0 {
		return true
	}
	r.mu.Lock()
	defer r.mu.Unlock()
	for _, th := range r.threads {
		if th.busy.Load() {
			return true
		}
	}
	return false
}

// settleAgain gives everything more (real) time; true when something moved or became enabled
func (r *syRig) settleAgain() bool {
	m := r.hist.mark()
	for i := 0; i < 400; i++ {
		for j := 0; j < 200; j++ {
			runtime.Gosched()
		}
		if r.hist.mark() != m || len(r.enabled()) > 0 {
			r.wait()
			return true
		}
	}
	return false
}

func syDumpHeads(dump string) string {
	var b strings.Builder
	for _, g := range strings.Split(dump, "\n\n") {
		ls := strings.Split(g, "\n")
		if len(ls) == 0 || !strings.Contains(ls[0], "synctest bubble") {
			continue
		}
		b.WriteString(ls[0])
		for _, l := range ls[1:] {
			if strings.Contains(l, "goat") || strings.Contains(l, "verifharness") {
				b.WriteString(" | " + strings.TrimSpace(l))
				break
			}
		}
		b.WriteString("\n")
	}
	return b.String()
}

func syStepsCoq(steps []syStep) string {
	syIntern(steps)
	items := make([]string, len(steps))
	for i, s := range steps {
		items[i] = "(" + s.act.coq() + ", " + coqList(wrapAll(s.evs)) + ")"
	}
	return coqList(items)
}

func wrapAll(evs []string) []string {
	out := make([]string, len(evs))
	for i, e := range evs {
		out[i] = e
	}
	return out
}

func sySchedString(steps []syStep) string {
	var sb strings.Builder
	for i, s := range steps {
		if i > 0 {
			sb.WriteByte(' ')
		}
		sb.WriteString(s.act.String())
	}
	return sb.String()
}

// seeded free-running yield policy: a pseudo-random third of the yield points gives up the processor
func syRandomYield(seed int64) func(string) {
	var n atomic.Uint64
	return func(string) {
		x := (n.Add(1) + uint64(seed)) * 0x9e3779b97f4a7c15
		if (x>>33)%3 == 0 {
			runtime.Gosched()
		}
	}
}

//go:build px

package verifharness

import (
	"fmt"
	"testing"
)

// Scenario generators for C17 (quantifier: all envelopes with source equal to /
// different from / absent relative to the sending peer's name, for each peer
// role (stuck writer, failing reader, failing writer, dial error, slow dial)
// combined with live traffic between two other peers, for a peer re-attaching
// under its old name before or after the old connection fails, for context
// cancellation at each step of each scenario).
//
// Peers 1 (p) and 2 (q) carry the live traffic; 3 is the third peer in its role
// (5: a name whose dial fails, 6: a name whose dial is slow).

var c17Roles = []string{"stuck-writer", "failing-reader", "failing-writer", "dial-error", "slow-dial", "none"}

// live traffic p <-> q with the three kinds of source
func c17Traffic(b *pxBuilder, kinds string, conc bool) {
	var g []PAct
	emit := func(a PAct) {
		if conc {
			g = append(g, a)
		} else {
			b.add(a)
		}
	}
	emit(b.send(1, 2))
	if kinds != "honest" {
		a := b.send(1, 2)
		a.Bad, a.Src = "spoof", 2 // p claims to be q
		emit(a)
		a = b.send(2, 1)
		a.Bad, a.Src = "spoof", 7 // q claims an unknown name
		emit(a)
		a = b.send(1, 2)
		a.Bad = "nohdr"
		emit(a)
		a = b.send(2, 1)
		a.Bad = "nilrpc"
		emit(a)
	}
	emit(b.send(2, 1))
	if conc {
		// concurrent senders: p's and q's envelopes are delivered without waiting in between
		b.add(g...)
	}
}

func c17Role(role string, kinds string, conc bool, burst int) pxScenario {
	b := &pxBuilder{tok: 100}
	b.add(att(1)...)
	b.add(att(2)...)
	third := int64(3)
	switch role {
	case "stuck-writer":
		b.add(att(3)...)
		b.add(PAct{Op: "setw", N: 3, M: "block"})
	case "failing-reader":
		b.add(att(3)...)
	case "failing-writer":
		b.add(att(3)...)
		b.add(PAct{Op: "setw", N: 3, M: "fail"})
	case "dial-error":
		third = 5
	case "slow-dial":
		third = 6
	case "none":
		b.add(att(3)...)
	}
	c17Traffic(b, kinds, conc)
	if role == "failing-reader" {
		b.add(PAct{Op: "failread", N: 3})
	}
	// traffic towards the third peer, from both live peers, mixed with live traffic
	for i := 0; i < burst; i++ {
		from := int64(1 + i%2)
		b.add(b.send(from, third))
		if role == "dial-error" {
			b.add(PAct{Op: "dial", N: 5, M: "fail"})
		}
		if i%4 == 1 {
			b.add(b.send(1, 2))
		}
		if i == 1 && role == "slow-dial" {
			b.add(att(3)...) // AddClient while the dial is outstanding
			b.add(b.send(3, 2))
		}
		if i%6 == 3 {
			a := b.send(3, 1) // the third peer itself speaks (if it is attached), also with a forged source
			if i%12 == 9 {
				a.Bad, a.Src = "spoof", 1
			}
			b.add(a)
		}
	}
	c17Traffic(b, kinds, conc)
	// the third peer recovers (or its dial is answered), traffic goes on
	switch role {
	case "stuck-writer", "failing-writer":
		b.add(PAct{Op: "setw", N: 3, M: "ok"})
	case "slow-dial":
		b.add(PAct{Op: "dial", N: 6, M: "ok"})
	}
	b.add(b.send(1, third))
	if role == "dial-error" {
		b.add(PAct{Op: "dial", N: 5, M: "ok"})
	}
	b.add(PAct{Op: "dial", N: 3, M: "ok"}) // a failed third peer was dialled again on demand
	b.add(b.send(2, third))
	c17Traffic(b, "honest", false)
	return pxScenario{Icp: 0, ByRef: burst%2 == 0, Steps: b.steps,
		Tags: []string{"role", "role=" + role, "sources=" + kinds, fmt.Sprintf("toThird=%d", burst)}}
}

// re-attachment of q under its name; the old connection fails (read / write) before or after
func c17Reattach(when string, how string, again bool) pxScenario {
	b := &pxBuilder{tok: 100}
	b.add(att(1)...)
	b.add(att(2)...)
	b.add(b.send(1, 2))
	failOld := func(gen int) {
		switch how {
		case "read":
			b.add(PAct{Op: "failread", N: 2, Gen: gen})
		case "write":
			b.add(PAct{Op: "setw", N: 2, Gen: gen, M: "fail"})
			if gen == 0 {
				b.add(b.send(1, 2)) // the failure shows when an envelope is written
			}
		case "write-blocked":
			// an envelope is stuck in the old connection's Write when it is replaced; the Write then fails
			b.add(PAct{Op: "setw", N: 2, Gen: gen, M: "fail"})
		}
	}
	if how == "write-blocked" {
		b.add(PAct{Op: "setw", N: 2, M: "block"})
		b.add(b.send(1, 2))
		b.add(b.send(1, 2))
	}
	switch when {
	case "before": // the old connection fails first, then q re-attaches
		failOld(0)
		b.add(b.send(1, 2)) // dial on demand meanwhile
		b.add(att(2)...)
	case "after": // q re-attaches, then the old connection fails
		b.add(att(2)...)
		b.add(b.send(1, 2))
		failOld(1)
	case "never": // the old connection stays; both keep working as sources
		b.add(att(2)...)
	}
	b.add(b.send(1, 2))
	a := b.send(2, 1)
	a.Gen = 1 // the old connection still speaks (if alive)
	b.add(a)
	b.add(b.send(2, 1))
	if again {
		b.add(att(2)...)
		b.add(b.send(1, 2))
		b.add(PAct{Op: "failread", N: 2, Gen: 1})
		b.add(PAct{Op: "failread", N: 2, Gen: 2})
		b.add(b.send(1, 2))
		b.add(b.send(2, 1))
	}
	b.add(PAct{Op: "dial", N: 2, M: "ok"})
	b.add(b.send(1, 2))
	return pxScenario{Icp: 0, ByRef: again, Steps: b.steps,
		Tags: []string{"reattach", "reattach-" + when, "oldfails=" + how, fmt.Sprintf("again=%v", again)}}
}

// transports that ignore their context, with cancellation
func c17Deaf(variant int) pxScenario {
	b := &pxBuilder{tok: 100}
	b.add(PAct{Op: "attach", N: 1, Deaf: variant%2 == 0})
	b.add(PAct{Op: "attach", N: 2, Deaf: variant%3 == 0})
	b.add(b.send(1, 2))
	if variant%4 >= 2 {
		b.add(PAct{Op: "setw", N: 2, M: "block"})
		b.add(b.send(1, 2))
	}
	b.add(b.send(2, 6))
	if variant >= 6 {
		b.add(PAct{Op: "dial", N: 6, M: "ok", Deaf: true})
	}
	b.add(b.send(1, 6))
	b.add(PAct{Op: "cancel"})
	b.add(b.send(1, 2))
	b.add(PAct{Op: "setw", N: 2, M: "ok"})
	b.add(PAct{Op: "dial", N: 6, M: "ok"})
	b.add(b.send(2, 1))
	return pxScenario{Icp: 0, Steps: b.steps, Tags: []string{"deaf"}}
}

// forged sources with sender-controlled routing fields: the claimed source is another attached peer / an unknown
// name / the proxy's own name; the route record and the return route are [], [sender], [other], [x, sender],
// [sender, x] (the sender may put anything there). Nothing of this may ever be handed to any peer (nor dialled).
func c17Forged(claim int64, variant int) pxScenario {
	b := &pxBuilder{tok: 100}
	b.add(att(1)...)
	b.add(att(2)...)
	b.add(att(3)...)
	sender := int64(1)
	lists := [][]int64{nil, {sender}, {2}, {8, sender}, {sender, 8}, {2, sender}, {sender, sender}}
	b.add(b.send(1, 2))
	for ri, rec := range lists {
		for ni, next := range lists {
			if (ri+ni+variant)%2 == 1 && ri != 0 && ni != 0 {
				continue // half of the pairs per variant
			}
			a := b.send(sender, int64(2+(ri+ni)%2*2)) // to an attached peer / a dialable name
			a.Bad, a.Src = "spoof", claim
			a.Rec, a.Next, a.HasN = rec, next, next != nil || ni%2 == 1
			a.Shape = (ri*7 + ni) * 5
			b.add(a)
		}
		b.add(b.send(3, 1)) // live traffic in between
	}
	b.add(b.send(1, 2))
	return pxScenario{Icp: variant % 2 * 5, ByRef: variant%2 == 0, Steps: b.steps,
		Tags: []string{"forged", fmt.Sprintf("claims=%d", claim)}}
}

// two roles on ONE peer, in both orders, with every error value: its write loop parked in a Write (blocked; with a
// transport that honours / ignores its context) or failing (before / after handing the envelope over), and its read
// loop failing or parked in a Read that ignores its context. Whichever loop fails first must be reported with its own
// error and the entry removed - although the other loop may never return - and the peer is dialled again.
func c17TwoRoles(first, second string, deaf bool, ek int) pxScenario {
	b := &pxBuilder{tok: 100}
	b.add(att(1)...)
	b.add(att(2)...)
	b.add(PAct{Op: "attach", N: 3, Deaf: deaf})
	b.add(b.send(1, 3))
	role := func(what string) {
		switch what {
		case "stuck-writer":
			b.add(PAct{Op: "setw", N: 3, M: "block"})
			b.add(b.send(1, 3)) // now inside the blocked Write
			b.add(b.send(2, 3))
		case "failing-reader":
			b.add(PAct{Op: "failread", N: 3, Err: ek})
		case "failing-writer":
			b.add(PAct{Op: "setw", N: 3, M: "fail", Err: ek})
			b.add(b.send(1, 3))
		case "failafter-writer":
			b.add(PAct{Op: "setw", N: 3, M: "failafter", Err: ek})
			b.add(b.send(2, 3))
		case "idle": // the other loop just sits in its Read / select
		}
	}
	role(first)
	b.add(b.send(1, 2)) // live traffic
	role(second)
	b.add(b.send(2, 1))
	b.add(b.send(1, 3)) // the name must be dialled again
	b.add(PAct{Op: "dial", N: 3, M: "ok"})
	b.add(b.send(2, 3))
	b.add(PAct{Op: "setw", N: 3, Gen: 1, M: "ok"}) // the old connection's stuck Write is released at last
	b.add(b.send(1, 3))
	return pxScenario{Icp: 0, ByRef: ek%2 == 0, Steps: b.steps,
		Tags: []string{"two-roles", "first=" + first, "then=" + second, fmt.Sprintf("ctx-ignoring=%v", deaf), fmt.Sprintf("err=%d", ek)}}
}

// n dials hanging at once (n distinct unknown destinations whose newConnection does not return), then an envelope for
// one more unknown destination, then live p <-> q traffic and an AddClient: none of it may wait for the dials
func c17HangingDials(n int, variant int) pxScenario {
	b := &pxBuilder{tok: 100}
	b.add(att(1)...)
	b.add(att(2)...)
	b.add(b.send(1, 2))
	for k := 0; k < n; k++ {
		from := int64(1 + k%2)
		b.add(b.send(from, int64(20+k))) // dial of n<20+k> starts and hangs
		if k%3 == 2 {
			b.add(b.send(2, 1))
		}
	}
	b.add(b.send(1, int64(20+n))) // one more unknown destination
	b.add(b.send(1, 2))
	b.add(b.send(2, 1))
	b.add(att(3)...) // AddClient while all those dials hang
	b.add(b.send(3, 1))
	b.add(b.send(2, 3))
	if variant%2 == 1 {
		b.add(b.send(3, int64(21+n))) // and yet another one
		b.add(b.send(1, 2))
	}
	// some dials are answered at last
	b.add(PAct{Op: "dial", N: 20, M: "ok"})
	b.add(PAct{Op: "dial", N: int64(20 + n), M: "fail"})
	b.add(b.send(1, 20))
	b.add(b.send(2, 1))
	return pxScenario{Icp: 0, ByRef: variant%2 == 0, Steps: b.steps, Tags: []string{"hanging-dials", fmt.Sprintf("hanging=%d", n)}}
}

// both directions of ONE connection fail while the single serve loop is busy elsewhere: it sits in the (slow)
// disconnect callback of another peer. The connection's write loop is inside a blocked Write; inside ONE step: the
// other peer's Read fails (the serve loop enters its callback and stays there), then the connection's Read fails
// and its Write fails (in either order), then the callback returns. The dead connection must be reported (with
// its own error) and removed; the name is dialled again. Judged by the predicates (the model has no slow callback).
func c17HeldLoop(order string, ek int, unheld bool) pxScenario {
	b := &pxBuilder{tok: 100}
	b.add(att(1)...)
	b.add(att(2)...)
	b.add(att(3)...)
	b.add(b.send(1, 3))
	b.add(PAct{Op: "setw", N: 3, M: "block"})
	b.add(b.send(1, 3)) // the write loop of 3 is now inside the blocked Write
	b.add(b.send(2, 3))
	wfail := PAct{Op: "setw", N: 3, M: "fail", Err: ek}
	if order == "read-then-failafter" {
		wfail.M = "failafter"
	}
	rfail := PAct{Op: "failread", N: 3, Err: ek}
	w := PAct{Op: "wait"}
	var g []PAct
	if !unheld {
		g = append(g, PAct{Op: "hold", N: 2}, PAct{Op: "failread", N: 2}, w)
	}
	switch order {
	case "write-then-read":
		g = append(g, wfail, w, rfail, w)
	default:
		g = append(g, rfail, w, wfail, w)
	}
	if unheld {
		// no slow callback: the two failures simply happen together (no settling in between)
		g = []PAct{rfail, wfail}
		if order == "write-then-read" {
			g = []PAct{wfail, rfail}
		}
	}
	g = append(g, PAct{Op: "release"})
	b.add(g...)
	b.add(b.send(1, 2))
	b.add(b.send(1, 3)) // dialled again
	b.add(PAct{Op: "dial", N: 3, M: "ok"})
	b.add(PAct{Op: "dial", N: 2, M: "ok"})
	b.add(b.send(1, 3))
	return pxScenario{Icp: 0, ByRef: ek%2 == 0, Steps: b.steps,
		Tags: []string{"held-loop", "order=" + order, fmt.Sprintf("serve-loop-held=%v", !unheld), fmt.Sprintf("err=%d", ek)}}
}

// a stuck peer whose queue is full, then MORE envelopes for it of every kind (plain body, trailer, status + trailer,
// reset, trailer + reset), each one in the same step as live traffic between two healthy peers: the live traffic must be
// handed over within the step, without virtual time passing (the rig observes before it lets the clock advance)
func c17StuckKinds(conc bool, variant int) pxScenario {
	b := &pxBuilder{tok: 100}
	b.add(att(1)...)
	b.add(att(2)...)
	b.add(att(3)...)
	b.add(PAct{Op: "setw", N: 3, M: "block"})
	for i := 0; i < 17; i++ { // one in the blocked Write, sixteen in the queue
		b.add(b.send(int64(1+i%2), 3))
	}
	shapes := []int{0, 12, 4 + 24, 36, 12 + 36, 1 + 24, 1 + 36} // body; trailer; status+trailer; reset; trailer+reset; no body ...
	for k, sh := range shapes {
		a := b.send(int64(1+(k+variant)%2), 3)
		a.Shape = sh
		live := b.send(int64(2-(k+variant)%2), int64(1+(k+variant)%2)) // the other healthy peer talks to the sender
		if variant >= 2 {
			// the sender itself goes on talking to the other healthy peer: its read loop offers the two in order
			live = b.send(int64(1+(k+variant)%2), int64(2-(k+variant)%2))
		}
		if conc {
			b.add(a, live)
		} else {
			b.add(a)
			b.add(live)
		}
		if k%3 == 2 {
			b.add(b.send(1, 2), b.send(2, 1))
		}
	}
	b.add(PAct{Op: "setw", N: 3, M: "ok"})
	b.add(b.send(1, 3))
	b.add(b.send(2, 1))
	return pxScenario{Icp: 0, ByRef: variant%2 == 0, Steps: b.steps,
		Tags: []string{"stuck-kinds", fmt.Sprintf("overflow-with-live-traffic-in-one-step=%v", conc)}}
}

// the context ends while a destination has QUEUED envelopes and its write loop sits in its select: (a) the proxy's
// context is cancelled from inside the forwarding loop, while it forwards the first of k envelopes to peer 3 whose
// transport has just been set to block; (b) the connection's own context ends because its Read fails in the same step.
// Whatever the write loop's select picks, it must be gone when the step has settled (the blocked Write honours its
// context), nothing may happen while 1 s and 6 s of virtual time go by, and unblocking the transport later delivers
// nothing.
func c17CancelQueued(k int, own bool, variant int) pxScenario {
	b := &pxBuilder{tok: 100}
	b.add(att(1)...)
	b.add(att(2)...)
	b.add(att(3)...)
	b.add(b.send(1, 2))
	g := []PAct{{Op: "setw", N: 3, M: "block"}}
	if own {
		g = append(g, PAct{Op: "failread", N: 3})
	}
	for i := 0; i < k; i++ {
		a := b.send(int64(1+i%2), 3)
		if i == 0 && !own {
			a.CancelOn = true
		}
		g = append(g, a)
	}
	b.add(g...)
	b.add(PAct{Op: "tick", V: 1000})
	b.add(PAct{Op: "setw", N: 3, M: "ok"})
	b.add(PAct{Op: "tick", V: 6000})
	b.add(b.send(1, 2))
	tags := []string{"cancel-queued", fmt.Sprintf("queued=%d", k)}
	if own {
		tags = append(tags, "context=the-connection's-own")
	} else {
		tags = append(tags, "concurrent-cancel", "cancel-in-forwarding-loop=true", "with=queued")
	}
	return pxScenario{Icp: 0, ByRef: variant%2 == 0, Steps: b.steps, Tags: tags}
}

// the dial-error role with every error value (and the name dialled again)
func c17DialErr(ek int) pxScenario {
	b := &pxBuilder{tok: 100}
	b.add(att(1)...)
	b.add(att(2)...)
	b.add(b.send(1, 5))
	b.add(b.send(2, 5))
	b.add(PAct{Op: "dial", N: 5, M: "fail", Err: ek})
	b.add(b.send(1, 2))
	b.add(b.send(1, 5))
	b.add(PAct{Op: "dial", N: 5, M: "ok"})
	b.add(b.send(2, 5))
	return pxScenario{Icp: 0, Steps: b.steps, Tags: []string{"dial-error-values", fmt.Sprintf("err=%d", ek)}}
}

// faults and cancellation at the same moment: a group of actions performed without waiting in between, the
// cancellation either as one of them or from inside the forwarding loop (while it forwards a p -> q envelope)
func c17Concurrent(what string, inLoop bool, variant int) pxScenario {
	b := &pxBuilder{tok: 100}
	b.add(att(1)...)
	b.add(att(2)...)
	b.add(att(3)...)
	b.add(b.send(1, 2))
	if variant%2 == 1 {
		b.add(b.send(3, 6)) // a pending dial
	}
	var g []PAct
	switch what {
	case "failread":
		g = append(g, PAct{Op: "failread", N: 3})
	case "failwrite":
		b.add(PAct{Op: "setw", N: 3, M: "block"})
		b.add(b.send(1, 3))
		g = append(g, PAct{Op: "setw", N: 3, M: "fail"})
	case "dialfail":
		b.add(b.send(2, 5))
		g = append(g, PAct{Op: "dial", N: 5, M: "fail"})
	case "dialok":
		b.add(b.send(2, 4))
		b.add(b.send(1, 4))
		g = append(g, PAct{Op: "dial", N: 4, M: "ok"})
	case "traffic":
		g = append(g, b.send(3, 1), b.send(2, 3))
	case "two-failreads":
		g = append(g, PAct{Op: "failread", N: 3}, PAct{Op: "failread", N: 2})
	}
	if inLoop {
		a := b.send(1, 2)
		a.CancelOn = true
		if variant%3 == 0 {
			g = append([]PAct{a}, g...)
		} else {
			g = append(g, a)
		}
	} else {
		g = append(g, PAct{Op: "cancel"})
	}
	b.add(g...)
	b.add(b.send(1, 2))
	b.add(PAct{Op: "dial", N: 6, M: "ok"})
	b.add(b.send(2, 1))
	return pxScenario{Icp: variant % 2 * 2, ByRef: variant%2 == 0, Steps: b.steps,
		Tags: []string{"concurrent-cancel", "with=" + what, fmt.Sprintf("cancel-in-forwarding-loop=%v", inLoop)}}
}

// the scenario with the context cancelled after step pos (the remaining steps still happen)
func c17CancelAt(sc pxScenario, pos int) pxScenario {
	steps := append([][]PAct{}, sc.Steps[:pos]...)
	steps = append(steps, []PAct{{Op: "cancel"}})
	steps = append(steps, sc.Steps[pos:]...)
	return pxScenario{Icp: sc.Icp, ByRef: sc.ByRef, Steps: steps, Tags: append(append([]string{}, sc.Tags...), "cancel-each-step")}
}

func c17Scenarios() []pxScenario {
	var bases []pxScenario
	for ri, role := range c17Roles {
		for ki, kinds := range []string{"all", "honest"} {
			for ci, conc := range []bool{false, true} {
				for _, burst := range []int{3, 18} {
					if !thorough() && burst == 18 && (ki+ci) == 1 && ri%2 == 0 {
						continue
					}
					bases = append(bases, c17Role(role, kinds, conc, burst))
				}
			}
		}
	}
	for _, when := range []string{"before", "after", "never"} {
		for _, how := range []string{"read", "write", "write-blocked"} {
			for _, again := range []bool{false, true} {
				bases = append(bases, c17Reattach(when, how, again))
			}
		}
	}
	var forged []pxScenario
	for _, claim := range []int64{2, 3, 7, pxProxyName} {
		for v := 0; v < 2; v++ {
			forged = append(forged, c17Forged(claim, v))
		}
	}
	// a dialled-on-demand peer whose connection fails: removed, reported, dialled again
	for _, how := range []string{"read", "write", "write-blocked", "dialerror"} {
		for v := 0; v < 2; v++ {
			bases = append(bases, pxDialThenFail(how, v))
		}
	}
	var out []pxScenario
	k := 0
	for _, pair := range [][2]string{{"stuck-writer", "failing-reader"}, {"failing-reader", "stuck-writer"},
		{"failing-writer", "failing-reader"}, {"failing-reader", "failing-writer"}, {"failafter-writer", "failing-reader"},
		{"idle", "failing-writer"}, {"idle", "failafter-writer"}, {"idle", "failing-reader"}, {"stuck-writer", "failing-writer"}} {
		for _, deaf := range []bool{false, true} {
			for ek := 0; ek < pxNumErrKinds; ek++ {
				k++
				if !thorough() && ek >= 2 && (k+ek)%3 != 0 {
					continue // quick tier: error values 0 and 1 for every pair, a third of the others
				}
				sc := c17TwoRoles(pair[0], pair[1], deaf, ek)
				out = append(out, sc)
				if ek < 2 {
					bases = append(bases, sc) // ... and the context cancelled at every step
				}
			}
		}
	}
	for ek := 0; ek < pxNumErrKinds; ek++ {
		out = append(out, c17DialErr(ek))
	}
	for _, order := range []string{"read-then-write", "write-then-read", "read-then-failafter"} {
		for ek := 0; ek < pxNumErrKinds; ek++ {
			if !thorough() && ek >= 2 && ek != 5 {
				continue
			}
			out = append(out, c17HeldLoop(order, ek, false))
			for rep := 0; rep < 2; rep++ { // the unheld variant depends on the schedule: repeated
				out = append(out, c17HeldLoop(order, ek, true))
			}
		}
	}
	// return routes naming the proxy itself, peers, unknown names, of length 0..3, from honest senders
	for v, nx := range [][]int64{{99}, {8, 99}, {99, 99}, {99, 2}, {2, 99, 7}, {7, 7, 99}, {}} {
		b := &pxBuilder{tok: 100}
		b.add(att(1)...)
		b.add(att(2)...)
		b.add(b.send(1, 2))
		a := b.send(1, 2)
		a.Next, a.HasN = nx, true
		b.add(a)
		b.add(b.send(2, 1))
		a = b.send(2, 1)
		a.Next, a.HasN, a.Rec = nx, true, []int64{8}
		b.add(a)
		b.add(b.send(1, 2))
		out = append(out, pxScenario{Icp: v % 2 * 5, ByRef: v%2 == 0, Steps: b.steps, Tags: []string{"own-id-routes"}})
	}
	for _, how := range []string{"read"} {
		for _, same := range []bool{true, false} {
			out = append(out, pxReattachInCallback(how, same, 0))
		}
	}
	for _, k := range []int{1, 5, 16} {
		for rep := 0; rep < 6; rep++ { // which case the write loop's select picks is the runtime's: repeated
			out = append(out, c17CancelQueued(k, false, rep))
		}
	}
	for _, k := range []int{1, 2} {
		for rep := 0; rep < 6; rep++ {
			out = append(out, c17CancelQueued(k, true, rep))
		}
	}
	for _, conc := range []bool{false, true} {
		for v := 0; v < 4; v++ {
			out = append(out, c17StuckKinds(conc, v))
		}
	}
	for _, n := range []int{1, 2, 3, 4, 5, 8, 9, 16, 17} {
		for v := 0; v < 2; v++ {
			out = append(out, c17HangingDials(n, v))
		}
	}
	out = append(out, forged...)
	out = append(out, bases...)
	for bi, sc := range bases {
		for pos := 0; pos <= len(sc.Steps); pos++ {
			if !thorough() && len(sc.Steps) > 30 && (pos+bi)%3 != 0 {
				continue // quick tier: a third of the positions of the long scenarios
			}
			out = append(out, c17CancelAt(sc, pos))
		}
	}
	for v := 0; v < 12; v++ {
		out = append(out, c17Deaf(v))
	}
	// the schedule is the machine's: each combination is run several times
	reps := 6
	if thorough() {
		reps = 30
	}
	for _, what := range []string{"failread", "failwrite", "dialfail", "dialok", "traffic", "two-failreads"} {
		for _, inLoop := range []bool{false, true} {
			for v := 0; v < reps; v++ {
				out = append(out, c17Concurrent(what, inLoop, v))
			}
		}
	}
	// seeded walks with faults, forged sources and cancellation
	r := newRand(1700)
	nw := 150
	if thorough() {
		nw = 2000
	}
	for i := 0; i < nw; i++ {
		out = append(out, pxRandomWalk(r, 8+r.Intn(16), true))
	}
	return out
}

func TestC17(t *testing.T) {
	var jobs []func(idx int, em *Emitter)
	for _, sc := range c17Scenarios() {
		sc := sc
		kind := "proxy"
		has := func(tag string) bool {
			for _, tg := range sc.Tags {
				if tg == tag {
					return true
				}
			}
			return false
		}
		switch {
		case has("serve-loop-held=true"):
			kind = "proxy-held" // a slow callback: compared with the held-loop model (Model/ProxyHeld.v)
		case has("held-loop"):
			// both directions failing in one step, order left to the scheduler: one of the model's outcomes over all
			// orders of internal rules and of the step's actions
		case has("concurrent-cancel") && has("cancel-in-forwarding-loop=false") &&
			(has("with=failread") || has("with=failwrite") || has("with=dialfail") || has("with=two-failreads")):
			// a fault and the cancellation in one step: likewise
		case has("concurrent-cancel"):
			// cancellation from inside the forwarding loop, or together with traffic / an answered dial: the
			// exploration with the cancellation pending is unreduced and too wide (minutes per case): predicates only
			kind = "proxy-loose"
		}
		jobs = append(jobs, func(idx int, em *Emitter) { runPxScenario(t, idx, kind, sc, em) })
	}
	// free-running stress with forged sources, judged by the source predicate
	for i := 0; i < proxyFreeCount(); i++ {
		i := i
		jobs = append(jobs, func(idx int, em *Emitter) { runProxyFree(t, idx, 100+i, em) })
	}
	pxRunJobs(t, "TestC17", jobs)
}

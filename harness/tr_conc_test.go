//go:build tr

package verifharness

import (
	"context"
	"fmt"
	"sync"

	"github.com/avos-io/goat/gen/goatorepo"
	"google.golang.org/protobuf/proto"
)

// Concurrent writers on ONE connection (C19: "an envelope written on one end is read on the other end equal to what
// was written, in write order"; concurrent Write is API-permitted on every shipped transport - the client
// multiplexer calls it from one goroutine per unary call / stream). Free-running, not lock-step: k goroutines write
// m self-describing envelopes each, the reader checks that everything it reads decodes, is self-consistent (header
// and body are functions of the id), arrives exactly once and in the order of its writer.

const trConcMarker = "/verif.rig/marker"

// selfEnv is envelope n of writer w: everything in it is derived from its id.
func selfEnv(w, n int) *Rpc {
	id := uint64(w)*1_000_000 + uint64(n)
	size := int((id * 2654435761) % 1500)
	if n%37 == 5 {
		size = 20000 + int((id*40503)%40000) // some large ones, still below 64 KiB
	}
	return &Rpc{Id: id, Header: &goatorepo.RequestHeader{Method: fmt.Sprintf("/w%d/n%d", w, n), Source: "A", Destination: "srv",
		Headers: []*goatorepo.KeyValue{{Key: "seq", Value: fmt.Sprint(id)}}},
		Body: &goatorepo.Body{Data: lcgBody(id%65521+1, size)}}
}

type concResult struct {
	Problems []string `json:"problems"`
	Read     int      `json:"read"`
	Written  int      `json:"written"`
}

// concWriters runs k writers x m envelopes through write and reads until the marker that is written after all
// writers have finished. It returns what is wrong (at most a handful of lines).
func concWriters(k, m int, write func(context.Context, *Rpc) error, read func(context.Context) (*Rpc, error)) concResult {
	var mu sync.Mutex
	res := concResult{}
	note := func(format string, args ...any) {
		mu.Lock()
		if len(res.Problems) < 6 {
			res.Problems = append(res.Problems, fmt.Sprintf(format, args...))
		}
		mu.Unlock()
	}
	readerDone := make(chan struct{})
	go func() {
		defer close(readerDone)
		next := make([]int, k)
		seen := map[uint64]bool{}
		// aliasing: an envelope a Read has returned belongs to the caller and must not CHANGE afterwards (a consumer may
		// still hold it, queued, while the next frames are read): the last 8 returned pointers are kept together with a
		// deep copy taken at Read time and compared after every further Read
		type held struct{ p, copy *Rpc }
		var ring []held
		for {
			x, err := read(context.Background())
			for _, h := range ring {
				if !proto.Equal(h.p, h.copy) {
					note("an envelope returned by an earlier Read (id %d) changed after a later Read: it is now id %d", h.copy.GetId(), h.p.GetId())
					ring = nil
					break
				}
			}
			if err == nil && x != nil {
				ring = append(ring, held{x, proto.Clone(x).(*Rpc)})
				if len(ring) > 8 {
					ring = ring[1:]
				}
			}
			if err != nil {
				note("Read failed after %d envelopes: %v", res.Read, err)
				if res.Read > k*m+64 {
					return
				}
				if isConnErr(err) {
					return
				}
				res.Read++ // an undecodable frame: counted, the stream goes on
				continue
			}
			if x.GetHeader().GetMethod() == trConcMarker {
				for w := 0; w < k; w++ {
					if next[w] != m {
						note("writer %d: %d of %d envelopes arrived", w, next[w], m)
					}
				}
				return
			}
			res.Read++
			w, n := int(x.GetId()/1_000_000), int(x.GetId()%1_000_000)
			if w >= k || n >= m || !proto.Equal(x, selfEnv(w, n)) {
				note("envelope id=%d method=%q body=%d bytes is not what any writer wrote", x.GetId(), x.GetHeader().GetMethod(), len(x.GetBody().GetData()))
				continue
			}
			if seen[x.GetId()] {
				note("envelope %d/%d arrived twice", w, n)
				continue
			}
			seen[x.GetId()] = true
			if n != next[w] {
				note("writer %d: envelope %d arrived where %d was due", w, n, next[w])
			}
			if n >= next[w] {
				next[w] = n + 1
			}
		}
	}()
	var wg sync.WaitGroup
	for w := 0; w < k; w++ {
		wg.Add(1)
		go func(w int) {
			defer wg.Done()
			for n := 0; n < m; n++ {
				if err := write(context.Background(), selfEnv(w, n)); err != nil {
					note("writer %d: Write %d failed: %v", w, n, err)
					return
				}
				mu.Lock()
				res.Written++
				mu.Unlock()
			}
		}(w)
	}
	wg.Wait()
	if err := write(context.Background(), &Rpc{Id: 1<<63 - 1, Header: &goatorepo.RequestHeader{Method: trConcMarker, Source: "A"}}); err != nil {
		note("Write of the marker failed: %v", err)
	}
	<-readerDone // if even the marker is lost the rig's timeout speaks
	return res
}

// isConnErr: the connection is gone (as opposed to one message that is not an envelope)
func isConnErr(err error) bool {
	return classifyWsErr(err) == "WsConn"
}

func emitConc(em *Emitter, idx int, transport string, k, m int, res concResult) {
	em.Emit(Rec{Idx: idx, Kind: "concurrent-writers", Desc: map[string]any{"transport": transport, "writers": k, "each": m},
		Obs: res, Coq: fmt.Sprintf("CAssert 5 %s", coqBool(len(res.Problems) == 0)),
		Tags: []string{transport + ":concurrent-writers", fmt.Sprintf("writers:%d", k)}})
}

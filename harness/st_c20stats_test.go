//go:build st

package verifharness

import (
	"context"
	"fmt"
	"io"
	"strings"
	"testing"
	"testing/synctest"
	"time"

	goat "github.com/avos-io/goat"
	"github.com/avos-io/goat/gen/goatorepo"
	"google.golang.org/grpc"
	"google.golang.org/protobuf/types/known/wrapperspb"
)

func anyWanted(idx, n int) bool {
	for i := 0; i < n; i++ {
		if want(idx + i) {
			return true
		}
	}
	return false
}

var badMeta = []*goatorepo.KeyValue{{Key: "x-bin", Value: "!!!not base64!!!"}}

// ---- role: client, unary (real Invoke against a scripted peer) ----
type cuScenario struct {
	name string
	exit string // Coq term of the cu_exit
	sig  string
	run  func(t *testing.T, ep *Endpoint, cc *goat.ClientConn) error
}

func invokeWith(ep *Endpoint, cc *goat.ClientConn, ctx context.Context, args any, reply func(id uint64) *Rpc, during func()) error {
	var out wrapperspb.BytesValue
	done := make(chan error, 1)
	go func() { done <- cc.Invoke(ctx, "/verif.Echo/Unary", args, &out) }()
	synctest.Wait()
	if reply != nil {
		if w := ep.WrittenCopy(); len(w) > 0 {
			ep.Deliver(reply(w[len(w)-1].Id))
		}
	}
	if during != nil {
		during()
	}
	synctest.Wait()
	select {
	case err := <-done:
		return err
	default:
		return fmt.Errorf("PENDING")
	}
}

func cuScenarios() []cuScenario {
	okBody, _ := protoMarshal(bv([]byte("reply")))
	h := func() *goatorepo.RequestHeader { return hdr("/verif.Echo/Unary", "dst", "src") }
	bg := context.Background()
	return []cuScenario{
		{"ok", "CU_ok", "", func(t *testing.T, ep *Endpoint, cc *goat.ClientConn) error {
			return invokeWith(ep, cc, bg, bv([]byte("q")), func(id uint64) *Rpc {
				return &Rpc{Id: id, Header: h(), Body: &goatorepo.Body{Data: okBody}, Trailer: &goatorepo.Trailer{}}
			}, nil)
		}},
		{"ok-zero-byte-body", "CU_ok", "", func(t *testing.T, ep *Endpoint, cc *goat.ClientConn) error {
			return invokeWith(ep, cc, bg, bv(nil), func(id uint64) *Rpc {
				return &Rpc{Id: id, Header: h(), Body: &goatorepo.Body{}, Trailer: &goatorepo.Trailer{}}
			}, nil)
		}},
		{"ok-explicit-status", "CU_ok", "", func(t *testing.T, ep *Endpoint, cc *goat.ClientConn) error {
			return invokeWith(ep, cc, bg, bv([]byte("q")), func(id uint64) *Rpc {
				return &Rpc{Id: id, Header: h(), Status: &goatorepo.ResponseStatus{Code: 0, Message: "OK"}, Body: &goatorepo.Body{Data: okBody}, Trailer: &goatorepo.Trailer{}}
			}, nil)
		}},
		{"status-error", "CU_status", "", func(t *testing.T, ep *Endpoint, cc *goat.ClientConn) error {
			return invokeWith(ep, cc, bg, bv([]byte("q")), func(id uint64) *Rpc {
				return &Rpc{Id: id, Header: h(), Status: &goatorepo.ResponseStatus{Code: 5, Message: "nf"}, Trailer: &goatorepo.Trailer{}}
			}, nil)
		}},
		{"malformed-reply", "CU_malformed", "", func(t *testing.T, ep *Endpoint, cc *goat.ClientConn) error {
			return invokeWith(ep, cc, bg, bv([]byte("q")), func(id uint64) *Rpc {
				return &Rpc{Id: id, Header: h(), Trailer: &goatorepo.Trailer{}}
			}, nil)
		}},
		{"server-reset", "CU_malformed", "", func(t *testing.T, ep *Endpoint, cc *goat.ClientConn) error {
			return invokeWith(ep, cc, bg, bv([]byte("q")), func(id uint64) *Rpc {
				return &Rpc{Id: id, Header: h(), Reset_: &goatorepo.Reset{Type: "RST_STREAM"}, Trailer: &goatorepo.Trailer{}}
			}, nil)
		}},
		{"undecodable-reply-metadata", "CU_ok", "", func(t *testing.T, ep *Endpoint, cc *goat.ClientConn) error {
			// a unary reply's metadata is only decoded for the InHeader event: the error is dropped
			return invokeWith(ep, cc, bg, bv([]byte("q")), func(id uint64) *Rpc {
				hh := h()
				hh.Headers = badMeta
				return &Rpc{Id: id, Header: hh, Body: &goatorepo.Body{Data: okBody}, Trailer: &goatorepo.Trailer{}}
			}, nil)
		}},
		{"undecodable-body", "CU_unmarshal", "", func(t *testing.T, ep *Endpoint, cc *goat.ClientConn) error {
			return invokeWith(ep, cc, bg, bv([]byte("q")), func(id uint64) *Rpc {
				return &Rpc{Id: id, Header: h(), Body: &goatorepo.Body{Data: []byte{0xff, 0xff, 0xff}}, Trailer: &goatorepo.Trailer{}}
			}, nil)
		}},
		{"marshal-error", "(CU_marshal RErr)", "", func(t *testing.T, ep *Endpoint, cc *goat.ClientConn) error {
			return invokeWith(ep, cc, bg, "not a protobuf message", nil, nil)
		}},
		{"failed-open", "(CU_early RErr)", "", func(t *testing.T, ep *Endpoint, cc *goat.ClientConn) error {
			ep.FailRead(errInjected)
			synctest.Wait()
			return invokeWith(ep, cc, bg, bv([]byte("q")), nil, nil)
		}},
		{"failed-open-eof", "(CU_early REof)", "" /* regression of fix 9827a73 */, func(t *testing.T, ep *Endpoint, cc *goat.ClientConn) error {
			ep.FailRead(io.EOF) // the peer closed the connection
			synctest.Wait()
			return invokeWith(ep, cc, bg, bv([]byte("q")), nil, nil)
		}},
		{"write-failure", "(CU_early RErr)", "", func(t *testing.T, ep *Endpoint, cc *goat.ClientConn) error {
			ep.FailWrites(errInjected)
			return invokeWith(ep, cc, bg, bv([]byte("q")), nil, nil)
		}},
		{"write-failure-eof", "(CU_early REof)", "" /* regression of fix 9827a73 */, func(t *testing.T, ep *Endpoint, cc *goat.ClientConn) error {
			ep.FailWrites(io.EOF)
			return invokeWith(ep, cc, bg, bv([]byte("q")), nil, nil)
		}},
		{"cancel", "(CU_early RErr)", "", func(t *testing.T, ep *Endpoint, cc *goat.ClientConn) error {
			ctx, cancel := context.WithCancel(bg)
			defer cancel()
			return invokeWith(ep, cc, ctx, bv([]byte("q")), nil, cancel)
		}},
		{"deadline", "(CU_early RErr)", "", func(t *testing.T, ep *Endpoint, cc *goat.ClientConn) error {
			ctx, cancel := context.WithTimeout(bg, time.Second)
			defer cancel()
			return invokeWith(ep, cc, ctx, bv([]byte("q")), nil, func() { time.Sleep(2 * time.Second) })
		}},
		{"read-failure", "(CU_early RErr)", "", func(t *testing.T, ep *Endpoint, cc *goat.ClientConn) error {
			return invokeWith(ep, cc, bg, bv([]byte("q")), nil, func() { ep.FailRead(errInjected) })
		}},
	}
}

// ---- role: client, stream (real stream against a scripted peer) ----
var csOpNames = []string{"CSendOk", "CSendFail", "CCloseSend", "PMsg", "PMsgRecv", "PBadMeta", "PMsgRecvEmpty", "PTrailerOk", "PTrailerErr", "PReset", "PFail", "Cancel", "Deadline", "CancelWriteFail"}

// runs one op sequence; returns the Coq op list, whether the stream finished and with io.EOF
func runCsOps(t *testing.T, nh int, ops []int) (hs []*tagStats, coqOps []string, finished, succ bool) {
	hs = newStatsSet(nh)
	bubble(t, func(t *testing.T) {
		ep := NewEndpoint("c")
		cc := goat.NewClientConn(ep, "src", "dst", dialStats(hs)...)
		ctx, cancel := context.WithCancel(context.Background())
		dctx, dcancel := context.WithTimeout(ctx, time.Hour)
		defer dcancel()
		cs, err := cc.NewStream(dctx, descBidi, "/verif.Echo/Bidi")
		if err != nil {
			t.Fatal(err)
		}
		id := ep.WrittenCopy()[0].Id
		h := func() *goatorepo.RequestHeader { return hdr("/verif.Echo/Bidi", "dst", "src") }
		body, _ := protoMarshal(bv([]byte("m")))
		for _, o := range ops {
			switch csOpNames[o] {
			case "CSendOk":
				cs.SendMsg(bv([]byte("x")))
				coqOps = append(coqOps, "CSendOk")
			case "CSendFail":
				ep.FailWrites(errInjected)
				cs.SendMsg(bv([]byte("x")))
				ep.FailWrites(nil)
				coqOps = append(coqOps, "CSendFail")
			case "CCloseSend":
				cs.CloseSend()
				coqOps = append(coqOps, "CCloseSend")
			case "PMsg":
				ep.Deliver(&Rpc{Id: id, Header: h()})
				coqOps = append(coqOps, "PMsg")
			case "PMsgRecv":
				ep.Deliver(&Rpc{Id: id, Header: h(), Body: &goatorepo.Body{Data: body}})
				synctest.Wait()
				res := make(chan error, 1)
				go func() { var m wrapperspb.BytesValue; res <- cs.RecvMsg(&m) }()
				synctest.Wait()
				coqOps = append(coqOps, "PMsg", "CRecvOk")
			case "PMsgRecvEmpty": // a zero-byte message is a message
				ep.Deliver(&Rpc{Id: id, Header: h(), Body: &goatorepo.Body{}})
				synctest.Wait()
				res := make(chan error, 1)
				go func() { var m wrapperspb.BytesValue; res <- cs.RecvMsg(&m) }()
				synctest.Wait()
				coqOps = append(coqOps, "PMsg", "CRecvOk")
			case "CancelWriteFail": // the reset written by the teardown fails: still exactly one End
				ep.FailWrites(errInjected)
				cancel()
				synctest.Wait()
				ep.FailWrites(nil)
				coqOps = append(coqOps, "PFail")
			case "PBadMeta":
				hh := h()
				hh.Headers = badMeta
				ep.Deliver(&Rpc{Id: id, Header: hh})
				coqOps = append(coqOps, "PBadMeta")
			case "PTrailerOk":
				ep.Deliver(&Rpc{Id: id, Header: h(), Status: &goatorepo.ResponseStatus{Code: 0, Message: "OK"}, Trailer: &goatorepo.Trailer{}})
				coqOps = append(coqOps, "(PTrailer true)")
			case "PTrailerErr":
				ep.Deliver(&Rpc{Id: id, Header: h(), Status: &goatorepo.ResponseStatus{Code: 9, Message: "no"}, Trailer: &goatorepo.Trailer{}})
				coqOps = append(coqOps, "(PTrailer false)")
			case "PReset":
				ep.Deliver(&Rpc{Id: id, Header: h(), Reset_: &goatorepo.Reset{Type: "RST_STREAM"}, Trailer: &goatorepo.Trailer{}})
				coqOps = append(coqOps, "PReset")
			case "PFail":
				ep.FailRead(errInjected)
				coqOps = append(coqOps, "PFail")
			case "Cancel":
				cancel()
				coqOps = append(coqOps, "PFail")
			case "Deadline":
				time.Sleep(2 * time.Hour)
				coqOps = append(coqOps, "PFail")
			}
			synctest.Wait()
		}
		// did the stream end, and how? (RecvMsg on an ended stream emits nothing)
		res := make(chan error, 1)
		go func() { var m wrapperspb.BytesValue; res <- cs.RecvMsg(&m) }()
		synctest.Wait()
		select {
		case err := <-res:
			finished, succ = true, err == io.EOF
		default:
		}
		// snapshot before the cleanup adds its own End
		for _, h := range hs {
			h.mu.Lock()
			for k, v := range h.rpcs {
				h.rpcs[k] = append([]string(nil), v...)
			}
			h.mu.Unlock()
		}
		snap := make([]map[int64][]string, len(hs))
		for i, h := range hs {
			h.mu.Lock()
			snap[i] = map[int64][]string{}
			for k, v := range h.rpcs {
				snap[i][k] = append([]string(nil), v...)
			}
			h.mu.Unlock()
		}
		cancel()
		synctest.Wait()
		ep.FailRead(io.EOF)
		synctest.Wait()
		for i, h := range hs {
			h.mu.Lock()
			h.rpcs = snap[i]
			h.mu.Unlock()
		}
	})
	return
}

// ---- role: server (real Serve against a scripted client) ----
var ssOpNames = []string{"SRecvOk", "SRecvEOF", "SSetHeader", "SSendHeader", "SSendMsg"}

func TestC20Stats(t *testing.T) {
	em := NewEmitter()
	defer em.Close()
	r := newRand(2020)
	idx := 0

	// ---- client unary: every exit x 1..3 handlers
	for _, sc := range cuScenarios() {
		for nh := 1; nh <= 3; nh++ {
			if !anyWanted(idx, nh) {
				idx += nh
				continue
			}
			stBegin(em, idx)
			first := idx
			hs := newStatsSet(nh)
			var err error
			bubble(t, func(t *testing.T) {
				ep := NewEndpoint("c")
				cc := goat.NewClientConn(ep, "src", "dst", dialStats(hs)...)
				err = sc.run(t, ep, cc)
				ep.FailRead(io.EOF)
				synctest.Wait()
			})
			tags := []string{"role=client-unary", "exit=" + sc.name}
			if sc.sig != "" {
				tags = append(tags, "sig:"+sc.sig)
			}
			emitStats(em, &idx, "stats-client-unary", map[string]any{"scenario": sc.name, "err": fmt.Sprint(err)}, tags,
				"(XCU "+sc.exit+")", hs, 1, err == nil || !strings.Contains(err.Error(), "PENDING"), err == nil)
			stEnd(em, first)
		}
	}

	// ---- client stream: failed opens
	for _, fo := range []string{"refused", "refused-eof", "write-fail"} {
		for nh := 1; nh <= 3; nh++ {
			if !anyWanted(idx, nh) {
				idx += nh
				continue
			}
			stBegin(em, idx)
			first := idx
			hs := newStatsSet(nh)
			var err error
			bubble(t, func(t *testing.T) {
				ep := NewEndpoint("c")
				cc := goat.NewClientConn(ep, "src", "dst", dialStats(hs)...)
				switch fo {
				case "refused":
					ep.FailRead(errInjected)
				case "refused-eof":
					ep.FailRead(io.EOF)
				case "write-fail":
					ep.FailWrites(errInjected)
				}
				synctest.Wait()
				_, err = cc.NewStream(context.Background(), descBidi, "/verif.Echo/Bidi")
				synctest.Wait()
				ep.FailRead(io.EOF)
				synctest.Wait()
			})
			exit := "(XCS CSO_refused [])"
			if fo == "write-fail" {
				exit = "(XCS CSO_write_fail [])"
			}
			emitStats(em, &idx, "stats-client-stream-open", map[string]any{"open": fo, "err": fmt.Sprint(err)},
				[]string{"role=client-stream", "exit=failed-open:" + fo}, exit, hs, 1, true, err == nil)
			stEnd(em, first)
		}
	}

	// ---- client stream: all op sequences up to length 3 (thorough 4) + seeded longer ones
	var seqs [][]int
	var gen func(prefix []int, depth int)
	gen = func(prefix []int, depth int) {
		seqs = append(seqs, append([]int(nil), prefix...))
		if depth == 0 {
			return
		}
		for o := range csOpNames {
			gen(append(prefix, o), depth-1)
		}
	}
	maxLen, nrand := 3, 150
	if thorough() {
		nrand = 1500 // all sequences of length 4 (28561) exceed what the cases files can hold; seeded longer ones instead
	}
	gen(nil, maxLen)
	for i := 0; i < nrand; i++ {
		l := maxLen + 1 + r.Intn(5)
		s := make([]int, l)
		for j := range s {
			s[j] = r.Intn(len(csOpNames))
		}
		seqs = append(seqs, s)
	}
	for si, ops := range seqs {
		nh := 1 + si%3
		if !anyWanted(idx, nh) {
			idx += nh
			continue
		}
		stBegin(em, idx)
		first := idx
		hs, coqOps, finished, succ := runCsOps(t, nh, ops)
		var names []string
		for _, o := range ops {
			names = append(names, csOpNames[o])
		}
		end := "unfinished"
		if finished {
			end = fmt.Sprintf("finished-eof=%v", succ)
		}
		emitStats(em, &idx, "stats-client-stream", map[string]any{"ops": names},
			[]string{"role=client-stream", fmt.Sprintf("cs:oplen=%d", min(len(ops), 5)), "cs:" + end},
			"(XCS CSO_ok "+coqList(coqOps)+")", hs, 1, finished, succ)
		stEnd(em, first)
	}

	// ---- server unary: real Serve, scripted client
	okBody, _ := protoMarshal(bv([]byte("q")))
	type suCase struct {
		name, exit, sig string
		body            *goatorepo.Body
		bad             bool
		herr            *hkind
	}
	suCases := []suCase{
		{"ok", "(SU_run DecOk RNil)", "", &goatorepo.Body{Data: okBody}, false, nil},
		{"handler-error", "(SU_run DecOk RErr)", "", &goatorepo.Body{Data: okBody}, false, &hkind{kind: "status", code: 5, msg: "nf"}},
		{"handler-plain-error", "(SU_run DecOk RErr)", "", &goatorepo.Body{Data: okBody}, false, &hkind{kind: "plain", msg: "boom"}},
		{"handler-canceled", "(SU_run DecOk RErr)", "", &goatorepo.Body{Data: okBody}, false, &hkind{kind: "canceled"}},
		{"handler-eof", "(SU_run DecOk REof)", "server-end-eof-nil", &goatorepo.Body{Data: okBody}, false, &hkind{kind: "eof"}},
		{"handler-wrapped-eof", "(SU_run DecOk REof)", "server-end-eof-nil", &goatorepo.Body{Data: okBody}, false, &hkind{kind: "eof", wrap: true}},
		{"handler-wrapped-canceled", "(SU_run DecOk RErr)", "", &goatorepo.Body{Data: okBody}, false, &hkind{kind: "canceled", wrap: true}},
		{"handler-wrapped-deadline", "(SU_run DecOk RErr)", "", &goatorepo.Body{Data: okBody}, false, &hkind{kind: "deadline", wrap: true}},
		{"handler-ok-coded-error", "(SU_run DecOk RErr)", "", &goatorepo.Body{Data: okBody}, false, &hkind{kind: "okstatus", msg: "m"}},
		{"empty-request", "(SU_run DecEmpty RNil)", "", &goatorepo.Body{}, false, nil},
		{"no-body", "(SU_run DecEmpty RNil)", "", nil, false, nil},
		{"empty-request-error", "(SU_run DecEmpty RErr)", "", &goatorepo.Body{}, false, &hkind{kind: "status", code: 3, msg: "bad"}},
		{"undecodable-request", "(SU_run DecErr RErr)", "", &goatorepo.Body{Data: []byte{0xff, 0xff, 0xff}}, false, nil},
		{"undecodable-metadata", "SU_bad_metadata", "", &goatorepo.Body{Data: okBody}, true, nil},
	}
	for _, sc := range suCases {
		for nh := 1; nh <= 3; nh++ {
			if !anyWanted(idx, nh+1) {
				idx += nh + 1
				continue
			}
			stBegin(em, idx)
			first := idx
			hs := newStatsSet(nh)
			bubble(t, func(t *testing.T) {
				ep := NewEndpoint("s")
				impl := &echoImpl{unary: func(ctx context.Context, req []byte) ([]byte, bool, error) { return req, true, sc.herr.err() }}
				srv := newEchoServer("dst", impl, serverStats(hs)...)
				ret := make(chan error, 1)
				go func() { ret <- srv.Serve(context.Background(), ep) }()
				hh := hdr("/verif.Echo/Unary", "src", "dst")
				if sc.bad {
					hh.Headers = badMeta
				}
				ep.Deliver(&Rpc{Id: 1, Header: hh, Body: sc.body})
				synctest.Wait()
				ep.FailRead(io.EOF)
				synctest.Wait()
				<-ret
			})
			tags := []string{"role=server-unary", "exit=" + sc.name}
			if sc.sig != "" {
				tags = append(tags, "sig:"+sc.sig)
			}
			succ := sc.herr == nil && !strings.Contains(sc.exit, "DecErr")
			emitStats(em, &idx, "stats-server-unary", map[string]any{"scenario": sc.name}, tags, "(XSU "+sc.exit+")", hs, 1, true, succ)
			// the served connection, as seen by handler 0
			em.Emit(Rec{Idx: idx, Kind: "conn-server", Desc: map[string]any{"scenario": sc.name, "nh": nh}, Tags: []string{"role=conn-server", "serve-exit=read-error"},
				Coq: fmt.Sprintf("CConnS SV_read_error %s", coqList(hs[nh-1].connEvents()))})
			idx++
			stEnd(em, first)
		}
	}

	// ---- server stream: all handler programs up to length 3 x handler results
	var sseqs [][]int
	var sgen func(prefix []int, depth int)
	sgen = func(prefix []int, depth int) {
		sseqs = append(sseqs, append([]int(nil), prefix...))
		if depth == 0 {
			return
		}
		for o := range ssOpNames {
			sgen(append(prefix, o), depth-1)
		}
	}
	smax := 3
	if thorough() {
		smax = 4
	}
	sgen(nil, smax)
	results := []struct {
		coq, sig string
		k        *hkind
	}{{"RNil", "", nil}, {"RErr", "", &hkind{kind: "status", code: 9, msg: "no"}}, {"REof", "server-end-eof-nil", &hkind{kind: "eof"}}}
	for si, ops := range sseqs {
		res := results[si%3]
		if len(ops) <= 1 {
			res = results[0]
		}
		variants := []int{si % 3}
		if len(ops) <= 1 {
			variants = []int{0, 1, 2}
		}
		for _, v := range variants {
			res = results[v]
			nh := 1 + (si+v)%3
			if !anyWanted(idx, nh) {
				idx += nh
				continue
			}
			stBegin(em, idx)
			first := idx
			hs := newStatsSet(nh)
			var coqOps, names []string
			bubble(t, func(t *testing.T) {
				ep := NewEndpoint("s")
				cmds := make(chan string)
				acks := make(chan struct{})
				impl := &echoImpl{stream: func(kind string, ss grpc.ServerStream) error {
					for c := range cmds {
						switch c {
						case "recv":
							var m wrapperspb.BytesValue
							ss.RecvMsg(&m)
						case "setheader":
							ss.SetHeader(tokenMD(1))
						case "sendheader":
							ss.SendHeader(tokenMD(2))
						case "send":
							ss.SendMsg(bv([]byte("r")))
						}
						acks <- struct{}{}
					}
					return res.k.err()
				}}
				srv := newEchoServer("dst", impl, serverStats(hs)...)
				ret := make(chan error, 1)
				go func() { ret <- srv.Serve(context.Background(), ep) }()
				ep.Deliver(&Rpc{Id: 1, Header: hdr("/verif.Echo/Bidi", "src", "dst")})
				synctest.Wait()
				hsent := false
				closed := false
				for _, o := range ops {
					names = append(names, ssOpNames[o])
					switch ssOpNames[o] {
					case "SRecvOk":
						if closed {
							// after the client's trailer nothing more arrives: the handler would block; skip
							coqOps = append(coqOps, "SSetHeader")
							cmds <- "setheader"
							<-acks
							break
						}
						reqBody := &goatorepo.Body{Data: okBody}
						if (si+len(coqOps))%2 == 1 {
							reqBody = &goatorepo.Body{} // a zero-byte message
						}
						ep.Deliver(&Rpc{Id: 1, Header: hdr("/verif.Echo/Bidi", "src", "dst"), Body: reqBody})
						synctest.Wait()
						cmds <- "recv"
						<-acks
						coqOps = append(coqOps, "SRecvOk")
					case "SRecvEOF":
						if !closed {
							ep.Deliver(&Rpc{Id: 1, Header: hdr("/verif.Echo/Bidi", "src", "dst"),
								Status: &goatorepo.ResponseStatus{Code: 0, Message: "OK"}, Trailer: &goatorepo.Trailer{}})
							synctest.Wait()
							closed = true
							cmds <- "recv"
							<-acks
							coqOps = append(coqOps, "SRecvOther")
						} else {
							coqOps = append(coqOps, "SSetHeader")
							cmds <- "setheader"
							<-acks
						}
					case "SSetHeader":
						cmds <- "setheader"
						<-acks
						coqOps = append(coqOps, "SSetHeader")
					case "SSendHeader":
						cmds <- "sendheader"
						<-acks
						coqOps = append(coqOps, "(SSendHeader true)")
						hsent = true
					case "SSendMsg":
						cmds <- "send"
						<-acks
						coqOps = append(coqOps, "SSendMsg")
						hsent = true
					}
					synctest.Wait()
				}
				_ = hsent
				if si%5 == 4 {
					ep.FailWrites(errInjected) // the trailer's write fails: OutTrailer and End are emitted all the same
				}
				close(cmds)
				synctest.Wait()
				ep.FailRead(io.EOF)
				synctest.Wait()
				<-ret
			})
			tags := []string{"role=server-stream", fmt.Sprintf("ss:oplen=%d", len(ops)), "ss:result=" + res.coq}
			if res.sig != "" {
				tags = append(tags, "sig:"+res.sig)
			}
			emitStats(em, &idx, "stats-server-stream", map[string]any{"ops": names, "result": res.coq}, tags,
				fmt.Sprintf("(XSS (SS_run %s %s))", coqList(coqOps), res.coq), hs, 1, true, res.k == nil)
			stEnd(em, first)
		}
	}

	// ---- server stream refused: undecodable metadata on the opening envelope
	for nh := 1; nh <= 3; nh++ {
		if !anyWanted(idx, nh) {
			idx += nh
			continue
		}
		stBegin(em, idx)
		first := idx
		hs := newStatsSet(nh)
		bubble(t, func(t *testing.T) {
			ep := NewEndpoint("s")
			srv := newEchoServer("dst", &echoImpl{stream: func(kind string, ss grpc.ServerStream) error { return nil }}, serverStats(hs)...)
			ret := make(chan error, 1)
			go func() { ret <- srv.Serve(context.Background(), ep) }()
			hh := hdr("/verif.Echo/Bidi", "src", "dst")
			hh.Headers = badMeta
			ep.Deliver(&Rpc{Id: 1, Header: hh})
			synctest.Wait()
			ep.FailRead(io.EOF)
			synctest.Wait()
			<-ret
		})
		emitStats(em, &idx, "stats-server-stream", map[string]any{"scenario": "undecodable-metadata"},
			[]string{"role=server-stream", "exit=undecodable-metadata"}, "(XSS SS_bad_metadata)", hs, 1, true, false)
		stEnd(em, first)
	}

	// ---- connections: Serve ended by its context; client connections with 0..2 Close calls
	for nh := 1; nh <= 3; nh++ {
		if want(idx) {
			hs := newStatsSet(nh)
			bubble(t, func(t *testing.T) {
				ep := NewEndpoint("s")
				srv := newEchoServer("dst", &echoImpl{}, serverStats(hs)...)
				ret := make(chan error, 1)
				go func() { ret <- srv.Serve(context.Background(), ep) }()
				synctest.Wait()
				srv.Stop()
				synctest.Wait()
				<-ret
			})
			em.Emit(Rec{Idx: idx, Kind: "conn-server", Desc: map[string]any{"scenario": "stop", "nh": nh}, Tags: []string{"role=conn-server", "serve-exit=ctx-done"},
				Coq: fmt.Sprintf("CConnS SV_ctx_done %s", coqList(hs[0].connEvents()))})
		}
		idx++
		for closes := 0; closes <= 2; closes++ {
			if want(idx) {
				hs := newStatsSet(nh)
				bubble(t, func(t *testing.T) {
					ep := NewEndpoint("c")
					cc := goat.NewClientConn(ep, "src", "dst", dialStats(hs)...)
					for i := 0; i < closes; i++ {
						cc.Close()
					}
					ep.FailRead(io.EOF)
					synctest.Wait()
				})
				em.Emit(Rec{Idx: idx, Kind: "conn-client", Desc: map[string]any{"closes": closes, "nh": nh}, Tags: []string{"role=conn-client"},
					Coq: fmt.Sprintf("CConnC %d%%nat %s", closes, coqList(hs[nh-1].connEvents()))})
			}
			idx++
		}
	}
}

// End to end: real client - Link - real server, both sides recording; per
// RPC kind and outcome the client's and the server's event lists must equal the
// model's lists for the exits taken.
func TestC20E2E(t *testing.T) {
	em := NewEmitter()
	defer em.Close()
	idx := 0
	type method struct {
		name string
		desc *grpc.StreamDesc
		path string
	}
	streams := []method{{"client-stream", descCStream, "/verif.Echo/CStream"}, {"server-stream", descSStream, "/verif.Echo/SStream"}, {"bidi", descBidi, "/verif.Echo/Bidi"}}
	outcomes := []string{"ok", "handler-error", "handler-eof", "cancel", "deadline", "read-failure", "failed-open", "undecodable-metadata", "server-reset"}
	for _, oc := range outcomes {
		for mi := -1; mi < len(streams); mi++ {
			if oc == "server-reset" && mi >= 0 {
				continue // a server resets only what it cannot attach to a stream: reached here by a unary call to a stream method
			}
			for nh := 1; nh <= 3; nh++ {
				if !anyWanted(idx, 2*nh) {
					idx += 2 * nh
					continue
				}
				stBegin(em, idx)
				first := idx
				ch, sh := newStatsSet(nh), newStatsSet(nh)
				wantMethod := "/verif.Echo/Unary"
				if mi >= 0 {
					wantMethod = streams[mi].path
				}
				if oc == "server-reset" {
					wantMethod = "/verif.Echo/Bidi"
				}
				for _, h := range append(append([]*tagStats(nil), ch...), sh...) {
					h.expect = wantMethod
				}
				var cexit, sexit string
				cfin, csucc, ssucc := true, false, false
				var herr error
				switch oc {
				case "handler-error":
					herr = (&hkind{kind: "status", code: 7, msg: "denied"}).err()
				case "handler-eof":
					herr = io.EOF
				}
				bubble(t, func(t *testing.T) {
					l := NewLink(false)
					l.Auto = oc != "undecodable-metadata"
					release := make(chan struct{})
					cmds := make(chan string)
					acks := make(chan struct{})
					var recvErr error
					impl := &echoImpl{
						unary: func(ctx context.Context, req []byte) ([]byte, bool, error) {
							<-release
							return req, true, herr
						},
						stream: func(kind string, ss grpc.ServerStream) error {
							for c := range cmds {
								switch c {
								case "recv":
									var m wrapperspb.BytesValue
									recvErr = ss.RecvMsg(&m)
								case "send":
									ss.SendMsg(bv([]byte("r")))
								}
								acks <- struct{}{}
							}
							if herr == nil && recvErr != nil {
								return recvErr
							}
							return herr
						},
					}
					srv := newEchoServer("dst", impl, serverStats(sh)...)
					ret := make(chan error, 1)
					go func() { ret <- srv.Serve(context.Background(), l.S) }()
					cc := goat.NewClientConn(l.C, "src", "dst", dialStats(ch)...)
					ctx, cancel := context.WithCancel(context.Background())
					defer cancel()
					if oc == "deadline" {
						var c2 context.CancelFunc
						ctx, c2 = context.WithTimeout(ctx, time.Hour)
						defer c2()
					}
					if oc == "failed-open" {
						l.C.FailRead(errInjected)
						synctest.Wait()
					}
					tamper := func() {
						l.mu.Lock()
						for _, e := range l.c2s {
							e.Header.Headers = badMeta
						}
						l.Auto = true
						l.mu.Unlock()
						for l.StepC2S() {
						}
					}
					if mi < 0 { // ---- unary
						path := "/verif.Echo/Unary"
						if oc == "server-reset" {
							path = "/verif.Echo/Bidi"
						}
						done := make(chan error, 1)
						var out wrapperspb.BytesValue
						go func() { done <- cc.Invoke(ctx, path, bv([]byte("q")), &out) }()
						synctest.Wait()
						switch oc {
						case "ok", "handler-error", "handler-eof":
							close(release)
						case "cancel":
							cancel()
						case "deadline":
							time.Sleep(2 * time.Hour)
						case "read-failure":
							l.C.FailRead(errInjected)
						case "undecodable-metadata":
							tamper()
						}
						synctest.Wait()
						err := <-done
						csucc = err == nil
						if oc == "cancel" || oc == "deadline" || oc == "read-failure" {
							close(release) // the handler finishes on its own afterwards
							synctest.Wait()
						}
						switch oc {
						case "ok":
							cexit, sexit, ssucc = "(XCU CU_ok)", "(XSU (SU_run DecOk RNil))", true
						case "handler-error":
							cexit, sexit = "(XCU CU_status)", "(XSU (SU_run DecOk RErr))"
						case "handler-eof":
							cexit, sexit = "(XCU CU_status)", "(XSU (SU_run DecOk REof))"
						case "cancel", "deadline", "read-failure":
							cexit, sexit, ssucc = "(XCU (CU_early RErr))", "(XSU (SU_run DecOk RNil))", true
						case "failed-open":
							cexit = "(XCU (CU_early RErr))"
						case "undecodable-metadata":
							cexit, sexit = "(XCU CU_status)", "(XSU SU_bad_metadata)"
						case "server-reset":
							cexit = "(XCU CU_malformed)"
						}
					} else { // ---- streams
						m := streams[mi]
						cs, err := cc.NewStream(ctx, m.desc, m.path)
						synctest.Wait()
						if err != nil {
							cexit = "(XCS CSO_refused [])"
						} else {
							recv := func() error {
								res := make(chan error, 1)
								go func() { var mm wrapperspb.BytesValue; res <- cs.RecvMsg(&mm) }()
								synctest.Wait()
								select {
								case e := <-res:
									return e
								default:
									return fmt.Errorf("PENDING")
								}
							}
							step := func(c string) { cmds <- c; <-acks; synctest.Wait() }
							switch oc {
							case "ok", "handler-error", "handler-eof":
								cs.SendMsg(bv([]byte("m")))
								synctest.Wait()
								step("recv")
								cs.CloseSend()
								synctest.Wait()
								step("send")
								recv()
								close(cmds)
								synctest.Wait()
								e := recv()
								csucc = e == io.EOF
								tr := "(PTrailer false)"
								if oc == "ok" {
									tr = "(PTrailer true)"
								}
								cexit = "(XCS CSO_ok [CSendOk; CCloseSend; PMsg; CRecvOk; " + tr + "])"
								res := map[string]string{"ok": "RNil", "handler-error": "RErr", "handler-eof": "REof"}[oc]
								sexit, ssucc = "(XSS (SS_run [SRecvOk; SSendMsg] "+res+"))", oc == "ok"
							case "cancel", "deadline", "read-failure":
								go func() { cmds <- "recv"; <-acks; close(cmds) }() // the handler is waiting for a message
								synctest.Wait()
								switch oc {
								case "cancel":
									cancel()
								case "deadline":
									// the handler's context (GRPC-Timeout) expires at the same virtual instant as the
									// caller's: keep the server's trailer in flight so that the caller's own
									// deadline is what ends the stream at the client (otherwise a genuine race)
									l.mu.Lock()
									l.Auto = false
									l.mu.Unlock()
									time.Sleep(2 * time.Hour)
								case "read-failure":
									l.C.FailRead(errInjected)
								}
								synctest.Wait()
								recv()
								if oc == "deadline" {
									l.mu.Lock()
									l.Auto = true
									l.mu.Unlock()
									for l.StepS2C() {
									}
									for l.StepC2S() {
									}
									synctest.Wait()
								}
								cexit = "(XCS CSO_ok [PFail])"
								sexit = "(XSS (SS_run [SRecvOther] RErr))"
							case "undecodable-metadata":
								tamper()
								synctest.Wait()
								recv()
								close(cmds)
								cexit = "(XCS CSO_ok [PReset])"
								sexit = "(XSS SS_bad_metadata)"
							}
						}
					}
					synctest.Wait()
					l.C.FailRead(io.EOF)
					l.S.FailRead(io.EOF)
					synctest.Wait()
					<-ret
					select {
					case <-cmds:
					default:
						if mi >= 0 && oc == "failed-open" {
							close(cmds)
						}
					}
				})
				rpc := "unary"
				if mi >= 0 {
					rpc = streams[mi].name
				}
				tags := []string{"role=e2e", "rpc=" + rpc, "outcome=" + oc}
				ctags, stags := append([]string(nil), tags...), append([]string(nil), tags...)
				if oc == "handler-eof" {
					stags = append(stags, "sig:server-end-eof-nil")
				}
				emitStats(em, &idx, "stats-e2e-client", map[string]any{"rpc": rpc, "outcome": oc}, append(ctags, "side=client"), cexit, ch, 1, cfin, csucc)
				if sexit != "" {
					emitStats(em, &idx, "stats-e2e-server", map[string]any{"rpc": rpc, "outcome": oc}, append(stags, "side=server"), sexit, sh, 1, true, ssucc)
				} else {
					// no RPC reaches a handler: the server's stats handlers must have seen nothing
					for i, h := range sh {
						evs, stray := h.rpc(1)
						em.Emit(Rec{Idx: idx, Kind: "stats-e2e-server", Desc: map[string]any{"rpc": rpc, "outcome": oc, "h": i, "nh": nh},
							Tags: append(append([]string(nil), stags...), "side=server", "server=untouched"),
							Coq:  fmt.Sprintf("CStats (XSS SS_bad_metadata) %d %d true false %s %d", nh, i, coqList(evs), stray)})
						idx++
					}
				}
				stEnd(em, first)
			}
		}
	}
}

//go:build sv

package verifharness

// Rig B: the real goat.Server.Serve on a scripted transport (Endpoint), handler
// bodies gated by the schedule, driven lock-step inside a synctest bubble: one
// environment action, synctest.Wait, snapshot. The actions and observations are
// printed as terms of coq/Model/Server.v / coq/Check/ServerC.v.

import (
	"context"
	"net"
	"os"
	"encoding/base64"
	"errors"
	"fmt"
	"io"
	"regexp"
	"runtime"
	"sort"
	"strconv"
	"strings"
	"sync"
	"testing"
	"testing/synctest"
	"time"

	goat "github.com/avos-io/goat"
	"github.com/avos-io/goat/gen/goatorepo"
	"google.golang.org/grpc"
	"google.golang.org/grpc/codes"
	"google.golang.org/grpc/metadata"
	"google.golang.org/grpc/status"
	"google.golang.org/protobuf/proto"
	"google.golang.org/protobuf/types/known/wrapperspb"
)

// ---------------------------------------------------------------- tokens

// metadata tokens: digit d at position i (base 8) = d values "v<i>" under key "k<i>"; Join = addition
func svMdKVs(tok int64) []*goatorepo.KeyValue {
	var out []*goatorepo.KeyValue
	for i := 0; tok > 0; i, tok = i+1, tok/8 {
		for d := int64(0); d < tok%8; d++ {
			out = append(out, &goatorepo.KeyValue{Key: fmt.Sprintf("k%d", i), Value: fmt.Sprintf("v%d", i)})
		}
	}
	return out
}

func svMdMD(tok int64) metadata.MD {
	md := metadata.MD{}
	for _, kv := range svMdKVs(tok) {
		md.Append(kv.Key, kv.Value)
	}
	return md
}

func pow8(i int) int64 {
	r := int64(1)
	for ; i > 0; i-- {
		r *= 8
	}
	return r
}

func svKvTok(kvs []*goatorepo.KeyValue) int64 {
	var tok int64
	for _, kv := range kvs {
		if kv.Key == "seq" || strings.EqualFold(kv.Key, "grpc-timeout") || svOddKey(kv.Key) || strings.HasSuffix(strings.ToLower(kv.Key), "-bin") {
			continue
		}
		var i int
		if _, err := fmt.Sscanf(kv.Key, "k%d", &i); err != nil || kv.Value != fmt.Sprintf("v%d", i) || i > 12 {
			return -777
		}
		tok += pow8(i)
	}
	return tok
}

// metadata keys of the "key:<n>" header kind (FrameSpec.Hdr): one extra KeyValue with the n-th of these keys and a value
// that decodes under any reading; they are no part of the metadata token
var svOddKeys = []string{"", ":", ":path", ":authority", "-bin", "-BIN", "UPPER-Case", "x y", " lead", "trail ", "ctl\x01key", "tab\tkey", "nl\nkey",
	"n\u00f6n-ascii", "\xff\xfe", "k", "k-1", "grpc-", "grpc-status", "content-type", "user-agent", strings.Repeat("L", 65536), strings.Repeat("-", 300) + "-bin"}

func svOddKey(k string) bool {
	for _, o := range svOddKeys {
		if strings.ToLower(o) == strings.ToLower(k) {
			return true
		}
	}
	return false
}

func svMDTok(md metadata.MD) int64 {
	var tok int64
	for k, vs := range md {
		if k == "seq" || k == "grpc-timeout" || svOddKey(k) || strings.HasSuffix(k, "-bin") {
			continue
		}
		var i int
		if _, err := fmt.Sscanf(k, "k%d", &i); err != nil || i > 12 {
			return -777
		}
		for _, v := range vs {
			if v != fmt.Sprintf("v%d", i) {
				return -777
			}
			tok += pow8(i)
		}
	}
	return tok
}

var svNames = map[string]int64{"": 0, "dst": 1, "src": 2, "elsewhere": 3, "src2": 4, "c-1": 5, "c-11": 6, "c-111": 7, "c-": 8, svLongName: 9, " ": 10, "DST": 11, "Dst": 12, "dstx": 13, "ds": 14, "d": 15, "dst ": 16, " dst": 17, "dst\x00": 18, "dst/": 19, "*": 20}

// a long, non-ASCII peer name
var svLongName = strings.Repeat("пир-\u00e9\u4e16\u754c/", 40)

func svNameTok(s string) int64 {
	if t, ok := svNames[s]; ok {
		return t
	}
	return -777
}

var reMsgTok = regexp.MustCompile(`m(\d+)$`)

func svMsgTok(s string) int64 {
	switch {
	case s == "" || s == "OK":
		return 0
	case strings.Contains(s, "invalid request metadata"):
		return -3
	case strings.Contains(s, "context canceled"):
		return -1
	case strings.Contains(s, "deadline exceeded"):
		return -2
	case strings.Contains(s, "proto:") || strings.Contains(s, "cannot parse") || strings.Contains(s, "unmarshal"):
		return -4
	}
	if m := reMsgTok.FindStringSubmatch(s); m != nil {
		n, _ := strconv.ParseInt(m[1], 10, 64)
		return n
	}
	return -777
}

var svUnaryMethods = map[string]int{"Unary": 1, "Unary2": 2}
var svStreamMethods = map[string]int{"CStream": 1, "SStream": 2, "Bidi": 3}

// svMethodKind classifies a raw method string: the real parser, then the table the harness registered.
func svMethodKind(raw string) string {
	// the rig's own reading of a method string (Model/Method.v: one leading slash is optional, the LAST slash separates
	// service and method, no slash = unparsable) - not the parser under test: a parser that panics or misreads must not
	// take the rig's bookkeeping with it; C12Shape cases tie this table to the model, C12Method cases the real parser
	sm := raw
	if sm != "" && sm[0] == '/' {
		sm = sm[1:]
	}
	pos := strings.LastIndex(sm, "/")
	if pos == -1 {
		return "MBad"
	}
	svc, m := sm[:pos], sm[pos+1:]
	if svc != svcName {
		return "MUnkSvc"
	}
	if k, ok := svUnaryMethods[m]; ok {
		return fmt.Sprintf("(MUnary %d)", k)
	}
	if k, ok := svStreamMethods[m]; ok {
		return fmt.Sprintf("(MStream %d)", k)
	}
	return "MUnkMeth"
}

// ---------------------------------------------------------------- frames

type FrameSpec struct {
	Id     uint64    `json:"id"`
	Hdr    string    `json:"hdr"` // "none" | "ok:<tok>" | "bad"
	Method string    `json:"method,omitempty"`
	Src    string    `json:"src,omitempty"`
	Dst    string    `json:"dst,omitempty"`
	Status *[2]int64 `json:"status,omitempty"`
	Body   *int64    `json:"body,omitempty"`
	Trl    string    `json:"trl,omitempty"` // "" | "none" | "ok:<tok>" | "bad"
	Rst    string    `json:"rst,omitempty"` // "" | "rst" | "other" (a Reset whose type is not RST_STREAM)
	// GRPC-Timeout header value (e.g. "1S"); request deadlines are outside Model/Server.v: only in spec-only cases
	Timeout string `json:"timeout,omitempty"`
}

func (f *FrameSpec) hasHdr() bool { return f.Hdr != "none" && f.Hdr != "" }

func svMdvCoq(s string) string {
	switch {
	case s == "none" || s == "":
		return "None"
	case s == "bad":
		return "(Some MdBad)"
	case strings.HasPrefix(s, "key:"):
		// an odd metadata KEY (empty, pseudo-header, "-bin" alone, control characters, 64 KiB ...) with a harmless value,
		// next to ordinary metadata with token <t> ("key:<n>:<t>"): the metadata decodes, the key is not part of the token
		var n, t int64
		fmt.Sscanf(s, "key:%d:%d", &n, &t)
		return fmt.Sprintf("(Some (MdOk %s))", coqZ(t))
	case strings.HasPrefix(s, "bin:") || strings.HasPrefix(s, "BIN:"):
		// a "-bin" metadata value: decodable iff it is padded URL-safe base64 (encoding/base64, the harness's own call)
		if _, err := base64.URLEncoding.DecodeString(s[4:]); err != nil {
			return "(Some MdBad)"
		}
		return "(Some (MdOk 0))"
	}
	var n int64
	fmt.Sscanf(s, "ok:%d", &n)
	return fmt.Sprintf("(Some (MdOk %s))", coqZ(n))
}

func (f *FrameSpec) coq() string {
	st := "None"
	if f.Status != nil {
		st = fmt.Sprintf("(Some (mkSt %s %s))", coqZ(f.Status[0]), coqZ(f.Status[1]))
	}
	body := "None"
	if f.Body != nil {
		body = fmt.Sprintf("(Some %s)", coqZ(*f.Body))
	}
	env := fmt.Sprintf("(mkEnv %s %s %s %s %s %s)", coqU(f.Id), svMdvCoq(f.Hdr), st, body, svMdvCoq(f.Trl), coqBool(f.Rst == "rst"))
	if !f.hasHdr() {
		return fmt.Sprintf("(mkFrame %s MBad 0 0)", env)
	}
	return fmt.Sprintf("(mkFrame %s %s %s %s)", env, svMethodKind(f.Method), coqZ(svNameTok(f.Src)), coqZ(svNameTok(f.Dst)))
}

func (f *FrameSpec) build(seq int) *Rpc {
	r := &Rpc{Id: f.Id}
	if f.hasHdr() {
		h := &goatorepo.RequestHeader{Method: f.Method, Source: f.Src, Destination: f.Dst}
		if f.Hdr == "bad" {
			h.Headers = append(h.Headers, badMD...)
		} else if strings.HasPrefix(f.Hdr, "key:") {
			var n, t int64
			fmt.Sscanf(f.Hdr, "key:%d:%d", &n, &t)
			h.Headers = append(svMdKVs(t), &goatorepo.KeyValue{Key: svOddKeys[n], Value: "QQ=="})
		} else if strings.HasPrefix(f.Hdr, "bin:") {
			h.Headers = append(h.Headers, &goatorepo.KeyValue{Key: "x-bin", Value: f.Hdr[4:]})
		} else if strings.HasPrefix(f.Hdr, "BIN:") {
			h.Headers = append(h.Headers, &goatorepo.KeyValue{Key: "Trace-BIN", Value: f.Hdr[4:]})
		} else {
			var n int64
			fmt.Sscanf(f.Hdr, "ok:%d", &n)
			h.Headers = svMdKVs(n)
		}
		h.Headers = append(h.Headers, &goatorepo.KeyValue{Key: "seq", Value: strconv.Itoa(seq)})
		if f.Timeout != "" {
			h.Headers = append(h.Headers, &goatorepo.KeyValue{Key: "GRPC-Timeout", Value: f.Timeout})
		}
		r.Header = h
	}
	if f.Status != nil {
		r.Status = &goatorepo.ResponseStatus{Code: int32(f.Status[0]), Message: fmt.Sprintf("m%d", f.Status[1])}
	}
	if f.Body != nil {
		r.Body = &goatorepo.Body{Data: bodyBytes(*f.Body)}
	}
	switch {
	case f.Trl == "none" || f.Trl == "":
	case f.Trl == "bad":
		r.Trailer = &goatorepo.Trailer{Metadata: badMD}
	default:
		var n int64
		fmt.Sscanf(f.Trl, "ok:%d", &n)
		r.Trailer = &goatorepo.Trailer{Metadata: svMdKVs(n)}
	}
	switch f.Rst {
	case "rst":
		r.Reset_ = &goatorepo.Reset{Type: "RST_STREAM"}
	case "other":
		r.Reset_ = &goatorepo.Reset{Type: "SOMETHING_ELSE"}
	}
	return r
}

// the Coq term of an envelope the server wrote
func svWrittenCoq(w *Rpc) string {
	hdr := "None"
	kind, src, dst := "MBad", int64(0), int64(0)
	if w.Header != nil {
		hdr = fmt.Sprintf("(Some (MdOk %s))", coqZ(svKvTok(w.Header.Headers)))
		kind = svMethodKind(w.Header.Method)
		src, dst = svNameTok(w.Header.Source), svNameTok(w.Header.Destination)
	}
	st := "None"
	if w.Status != nil {
		st = fmt.Sprintf("(Some (mkSt %d %s))", w.Status.Code, coqZ(svMsgTok(w.Status.Message)))
	}
	body := "None"
	if w.Body != nil {
		var v wrapperspb.BytesValue
		if err := proto.Unmarshal(w.Body.Data, &v); err != nil {
			body = "(Some (-777))"
		} else {
			body = fmt.Sprintf("(Some %s)", coqZ(tokenOf(v.Value)))
		}
	}
	trl := "None"
	if w.Trailer != nil {
		trl = fmt.Sprintf("(Some (MdOk %s))", coqZ(svKvTok(w.Trailer.Metadata)))
	}
	rst := w.Reset_ != nil && w.Reset_.Type == "RST_STREAM"
	return fmt.Sprintf("(mkFrame (mkEnv %s %s %s %s %s %s) %s %s %s)", coqU(w.Id), hdr, st, body, trl, coqBool(rst), kind, coqZ(src), coqZ(dst))
}

// ---------------------------------------------------------------- actions

type HopSpec struct {
	Op   string `json:"op"` // recv | send | sethdr | sendhdr | settrl | await | return | finish (cleanup only)
	B    int64  `json:"b,omitempty"`
	T    int64  `json:"t,omitempty"`
	Rep  *int64 `json:"rep,omitempty"`
	Err  string `json:"err,omitempty"` // "" (nil) | status | canceled | deadline | plain
	Code int64  `json:"code,omitempty"`
	Msg  int64  `json:"msg,omitempty"`
}

func (h *HopSpec) coq() string {
	switch h.Op {
	case "recv":
		return "HRecv"
	case "send":
		return fmt.Sprintf("(HSend %s)", coqZ(h.B))
	case "sethdr":
		return fmt.Sprintf("(HSetHeader %s)", coqZ(h.T))
	case "sendhdr":
		return fmt.Sprintf("(HSendHeader %s)", coqZ(h.T))
	case "settrl":
		return fmt.Sprintf("(HSetTrailer %s)", coqZ(h.T))
	case "await":
		return "HAwaitCtx"
	case "return":
		rep := "None"
		if h.Rep != nil {
			rep = fmt.Sprintf("(Some %s)", coqZ(*h.Rep))
		}
		e := "HNil"
		switch h.Err {
		case "status":
			e = fmt.Sprintf("(HStatus %s %s)", coqZ(h.Code), coqZ(h.Msg))
		case "canceled":
			e = "HCanceled"
		case "deadline":
			e = "HDeadline"
		case "plain":
			e = fmt.Sprintf("(HPlain %s)", coqZ(h.Msg))
		}
		return fmt.Sprintf("(HReturn %s %s)", rep, e)
	}
	panic("unknown hop " + h.Op)
}

func (h *HopSpec) err() error {
	switch h.Err {
	case "status":
		return status.Error(codes.Code(h.Code), fmt.Sprintf("m%d", h.Msg))
	case "canceled":
		return context.Canceled
	case "deadline":
		return context.DeadlineExceeded
	case "plain":
		return errors.New(fmt.Sprintf("m%d", h.Msg))
	}
	return nil
}

type SAct struct {
	Op   string `json:"op"` // deliver | failread | wfail | wblock | stop | cancelserve | hstep | tick
	// Kind: the error value the transport returns. wfail: "" plain | deadline | canceled | eof; failread: "" plain | proto (a
	// genuine protobuf decode error) | ws (goat's non-binary-websocket-message error) | nettimeout | unexpectedeof | eof | w:<kind>
	// (wrapped); failread with On: the failure happens once, then the peer is silent
	Kind string `json:"kind,omitempty"`
	// NoWait: the next action follows at once, no quiescent point (and no observation) in between
	NoWait bool `json:"nowait,omitempty"`
	D    int64  `json:"d,omitempty"`    // tick: milliseconds of virtual time
	F   *FrameSpec `json:"f,omitempty"`
	On  bool       `json:"on,omitempty"`
	H   int        `json:"h,omitempty"`
	Hop *HopSpec   `json:"hop,omitempty"`
}

func (a *SAct) coq() string {
	switch a.Op {
	case "deliver":
		return "ADeliver " + a.F.coq()
	case "failread":
		return "AFailRead"
	case "wfail":
		return "ASetWriteFail " + coqBool(a.On)
	case "wblock":
		return "ABlockWrites " + coqBool(a.On)
	case "stop":
		return "AStop"
	case "cancelserve":
		return "ACancelServeCtx"
	case "hstep":
		return fmt.Sprintf("AHandlerStep %d %s", a.H, a.Hop.coq())
	case "peerb":
		// not an action on THIS connection: the environment action that changes nothing
		return "ABlockWrites false"
	}
	panic("unknown op " + a.Op)
}

// the model has no clock: the passage of virtual time is the environment action that changes nothing (writes stay
// blocked / unblocked as they are)
func (r *svRig) tickCoq() string { return "ABlockWrites " + coqBool(r.wblocked) }

// ---------------------------------------------------------------- the rig

type svH struct {
	seq      int
	unary    bool
	ctx      context.Context
	method   string
	payload  int64
	md       int64
	gate     chan *HopSpec
	stream   grpc.ServerStream
	idx      int
	inOp     bool
	returned bool
	lastRes  string // result of the last completed operation
	nRes     int
}

type svObs struct {
	Events   []string `json:"events"`
	Writes   []string `json:"writes"`
	Reg      int      `json:"reg"`
	Inbox    int      `json:"inbox"`
	Blocked  []int    `json:"blocked"`
	Ctx      []int    `json:"ctx"`
	Serve    bool     `json:"serve_returned"`
	Writer   int      `json:"writer"`
	Workers  int      `json:"workers"`
	HS       int      `json:"hs"`
	WBlocked bool     `json:"wblocked"`
}

func (o svObs) coq() string {
	reg := "None"
	if o.Reg >= 0 {
		reg = fmt.Sprintf("(Some %d)", o.Reg)
	}
	ints := func(l []int) string {
		s := make([]string, len(l))
		for i, v := range l {
			s[i] = strconv.Itoa(v)
		}
		return coqList(s)
	}
	return fmt.Sprintf("(mkObs %s %s %s %d %s %s %s %d %d %d %s)", coqList(o.Events), coqList(o.Writes), reg, o.Inbox,
		ints(o.Blocked), ints(o.Ctx), coqBool(o.Serve), o.Writer, o.Workers, o.HS, coqBool(o.WBlocked))
}

type svRig struct {
	t           *testing.T
	ep          *Endpoint
	xep         *svEP
	srv         *goat.Server
	mu          sync.Mutex
	events      []string
	newH        []*svH
	hs          []*svH
	delivered   []*FrameSpec
	serveRet    bool
	serveErr    error
	cancelServe context.CancelFunc
	lastW       int
	wblocked    bool
	panicked    string
	allWrites   []*Rpc
	// a second connection served by the SAME goat.Server (op "peerb"): outside the model; its handlers are autonomous
	epB     *Endpoint
	bSent   []int64 // message bodies delivered on connection B
	bRecv   []int64 // message bodies the handlers of connection B received, in order
	bOpened int
}

func (r *svRig) ev(s string) {
	r.mu.Lock()
	r.events = append(r.events, s)
	r.mu.Unlock()
}

func (r *svRig) enter(unary bool, ctx context.Context, payload int64, stream grpc.ServerStream) *svH {
	md, _ := metadata.FromIncomingContext(ctx)
	seq := -1
	if v := md.Get("seq"); len(v) == 1 {
		seq, _ = strconv.Atoi(v[0])
	}
	method, _ := grpc.Method(ctx)
	h := &svH{seq: seq, unary: unary, ctx: ctx, method: method, payload: payload, md: svMDTok(md), gate: make(chan *HopSpec), stream: stream, idx: -1}
	r.mu.Lock()
	r.newH = append(r.newH, h)
	r.mu.Unlock()
	return h
}

func (r *svRig) opRes(h *svH, res string) {
	r.mu.Lock()
	h.lastRes = res
	h.nRes++
	r.events = append(r.events, fmt.Sprintf("SvOp %d %s", h.idx, res))
	r.mu.Unlock()
}

func (r *svRig) setInOp(h *svH, b bool) {
	r.mu.Lock()
	h.inOp = b
	r.mu.Unlock()
}

func svErrRes(err error) string {
	switch {
	case err == nil:
		return "OOk"
	case errors.Is(err, context.Canceled) || errors.Is(err, context.DeadlineExceeded):
		return "OCtx"
	case strings.Contains(err.Error(), "headers already sent"):
		return "OHdrSent"
	}
	return "OUnknown_" + strings.Map(func(c rune) rune {
		if (c >= 'a' && c <= 'z') || (c >= 'A' && c <= 'Z') {
			return c
		}
		return '_'
	}, err.Error())
}

func (r *svRig) unaryImpl(ctx context.Context, req []byte) ([]byte, bool, error) {
	h := r.enter(true, ctx, tokenOf(req), nil)
	for {
		op := <-h.gate
		switch op.Op {
		case "sethdr":
			r.opRes(h, svErrRes(grpc.SetHeader(ctx, svMdMD(op.T))))
		case "sendhdr":
			r.opRes(h, svErrRes(grpc.SendHeader(ctx, svMdMD(op.T))))
		case "settrl":
			r.opRes(h, svErrRes(grpc.SetTrailer(ctx, svMdMD(op.T))))
		case "await":
			r.setInOp(h, true)
			<-ctx.Done()
			r.setInOp(h, false)
			r.opRes(h, "OAwaited")
		case "return":
			r.mu.Lock()
			h.returned = true
			r.events = append(r.events, fmt.Sprintf("SvRet %d", h.idx))
			r.mu.Unlock()
			if op.Rep != nil {
				return payloadOf(*op.Rep), true, op.err()
			}
			return nil, false, op.err()
		case "finish":
			r.mu.Lock()
			h.returned = true
			r.mu.Unlock()
			return nil, true, nil
		}
	}
}

// a stream handler of connection B: reads everything it is sent, then returns
func (r *svRig) peerBStream(s grpc.ServerStream) error {
	r.mu.Lock()
	r.bOpened++
	r.mu.Unlock()
	for {
		var m wrapperspb.BytesValue
		if err := s.RecvMsg(&m); err != nil {
			if err == io.EOF {
				return nil
			}
			return err
		}
		r.mu.Lock()
		r.bRecv = append(r.bRecv, tokenOf(m.Value))
		r.mu.Unlock()
	}
}

func (r *svRig) streamImpl(kind string, s grpc.ServerStream) error {
	ctx := s.Context()
	if md, _ := metadata.FromIncomingContext(ctx); len(md.Get("conn")) == 1 && md.Get("conn")[0] == "B" {
		return r.peerBStream(s)
	}
	h := r.enter(false, ctx, 0, s)
	for {
		op := <-h.gate
		switch op.Op {
		case "recv":
			var m wrapperspb.BytesValue
			r.setInOp(h, true)
			err := s.RecvMsg(&m)
			r.setInOp(h, false)
			res := ""
			switch {
			case err == nil:
				res = fmt.Sprintf("(ORecvMsg %s)", coqZ(tokenOf(m.Value)))
			case err == io.EOF:
				res = "ORecvEof"
			case errors.Is(err, context.Canceled) || errors.Is(err, context.DeadlineExceeded):
				res = "OCtx"
			default:
				if st, ok := status.FromError(err); ok {
					res = fmt.Sprintf("(ORecvStatus (mkSt %d %s))", st.Code(), coqZ(svMsgTok(st.Message())))
				} else if svMsgTok(err.Error()) == -4 {
					res = "ORecvUnmarshal"
				} else {
					res = svErrRes(err)
				}
			}
			r.opRes(h, res)
		case "send":
			r.setInOp(h, true)
			err := s.SendMsg(bv(payloadOf(op.B)))
			r.setInOp(h, false)
			r.opRes(h, svErrRes(err))
		case "sendhdr":
			r.setInOp(h, true)
			err := s.SendHeader(svMdMD(op.T))
			r.setInOp(h, false)
			r.opRes(h, svErrRes(err))
		case "sethdr":
			r.opRes(h, svErrRes(s.SetHeader(svMdMD(op.T))))
		case "settrl":
			s.SetTrailer(svMdMD(op.T))
			r.opRes(h, "OOk")
		case "await":
			r.setInOp(h, true)
			<-ctx.Done()
			r.setInOp(h, false)
			r.opRes(h, "OAwaited")
		case "return":
			r.mu.Lock()
			h.returned = true
			r.events = append(r.events, fmt.Sprintf("SvRet %d", h.idx))
			r.mu.Unlock()
			return op.err()
		case "finish":
			r.mu.Lock()
			h.returned = true
			r.mu.Unlock()
			return nil
		}
	}
}

// svCensus counts the goroutines of the current bubble that belong to the server connection.
var svStackBuf = make([]byte, 2<<20)

func svCensus() (writer, workers, hs int) {
	buf := svStackBuf
	n := runtime.Stack(buf, true)
	gs := strings.Split(string(buf[:n]), "\n\n")
	bubbleTag := ""
	if len(gs) > 0 {
		if i := strings.Index(gs[0], "synctest bubble "); i >= 0 {
			j := strings.IndexAny(gs[0][i:], "]\n,")
			bubbleTag = gs[0][i : i+j]
		}
	}
	for _, g := range gs {
		hdrLine := g
		if k := strings.Index(g, "\n"); k >= 0 {
			hdrLine = g[:k]
		}
		if bubbleTag != "" && !strings.Contains(hdrLine, bubbleTag+"]") && !strings.Contains(hdrLine, bubbleTag+",") {
			continue
		}
		switch {
		case strings.Contains(g, "goat.(*handler).serve.func2"):
			writer++
		case strings.Contains(g, "goat.(*handler).serve.func3"):
			workers++
		case strings.Contains(g, "created by github.com/avos-io/goat.(*handler)"):
			// runStream goroutines (created by processStreamingRpc) - and anything else a connection's methods start
			hs++
		}
	}
	return
}

func svServeErrClass(err error) string {
	switch {
	case err == nil:
		return "SNil"
	case strings.HasPrefix(err.Error(), "read error") && errors.Is(err, context.Canceled):
		return "SReadCtx" // the connection context ended while reading
	case strings.HasPrefix(err.Error(), "read error"):
		return "SRead" // the transport's own error, whatever its value
	case strings.Contains(err.Error(), "write error"):
		return "SWrite"
	case errors.Is(err, context.Canceled):
		return "SCtx"
	}
	return "SUnknown"
}

// muHeld: at a quiescent point the registry lock can only be held by a read loop that is parked
// inside processStreamingRpc.
func (r *svRig) muHeld() bool {
	c := goat.VerifServerStreamCounts()
	return len(c) > 0 && c[0] < 0
}

// fwdTarget: when the read loop is parked forwarding an envelope into a stream's queue, the handler it
// waits for (that handler's return releases it); -1 otherwise.
func (r *svRig) fwdTarget() int {
	if !r.muHeld() || r.wblocked {
		return -1
	}
	i := len(r.delivered) - r.ep.Pending() - 1
	if i < 0 || i >= len(r.delivered) {
		return -1
	}
	id := r.delivered[i].Id
	for k := len(r.hs) - 1; k >= 0; k-- {
		h := r.hs[k]
		if !h.unary && h.seq >= 0 && h.seq < len(r.delivered) && r.delivered[h.seq].Id == id {
			if h.returned {
				return -1
			}
			return k
		}
	}
	return -1
}

func (r *svRig) snapshot() svObs {
	r.mu.Lock()
	sort.Slice(r.newH, func(i, j int) bool { return r.newH[i].seq < r.newH[j].seq })
	for _, h := range r.newH {
		h.idx = len(r.hs)
		r.hs = append(r.hs, h)
		id := uint64(0)
		if h.seq >= 0 && h.seq < len(r.delivered) {
			id = r.delivered[h.seq].Id
		}
		r.events = append(r.events, fmt.Sprintf("SvInvoke %d %s %d %s %s %s", h.idx, coqBool(h.unary), id, svMethodKind(h.method), coqZ(h.payload), coqZ(h.md)))
	}
	r.newH = nil
	evs := append([]string(nil), r.events...)
	r.events = r.events[:0]
	o := svObs{Serve: r.serveRet}
	if r.serveRet {
		// reported once
	}
	for _, h := range r.hs {
		if h.inOp {
			o.Blocked = append(o.Blocked, h.idx)
		}
		if !h.returned && h.ctx.Err() != nil {
			o.Ctx = append(o.Ctx, h.idx)
		}
	}
	r.mu.Unlock()
	sort.Strings(evs)
	o.Events = evs
	ws := r.ep.WrittenCopy()
	for _, w := range ws[r.lastW:] {
		o.Writes = append(o.Writes, svWrittenCoq(w))
		r.allWrites = append(r.allWrites, w)
	}
	r.lastW = len(ws)
	o.Reg = 0
	if c := goat.VerifServerStreamCounts(); len(c) > 0 {
		o.Reg = c[0]
	}
	o.Inbox = r.ep.Pending()
	o.Writer, o.Workers, o.HS = svCensus()
	o.WBlocked = r.ep.NumBlockedWrites() > 0
	return o
}

// do performs one action; false = the action was not performed (it would park a goroutine on h.mu,
// which synctest cannot see as quiescent) and must not be recorded.
func (r *svRig) do(a *SAct) bool {
	switch a.Op {
	case "deliver":
		seq := len(r.delivered)
		r.delivered = append(r.delivered, a.F)
		r.ep.Deliver(a.F.build(seq))
	case "failread":
		if a.On {
			// once: this read fails, afterwards the peer is silent
			r.xep.FailReadOnce(svReadErr(a.Kind))
		} else {
			r.ep.FailRead(svReadErr(a.Kind))
		}
	case "tick":
		time.Sleep(time.Duration(a.D) * time.Millisecond)
	case "peerb":
		// an envelope on a SECOND connection of the same Server (started at its first envelope)
		if r.epB == nil {
			r.epB = NewEndpoint("serverB")
			epB := r.epB
			go func() { _ = r.srv.Serve(context.Background(), epB) }()
		}
		rpc := a.F.build(100000 + len(r.bSent))
		if rpc.Header != nil {
			rpc.Header.Headers = append(rpc.Header.Headers, &goatorepo.KeyValue{Key: "conn", Value: "B"})
		}
		if a.F.Body != nil && a.F.Rst == "" && a.F.Trl == "" {
			r.bSent = append(r.bSent, *a.F.Body)
		}
		r.epB.Deliver(rpc)
	case "wfail":
		if a.On {
			var e error = errWriteInjected
			switch a.Kind {
			case "deadline":
				e = fmt.Errorf("transport write: %w (%w)", context.DeadlineExceeded, errWriteInjected)
			case "canceled":
				e = fmt.Errorf("transport write: %w (%w)", context.Canceled, errWriteInjected)
			case "eof":
				e = fmt.Errorf("transport write: %w (%w)", io.EOF, errWriteInjected)
			case "nettimeout":
				// a timeout-type net.Error (a write deadline on a socket)
				e = &net.OpError{Op: "write", Net: "tcp", Err: svTimeoutErr{}}
			case "ostimeout":
				e = fmt.Errorf("transport write: %w", os.ErrDeadlineExceeded)
			}
			r.ep.FailWrites(e)
		} else {
			r.ep.FailWrites(nil)
		}
		if r.wblocked {
			// let a parked Write look at the transport state again
			r.ep.UnblockWrites()
			r.ep.BlockWrites()
		}
	case "wblock":
		if a.On {
			r.ep.BlockWrites()
		} else {
			r.ep.UnblockWrites()
		}
		r.wblocked = a.On
	case "stop":
		r.srv.Stop()
	case "cancelserve":
		if r.muHeld() {
			return false
		}
		r.cancelServe()
	case "hstep":
		if a.H < 0 || a.H >= len(r.hs) {
			return true // no such handler: a no-op in the model too
		}
		h := r.hs[a.H]
		r.mu.Lock()
		busy := h.inOp || h.returned
		r.mu.Unlock()
		if busy {
			return true
		}
		if h.unary && (a.Hop.Op == "recv" || a.Hop.Op == "send") {
			return true
		}
		if !h.unary && a.Hop.Op == "return" && r.muHeld() && !(r.fwdTarget() == a.H && r.ep.Pending() == 0) {
			// the read loop is parked holding h.mu: only the handler it waits for may return, and only when nothing
			// is queued behind (otherwise the read loop may park again, still holding the lock this handler needs)
			return false
		}
		h.gate <- a.Hop
	default:
		panic("unknown op " + a.Op)
	}
	return true
}

type svScenario struct {
	Acts []SAct   `json:"acts"`
	Tags []string `json:"tags,omitempty"`
}

type svResult struct {
	Acts    []SAct
	CoqActs []string
	Obs     []svObs
	CoqObs  []string
	Writes  []*Rpc
	Leaked  bool
	BSent   []int64 // connection B (op "peerb"): message bodies delivered / received by its handlers
	BRecv   []int64
}

func coqZList(l []int64) string {
	items := make([]string, len(l))
	for i, v := range l {
		items[i] = coqZ(v)
	}
	return coqList(items)
}

// runServerScenario drives the real server through the actions produced by next (nil = end), one at a
// time, observing at every quiescent point.
func runServerScenario(t *testing.T, idx int, kind string, next func(r *svRig, step int) *SAct, em *Emitter, tags []string) svResult {
	startWatchdog()
	var res svResult
	var rig *svRig
	leaked := bubble(t, func(t *testing.T) {
		goat.VerifResetTracking()
		ep := NewEndpoint("server")
		xep := &svEP{Endpoint: ep}
		rig = &svRig{t: t, ep: ep, xep: xep}
		rig.srv = newEchoServer("dst", &echoImpl{unary: rig.unaryImpl, stream: rig.streamImpl})
		ctx, cancel := context.WithCancel(context.Background())
		rig.cancelServe = cancel
		go func() {
			err := rig.srv.Serve(ctx, xep)
			rig.mu.Lock()
			rig.serveRet, rig.serveErr = true, err
			cls := svServeErrClass(err)
			if cls == "SNil" || cls == "SUnknown" {
				// an error the model's Serve cannot return: keep the term well-typed and add an event no model state
				// produces, so that the case can never agree with the model (the property predicates judge it first)
				rig.events = append(rig.events, "SvOp 999999 OOk")
				cls = "SCtx"
			}
			rig.events = append(rig.events, "SvServeRet "+cls)
			rig.mu.Unlock()
		}()
		synctest.Wait()
		wd.mu.Lock()
		wd.active, wd.idx, wd.kind, wd.desc, wd.tags, wd.em = true, idx, kind, nil, tags, em
		wd.coqActs, wd.coqObs, wd.obs, wd.step = nil, nil, nil, 0
		wd.pendFn = func() []string { return nil }
		wd.wedgeCoq = func(acts, obs, pending []string) string { return "" }
		wd.mu.Unlock()
		for step := 0; ; step++ {
			a := next(rig, step)
			if a == nil {
				break
			}
			wd.mu.Lock()
			wd.desc = map[string]any{"acts_so_far": append(append([]SAct{}, res.Acts...), *a)}
			wd.coqActs = append(wd.coqActs, "")
			wd.step = step
			wd.mu.Unlock()
			if !rig.do(a) {
				continue
			}
			if a.NoWait {
				res.Acts = append(res.Acts, *a)
				res.CoqActs = append(res.CoqActs, a.coq())
				res.Obs = append(res.Obs, svObs{Inbox: -1})
				res.CoqObs = append(res.CoqObs, "(mkObs [] [] None (-1) [] [] false 0 0 0 false)")
				continue
			}
			synctest.Wait()
			wdProgress.Add(1)
			o := rig.snapshot()
			res.Acts = append(res.Acts, *a)
			if a.Op == "tick" {
				res.CoqActs = append(res.CoqActs, rig.tickCoq())
			} else {
				res.CoqActs = append(res.CoqActs, a.coq())
			}
			res.Obs = append(res.Obs, o)
			res.CoqObs = append(res.CoqObs, o.coq())
		}
		wd.mu.Lock()
		wd.active = false
		wd.mu.Unlock()
		rig.mu.Lock()
		res.BSent, res.BRecv = append([]int64{}, rig.bSent...), append([]int64{}, rig.bRecv...)
		rig.mu.Unlock()
		// cleanup, not compared with the model: end the connection, let every handler return
		ep.UnblockWrites()
		rig.srv.Stop()
		cancel()
		synctest.Wait()
		rig.mu.Lock()
		hs := append(append([]*svH{}, rig.hs...), rig.newH...)
		rig.mu.Unlock()
		for _, h := range hs {
			rig.mu.Lock()
			ret := h.returned
			rig.mu.Unlock()
			if !ret {
				h.gate <- &HopSpec{Op: "finish"}
			}
		}
		synctest.Wait()
		res.Writes = rig.allWrites
	})
	wd.mu.Lock()
	wd.active = false
	wd.mu.Unlock()
	res.Leaked = leaked
	return res
}

// svTimeoutErr: a net.Error with Timeout() == true that also identifies the harness's injected write failure
type svTimeoutErr struct{}

func (svTimeoutErr) Error() string   { return "i/o timeout (injected write failure)" }
func (svTimeoutErr) Timeout() bool   { return true }
func (svTimeoutErr) Temporary() bool { return true }
func (svTimeoutErr) Unwrap() error   { return errWriteInjected }

var svQualRe = regexp.MustCompile(`\b[A-Za-z][A-Za-z0-9_]*\b`)
var svQualTab = func() map[string]string {
	m := map[string]string{}
	for _, n := range strings.Fields("ADeliver AFailRead ASetWriteFail ABlockWrites AStop ACancelServeCtx AHandlerStep HRecv HSend HSetHeader HSendHeader " +
		"HSetTrailer HAwaitCtx HReturn HNil HStatus HCanceled HDeadline HPlain mkFrame MBad MUnkSvc MUnkMeth MUnary MStream SvInvoke SvOp SvRet " +
		"SvServeRet ORecvMsg ORecvEof ORecvStatus ORecvUnmarshal OCtx OOk OHdrSent OAwaited SRead SReadCtx SCtx SWrite") {
		m[n] = "Server." + n
	}
	m["CSrv"], m["mkObs"] = "ServerC.CSrv", "ServerC.mkObs"
	return m
}()

// svQualify prints a case term with the names of Model/Server.v and Check/ServerC.v qualified: for the cases files of the
// checks that import the CLIENT model (both models have ADeliver, AFailRead, mkObs ...)
func svQualify(term string) string {
	return svQualRe.ReplaceAllStringFunc(term, func(w string) string {
		if q, ok := svQualTab[w]; ok {
			return q
		}
		return w
	})
}

func svCase(res svResult) string {
	return fmt.Sprintf("CSrv %s %s", coqList(res.CoqActs), coqList(res.CoqObs))
}

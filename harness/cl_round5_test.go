//go:build cl

package verifharness

import (
	"context"
	"fmt"
	"io"
	"runtime"
	"sort"
	"strings"
	"sync"
	"sync/atomic"
	"testing"
	"testing/synctest"
	"time"

	goat "github.com/avos-io/goat"
	"github.com/avos-io/goat/gen/goatorepo"
	"github.com/avos-io/goat/internal/client"
	"github.com/avos-io/goat/internal/verifhook"
	"google.golang.org/grpc"
	"google.golang.org/protobuf/proto"
	"google.golang.org/protobuf/types/known/wrapperspb"
)

// ---------------------------------------------------------------- C05: the width of the id allocator

// TestC05Wide: C05_unique carries the hypothesis "fewer than 2^64 ids were
// allocated"; no black-box history gets anywhere near a narrower counter's
// wrap. White box: the verif accessor ClientConn.VerifSetIdCounter (/repo,
// build tag verif, through reflection: independent of the declared width of the
// counter) sets the allocation counter of a connection on which a long-lived
// first stream (id 1) and possibly two more early calls are alive. Then 8 more
// calls (unary and stream) are started one after the other. Judged in Coq
// (C05Wide): the ids on their first envelopes are base+1 .. base+8 (the
// model's counter), pairwise distinct, never 0, distinct from the id of every
// call still alive; every unary call gets the reply to ITS request (the peer
// answers under the request's id); the first stream still receives exactly
// what is sent to it afterwards. Points: 2^32-3, 2^32+5, 2^63-2, 2^64-12 (the
// last one stays inside the hypothesis), each on a fresh connection, and all
// four in a row on one connection.
func TestC05Wide(t *testing.T) {
	em := NewEmitter()
	defer em.Close()
	points := []uint64{1<<32 - 3, 1<<32 + 5, 1<<63 - 2, 1<<64 - 12}
	// also the small wraps somebody might introduce with a narrower type or a mask
	small := []uint64{1<<16 - 3, 1<<31 - 2, 1<<53 - 1}
	type plan struct {
		bases []uint64
		early int // calls alive besides the first stream
		name  string
	}
	var plans []plan
	for _, b := range points {
		plans = append(plans, plan{[]uint64{b}, 0, "fresh"}, plan{[]uint64{b}, 2, "fresh+early"})
	}
	for _, b := range small {
		plans = append(plans, plan{[]uint64{b}, 1, "fresh-small"})
	}
	plans = append(plans, plan{points, 0, "in-a-row"}, plan{[]uint64{small[0], small[1], points[0], points[1], small[2], points[2], points[3]}, 2, "in-a-row-all"})
	idx := 0
	for _, pl := range plans {
		pl := pl
		if !want(idx) {
			idx += len(pl.bases)
			continue
		}
		type rec struct {
			base            uint64
			width           int
			live, ids       []uint64
			pairs           [][2]int64
			sent, got       []int64
			openFailed, end bool
		}
		var recs []rec
		leaked := bubble(t, func(t *testing.T) {
			ep := NewEndpoint("client")
			cc := goat.NewClientConn(ep, "src", "dst")
			msg := func(id uint64, method string, tok int64, trailer bool) *Rpc {
				b, _ := proto.Marshal(&wrapperspb.BytesValue{Value: payloadOf(tok)})
				r := &Rpc{Id: id, Header: hdr(method, "dst", "src"), Body: &goatorepo.Body{Data: b}}
				if trailer {
					r.Trailer = &goatorepo.Trailer{}
				}
				return r
			}
			var cancels []context.CancelFunc
			defer func() {
				for _, c := range cancels {
					c()
				}
				ep.FailRead(errInjected)
				synctest.Wait()
			}()
			open := func() (uint64, interface{ RecvMsg(any) error }, bool) {
				n0 := len(ep.WrittenCopy())
				ctx, cancel := context.WithCancel(context.Background())
				cancels = append(cancels, cancel)
				cs, err := cc.NewStream(ctx, descBidi, "/verif.Echo/Bidi")
				synctest.Wait()
				ws := ep.WrittenCopy()
				if err != nil || len(ws) <= n0 {
					return 0, nil, false
				}
				return ws[n0].Id, cs, true
			}
			firstID, first, ok := open()
			if !ok {
				t.Errorf("the first stream could not be opened")
				return
			}
			live := []uint64{firstID}
			for i := 0; i < pl.early; i++ {
				if id, _, ok := open(); ok {
					live = append(live, id)
				}
			}
			tok := int64(100)
			for _, base := range pl.bases {
				rc := rec{base: base, live: append([]uint64{}, live...)}
				rc.width = cc.VerifSetIdCounter(base)
				for i := 0; i < 8; i++ {
					tok += 2
					if i%3 == 2 {
						id, _, ok := open()
						if !ok {
							rc.openFailed = true
							rc.ids = append(rc.ids, 0) // no first envelope: judged as id 0
							continue
						}
						rc.ids = append(rc.ids, id)
						live = append(live, id)
						continue
					}
					n0 := len(ep.WrittenCopy())
					var out atomic.Int64
					out.Store(-2)
					ctx, cancel := context.WithCancel(context.Background())
					cancels = append(cancels, cancel)
					mytok := tok
					go func() {
						var o wrapperspb.BytesValue
						if err := cc.Invoke(ctx, "/verif.Echo/Unary", &wrapperspb.BytesValue{Value: payloadOf(mytok)}, &o); err != nil {
							out.Store(-3)
						} else {
							out.Store(tokenOf(o.Value))
						}
					}()
					synctest.Wait()
					ws := ep.WrittenCopy()
					if len(ws) <= n0 {
						rc.ids = append(rc.ids, 0)
						rc.pairs = append(rc.pairs, [2]int64{mytok, out.Load()})
						continue
					}
					w := ws[n0]
					rc.ids = append(rc.ids, w.Id)
					ep.Deliver(msg(w.Id, "/verif.Echo/Unary", reqToken(w)+1, true))
					synctest.Wait()
					rc.pairs = append(rc.pairs, [2]int64{mytok, out.Load()})
				}
				// the long-lived first stream is still served
				for i := 0; i < 2; i++ {
					tok += 2
					ep.Deliver(msg(firstID, "/verif.Echo/Bidi", tok, false))
					rc.sent = append(rc.sent, tok)
					synctest.Wait()
					var got atomic.Int64
					got.Store(-2)
					go func() {
						var m wrapperspb.BytesValue
						if err := first.RecvMsg(&m); err != nil {
							got.Store(-3)
						} else {
							got.Store(tokenOf(m.Value))
						}
					}()
					synctest.Wait()
					rc.got = append(rc.got, got.Load())
					if got.Load() == -2 {
						rc.end = true
						break // the RecvMsg is parked: no second reader
					}
				}
				recs = append(recs, rc)
				if rc.end {
					break
				}
			}
		})
		for len(recs) < len(pl.bases) {
			// the scenario ended early (never on the unchanged code): judged as a call without a first envelope
			recs = append(recs, rec{base: pl.bases[len(recs)], ids: []uint64{0}})
		}
		for i, rc := range recs {
			em.Marker("begin", idx+i)
			u := func(l []uint64) string {
				var s []string
				for _, v := range l {
					s = append(s, coqU(v))
				}
				return coqList(s)
			}
			z := func(l []int64) string {
				var s []string
				for _, v := range l {
					s = append(s, coqZ(v))
				}
				return coqList(s)
			}
			var ps []string
			for _, p := range rc.pairs {
				ps = append(ps, fmt.Sprintf("(%d, %s)", p[0], coqZ(p[1])))
			}
			tags := []string{"plan:" + pl.name, fmt.Sprintf("base=%d", rc.base), fmt.Sprintf("counter-width=%d", rc.width), fmt.Sprintf("alive=%d", len(rc.live))}
			if leaked {
				tags = append(tags, "leaked-at-end")
			}
			em.Emit(Rec{Idx: idx + i, Kind: "c05-wide", Desc: map[string]any{"base": rc.base, "live": rc.live, "ids": rc.ids, "pairs": rc.pairs, "sent": rc.sent, "got": rc.got},
				Tags: tags, Coq: fmt.Sprintf("C05Wide %s %s %s %s %s %s", coqU(rc.base), u(rc.live), u(rc.ids), coqList(ps), z(rc.sent), z(rc.got))})
			em.Marker("end", idx+i)
		}
		idx += len(pl.bases)
	}
}

// ---------------------------------------------------------------- C05: a transport that passes envelopes by reference

// TestC05ByRef: real client - real server over a link that hands over the
// very *Rpc the writer passed (like NewGoatOverChannel): the receiver keeps
// looking at the sender's struct for as long as its handler runs. One caller
// goroutine issues k unary calls that it abandons (deadline on the virtual
// clock, or cancel) while their handlers are still blocked, each immediately
// followed by the next call; then a call C it waits for, then a call D. The
// handlers are released abandoned-first / new-first / alternating. Judged like
// the free-running histories (C05Free): the ids of the first envelopes, read
// when they are written, pairwise distinct, and C and D receive the reply to
// THEIR OWN request (token + 1) - an abandoned call's reply must never be
// delivered to a later call.
func TestC05ByRef(t *testing.T) {
	em := NewEmitter()
	defer em.Close()
	idx := 0
	for _, k := range []int{1, 2, 3} {
		for _, order := range []string{"abandoned-first", "new-first", "alternating"} {
			for _, how := range []string{"deadline", "cancel"} {
				for rep := 0; rep < 2; rep++ {
					if !want(idx) {
						idx++
						continue
					}
					em.Marker("begin", idx)
					var ids []uint64
					var pairs [][2]int64
					var abandoned []string
					leaked := bubble(t, func(t *testing.T) {
						l := NewLink(true)
						l.Auto = true
						var mu sync.Mutex
						fwd := l.C.OnWrite
						l.C.OnWrite = func(rp *Rpc) {
							mu.Lock()
							ids = append(ids, rp.Id) // read NOW: the struct may be the writer's own
							mu.Unlock()
							fwd(rp)
						}
						gates := map[int64]chan struct{}{}
						gate := func(tok int64) chan struct{} {
							mu.Lock()
							defer mu.Unlock()
							g, ok := gates[tok]
							if !ok {
								g = make(chan struct{})
								gates[tok] = g
							}
							return g
						}
						release := func(tok int64) {
							g := gate(tok)
							select {
							case <-g:
							default:
								close(g)
							}
							synctest.Wait()
						}
						srv := newEchoServer("srv", &echoImpl{unary: func(ctx context.Context, req []byte) ([]byte, bool, error) {
							tok := tokenOf(req)
							<-gate(tok) // the handler does not look at its context: it is still working when the caller has given up
							return payloadOf(tok + 1), true, nil
						}})
						sctx, scancel := context.WithCancel(context.Background())
						go srv.Serve(sctx, l.S)
						cc := goat.NewClientConn(l.C, "c1", "srv")
						cancels := make([]context.CancelFunc, k)
						step := make(chan struct{}, 8)
						var results sync.Map
						go func() {
							call := func(ctx context.Context, tok int64) {
								var out wrapperspb.BytesValue
								err := cc.Invoke(ctx, "/verif.Echo/Unary", &wrapperspb.BytesValue{Value: payloadOf(tok)}, &out)
								if err != nil {
									results.Store(tok, "err:"+classOf(err))
								} else {
									results.Store(tok, tokenOf(out.Value))
								}
							}
							for i := 0; i < k; i++ {
								ctx, cancel := context.WithCancel(context.Background())
								if how == "deadline" {
									ctx, cancel = context.WithTimeout(context.Background(), time.Second)
								}
								cancels[i] = cancel
								call(ctx, int64(10+i))
							}
							call(context.Background(), 50)
							if rep == 1 {
								<-step
							}
							call(context.Background(), 60)
						}()
						for i := 0; i < k; i++ {
							synctest.Wait() // call i is in flight, its handler blocked
							if how == "deadline" {
								time.Sleep(2 * time.Second)
							} else {
								cancels[i]()
							}
						}
						synctest.Wait() // C is in flight
						switch order {
						case "abandoned-first":
							for i := 0; i < k; i++ {
								release(int64(10 + i))
							}
							release(50)
						case "new-first":
							release(50)
							for i := k - 1; i >= 0; i-- {
								release(int64(10 + i))
							}
						default:
							release(10)
							release(50)
							for i := 1; i < k; i++ {
								release(int64(10 + i))
							}
						}
						step <- struct{}{}
						synctest.Wait()
						release(60)
						for _, tok := range []int64{50, 60} {
							v, ok := results.Load(tok)
							switch x := v.(type) {
							case int64:
								pairs = append(pairs, [2]int64{tok, x})
							default:
								_ = ok
								pairs = append(pairs, [2]int64{tok, -3}) // an error, or still pending: no reply of its own
							}
						}
						for i := 0; i < k; i++ {
							v, _ := results.Load(int64(10 + i))
							abandoned = append(abandoned, fmt.Sprint(v))
						}
						for _, c := range cancels {
							if c != nil {
								c()
							}
						}
						scancel()
						l.C.FailRead(io.EOF)
						l.S.FailRead(io.EOF)
						synctest.Wait()
					})
					sort.Slice(ids, func(a, b int) bool { return ids[a] < ids[b] })
					var sids []string
					for i, v := range ids {
						if i == 0 || v != ids[i-1] {
							sids = append(sids, coqU(v))
						}
					}
					var ps []string
					for _, p := range pairs {
						ps = append(ps, fmt.Sprintf("(%d, %s)", p[0], coqZ(p[1])))
					}
					tags := []string{fmt.Sprintf("abandoned=%d", k), "release:" + order, "abandoned-by:" + how, fmt.Sprintf("abandoned-results=%v", abandoned)}
					if leaked {
						tags = append(tags, "leaked-at-end")
					}
					em.Emit(Rec{Idx: idx, Kind: "c05-byref", Desc: map[string]any{"k": k, "order": order, "how": how, "ids": ids, "pairs": pairs, "abandoned": abandoned},
						Tags: tags, Coq: fmt.Sprintf("C05Free %d %s %s", k+2, coqList(sids), coqList(ps))})
					em.Marker("end", idx)
					idx++
				}
			}
		}
	}
}

// ---------------------------------------------------------------- C14: a failed SendMsg and the server's registration

// TestC14SendFail: real client - real server, one stream at a time. A SendMsg
// whose transport write fails on a healthy connection (one of the five error
// values of bodyFaultErrs) aborts the stream; the caller drops it (no cancel,
// no CloseSend: the gRPC contract). The server must be told (RST_STREAM): at
// the next quiescent point the client has nothing in flight and the server
// connection's registry must be empty. SendMsg's teardown unregisters the
// stream and cancels its context in two steps while the stream's loop
// goroutine decides, from what it sees of them, whether to send the reset:
// with park = true the sender is held at the yield point cs.teardown.mid
// BETWEEN the two steps until the loop goroutine has run to its end (the
// interleaving a loaded machine produces by itself, D-14f). Judged as a
// two-sample long history (C14Long: reasons 4, 5, 6).
func TestC14SendFail(t *testing.T) {
	em := NewEmitter()
	defer em.Close()
	idx := 0
	for _, kind := range []string{"Bidi", "CStream", "SStream"} {
		for _, park := range []bool{false, true} {
			for ev := 0; ev <= len(bodyFaultErrs); ev++ { // ev == len(bodyFaultErrs): the CODEC fails to marshal the message (nothing reaches the transport)
				for _, after := range []string{"drop", "recv"} {
					if !want(idx) {
						idx++
						continue
					}
					em.Marker("begin", idx)
					var samples []string
					result := ""
					leaked := bubble(t, func(t *testing.T) {
						l := NewLink(false)
						l.Auto = true
						srv := newEchoServer("srv", &echoImpl{stream: func(kind string, s grpc.ServerStream) error {
							for {
								var m wrapperspb.BytesValue
								if err := s.RecvMsg(&m); err != nil {
									return err
								}
							}
						}})
						sctx, scancel := context.WithCancel(context.Background())
						defer scancel()
						go srv.Serve(sctx, l.S)
						fault := &bodyFaultRW{Endpoint: l.C}
						fault.nfault.Store(int64(ev % len(bodyFaultErrs)))
						goat.VerifResetTracking()
						cc := goat.NewClientConn(fault, "c1", "srv")
						var armed atomic.Bool
						gate := make(chan struct{})
						verifhook.SetYield(func(pt string) {
							if pt == "cs.teardown.mid" && armed.CompareAndSwap(true, false) {
								<-gate
							}
						})
						defer verifhook.SetYield(nil)
						sample := func(inflight int) {
							synctest.Wait()
							_, loops := clCensus()
							srvN := -1
							if cs := goat.VerifServerStreamCounts(); len(cs) == 1 {
								srvN = cs[0]
							}
							samples = append(samples, fmt.Sprintf("(%d, %s, %d, %d, %s)", cc.VerifNumHandlers(), coqZ(int64(loops)), inflight, inflight, coqZ(int64(srvN))))
						}
						desc := map[string]*grpc.StreamDesc{"Bidi": descBidi, "CStream": descCStream, "SStream": descSStream}[kind]
						cs, err := cc.NewStream(context.Background(), desc, "/verif.Echo/"+kind)
						if err != nil {
							t.Errorf("NewStream: %v", err)
							return
						}
						sample(1)
						marshalFails := ev == len(bodyFaultErrs)
						if !marshalFails {
							fault.failNextBody.Store(true)
						}
						armed.Store(park)
						sent := make(chan error, 1)
						go func() {
							if marshalFails {
								// a string field that is not valid UTF-8: proto.Marshal refuses it
								sent <- cs.SendMsg(&wrapperspb.StringValue{Value: "\xff\xfe not utf-8"})
								return
							}
							sent <- cs.SendMsg(&wrapperspb.BytesValue{Value: payloadOf(7)})
						}()
						synctest.Wait() // parked between the two steps of the teardown: the loop goroutine runs to its end first
						close(gate)
						synctest.Wait()
						select {
						case err := <-sent:
							result = "send:" + classOf(err)
						default:
							result = "send:pending"
						}
						if after == "recv" {
							var m wrapperspb.BytesValue
							result += " recv:" + classOf(cs.RecvMsg(&m))
						}
						sample(0)
						scancel()
						l.C.FailRead(io.EOF)
						l.S.FailRead(io.EOF)
						synctest.Wait()
					})
					tags := []string{"kind:" + kind, fmt.Sprintf("sender-parked-mid-teardown=%v", park), fmt.Sprintf("write-error=%d", ev), "then:" + after, "result:" + result}
					if leaked {
						tags = append(tags, "leaked-at-end")
					}
					em.Emit(Rec{Idx: idx, Kind: "c14-sendfail", Desc: map[string]any{"kind": kind, "park": park, "result": result, "samples": samples},
						Tags: tags, Coq: "C14Long " + coqList(samples)})
					em.Marker("end", idx)
					idx++
				}
			}
		}
	}
}

// ---------------------------------------------------------------- C13: the connection fails under many outstanding calls

// TestC13Crash: free-running (real goroutines, GOMAXPROCS 16, no bubble): a fresh connection with 100 / 400 unary calls
// (and, every other round, 16 streams in RecvMsg) outstanding - every request is on the wire -, then the transport's Read
// fails: all the woken calls unregister at once while the failure path walks the registry. 30 rounds. A crash of the
// process (fatal "concurrent map writes", close of a closed channel, a panic) is attributed by ./check to the round whose
// begin marker is open and is a failing input; otherwise every call must have returned an error (C13Surplus: reason 6 for
// a call still pending after 20 s, 5 for a fabricated success), and calls started afterwards fail too.
func TestC13Crash(t *testing.T) {
	em := NewEmitter()
	defer em.Close()
	old := runtime.GOMAXPROCS(16)
	defer runtime.GOMAXPROCS(old)
	rounds := 30
	if thorough() {
		rounds = 120
	}
	for idx := 0; idx < rounds; idx++ {
		if !want(idx) {
			continue
		}
		n := []int{100, 400}[idx%2]
		nstreams := 0
		if idx%4 >= 2 {
			nstreams = 16
		}
		em.Marker("begin", idx)
		ep := NewEndpoint("client")
		cc := goat.NewClientConn(ep, "src", "dst")
		got := make([]atomic.Int64, n+nstreams+20)
		for i := range got {
			got[i].Store(-2)
		}
		var wg sync.WaitGroup
		for i := 0; i < n; i++ {
			wg.Add(1)
			go func(i int) {
				defer wg.Done()
				var out wrapperspb.BytesValue
				if err := cc.Invoke(context.Background(), "/verif.Echo/Unary", &wrapperspb.BytesValue{Value: payloadOf(int64(1 + i))}, &out); err != nil {
					got[i].Store(-3)
				} else {
					got[i].Store(tokenOf(out.Value))
				}
			}(i)
		}
		for i := 0; i < nstreams; i++ {
			wg.Add(1)
			go func(i int) {
				defer wg.Done()
				cs, err := cc.NewStream(context.Background(), descBidi, "/verif.Echo/Bidi")
				if err != nil {
					got[n+i].Store(-3)
					return
				}
				var m wrapperspb.BytesValue
				if err := cs.RecvMsg(&m); err != nil {
					got[n+i].Store(-3)
				} else {
					got[n+i].Store(tokenOf(m.Value))
				}
			}(i)
		}
		// every request is on the wire
		deadline := time.Now().Add(20 * time.Second)
		for len(ep.WrittenCopy()) < n+nstreams && time.Now().Before(deadline) {
			time.Sleep(200 * time.Microsecond)
		}
		onWire := len(ep.WrittenCopy())
		ep.FailRead(errInjected)
		done := make(chan struct{})
		go func() { wg.Wait(); close(done) }()
		select {
		case <-done:
		case <-time.After(20 * time.Second):
		}
		// calls started after the failure
		var wg2 sync.WaitGroup
		for i := 0; i < 20; i++ {
			wg2.Add(1)
			go func(i int) {
				defer wg2.Done()
				ctx, cancel := context.WithTimeout(context.Background(), 20*time.Second)
				defer cancel()
				var out wrapperspb.BytesValue
				if err := cc.Invoke(ctx, "/verif.Echo/Unary", &wrapperspb.BytesValue{Value: payloadOf(int64(900 + i))}, &out); err != nil {
					if ctx.Err() == nil {
						got[n+nstreams+i].Store(-3)
					}
				} else {
					got[n+nstreams+i].Store(tokenOf(out.Value))
				}
			}(i)
		}
		wg2.Wait()
		var res []string
		pending := 0
		for i := range got {
			v := got[i].Load()
			if v == -2 {
				pending++
			}
			res = append(res, fmt.Sprintf("(%d, %s, 0)", 1+i, coqZ(v)))
		}
		em.Emit(Rec{Idx: idx, Kind: "c13-crash", Desc: map[string]any{"unary": n, "streams": nstreams, "on_wire": onWire, "pending": pending},
			Tags: []string{fmt.Sprintf("outstanding=%d", n), fmt.Sprintf("streams=%d", nstreams), fmt.Sprintf("all-on-the-wire=%v", onWire == n+nstreams), "free-running"},
			Coq:  "C13Surplus " + coqList(res)})
		em.Marker("end", idx)
	}
}

// ---------------------------------------------------------------- C05: client interceptors that invoke more than once

// TestC05Retry: a client built WithUnaryInterceptor / WithStreamInterceptor whose interceptor calls its invoker /
// streamer TWICE (retry after a per-attempt deadline or cancellation with attempt 1's reply still outstanding; or both
// attempts at once: hedging), each attempt with its own payload. In a bubble against a scripted peer that answers every
// request under the request's id with token + 1, the late answer to the abandoned attempt before or after the answer to
// the second one. Judged as a free history (C05Free): two calls, two distinct ids on the wire (reason 2) and every
// attempt that reports success reports the reply to ITS OWN request (reason 9).
func TestC05Retry(t *testing.T) {
	em := NewEmitter()
	defer em.Close()
	idx := 0
	for _, kind := range []string{"unary", "stream"} {
		for _, mode := range []string{"retry-cancel", "retry-deadline", "hedge"} {
			for _, lateFirst := range []bool{true, false} {
				if !want(idx) {
					idx++
					continue
				}
				em.Marker("begin", idx)
				var ids []uint64
				var pairs [][2]int64
				leaked := bubble(t, func(t *testing.T) {
					ep := NewEndpoint("client")
					abandon := make(chan struct{})
					type att struct {
						tok int64
						got atomic.Int64
					}
					a1, a2 := &att{tok: 7001}, &att{tok: 7002}
					a1.got.Store(-2)
					a2.got.Store(-2)
					attemptCtx := func(ctx context.Context) (context.Context, context.CancelFunc) {
						if mode == "retry-deadline" {
							return context.WithTimeout(ctx, time.Second)
						}
						return context.WithCancel(ctx)
					}
					unaryI := func(ctx context.Context, method string, req, reply any, _ *grpc.ClientConn, invoker grpc.UnaryInvoker, opts ...grpc.CallOption) error {
						one := func(ctx context.Context, a *att) error {
							var out wrapperspb.BytesValue
							err := invoker(ctx, method, &wrapperspb.BytesValue{Value: payloadOf(a.tok)}, &out, nil, opts...)
							if err != nil {
								a.got.Store(-3)
							} else {
								a.got.Store(tokenOf(out.Value))
							}
							return err
						}
						ctx1, cancel1 := attemptCtx(ctx)
						defer cancel1()
						d1 := make(chan error, 1)
						go func() { d1 <- one(ctx1, a1) }()
						if mode == "hedge" {
							e2 := one(ctx, a2)
							<-d1
							return e2
						}
						<-abandon
						cancel1()
						<-d1
						return one(ctx, a2)
					}
					var s1, s2 grpc.ClientStream
					streamI := func(ctx context.Context, desc *grpc.StreamDesc, _ *grpc.ClientConn, method string, streamer grpc.Streamer, opts ...grpc.CallOption) (grpc.ClientStream, error) {
						ctx1, cancel1 := attemptCtx(ctx)
						_ = cancel1
						var err error
						s1, err = streamer(ctx1, desc, nil, method, opts...)
						if err != nil {
							return nil, err
						}
						if mode != "hedge" {
							<-abandon
							cancel1()
						}
						s2, err = streamer(ctx, desc, nil, method, opts...)
						return s2, err
					}
					cc := goat.NewClientConn(ep, "src", "dst", goat.WithUnaryInterceptor(unaryI), goat.WithStreamInterceptor(streamI))
					reply := func(id uint64, method string, tok int64, final bool) *Rpc {
						b, _ := proto.Marshal(&wrapperspb.BytesValue{Value: payloadOf(tok)})
						r := &Rpc{Id: id, Header: hdr(method, "dst", "src"), Body: &goatorepo.Body{Data: b}}
						if final {
							r.Trailer = &goatorepo.Trailer{}
						}
						return r
					}
					firsts := func() []*Rpc { // first envelopes of calls: requests and openers
						var out []*Rpc
						for _, w := range ep.WrittenCopy() {
							if w.Reset_ == nil && w.Trailer == nil {
								out = append(out, w)
							}
						}
						return out
					}
					step := func() {
						synctest.Wait()
						if mode == "retry-deadline" {
							time.Sleep(2 * time.Second)
							synctest.Wait()
						}
					}
					ctx, cancel := context.WithCancel(context.Background())
					defer func() {
						cancel()
						ep.FailRead(errInjected)
						synctest.Wait()
					}()
					if kind == "unary" {
						go func() {
							var out wrapperspb.BytesValue
							cc.Invoke(ctx, "/verif.Echo/Unary", &wrapperspb.BytesValue{Value: payloadOf(1)}, &out)
						}()
						synctest.Wait()
						if mode != "hedge" {
							step()
							close(abandon)
							synctest.Wait()
						}
						fs := firsts()
						for _, w := range fs {
							ids = append(ids, w.Id)
						}
						if len(fs) == 2 {
							order := []int{0, 1}
							if !lateFirst {
								order = []int{1, 0}
							}
							for _, i := range order {
								ep.Deliver(reply(fs[i].Id, "/verif.Echo/Unary", reqToken(fs[i])+1, true))
								synctest.Wait()
							}
						}
						for _, a := range []*att{a1, a2} {
							if g := a.got.Load(); g >= 0 || a == a2 {
								pairs = append(pairs, [2]int64{a.tok, g})
							}
						}
						return
					}
					opened := make(chan struct{})
					go func() {
						cc.NewStream(ctx, descBidi, "/verif.Echo/Bidi")
						close(opened)
					}()
					synctest.Wait()
					if mode != "hedge" {
						step()
						close(abandon)
						synctest.Wait()
					}
					fs := firsts()
					for _, w := range fs {
						ids = append(ids, w.Id)
					}
					if len(fs) == 2 && s2 != nil {
						// the peer's messages: 8001 for attempt 1 (late for a retry), 8002 for attempt 2
						order := []int{0, 1}
						if !lateFirst {
							order = []int{1, 0}
						}
						for _, i := range order {
							ep.Deliver(reply(fs[i].Id, "/verif.Echo/Bidi", int64(8001+i), false))
							synctest.Wait()
						}
						recv := func(s grpc.ClientStream) int64 {
							var got atomic.Int64
							got.Store(-2)
							go func() {
								var m wrapperspb.BytesValue
								if err := s.RecvMsg(&m); err != nil {
									got.Store(-3)
								} else {
									got.Store(tokenOf(m.Value))
								}
							}()
							synctest.Wait()
							return got.Load()
						}
						// what a stream receives must be what was sent under ITS id: expressed as (own token - 1, got)
						pairs = append(pairs, [2]int64{8001, recv(s2)})
						if mode == "hedge" && s1 != nil {
							pairs = append(pairs, [2]int64{8000, recv(s1)})
						}
					} else {
						pairs = append(pairs, [2]int64{8001, -2})
					}
				})
				sort.Slice(ids, func(a, b int) bool { return ids[a] < ids[b] })
				var sids, ps []string
				for _, v := range ids {
					sids = append(sids, coqU(v)) // duplicates kept: two calls under one id are not "increasing"
				}
				for _, p := range pairs {
					ps = append(ps, fmt.Sprintf("(%d, %s)", p[0], coqZ(p[1])))
				}
				tags := []string{"interceptor-invokes-twice", "kind:" + kind, "mode:" + mode, fmt.Sprintf("late-reply-first=%v", lateFirst)}
				if leaked {
					tags = append(tags, "leaked-at-end")
				}
				em.Emit(Rec{Idx: idx, Kind: "c05-retry", Desc: map[string]any{"kind": kind, "mode": mode, "late_first": lateFirst, "ids": ids, "pairs": pairs},
					Tags: tags, Coq: fmt.Sprintf("C05Free 2 %s %s", coqList(sids), coqList(ps))})
				em.Marker("end", idx)
				idx++
			}
		}
	}
}

// ---------------------------------------------------------------- C09: RpcMultiplexer.Close() around the read failure

// TestC09MuxClose: the multiplexer driven through its own API (internal/client, as the repository's tests do): the
// transport's Read fails and RpcMultiplexer.Close() is called - before the failure, after it, twice - then new calls
// (CallUnaryMethod, NewStreamReadWriter + Read) are started: once the read has failed every new call must fail, at once,
// whatever Close() did in between; none may stay pending, none may succeed (C09Storm: reasons 6, 5).
func TestC09MuxClose(t *testing.T) {
	em := NewEmitter()
	defer em.Close()
	idx := 0
	for _, order := range []string{"fail,close", "close,fail", "fail,close,close", "fail", "close,fail,close"} {
		for _, inflight := range []bool{false, true} {
			if !want(idx) {
				idx++
				continue
			}
			em.Marker("begin", idx)
			pending, succ, n := 0, 0, 0
			leaked := bubble(t, func(t *testing.T) {
				ep := NewEndpoint("client")
				ep.CheckCtx = true
				mux := client.NewRpcMultiplexer(ep)
				h := hdr("/verif.Echo/Unary", "src", "dst")
				body := func(tok int64) *goatorepo.Body {
					b, _ := proto.Marshal(&wrapperspb.BytesValue{Value: payloadOf(tok)})
					return &goatorepo.Body{Data: b}
				}
				ctx, cancel := context.WithCancel(context.Background())
				defer func() {
					cancel()
					ep.FailRead(errInjected)
					synctest.Wait()
				}()
				type res struct {
					done atomic.Bool
					ok   atomic.Bool
				}
				var all []*res
				unary := func(tok int64) {
					r := &res{}
					all = append(all, r)
					go func() {
						_, err := mux.CallUnaryMethod(ctx, h, body(tok), nil)
						r.ok.Store(err == nil)
						r.done.Store(true)
					}()
				}
				stream := func() {
					r := &res{}
					all = append(all, r)
					go func() {
						_, rw, teardown, err := mux.NewStreamReadWriter(ctx)
						if err == nil {
							defer teardown()
							if err = rw.Write(ctx, &Rpc{Id: 99, Header: hdr("/verif.Echo/Bidi", "src", "dst")}); err == nil {
								_, err = rw.Read(ctx)
							}
						}
						r.ok.Store(err == nil)
						r.done.Store(true)
					}()
				}
				if inflight {
					unary(1)
					stream()
					synctest.Wait()
				}
				for _, st := range strings.Split(order, ",") {
					if st == "fail" {
						ep.FailRead(errInjected)
					} else {
						mux.Close()
					}
					synctest.Wait()
				}
				// calls started after the failure (the write side still accepts)
				unary(2)
				synctest.Wait()
				stream()
				synctest.Wait()
				unary(3)
				synctest.Wait()
				n = len(all)
				for _, r := range all {
					if !r.done.Load() {
						pending++
					} else if r.ok.Load() {
						succ++
					}
				}
			})
			tags := []string{"mux-close:" + order, fmt.Sprintf("calls-in-flight=%v", inflight)}
			if leaked {
				tags = append(tags, "leaked-at-end")
			}
			em.Emit(Rec{Idx: idx, Kind: "c09-mux-close", Desc: map[string]any{"order": order, "inflight": inflight, "calls": n, "pending": pending, "succeeded": succ},
				Tags: tags, Coq: fmt.Sprintf("C09Storm %d %d %d", n, pending, succ)})
			em.Marker("end", idx)
			idx++
		}
	}
}

// ---------------------------------------------------------------- C09: a stalled transport Write and the other writers

// TestC09WriteStall: free-running, real time (a goroutine waiting for a mutex never lets a bubble settle): the transport
// stalls (Write blocks, honouring its context); call A's Write is parked in it; calls B (unary / stream open, each with
// its OWN 300 ms deadline) are started - their Writes wait behind the stall, each under its own context -; the read
// fails. Every B must return by its deadline (within 5 s), whatever holds A (C09Storm: reason 6 for a B still pending).
func TestC09WriteStall(t *testing.T) {
	em := NewEmitter()
	defer em.Close()
	idx := 0
	for _, nb := range []int{1, 3} {
		for _, kind := range []string{"unary", "stream", "mixed"} {
			for _, failFirst := range []bool{false, true} {
				if !want(idx) {
					idx++
					continue
				}
				em.Marker("begin", idx)
				ep := NewEndpoint("client")
				cc := goat.NewClientConn(ep, "src", "dst")
				ep.BlockWrites()
				actx, acancel := context.WithCancel(context.Background())
				go func() {
					var out wrapperspb.BytesValue
					cc.Invoke(actx, "/verif.Echo/Unary", &wrapperspb.BytesValue{Value: payloadOf(1)}, &out)
				}()
				for dl := time.Now().Add(5 * time.Second); ep.NumBlockedWrites() < 1 && time.Now().Before(dl); {
					time.Sleep(time.Millisecond)
				}
				if failFirst {
					ep.FailRead(errInjected)
					time.Sleep(20 * time.Millisecond)
				}
				var wg sync.WaitGroup
				var succ atomic.Int64
				for i := 0; i < nb; i++ {
					wg.Add(1)
					go func(i int) {
						defer wg.Done()
						ctx, cancel := context.WithTimeout(context.Background(), 300*time.Millisecond)
						defer cancel()
						var err error
						if kind == "unary" || (kind == "mixed" && i%2 == 0) {
							var out wrapperspb.BytesValue
							err = cc.Invoke(ctx, "/verif.Echo/Unary", &wrapperspb.BytesValue{Value: payloadOf(int64(2 + i))}, &out)
						} else {
							_, err = cc.NewStream(ctx, descBidi, "/verif.Echo/Bidi")
						}
						if err == nil {
							succ.Add(1)
						}
					}(i)
				}
				time.Sleep(50 * time.Millisecond)
				if !failFirst {
					ep.FailRead(errInjected)
				}
				done := make(chan struct{})
				go func() { wg.Wait(); close(done) }()
				pending := 0
				select {
				case <-done:
				case <-time.After(5 * time.Second):
					pending = nb // at least one; the record says "some B is still pending 5 s after its 300 ms deadline"
				}
				acancel()
				ep.UnblockWrites()
				em.Emit(Rec{Idx: idx, Kind: "c09-write-stall", Desc: map[string]any{"b_calls": nb, "kind": kind, "fail_first": failFirst, "pending": pending, "succeeded": succ.Load()},
					Tags: []string{fmt.Sprintf("writers-behind-the-stall=%d", nb), "kind:" + kind, fmt.Sprintf("read-failed-first=%v", failFirst), "free-running"},
					Coq:  fmt.Sprintf("C09Storm %d %d %d", nb, pending, succ.Load())})
				em.Marker("end", idx)
				idx++
			}
		}
	}
}

// ---------------------------------------------------------------- C13: RecvMsg into ONE reused message object

// TestC13Reuse: a stream whose caller receives every message into the SAME message object (the usual `var m T; for {
// stream.RecvMsg(&m) }`), the peer mixing zero-byte payloads (the empty message) with ordinary ones: after every
// RecvMsg the object must hold exactly the message just received - an empty payload is the empty message, not the
// previous one. Judged as C13Surplus: (token sent, token the object holds after the RecvMsg, 1).
func TestC13Reuse(t *testing.T) {
	em := NewEmitter()
	defer em.Close()
	idx := 0
	for _, pattern := range [][]int64{{5, 0}, {5, 0, 6}, {0, 5, 0, 0, 7}, {5, 6, 0}, {0}, {5, 0, 0}} {
		for _, nilBody := range []bool{false, true} {
			if !want(idx) {
				idx++
				continue
			}
			em.Marker("begin", idx)
			var res []string
			leaked := bubble(t, func(t *testing.T) {
				ep := NewEndpoint("client")
				cc := goat.NewClientConn(ep, "src", "dst")
				cs, err := cc.NewStream(context.Background(), descBidi, "/verif.Echo/Bidi")
				if err != nil {
					t.Errorf("open: %v", err)
					return
				}
				synctest.Wait()
				id := ep.WrittenCopy()[0].Id
				var m wrapperspb.BytesValue // ONE object for all messages
				for _, tok := range pattern {
					var data []byte
					if tok != 0 {
						data, _ = proto.Marshal(&wrapperspb.BytesValue{Value: payloadOf(tok)})
					} else if !nilBody {
						data = []byte{}
					}
					ep.Deliver(&Rpc{Id: id, Header: hdr("/verif.Echo/Bidi", "dst", "src"), Body: &goatorepo.Body{Data: data}})
					synctest.Wait()
					got := int64(-2)
					var done atomic.Bool
					go func() {
						if err := cs.RecvMsg(&m); err != nil {
							got = -3
						} else {
							got = tokenOf(m.Value)
						}
						done.Store(true)
					}()
					synctest.Wait()
					if !done.Load() {
						got = -2
					}
					// the expected token: an empty payload is the empty message (token 0); own = got is required, so own is
					// encoded as the token itself and an empty message as 0
					res = append(res, fmt.Sprintf("(%d, %s, 1)", tok, coqZ(got)))
				}
				ep.FailRead(errInjected)
				synctest.Wait()
			})
			tags := []string{fmt.Sprintf("pattern=%v", pattern), fmt.Sprintf("empty-as-nil-data=%v", nilBody), "one-reused-message-object"}
			if leaked {
				tags = append(tags, "leaked-at-end")
			}
			em.Emit(Rec{Idx: idx, Kind: "c13-reuse", Desc: map[string]any{"pattern": pattern, "results": res}, Tags: tags, Coq: "C13Surplus " + coqList(res)})
			em.Marker("end", idx)
			idx++
		}
	}
}

//go:build st

package verifharness

import (
	"context"
	"fmt"
	"io"
	"math/rand"
	"strings"
	"sync"
	"testing"
	"testing/synctest"
	"time"

	goat "github.com/avos-io/goat"
	"github.com/avos-io/goat/gen/goatorepo"
	"github.com/avos-io/goat/internal"
	"google.golang.org/grpc"
	"google.golang.org/grpc/codes"
	"google.golang.org/grpc/metadata"
	"google.golang.org/grpc/stats"
	"google.golang.org/grpc/status"
	"google.golang.org/protobuf/types/known/wrapperspb"
)

// End-to-end half of C04: metadata through whole RPCs (real client - Link -
// real server in bubbles), compared with Model/MetaSys.v.

// a pool of keys with pairwise distinct lower-cased forms (collisions after
// lower-casing are the codec rig's subject: their order depends on Go's map
// iteration)
func c04KeyPool(r *rand.Rand, n int) []string {
	seen := map[string]bool{"grpc-timeout": true}
	var pool []string
	for len(pool) < n {
		k := randKey(r, r.Intn(3) == 0)
		lk := strings.ToLower(k)
		if seen[lk] {
			continue
		}
		seen[lk] = true
		pool = append(pool, k)
	}
	return pool
}

// binary values: the special ones of the codec rig; long ones rarely (the Coq side decodes every value)
func c04BinValue(r *rand.Rand) string {
	for {
		v := randBinValue(r)
		if len(v) < 64 || r.Intn(25) == 0 {
			return v
		}
	}
}

func c04MDFrom(r *rand.Rand, pool []string, maxKeys int) metadata.MD {
	md := metadata.MD{}
	if len(pool) == 0 {
		return md
	}
	n := r.Intn(maxKeys + 1)
	for i := 0; i < n; i++ {
		k := pool[r.Intn(len(pool))]
		bin := strings.HasSuffix(strings.ToLower(k), "-bin")
		nv := 1 + r.Intn(4)
		for j := 0; j < nv; j++ {
			if bin {
				md[k] = append(md[k], c04BinValue(r))
			} else {
				md[k] = append(md[k], randTextValue(r))
			}
		}
	}
	return md
}

func coqMDs(mds []metadata.MD) string {
	var t []string
	for _, m := range mds {
		t = append(t, coqMD(m))
	}
	return coqList(t)
}

func orderTerms(kvs []*goatorepo.KeyValue) string {
	var t []string
	for _, k := range keyOrder(kvs) {
		t = append(t, coqStr(k))
	}
	return coqList(t)
}

// captures the client-side InHeader event (the only place a unary caller sees response headers)
type inHeaderStats struct {
	mu sync.Mutex
	md metadata.MD
	n  int
}

func (s *inHeaderStats) TagRPC(ctx context.Context, _ *stats.RPCTagInfo) context.Context { return ctx }
func (s *inHeaderStats) HandleRPC(ctx context.Context, ev stats.RPCStats) {
	if e, ok := ev.(*stats.InHeader); ok {
		s.mu.Lock()
		s.md = e.Header.Copy()
		s.n++
		s.mu.Unlock()
	}
}
func (s *inHeaderStats) TagConn(ctx context.Context, _ *stats.ConnTagInfo) context.Context {
	return ctx
}
func (s *inHeaderStats) HandleConn(context.Context, stats.ConnStats) {}

type c04Op struct {
	kind string // SetHeader SendHeader SetTrailer SendMsg
	md   metadata.MD
}

type c04Scenario struct {
	k        c08Kind
	ctxMD    metadata.MD // attached with metadata.NewOutgoingContext
	icPairs  []string    // appended by a client interceptor (key, value, ...)
	deadline bool
	ops      []c04Op
	viaGrpc  bool // streams: grpc.SetHeader(ctx, ..) instead of the stream's own methods
	fail     bool // handler returns an error
	serveMD  int  // the context given to Serve: 0 plain, 1 carries incoming metadata (disjoint keys), 2 (keys of the call)
}

func TestC04Sys(t *testing.T) {
	em := NewEmitter()
	defer em.Close()
	r := newRand(404)
	idx := 0
	n := 180
	if thorough() {
		n = 2500
	}
	var scs []c04Scenario
	for i := 0; i < n; i++ {
		sc := c04Scenario{k: c08Kinds[i%4], deadline: r.Intn(2) == 0, viaGrpc: r.Intn(2) == 0, fail: r.Intn(3) == 0}
		maxKeys := []int{0, 2, 6, 16}[r.Intn(4)]
		pool := c04KeyPool(r, maxKeys)
		sc.ctxMD = c04MDFrom(r, pool, maxKeys)
		if r.Intn(3) == 0 {
			// every key of the pool: exactly maxKeys distinct keys (16 at the upper end of the property's range)
			sc.ctxMD = metadata.MD{}
			for _, k := range pool {
				if strings.HasSuffix(strings.ToLower(k), "-bin") {
					sc.ctxMD[k] = append(sc.ctxMD[k], c04BinValue(r))
				} else {
					sc.ctxMD[k] = append(sc.ctxMD[k], randTextValue(r))
				}
			}
		} else if r.Intn(3) == 0 {
			sc.ctxMD = nil // nothing attached through the context
		}
		if r.Intn(2) == 0 && len(pool) > 0 {
			for j := 0; j < 1+r.Intn(4); j++ {
				k := pool[r.Intn(len(pool))]
				v := randTextValue(r)
				if strings.HasSuffix(strings.ToLower(k), "-bin") {
					v = c04BinValue(r)
				}
				sc.icPairs = append(sc.icPairs, k, v)
			}
		}
		rpool := c04KeyPool(r, 1+r.Intn(6))
		nops := r.Intn(6)
		kinds := []string{"SetHeader", "SendHeader", "SetTrailer", "SendMsg", "SendMsgBad"}
		if !sc.k.stream {
			kinds = kinds[:3]
		}
		for j := 0; j < nops; j++ {
			sc.ops = append(sc.ops, c04Op{kind: kinds[r.Intn(len(kinds))], md: c04MDFrom(r, rpool, 4)})
		}
		scs = append(scs, sc)
	}
	// the three ways headers leave, on nil and on error return, for every kind (fixed scenarios)
	for _, k := range c08Kinds {
		for _, fail := range []bool{false, true} {
			for _, via := range []bool{false, true} {
				h1 := metadata.MD{"Trace-Bin": {"\x00\xff", ""}, "x-a": {"1", "2"}}
				h2 := metadata.MD{"Trace-Bin": {"\xfb\xff\xbf"}, "X-B": {"b"}}
				tr := metadata.MD{"Sum-BIN": {"\x00"}, "t": {"x", "y", "z"}}
				scs = append(scs, c04Scenario{k: k, fail: fail, viaGrpc: via, ops: []c04Op{{"SetHeader", h1}, {"SetHeader", h2}, {"SetTrailer", tr}, {"SetTrailer", h2}}})
				scs = append(scs, c04Scenario{k: k, fail: fail, viaGrpc: via, ops: []c04Op{{"SetHeader", h1}, {"SendHeader", h2}, {"SetHeader", tr}, {"SetTrailer", tr}}})
				if k.stream {
					scs = append(scs, c04Scenario{k: k, fail: fail, viaGrpc: via, ops: []c04Op{{"SetHeader", h1}, {"SetHeader", h2}, {"SendMsg", nil}, {"SetHeader", tr}, {"SendMsg", nil}, {"SetTrailer", tr}}})
					// the first send is rejected by the codec: the headers leave with the second one / with the status
					scs = append(scs, c04Scenario{k: k, fail: fail, viaGrpc: via, ops: []c04Op{{"SetHeader", h1}, {"SendMsgBad", nil}, {"SetHeader", h2}, {"SendMsg", nil}, {"SetTrailer", tr}}})
					scs = append(scs, c04Scenario{k: k, fail: fail, viaGrpc: via, ops: []c04Op{{"SetHeader", h1}, {"SendMsgBad", nil}, {"SetTrailer", tr}}})
				}
			}
		}
	}

	// input classes at the edges: keys from the ends of the alphabet and degenerate -bin spellings, a key without
	// values, more than 12 values under one key, keys that differ only by letter case across calls, zero-byte values
	edgeKeys := metadata.MD{"-": {"a"}, "_": {"b"}, ".": {"c"}, "0": {"d"}, "z": {"e"}, "Z9._-": {"f"}, "-bin": {"\x00"}, "-BIN-": {"not binary"},
		"bin": {"g"}, "x-bin-bin": {"", "\xff"}, "empty-values": {}, "empty-string": {""}}
	many := metadata.MD{"many": {}, "Many-Bin": {}}
	for i := 0; i < 17; i++ {
		many["many"] = append(many["many"], fmt.Sprintf("v%02d", i))
		many["Many-Bin"] = append(many["Many-Bin"], string([]byte{byte(i), 0, 255}))
	}
	for _, k := range c08Kinds {
		for _, fail := range []bool{false, true} {
			scs = append(scs, c04Scenario{k: k, fail: fail, ctxMD: edgeKeys, ops: []c04Op{{"SetHeader", edgeKeys}, {"SetTrailer", edgeKeys}, {"SetTrailer", many}, {"SetHeader", many}}})
			scs = append(scs, c04Scenario{k: k, fail: fail, ctxMD: many, deadline: true, viaGrpc: true, ops: []c04Op{{"SetHeader", many}, {"SetHeader", many}, {"SetTrailer", many}}})
			// the same key in two letter cases across calls (joined map has both spellings)
			scs = append(scs, c04Scenario{k: k, fail: fail, ops: []c04Op{{"SetHeader", metadata.MD{"Case-Key": {"1", "2"}, "T-Bin": {"\x01"}}}, {"SetHeader", metadata.MD{"case-key": {"3"}, "t-bin": {"\x02"}}},
				{"SetTrailer", metadata.MD{"TR": {"a"}}}, {"SetTrailer", metadata.MD{"tr": {"b"}}}, {"SetTrailer", metadata.MD{"Tr": {"c"}}}}})
		}
	}

	// aliasing: ONE metadata.MD object (value slices with spare capacity) handed to several Set* calls, then more
	// values for the same key: the header's and the trailer's values must not share storage
	for _, k := range c08Kinds {
		for _, fail := range []bool{false, true} {
			mk := func() metadata.MD {
				vs := make([]string, 3, 4)
				copy(vs, []string{"a", "b", "c"})
				bs := make([]string, 1, 8)
				bs[0] = "\x00\xff"
				return metadata.MD{"shared": vs, "Shared-Bin": bs}
			}
			sh := mk()
			scs = append(scs, c04Scenario{k: k, fail: fail, viaGrpc: true, ops: []c04Op{{"SetHeader", sh}, {"SetTrailer", sh},
				{"SetHeader", metadata.MD{"shared": {"H"}, "Shared-Bin": {"h"}}}, {"SetTrailer", metadata.MD{"shared": {"T"}, "Shared-Bin": {"t"}}}}})
			sh2 := mk()
			scs = append(scs, c04Scenario{k: k, fail: fail, ops: []c04Op{{"SetTrailer", sh2}, {"SetHeader", sh2}, {"SetTrailer", sh2},
				{"SetTrailer", metadata.MD{"shared": {"T"}}}, {"SetHeader", metadata.MD{"shared": {"H"}}}, {"SetHeader", sh2}}})
		}
	}

	// request keys of special classes: the "grpc-" prefix (other than the reserved grpc-timeout), look-alikes and
	// HTTP/2-ish names: whatever the caller attaches reaches the handler
	special := metadata.MD{"grpc-trace-bin": {"\x00\x01\xff"}, "grpc-tags-bin": {"", "\x7f"}, "grpc-foo": {"a", "b"}, "Grpc-Client-App": {"app"},
		"grpcx": {"x"}, "content-type": {"application/grpc+proto"}, "user-agent": {"goat-test/1"}, "te": {"trailers"}, "grpc-status": {"7"}, "grpc-message": {"m"}}
	for _, k := range c08Kinds {
		scs = append(scs, c04Scenario{k: k, ctxMD: special}, c04Scenario{k: k, ctxMD: special, deadline: true, fail: true},
			c04Scenario{k: k, icPairs: []string{"grpc-trace-bin", "\x00\x02", "grpc-foo", "ic", "user-agent", "ua", "grpcx", "y"}},
			c04Scenario{k: k, ctxMD: metadata.MD{"grpc-foo": {"ctx"}}, icPairs: []string{"grpc-foo", "ic", "grpc-tags-bin", "\xff"}, deadline: true})
	}
	// Serve context dimension: every scenario above gets one of the three (by position) ...
	for i := range scs {
		scs[i].serveMD = i % 3
	}
	// ... and calls that attach NOTHING (no metadata, no deadline: an empty request header list) under each
	for _, k := range c08Kinds {
		for sm := 0; sm <= 2; sm++ {
			scs = append(scs, c04Scenario{k: k, serveMD: sm}, c04Scenario{k: k, serveMD: sm, deadline: true},
				c04Scenario{k: k, serveMD: sm, ctxMD: metadata.MD{}}, c04Scenario{k: k, serveMD: sm, ctxMD: metadata.MD{"only": {"v"}}})
		}
	}
	// metadata blocks at size limits: one value such that len(key) + len(encoded value) + 32 is L-1, L, L+1 for
	// L = 4 KiB, 8 KiB, 16 KiB (thorough also 64 KiB once, text only), text and -bin, in the request, the response
	// headers (all three ways they leave) and the trailers
	sized := func(key string, total int) metadata.MD {
		n := total - 32 - len(key)
		if strings.HasSuffix(key, "-bin") {
			raw := make([]byte, n*3/4)
			for i := range raw {
				raw[i] = byte(i*7 + 3)
			}
			return metadata.MD{key: {string(raw)}}
		}
		return metadata.MD{key: {strings.Repeat("x", n)}}
	}
	type lim struct{ l, d int }
	var lims []lim
	// (the Coq side decodes every value: the quick tier keeps to 16 KiB and 16 KiB + 1, text and -bin; the other sizes are thorough's)
	lims = append(lims, lim{16384, 0}, lim{16384, 1})
	if thorough() {
		// (64 KiB once, as text only; 1 MiB is not run: the cases file of the first thorough run with 64 KiB +-1 and 1 MiB
		// values, text and -bin, was 41 MB and did not evaluate within its time)
		lims = append(lims, lim{16384, -1}, lim{4096, -1}, lim{4096, 0}, lim{4096, 1}, lim{8192, -1}, lim{8192, 0}, lim{8192, 1},
			lim{65536, 0})
	}
	for li, lm := range lims {
		for ki, key := range []string{"big", "big-bin"} {
			if key == "big-bin" && lm.l > 16384 {
				continue
			}
			if key == "big-bin" && !thorough() && !(lm.l == 16384 && lm.d == 1) {
				continue // quick tier: one binary value, just above 16 KiB (decoding them in Coq is the cost: ~10 s and 500 MB each)
			}
			md := sized(key, lm.l+lm.d)
			k := c08Kinds[(li+ki)%4]
			flush := [][]c04Op{{{"SetHeader", md}, {"SetTrailer", md}}, {{"SendHeader", md}, {"SetTrailer", md}}, {{"SetHeader", md}, {"SendMsg", nil}, {"SetTrailer", md}}}[(li+ki)%3]
			ops := flush
			if !k.stream {
				ops = []c04Op{{"SetHeader", md}, {"SetTrailer", md}}
			}
			scs = append(scs, c04Scenario{k: k, ctxMD: md, ops: ops, fail: li%2 == 1, serveMD: li % 3})
		}
	}

	for si, sc := range scs {
		if !anyWanted(idx, 5) {
			idx += 5
			continue
		}
		stBegin(em, idx)
		first := idx
		var incoming metadata.MD
		var accH, accT []metadata.MD
		impl := &echoImpl{}
		runOps := func(ctx context.Context, ss grpc.ServerStream) {
			md, _ := metadata.FromIncomingContext(ctx)
			incoming = md.Copy()
			for _, o := range sc.ops {
				var err error
				switch o.kind {
				case "SetHeader":
					if ss != nil && !sc.viaGrpc {
						err = ss.SetHeader(o.md)
					} else {
						err = grpc.SetHeader(ctx, o.md)
					}
					if err == nil {
						accH = append(accH, o.md.Copy())
					}
				case "SendHeader":
					if ss != nil && !sc.viaGrpc {
						err = ss.SendHeader(o.md)
					} else {
						err = grpc.SendHeader(ctx, o.md)
					}
					if err == nil {
						accH = append(accH, o.md.Copy())
					}
				case "SetTrailer":
					if ss != nil && !sc.viaGrpc {
						ss.SetTrailer(o.md)
					} else {
						err = grpc.SetTrailer(ctx, o.md)
					}
					if err == nil {
						accT = append(accT, o.md.Copy())
					}
				case "SendMsg":
					ss.SendMsg(bv([]byte("m")))
				case "SendMsgBad":
					ss.SendMsg("not a protobuf message") // rejected by the codec: nothing is written, nothing is consumed
				}
			}
		}
		herr := func() error {
			if sc.fail {
				return status.Error(codes.FailedPrecondition, "handler failed")
			}
			return nil
		}
		impl.unary = func(ctx context.Context, req []byte) ([]byte, bool, error) {
			runOps(ctx, nil)
			return req, !sc.fail, herr()
		}
		impl.stream = func(kind string, ss grpc.ServerStream) error {
			runOps(ss.Context(), ss)
			return herr()
		}
		ih := &inHeaderStats{}
		dopts := []goat.DialOption{goat.WithStatsHandler(ih)}
		if len(sc.icPairs) > 0 {
			dopts = append(dopts,
				goat.WithUnaryInterceptor(func(ctx context.Context, method string, req, reply any, cc *grpc.ClientConn, invoker grpc.UnaryInvoker, opts ...grpc.CallOption) error {
					return invoker(metadata.AppendToOutgoingContext(ctx, sc.icPairs...), method, req, reply, cc, opts...)
				}),
				goat.WithStreamInterceptor(func(ctx context.Context, desc *grpc.StreamDesc, cc *grpc.ClientConn, method string, streamer grpc.Streamer, opts ...grpc.CallOption) (grpc.ClientStream, error) {
					return streamer(metadata.AppendToOutgoingContext(ctx, sc.icPairs...), desc, cc, method, opts...)
				}))
		}
		var gotH, gotT, apiH, apiT metadata.MD
		var gotHok, gotTok, apiPanicked, apiCalled bool
		var cw, sw []*Rpc
		bubble(t, func(t *testing.T) {
			l := NewLink(false)
			l.Auto = true
			srv := newEchoServer("dst", impl)
			ret := make(chan error, 1)
			// goat tunnelled through an outer gRPC stream: the context given to Serve may itself carry INCOMING
			// metadata; the handler must see exactly what ITS caller attached, none of the outer keys
			serveCtx := context.Background()
			switch sc.serveMD {
			case 1:
				serveCtx = metadata.NewIncomingContext(serveCtx, metadata.MD{"authorization": {"Bearer outer"}, "x-tunnel-id": {"t-1", "t-2"}, "outer-bin": {"\x00\x01"}})
			case 2:
				outer := metadata.MD{"authorization": {"Bearer outer"}}
				for k, vs := range sc.ctxMD {
					outer[strings.ToLower(k)] = append([]string{"outer-value"}, vs...)
				}
				for i := 0; i+1 < len(sc.icPairs); i += 2 {
					outer[strings.ToLower(sc.icPairs[i])] = []string{"outer-value"}
				}
				serveCtx = metadata.NewIncomingContext(serveCtx, outer)
			}
			go func() { ret <- srv.Serve(serveCtx, l.S) }()
			cc := goat.NewClientConn(l.C, "src", "dst", dopts...)
			ctx, cancel := context.WithCancel(context.Background())
			defer cancel()
			if sc.ctxMD != nil {
				ctx = metadata.NewOutgoingContext(ctx, sc.ctxMD)
			}
			if sc.deadline {
				var c2 context.CancelFunc
				ctx, c2 = context.WithTimeout(ctx, 5*time.Second)
				defer c2()
			}
			if !sc.k.stream {
				// what the API offers a unary caller: grpc.Header / grpc.Trailer call options
				func() {
					defer func() {
						if p := recover(); p != nil {
							apiPanicked = true
						}
					}()
					var out wrapperspb.BytesValue
					if cc.Invoke(ctx, sc.k.path, bv([]byte("q")), &out, grpc.Header(&apiH), grpc.Trailer(&apiT)) == nil || true {
						apiCalled = true
					}
				}()
				synctest.Wait()
				incoming, accH, accT = nil, nil, nil
				ih.mu.Lock()
				ih.md, ih.n = nil, 0
				ih.mu.Unlock()
				nBefore := len(l.S.WrittenCopy())
				nBeforeC := len(l.C.WrittenCopy())
				var out wrapperspb.BytesValue
				cc.Invoke(ctx, sc.k.path, bv([]byte("q")), &out)
				cw, sw = l.C.WrittenCopy()[nBeforeC:], l.S.WrittenCopy()[nBefore:]
			} else {
				cs, err := cc.NewStream(ctx, sc.k.desc, sc.k.path)
				if err != nil {
					t.Fatal(err)
				}
				if sc.k.name != "bidi" {
					cs.SendMsg(bv([]byte("q")))
				}
				cs.CloseSend()
				_ = cs.Trailer() // early calls (legal, nothing there yet) must not spoil the later ones
				h, err := cs.Header()
				_ = cs.Trailer()
				for i := 0; i < 8; i++ {
					var m wrapperspb.BytesValue
					if cs.RecvMsg(&m) != nil {
						break
					}
					_ = cs.Trailer() // between messages
					cs.Header()
				}
				h2, err2 := cs.Header() // asked again at the end
				if err == nil && err2 == nil && fmt.Sprint(h) != fmt.Sprint(h2) {
					err = fmt.Errorf("Header() changed between calls")
				}
				gotH, gotHok = h2, err == nil && err2 == nil
				gotT, gotTok = cs.Trailer(), true
			}
			if sc.k.stream {
				cw, sw = l.C.WrittenCopy(), l.S.WrittenCopy()
			}
			cancel()
			stQuiesce(l, ret)
		})
		// ---- request direction
		sent := metadata.MD{}
		for k, vs := range sc.ctxMD {
			sent[k] = append(sent[k], vs...)
		}
		for i := 0; i+1 < len(sc.icPairs); i += 2 {
			// AppendToOutgoingContext pairs are merged under the lower-cased key after the context's map
			k := sc.icPairs[i]
			found := false
			for ek := range sent {
				if strings.ToLower(ek) == strings.ToLower(k) {
					sent[ek] = append(sent[ek], sc.icPairs[i+1])
					found = true
				}
			}
			if !found {
				sent[k] = append(sent[k], sc.icPairs[i+1])
			}
		}
		wire := cw[0].GetHeader().GetHeaders()
		tmo := "None"
		mdPart := wire
		if sc.deadline && len(wire) > 0 {
			tmo = "(Some " + coqStr(wire[len(wire)-1].Value) + ")"
			mdPart = wire[:len(wire)-1]
		}
		how := "none"
		switch {
		case sc.ctxMD != nil && len(sc.icPairs) > 0:
			how = "context+interceptor"
		case sc.ctxMD != nil:
			how = "context"
		case len(sc.icPairs) > 0:
			how = "interceptor"
		}
		tags := []string{"sys:kind=" + sc.k.name, "sys:request-md=" + how, fmt.Sprintf("sys:deadline=%v", sc.deadline), fmt.Sprintf("sys:reqkeys<=%d", (len(sent)+3)/4*4)}
		desc := map[string]any{"i": si, "kind": sc.k.name, "ctx": sc.ctxMD, "ic": sc.icPairs, "deadline": sc.deadline}
		if want(idx) {
			em.Emit(Rec{Idx: idx, Kind: "sys-request", Desc: desc, Tags: tags,
				Coq: fmt.Sprintf("CSysReq %s %s %s %s %s", coqMD(sent), orderTerms(mdPart), tmo, coqKVs(wire), coqMD(incoming))})
		}
		idx++
		// ---- response direction
		var hdrWire, trlWire []*goatorepo.KeyValue
		later := false
		for i, e := range sw {
			if i == 0 {
				hdrWire = e.GetHeader().GetHeaders()
			} else if len(e.GetHeader().GetHeaders()) > 0 {
				later = true
			}
			if e.GetTrailer() != nil && e.GetReset_() == nil && e.GetStatus() != nil || (!sc.k.stream && e.GetTrailer() != nil) {
				// the RPC's own final envelope (a reset for a late client message also carries an empty trailer)
				trlWire = e.GetTrailer().GetMetadata()
			}
		}
		if !sc.k.stream {
			ih.mu.Lock()
			gotH, gotHok = ih.md, ih.n == 1
			ih.mu.Unlock()
			md, err := internal.ToMetadata(trlWire) // a unary caller has no accessor: the wire list, decoded
			gotT, gotTok = md, err == nil
		}
		var opNames []string
		flush := "with-status"
		for _, o := range sc.ops {
			opNames = append(opNames, o.kind)
		}
		for _, o := range sc.ops {
			if o.kind == "SendHeader" {
				flush = "SendHeader"
				break
			}
			if o.kind == "SendMsgBad" {
				flush = "after-a-rejected-send"
				break
			}
			if o.kind == "SendMsg" {
				flush = "with-first-message"
				break
			}
		}
		rtags := []string{"sys:kind=" + sc.k.name, "sys:headers-leave=" + flush, fmt.Sprintf("sys:handler-fails=%v", sc.fail), fmt.Sprintf("sys:via-grpc-pkg=%v", sc.viaGrpc || !sc.k.stream)}
		rdesc := map[string]any{"i": si, "kind": sc.k.name, "ops": opNames, "fail": sc.fail, "via": sc.viaGrpc}
		if want(idx) {
			em.Emit(Rec{Idx: idx, Kind: "sys-header", Desc: rdesc, Tags: append(rtags, fmt.Sprintf("sys:header-maps=%d", len(accH))),
				Coq: fmt.Sprintf("CSysResp 0 %s %s %s %s %s", coqMDs(accH), orderTerms(hdrWire), coqKVs(hdrWire), coqBool(later), coqOpt(gotHok, coqMD(gotH)))})
		}
		idx++
		if want(idx) {
			em.Emit(Rec{Idx: idx, Kind: "sys-trailer", Desc: rdesc, Tags: append(rtags, fmt.Sprintf("sys:trailer-maps=%d", len(accT))),
				Coq: fmt.Sprintf("CSysResp 1 %s %s %s false %s", coqMDs(accT), orderTerms(trlWire), coqKVs(trlWire), coqOpt(gotTok, coqMD(gotT)))})
		}
		idx++
		// ---- unary: what the caller's API delivers (finding unary-response-metadata-no-accessor)
		if !sc.k.stream {
			for which, wl := range [][]*goatorepo.KeyValue{hdrWire, trlWire} {
				if want(idx + which) {
					api := apiH
					if which == 1 {
						api = apiT
					}
					atags := []string{"sys:kind=unary", fmt.Sprintf("api:panicked=%v", apiPanicked), fmt.Sprintf("api:wire-has-metadata=%v", len(wl) > 0), fmt.Sprintf("api:which=%d", which)}
					if len(wl) > 0 {
						atags = append(atags, "sig:unary-response-metadata-no-accessor")
					}
					em.Emit(Rec{Idx: idx + which, Kind: "sys-unary-api", Desc: map[string]any{"i": si, "which": which, "ops": opNames, "fail": sc.fail},
						Obs:  map[string]any{"panicked": apiPanicked, "called": apiCalled, "api": api},
						Tags: atags,
						Coq:  fmt.Sprintf("CSysUnaryApi %d %s %s %s", which, coqKVs(wl), coqBool(apiPanicked), coqOpt(api != nil && !apiPanicked, coqMD(api)))})
				}
			}
		}
		idx += 2
		stEnd(em, first)
	}
}

// Sequences of >= 17 unary calls on ONE served connection (scripted peer, real
// server): per-worker or per-connection state carried from one call to the
// next must not leak into a later reply. Every reply's header and trailer lists
// are judged exactly, on the wire.
func TestC04UnarySeq(t *testing.T) {
	em := NewEmitter()
	defer em.Close()
	r := newRand(4046)
	idx := 0
	nseq := 3
	if thorough() {
		nseq = 30
	}
	for seq := 0; seq < nseq; seq++ {
		ncalls := 17 + r.Intn(10)
		if !anyWanted(idx, 2*ncalls) {
			idx += 2 * ncalls
			continue
		}
		stBegin(em, idx)
		first := idx
		pool := c04KeyPool(r, 4) // few keys: later calls reuse the keys of earlier ones
		type call struct {
			hs, ts []metadata.MD
			fail   bool
			method string
		}
		calls := make([]call, ncalls)
		for i := range calls {
			c := &calls[i]
			c.method = []string{"/verif.Echo/Unary", "/verif.Echo/Unary2"}[r.Intn(2)]
			c.fail = r.Intn(4) == 0
			for j := 0; j < r.Intn(3); j++ {
				c.hs = append(c.hs, c04MDFrom(r, pool, 3))
			}
			if i%3 != 2 { // some calls set no trailer at all
				for j := 0; j < 1+r.Intn(2); j++ {
					c.ts = append(c.ts, c04MDFrom(r, pool, 3))
				}
			}
		}
		cur := 0
		impl := &echoImpl{unary: func(ctx context.Context, req []byte) ([]byte, bool, error) {
			c := calls[cur]
			for _, md := range c.hs {
				grpc.SetHeader(ctx, md)
			}
			for _, md := range c.ts {
				grpc.SetTrailer(ctx, md)
			}
			if c.fail {
				return nil, false, status.Error(codes.Aborted, "no")
			}
			return req, true, nil
		}}
		var replies []*Rpc
		bubble(t, func(t *testing.T) {
			ep := NewEndpoint("s")
			srv := newEchoServer("dst", impl)
			ret := make(chan error, 1)
			go func() { ret <- srv.Serve(context.Background(), ep) }()
			body, _ := protoMarshal(bv([]byte("q")))
			for i := range calls {
				cur = i
				ep.Deliver(&Rpc{Id: uint64(100 + i), Header: hdr(calls[i].method, "src", "dst"), Body: &goatorepo.Body{Data: body}})
				synctest.Wait()
			}
			replies = ep.WrittenCopy()
			ep.FailRead(io.EOF)
			synctest.Wait()
			<-ret
		})
		for i, c := range calls {
			var rep *Rpc
			for _, w := range replies {
				if w.Id == uint64(100+i) {
					rep = w
				}
			}
			hw, tw := rep.GetHeader().GetHeaders(), rep.GetTrailer().GetMetadata()
			hmd, herr := internal.ToMetadata(hw)
			tmd, terr := internal.ToMetadata(tw)
			desc := map[string]any{"seq": seq, "call": i, "of": ncalls, "method": c.method, "fail": c.fail}
			tags := []string{"seq:unary-calls-on-one-connection", fmt.Sprintf("seq:call>=9=%v", i >= 8), fmt.Sprintf("seq:sets-trailer=%v", len(c.ts) > 0)}
			if want(idx) {
				em.Emit(Rec{Idx: idx, Kind: "seq-unary-header", Desc: desc, Tags: tags,
					Coq: fmt.Sprintf("CSysResp 0 %s %s %s false %s", coqMDs(c.hs), orderTerms(hw), coqKVs(hw), coqOpt(rep != nil && herr == nil, coqMD(hmd)))})
			}
			idx++
			if want(idx) {
				em.Emit(Rec{Idx: idx, Kind: "seq-unary-trailer", Desc: desc, Tags: tags,
					Coq: fmt.Sprintf("CSysResp 1 %s %s %s false %s", coqMDs(c.ts), orderTerms(tw), coqKVs(tw), coqOpt(rep != nil && terr == nil, coqMD(tmd)))})
			}
			idx++
		}
		stEnd(em, first)
	}
}

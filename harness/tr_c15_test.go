//go:build tr

package verifharness

import (
	"bufio"
	"bytes"
	"encoding/json"
	"fmt"
	"os"
	"os/exec"
	"path/filepath"
	"testing"
)

// TestC15Table regenerates the access table from /repo's source with
// tools/locksets (go/ast + go/types, standard library only) and emits one case
// per tracked field: the Coq side evaluates race_free_table on its rows.
func TestC15Table(t *testing.T) {
	em := NewEmitter()
	defer em.Close()
	wd, _ := os.Getwd()
	tool := filepath.Join(filepath.Dir(wd), "tools", "locksets")
	repo := os.Getenv("VERIF_REPO") // the tree under test (./check sets it; a scratch worktree in mutant trials)
	if repo == "" {
		repo = "/repo"
	}
	cmd := exec.Command("go1.26.8", "run", ".", "-repo", repo)
	cmd.Dir = tool
	cmd.Env = append(os.Environ(), "GOFLAGS=-mod=mod", "GOPROXY=off", "GOSUMDB=off", "GOTOOLCHAIN=local")
	var stderr bytes.Buffer
	cmd.Stderr = &stderr
	out, err := cmd.Output()
	idx := 0
	if err != nil {
		em.Marker("begin", idx)
		em.Emit(Rec{Idx: idx, Kind: "locksets-failed", Desc: map[string]any{"err": fmt.Sprint(err), "stderr": stderr.String()},
			Coq: "CStale 0", Tags: []string{"table:tool-failed"}})
		em.Marker("end", idx)
		return
	}
	sc := bufio.NewScanner(bytes.NewReader(out))
	sc.Buffer(make([]byte, 1<<20), 1<<26)
	nfield := 0
	for sc.Scan() {
		var rec map[string]any
		if json.Unmarshal(sc.Bytes(), &rec) != nil {
			continue
		}
		kind, _ := rec["kind"].(string)
		coq, _ := rec["coq"].(string)
		if coq == "" {
			continue
		}
		if !want(idx) {
			idx++
			continue
		}
		em.Marker("begin", idx)
		tags := []string{"table:" + kind}
		switch kind {
		case "field":
			nfield++
			delete(rec, "coq")
			if up, ok := rec["unsafe_pairs"].([]any); ok && len(up) > 0 {
				tags = append(tags, "table:unsafe-field")
			}
			em.Emit(Rec{Idx: idx, Kind: "field", Desc: rec["field"], Obs: rec, Coq: coq, Tags: tags})
		default:
			delete(rec, "coq")
			em.Emit(Rec{Idx: idx, Kind: kind, Desc: rec, Coq: coq, Tags: tags})
		}
		em.Marker("end", idx)
		idx++
	}
	if nfield == 0 && want(idx) {
		em.Marker("begin", idx)
		em.Emit(Rec{Idx: idx, Kind: "locksets-empty", Desc: "the tool produced no field record", Coq: "CStale 0", Tags: []string{"table:empty"}})
		em.Marker("end", idx)
	}
}

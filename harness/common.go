// Package verifharness drives the real goat code for the correspondence checks
// of /verif. Every rig writes one JSON line per case to -out: a human-readable
// description, the observation made on the real code and a Coq term ("coq")
// that /verif/check splices into a cases.v evaluated by vm_compute against the
// Gallina model and the property predicates.
package verifharness

import (
	"bufio"
	"encoding/json"
	"flag"
	"fmt"
	"math/rand"
	"os"
	"sort"
	"strings"
	"sync"

	"github.com/rs/zerolog"
)

var (
	flagOut  = flag.String("out", "", "output JSONL file")
	flagSeed = flag.Int64("seed", 1, "seed for every random choice")
	flagTier = flag.String("tier", "quick", "quick|thorough")
	flagFrom = flag.Int("from", 0, "resume from this scenario index")
	flagOnly = flag.Int("only", -1, "run only this scenario index")
)

func init() {
	zerolog.SetGlobalLevel(zerolog.Disabled)
}

func thorough() bool { return *flagTier == "thorough" }

// Rec is one output line.
type Rec struct {
	Idx  int      `json:"idx"`
	Kind string   `json:"kind"`
	Desc any      `json:"desc"`
	Obs  any      `json:"obs,omitempty"`
	Coq  string   `json:"coq,omitempty"`
	Tags []string `json:"tags,omitempty"`
}

type Emitter struct {
	mu  sync.Mutex
	f   *os.File
	w   *bufio.Writer
	n   int
	err error
}

func NewEmitter() *Emitter {
	e := &Emitter{}
	if *flagOut == "" {
		e.w = bufio.NewWriter(os.Stdout)
		return e
	}
	f, err := os.OpenFile(*flagOut, os.O_CREATE|os.O_WRONLY|os.O_APPEND, 0o644)
	if err != nil {
		panic(err)
	}
	e.f = f
	e.w = bufio.NewWriter(f)
	return e
}

func (e *Emitter) Emit(r Rec) {
	e.mu.Lock()
	defer e.mu.Unlock()
	b, err := json.Marshal(r)
	if err != nil {
		panic(err)
	}
	e.w.Write(b)
	e.w.WriteByte('\n')
	e.w.Flush()
	e.n++
}

// Marker lines let the orchestrator attribute a crash or wedge to a scenario.
func (e *Emitter) Marker(kind string, idx int) {
	e.mu.Lock()
	defer e.mu.Unlock()
	fmt.Fprintf(e.w, "{\"marker\":%q,\"idx\":%d}\n", kind, idx)
	e.w.Flush()
}

func (e *Emitter) Close() {
	e.mu.Lock()
	defer e.mu.Unlock()
	e.w.Flush()
	if e.f != nil {
		e.f.Close()
	}
}

func want(idx int) bool {
	if *flagOnly >= 0 {
		return idx == *flagOnly
	}
	return idx >= *flagFrom
}

func newRand(salt int64) *rand.Rand {
	return rand.New(rand.NewSource(*flagSeed*1000003 + salt))
}

// ---- Coq term printing (all numerals are Z; the Coq side converts) ----

func coqZ(v int64) string {
	if v < 0 {
		return fmt.Sprintf("(%d)", v)
	}
	return fmt.Sprintf("%d", v)
}

func coqU(v uint64) string { return fmt.Sprintf("%d", v) }

func coqBool(b bool) string {
	if b {
		return "true"
	}
	return "false"
}

func coqBytes(b []byte) string {
	printable := true
	for _, c := range b {
		if c < 0x20 || c > 0x7e || c == '"' {
			printable = false
			break
		}
	}
	if printable {
		return `(B"` + string(b) + `")`
	}
	var sb strings.Builder
	sb.WriteString("(bz [")
	for i, c := range b {
		if i > 0 {
			sb.WriteByte(';')
		}
		fmt.Fprintf(&sb, "%d", c)
	}
	sb.WriteString("])")
	return sb.String()
}

func coqStr(s string) string { return coqBytes([]byte(s)) }

func coqList(items []string) string {
	return "[" + strings.Join(items, "; ") + "]"
}

func coqOpt(present bool, term string) string {
	if !present {
		return "None"
	}
	return "(Some " + term + ")"
}

func coqPair(a, b string) string { return "(" + a + ", " + b + ")" }

// sortedKeys returns the keys of a map in sorted order (deterministic output).
func sortedKeys[V any](m map[string]V) []string {
	ks := make([]string, 0, len(m))
	for k := range m {
		ks = append(ks, k)
	}
	sort.Strings(ks)
	return ks
}

func protoMarshal(m interface{ ProtoReflect() protoreflectMessage }) ([]byte, error) {
	return protoMarshalAny(m)
}

//go:build st

package verifharness

import (
	"context"
	"errors"
	"fmt"
	"io"
	"strings"
	"sync"
	"testing"
	"testing/synctest"

	goat "github.com/avos-io/goat"
	"github.com/avos-io/goat/gen/goatorepo"
	spb "google.golang.org/genproto/googleapis/rpc/status"
	"google.golang.org/grpc"
	"google.golang.org/grpc/status"
	"google.golang.org/protobuf/proto"
	"google.golang.org/protobuf/types/known/anypb"
	"google.golang.org/protobuf/types/known/wrapperspb"
)

// tokens: equal strings <-> equal tokens (Check/C03c.v works on tokens)
type tokReg struct {
	mu sync.Mutex
	m  map[string]int64
}

func newTokReg() *tokReg {
	r := &tokReg{m: map[string]int64{}}
	r.tok("OK")                   // tok_ok = 1
	r.tok("stream reset by peer") // tok_reset = 2
	return r
}

func (r *tokReg) tok(s string) int64 {
	r.mu.Lock()
	defer r.mu.Unlock()
	if v, ok := r.m[s]; ok {
		return v
	}
	v := int64(len(r.m) + 1)
	r.m[s] = v
	return v
}

func (r *tokReg) anyTok(a *anypb.Any) int64 {
	return r.tok("any|" + a.GetTypeUrl() + "|" + string(a.GetValue()))
}

func (r *tokReg) dets(as []*anypb.Any) []int64 {
	var out []int64
	for _, a := range as {
		out = append(out, r.anyTok(a))
	}
	return out
}

// body token: payload of a BytesValue; undecodable bytes get a negative token
func (r *tokReg) bodyTok(b *goatorepo.Body) string {
	if b == nil {
		return "None"
	}
	var m wrapperspb.BytesValue
	if err := proto.Unmarshal(b.GetData(), &m); err != nil {
		return fmt.Sprintf("(Some (%d))", -r.tok("raw|"+string(b.GetData())))
	}
	return fmt.Sprintf("(Some %d)", r.tok("body|"+string(m.Value)))
}

func (r *tokReg) payloadTok(p []byte) int64 { return r.tok("body|" + string(p)) }

func st3Coq(code int64, msg int64, det []int64) string {
	return fmt.Sprintf("(%s, %d, %s)", coqZ(code), msg, zs(det))
}

// the observed status of a caller-side error
func (r *tokReg) errSt3(err error) (string, bool) {
	st, ok := status.FromError(err)
	if !ok {
		return "", false
	}
	p := st.Proto()
	return st3Coq(int64(uint32(st.Code())), r.tok(p.GetMessage()), r.dets(p.GetDetails())), true
}

func (r *tokReg) envCoq(e *Rpc) string {
	s := "None"
	if st := e.GetStatus(); st != nil {
		s = "(Some " + st3Coq(int64(st.Code), r.tok(st.Message), r.dets(st.Details)) + ")"
	}
	return fmt.Sprintf("(%s, %s, %s, %s)", s, r.bodyTok(e.GetBody()), coqBool(e.GetTrailer() != nil), coqBool(e.GetReset_() != nil))
}

// ---- handler error kinds ----
type hkind struct {
	kind string // status wrapped okstatus plain canceled deadline eof
	code int64
	msg  string
	det  []*anypb.Any
	wrap bool // canceled / deadline: wrapped by fmt.Errorf
}

type okStatusErr struct{ p *spb.Status }

func (e okStatusErr) Error() string              { return "ok-coded error: " + e.p.Message }
func (e okStatusErr) GRPCStatus() *status.Status { return status.FromProto(e.p) }

func (k *hkind) err() error {
	if k == nil {
		return nil
	}
	switch k.kind {
	case "status":
		return status.FromProto(&spb.Status{Code: int32(uint32(k.code)), Message: k.msg, Details: k.det}).Err()
	case "wrapped":
		return fmt.Errorf("handler step 3: %w", status.FromProto(&spb.Status{Code: int32(uint32(k.code)), Message: k.msg, Details: k.det}).Err())
	case "okstatus":
		return okStatusErr{&spb.Status{Code: 0, Message: k.msg, Details: k.det}}
	case "plain":
		return errors.New(k.msg)
	case "canceled":
		if k.wrap {
			return fmt.Errorf("lookup: %w", context.Canceled)
		}
		return context.Canceled
	case "deadline":
		if k.wrap {
			return fmt.Errorf("lookup: %w", context.DeadlineExceeded)
		}
		return context.DeadlineExceeded
	case "eof":
		if k.wrap {
			return fmt.Errorf("reading the next record: %w", io.EOF)
		}
		return io.EOF
	}
	panic("kind")
}

func (k *hkind) coq(r *tokReg) string {
	if k == nil {
		return "None"
	}
	text := r.tok(k.err().Error())
	switch k.kind {
	case "status":
		return fmt.Sprintf("(Some (KStatus %d %d %s %d))", k.code, r.tok(k.msg), zs(r.dets(k.det)), text)
	case "wrapped":
		return fmt.Sprintf("(Some (KWrapped %d %d %s %d))", k.code, r.tok(k.msg), zs(r.dets(k.det)), text)
	case "okstatus":
		return fmt.Sprintf("(Some (KOkStatus %d %s %d))", r.tok(k.msg), zs(r.dets(k.det)), text)
	case "plain":
		return fmt.Sprintf("(Some (KPlain %d))", text)
	case "canceled":
		return fmt.Sprintf("(Some (KCanceled %d))", text)
	case "deadline":
		return fmt.Sprintf("(Some (KDeadline %d))", text)
	case "eof":
		return fmt.Sprintf("(Some (KEof %d))", text)
	}
	panic("kind")
}

func (k *hkind) desc() string {
	if k == nil {
		return "nil"
	}
	m := k.msg
	if len(m) > 20 {
		m = fmt.Sprintf("%s..(%d)", m[:20], len(m))
	}
	return fmt.Sprintf("%s/%d/%q/det%d/wrap=%v", k.kind, k.code, m, len(k.det), k.wrap)
}

func (k *hkind) tags() []string {
	if k == nil {
		return []string{"herr=nil"}
	}
	t := []string{"herr=" + k.kind, fmt.Sprintf("details=%d", len(k.det))}
	if k.kind == "status" || k.kind == "wrapped" {
		t = append(t, fmt.Sprintf("code=%d", k.code))
		switch {
		case k.msg == "":
			t = append(t, "msg=empty")
		case len(k.msg) >= 65536:
			t = append(t, "msg=64KiB")
		case len(k.msg) >= 4096:
			t = append(t, "msg=4KiB")
		case strings.ContainsAny(k.msg, "%\\\x00"):
			t = append(t, "msg=format-looking")
		case strings.ContainsAny(k.msg, "é✓世"):
			t = append(t, "msg=unicode")
		default:
			t = append(t, "msg=ascii")
		}
	}
	return t
}

var stMessages = []string{"", "resource not found", "héllo ✓ 世界  ", strings.Repeat("long message ✓ ", 300)[:4096]}

// at the size limits: a 64 KiB message and a 48 KiB detail value
var stHugeMessage = strings.Repeat("0123456789abcdef", 4096)

func stHugeDetail() []*anypb.Any {
	a, _ := anypb.New(wrapperspb.Bytes([]byte(strings.Repeat("\x00\xff\x7f", 16384))))
	return []*anypb.Any{a}
}

func stDetails(n int) []*anypb.Any {
	var out []*anypb.Any
	for i := 0; i < n; i++ {
		switch i {
		case 0:
			a, _ := anypb.New(wrapperspb.String("detail-0 ✓"))
			out = append(out, a)
		case 1:
			a, _ := anypb.New(wrapperspb.Bytes([]byte{0, 255, 10, 13}))
			out = append(out, a)
		default:
			out = append(out, &anypb.Any{TypeUrl: "type.example.com/unknown.Type", Value: []byte{8, 150, 1}})
		}
	}
	return out
}

// the grid of the property: 17 codes x messages x details 0..3 x error kinds
func stGrid() []*hkind {
	var ks []*hkind
	codes := []int64{1, 2, 3, 4, 5, 6, 7, 8, 9, 10, 11, 12, 13, 14, 15, 16, 17, 99, 2147483648, 4294967295}
	for _, kind := range []string{"status", "wrapped"} {
		for _, c := range codes {
			for _, m := range stMessages {
				for d := 0; d <= 3; d++ {
					ks = append(ks, &hkind{kind: kind, code: c, msg: m, det: stDetails(d)})
				}
			}
		}
	}
	for _, m := range stMessages { // code 0 (OK) on a non-nil error
		for d := 0; d <= 3; d++ {
			ks = append(ks, &hkind{kind: "okstatus", msg: m, det: stDetails(d)})
		}
	}
	for _, m := range stMessages {
		ks = append(ks, &hkind{kind: "plain", msg: m})
	}
	ks = append(ks, &hkind{kind: "plain", msg: "rpc error: code = NotFound desc = looks like a status"})
	for _, w := range []bool{false, true} {
		ks = append(ks, &hkind{kind: "canceled", wrap: w}, &hkind{kind: "deadline", wrap: w})
	}
	ks = append(ks, &hkind{kind: "eof"}, &hkind{kind: "eof", wrap: true})
	for _, kind := range []string{"status", "wrapped"} {
		ks = append(ks, &hkind{kind: kind, code: 8, msg: stHugeMessage, det: stHugeDetail()}, &hkind{kind: kind, code: 13, msg: stHugeMessage})
	}
	ks = append(ks, &hkind{kind: "okstatus", msg: stHugeMessage, det: stHugeDetail()}, &hkind{kind: "plain", msg: stHugeMessage})
	// messages that look like format strings or need escaping: they must arrive byte for byte
	for _, m := range stFormatMessages {
		for _, kind := range []string{"status", "wrapped"} {
			for _, c := range []int64{5, 13} {
				for d := 0; d <= 1; d++ {
					ks = append(ks, &hkind{kind: kind, code: c, msg: m, det: stDetails(d)})
				}
			}
		}
		ks = append(ks, &hkind{kind: "okstatus", msg: m}, &hkind{kind: "plain", msg: m})
	}
	return ks
}

var stFormatMessages = []string{"disk 100% full", "%", "%s", "%d %%", "100%", "%v %+v %#v %T", "%!s(MISSING)", "%[2]d %[1]s", "50%% done %",
	"back\\slash \\n \\x00 \\u00e9", "nul\x00inside", "tab\tnewline\ncr\r", "\"quoted\" 'single' `back`", "{{.}} ${x} $(y)"}

// a smaller set for the end-to-end rig: one of each kind with the interesting parameters
func stKindsSmall() []*hkind {
	return []*hkind{
		{kind: "status", code: 5, msg: "resource not found", det: stDetails(2)},
		{kind: "status", code: 16, msg: stMessages[2], det: stDetails(3)},
		{kind: "status", code: 1, msg: ""},
		{kind: "wrapped", code: 9, msg: "precondition", det: stDetails(1)},
		{kind: "okstatus", msg: "ok but failed", det: stDetails(1)},
		{kind: "plain", msg: "disk on fire"},
		{kind: "canceled"},
		{kind: "deadline", wrap: true},
		{kind: "eof"},
		{kind: "eof", wrap: true},
		{kind: "status", code: 8, msg: stHugeMessage, det: stHugeDetail()},
		{kind: "status", code: 8, msg: "disk 100% full"},
		{kind: "wrapped", code: 3, msg: "%s %d %% nul\x00 back\\slash", det: stDetails(1)},
		{kind: "plain", msg: "%v: 100%"},
	}
}

// ---- real client against one scripted reply (unary) ----
func (r *tokReg) uobsCoq(out *wrapperspb.BytesValue, err error) string {
	if err == nil {
		return fmt.Sprintf("(OOk %d)", r.payloadTok(out.Value))
	}
	if s, ok := r.errSt3(err); ok {
		return "(OStatus " + s + ")"
	}
	if strings.Contains(err.Error(), "malformed response") {
		return "OMalformed"
	}
	return "OBadBody"
}

func stClientUnary(t *testing.T, r *tokReg, reply *Rpc) string {
	var obs string
	bubble(t, func(t *testing.T) {
		ep := NewEndpoint("c")
		cc := goat.NewClientConn(ep, "src", "dst")
		var out wrapperspb.BytesValue
		done := make(chan error, 1)
		go func() {
			defer func() {
				if p := recover(); p != nil {
					done <- fmt.Errorf("panic: %v", p)
				}
			}()
			done <- cc.Invoke(context.Background(), "/verif.Echo/Unary", bv([]byte("q")), &out)
		}()
		synctest.Wait()
		rep := clone(reply)
		rep.Id = ep.WrittenCopy()[0].Id
		ep.Deliver(rep)
		synctest.Wait()
		select {
		case err := <-done:
			obs = r.uobsCoq(&out, err)
		default:
			obs = "OMalformed (* pending *)"
			t.Errorf("Invoke still pending after its reply")
		}
		ep.FailRead(io.EOF)
		synctest.Wait()
	})
	return obs
}

// ---- real client stream against scripted responses ----
func (r *tokReg) sobsCoq(bodies []int64, term string) string {
	return fmt.Sprintf("(%s, %s)", zs(bodies), term)
}

func (r *tokReg) termCoq(err error) string {
	if err == io.EOF {
		return "(Some None)"
	}
	if s, ok := r.errSt3(err); ok {
		return "(Some (Some " + s + "))"
	}
	return "(Some (Some (-1, 0, [])))"
}

// drains a client stream: bodies until the terminal error (or no progress)
func (r *tokReg) drain(cs grpc.ClientStream) ([]int64, string) {
	var bodies []int64
	for i := 0; i < 64; i++ {
		res := make(chan error, 1)
		var m wrapperspb.BytesValue
		go func() { res <- cs.RecvMsg(&m) }()
		synctest.Wait()
		select {
		case err := <-res:
			if err == nil {
				bodies = append(bodies, r.payloadTok(m.Value))
				continue
			}
			// the terminal result is sticky: two more RecvMsg calls must report the same thing (a failed stream
			// must not turn into a clean end on a later call); a differing later answer is what is reported
			term := r.termCoq(err)
			for again := 0; again < 2; again++ {
				var m2 wrapperspb.BytesValue
				res2 := make(chan error, 1)
				go func() { res2 <- cs.RecvMsg(&m2) }()
				synctest.Wait()
				select {
				case e2 := <-res2:
					if e2 == nil {
						return append(bodies, -1), "None" // a message after the end
					}
					if t2 := r.termCoq(e2); t2 != term {
						return bodies, t2
					}
				default:
					return bodies, "None"
				}
			}
			return bodies, term
		default:
			return bodies, "None"
		}
	}
	return bodies, "None"
}

func stClientStream(t *testing.T, r *tokReg, resps []*Rpc) string {
	var obs string
	bubble(t, func(t *testing.T) {
		ep := NewEndpoint("c")
		cc := goat.NewClientConn(ep, "src", "dst")
		ctx, cancel := context.WithCancel(context.Background())
		cs, err := cc.NewStream(ctx, descBidi, "/verif.Echo/Bidi")
		if err != nil {
			t.Fatal(err)
		}
		id := ep.WrittenCopy()[0].Id
		for _, e := range resps {
			c := clone(e)
			c.Id = id
			ep.Deliver(c)
		}
		synctest.Wait()
		bodies, term := r.drain(cs)
		obs = r.sobsCoq(bodies, term)
		cancel()
		synctest.Wait()
		ep.FailRead(io.EOF)
		synctest.Wait()
	})
	return obs
}

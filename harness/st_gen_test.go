//go:build st

package verifharness

import (
	"bytes"
	"encoding/json"
	"fmt"
	"os"
	"os/exec"
	"path/filepath"
	"strings"
	"testing"
)

// The second kind of tie: for the pure functions the model is REGENERATED from
// the Go source on every run (tools/go2coq) and the committed equivalence proof
// coq/Gen/<Name>Equiv.v (generated definition = hand-written model, for all
// inputs) is re-checked by coqc against the freshly generated text. A semantic
// edit that no sampled input distinguishes breaks the proof; an edit outside
// the translator's subset is reported as untranslatable. Either way: tie broken.

var genNames = []string{"ParseGrpcTimeout", "DeadlineHeader", "ParseRawMethod", "ToMetadata", "ErrorIfDone"}

func genIndex(name string) int {
	for i, n := range genNames {
		if n == name {
			return i
		}
	}
	return -1
}

func runGenEquiv(t *testing.T, ctor string, names []string) {
	em := NewEmitter()
	defer em.Close()
	wd, _ := os.Getwd()
	root := filepath.Dir(wd)
	repo := os.Getenv("VERIF_REPO")
	if repo == "" {
		repo = "/repo"
	}
	gendir := filepath.Join(os.TempDir(), "goat-gen")
	if *flagOut != "" {
		gendir = filepath.Join(filepath.Dir(*flagOut), "gen-"+strings.Join(names, "-"))
	}
	os.RemoveAll(gendir)
	os.MkdirAll(gendir, 0o755)
	cmd := exec.Command("go1.26.8", "run", ".", "-repo", repo, "-out", gendir)
	cmd.Dir = filepath.Join(root, "tools", "go2coq")
	cmd.Env = append(os.Environ(), "GOFLAGS=-mod=mod", "GOPROXY=off", "GOSUMDB=off", "GOTOOLCHAIN=local")
	var stderr bytes.Buffer
	cmd.Stderr = &stderr
	out, _ := cmd.Output()
	status := map[string]map[string]string{}
	for _, line := range strings.Split(string(out), "\n") {
		var rec map[string]string
		if json.Unmarshal([]byte(line), &rec) == nil && rec["name"] != "" {
			status[rec["name"]] = rec
		}
	}
	coqc := func(args ...string) (string, error) {
		base := []string{"-R", filepath.Join(root, "coq"), "Goat", "-Q", gendir, "GoatGen", "-w", "-notation-overridden,-deprecated-syntactic-definition"}
		c := exec.Command("coqc", append(base, args...)...)
		c.Dir = gendir
		o, err := c.CombinedOutput()
		return string(o), err
	}
	for idx, name := range names {
		if !want(idx) {
			continue
		}
		em.Marker("begin", idx)
		st, verdict, log := 0, "proved-equal", ""
		rec := status[name]
		switch {
		case rec == nil:
			st, verdict, log = 2, "untranslatable", "tools/go2coq produced no record: "+stderr.String()
		case rec["status"] != "ok":
			st, verdict, log = 2, "untranslatable", rec["msg"]
		default:
			if o, err := coqc(name + "Gen.v"); err != nil {
				st, verdict, log = 1, "generated-file-does-not-compile", o
			} else if o, err := coqc("-o", filepath.Join(gendir, name+"Equiv.vo"), filepath.Join(root, "coq", "Gen", name+"Equiv.v")); err != nil {
				st, verdict, log = 1, "equivalence-proof-broken", o
			} else if !strings.Contains(o, "Closed under the global context") {
				st, verdict, log = 1, "equivalence-proof-has-assumptions", o
			} else {
				log = o
			}
		}
		if len(log) > 3000 {
			log = log[:3000]
		}
		src, _ := os.ReadFile(filepath.Join(gendir, name+"Gen.v"))
		em.Emit(Rec{Idx: idx, Kind: "gen-equiv", Desc: map[string]any{"function": name},
			Obs:  map[string]any{"verdict": verdict, "coqc": log, "generated_bytes": len(src)},
			Tags: []string{"gen:" + name + "=" + verdict},
			Coq:  fmt.Sprintf("%s %d %d", ctor, genIndex(name), st)})
		em.Marker("end", idx)
	}
}

func TestGenEquivC08(t *testing.T) {
	runGenEquiv(t, "CGen", []string{"ParseGrpcTimeout", "DeadlineHeader"})
}
func TestGenEquivC04(t *testing.T) { runGenEquiv(t, "CGen", []string{"ToMetadata"}) }
func TestGenEquivC03(t *testing.T) { runGenEquiv(t, "CGen", []string{"ErrorIfDone"}) }

// parseRawMethod is C12's (builder sv): the case type of C12 has the constructor C12Gen for it
func TestGenEquivC12(t *testing.T) { runGenEquiv(t, "C12Gen", []string{"ParseRawMethod"}) }

//go:build cl

package verifharness

import (
	"context"
	"encoding/binary"
	"fmt"
	"io"
	"math/rand"
	"runtime"
	"strconv"
	"strings"
	"sync"
	"sync/atomic"
	"testing"
	"testing/synctest"
	"time"

	goat "github.com/avos-io/goat"
	"github.com/avos-io/goat/gen/goatorepo"
	"google.golang.org/grpc"
	"google.golang.org/grpc/codes"
	"google.golang.org/grpc/metadata"
	"google.golang.org/grpc/status"
	"google.golang.org/protobuf/proto"
	"google.golang.org/protobuf/types/known/wrapperspb"
)

// ---------------------------------------------------------------- lock-step lifecycles (Rig A)

// One RPC from start to its termination at the client, as actions of the
// client rig; X stands for the call index (filled in by clMerge).
func clLifecycle(r *rand.Rand, outcome string, unary bool) []CAct {
	b := int64(100 + r.Intn(800))
	reply := &EnvSpec{Hdr: "ok:0", Body: i64(b), Trl: "ok:0"}
	stErr := &EnvSpec{Hdr: "ok:0", Status: &[2]int64{[]int64{2, 3, 5, 7, 9, 13}[r.Intn(6)], 7}, Trl: "ok:0"}
	trlOK := &EnvSpec{Hdr: "ok:0", Status: &[2]int64{0, 0}, Trl: "ok:0"}
	msg := func() *EnvSpec { return &EnvSpec{Hdr: "ok:0", Body: i64(int64(100 + r.Intn(800))), Trl: "none"} }
	rst := &EnvSpec{Hdr: "ok:0", Trl: "ok:0", Rst: true}
	if unary {
		start := CAct{Op: "unary", B: int64(1 + r.Intn(500))}
		switch outcome {
		case "ok":
			return []CAct{start, {Op: "deliver", Env: reply}}
		case "status":
			return []CAct{start, {Op: "deliver", Env: stErr}}
		case "cancel":
			return []CAct{start, {Op: "cancel"}}
		case "deadline":
			return []CAct{start, {Op: "expire"}}
		case "reset":
			return []CAct{start, {Op: "deliver", Env: rst}}
		case "failopen":
			return []CAct{{Op: "wfail", On: true}, start, {Op: "wfail", On: false}}
		case "late": // reply, then a second reply to the finished call, then a reply after cancel
			return []CAct{start, {Op: "deliver", Env: reply}, {Op: "deliver", Env: reply}}
		}
	}
	start := CAct{Op: "stream"}
	var mid []CAct
	for i, n := 0, r.Intn(3); i < n; i++ {
		switch r.Intn(3) {
		case 0:
			mid = append(mid, CAct{Op: "send", B: int64(600 + r.Intn(300))})
		case 1:
			mid = append(mid, CAct{Op: "deliver", Env: msg()}, CAct{Op: "recv"})
		case 2:
			mid = append(mid, CAct{Op: "recv"}, CAct{Op: "deliver", Env: msg()})
		}
	}
	end := []CAct{{Op: "recv"}}
	seq := []CAct{start}
	switch outcome {
	case "ok":
		seq = append(append(seq, mid...), CAct{Op: "closesend"}, CAct{Op: "deliver", Env: trlOK})
	case "status":
		seq = append(append(seq, mid...), CAct{Op: "deliver", Env: stErr})
	case "cancel":
		seq = append(append(seq, mid...), CAct{Op: "cancel"})
	case "deadline":
		seq = append(append(seq, mid...), CAct{Op: "expire"})
	case "reset":
		seq = append(append(seq, mid...), CAct{Op: "deliver", Env: rst})
	case "failopen":
		return []CAct{{Op: "wfail", On: true}, start, {Op: "wfail", On: false}}
	case "late": // unread messages pile up (queue, hold), then the caller goes away
		seq = append(seq, CAct{Op: "deliver", Env: msg()}, CAct{Op: "deliver", Env: msg()}, CAct{Op: "deliver", Env: msg()}, CAct{Op: "cancel"})
	}
	return append(seq, end...)
}

var clOutcomes = []string{"ok", "status", "cancel", "deadline", "reset", "failopen", "late"}

// clMerge interleaves lifecycles, at most inflight at a time, keeping the order
// inside each; call indices are assigned in the order in which calls start.
func clMerge(r *rand.Rand, lives [][]CAct, inflight int) []CAct {
	var out []CAct
	type cur struct {
		acts []CAct
		c    int
	}
	var active []*cur
	next, nCalls := 0, 0
	for next < len(lives) || len(active) > 0 {
		if next < len(lives) && (len(active) == 0 || (len(active) < inflight && r.Intn(3) == 0)) {
			active = append(active, &cur{acts: lives[next], c: -1})
			next++
			continue
		}
		i := r.Intn(len(active))
		a := active[i].acts[0]
		active[i].acts = active[i].acts[1:]
		if a.Op == "unary" || a.Op == "stream" {
			active[i].c = nCalls
			nCalls++
		} else if a.Op == "deliver" {
			e := *a.Env
			e.Call = active[i].c
			a.Env = &e
		} else {
			a.C = active[i].c
		}
		out = append(out, a)
		if a.Op == "wfail" && a.On {
			// the write-failure window holds exactly the start of this call
			out = append(out, func() CAct {
				s := active[i].acts[0]
				active[i].acts = active[i].acts[1:]
				active[i].c = nCalls
				nCalls++
				return s
			}())
			off := active[i].acts[0]
			active[i].acts = active[i].acts[1:]
			out = append(out, off)
		}
		if len(active[i].acts) == 0 {
			active = append(active[:i], active[i+1:]...)
		}
	}
	return out
}

// TestC14Steps: histories of RPC lifecycles of both client-side kinds with every
// outcome, up to 3 in flight, lock-step against the model; registry size and
// goroutine census at every quiescent point.
func TestC14Steps(t *testing.T) {
	em := NewEmitter()
	defer em.Close()
	r := newRand(1400)
	n := 160
	if thorough() {
		n = 3000
	}
	for idx := 0; idx < n; idx++ {
		var lives [][]CAct
		var tags []string
		nl := 2 + r.Intn(4)
		for i := 0; i < nl; i++ {
			oc := clOutcomes[(idx+i*3+r.Intn(2))%len(clOutcomes)]
			unary := r.Intn(2) == 0
			lives = append(lives, clLifecycle(r, oc, unary))
			k := "stream"
			if unary {
				k = "unary"
			}
			tags = append(tags, "outcome:"+k+"/"+oc)
		}
		acts := clMerge(r, lives, 1+r.Intn(3))
		if idx%3 == 0 {
			acts = sprinkleTicks(r, acts, 3)
			tags = append(tags, "ticks")
		}
		if idx%5 == 4 {
			acts = append(acts, CAct{Op: "failread"})
			tags = append(tags, "closed-by-failread")
		}
		sc := clientScenario{Acts: acts, WithStats: idx%4 == 1, Tags: append(tags, fmt.Sprintf("rpcs=%d", nl))}
		if !want(idx) {
			continue
		}
		runClientScenarioAs(t, idx, "c14-steps", sc, em, "C14Step", nil)
	}
	// a call made on a context that is ALREADY over when the open gets to work (a retry loop re-opening after its deadline):
	// parked after the fail-fast check, the context ends, released - the open fails cleanly, nothing stays registered
	idxA := n + 1000
	for _, first := range []string{"stream", "unary"} {
		for _, end := range []string{"cancel", "expire"} {
			for v := 0; v < 3; v++ {
				acts := []CAct{{Op: first, B: 52, Park: true}, {Op: end, C: 0}}
				if v == 1 {
					acts = append(acts, CAct{Op: "unary", B: 53}, CAct{Op: "deliver", Env: &EnvSpec{Call: 1, Hdr: "ok:0", Body: i64(5300), Trl: "ok:0"}})
				}
				acts = append(acts, CAct{Op: "release", C: 0}, CAct{Op: "tick", B: 1000})
				if v == 2 {
					acts = append(acts, CAct{Op: first, B: 54, Park: true}, CAct{Op: end, C: 1}, CAct{Op: "release", C: 1}, CAct{Op: "tick", B: 60})
				}
				sc := clientScenario{Acts: acts, WithStats: v == 1, Tags: []string{"context-already-over-at-open", "first:" + first, end}}
				if want(idxA) {
					runClientScenarioAs(t, idxA, "c14-steps", sc, em, "C14Step", nil)
				}
				idxA++
			}
		}
	}
	// every reply shape a peer can send to a unary call (body only, empty envelope, header only, status without trailer ...:
	// a non-goat peer), then time passes: the call has returned, nothing stays registered
	rs := rand.New(rand.NewSource(1))
	for sh := range envShapes(0, rs) {
		for _, st := range []bool{false, true} {
			acts := []CAct{{Op: "unary", B: 55}, {Op: "deliver", Env: envShapes(0, rand.New(rand.NewSource(int64(sh))))[sh]}, {Op: "tick", B: 1000},
				{Op: "unary", B: 56}, {Op: "deliver", Env: envShapes(1, rand.New(rand.NewSource(int64(sh + 7))))[sh]}, {Op: "tick", B: 60}}
			sc := clientScenario{Acts: acts, WithStats: st, Tags: []string{"unary-reply-shape", fmt.Sprintf("shape=%d", sh)}}
			if want(idxA) {
				runClientScenarioAs(t, idxA, "c14-steps", sc, em, "C14Step", nil)
			}
			idxA++
		}
	}
	// unusual caller metadata on an open (it succeeds or fails cleanly), then the call ends (cancel / reply / read failure):
	// the registry is back to idle
	idx := n
	seen := map[string]bool{}
	for _, md := range mdKinds {
		if seen[md] {
			continue
		}
		seen[md] = true
		for v := 0; v < 4; v++ {
			acts := []CAct{{Op: "stream", MD: md}, {Op: "unary", B: 51, MD: md}}
			switch v {
			case 3: // the caller's deadline (whatever timeout its metadata claims): the server is told by a reset (reason 7)
				acts = append(acts, CAct{Op: "deliver", Env: &EnvSpec{Call: 0, Hdr: "ok:0", Body: i64(5101), Trl: "none", Guess: true}},
					CAct{Op: "expire", C: 0}, CAct{Op: "recv", C: 0}, CAct{Op: "expire", C: 1}, CAct{Op: "cancel", C: 0})
			case 0:
				acts = append(acts, CAct{Op: "cancel", C: 0}, CAct{Op: "cancel", C: 1})
			case 1:
				acts = append(acts, CAct{Op: "deliver", Env: &EnvSpec{Call: 0, Hdr: "ok:0", Status: &[2]int64{0, 0}, Trl: "ok:0", Guess: true}}, CAct{Op: "recv", C: 0},
					CAct{Op: "deliver", Env: &EnvSpec{Call: 1, Hdr: "ok:0", Body: i64(5100), Trl: "ok:0", Guess: true}})
			case 2:
				acts = append(acts, CAct{Op: "stream", MD: md}, CAct{Op: "cancel", C: 2}, CAct{Op: "failread"}, CAct{Op: "recv", C: 0})
			}
			acts = append(acts, CAct{Op: "tick", B: 1000})
			sc := clientScenario{Acts: acts, WithStats: idx%2 == 0, Tags: []string{"caller-metadata:" + md, fmt.Sprintf("ending=%d", v)}}
			if want(idx) {
				runClientScenarioAs(t, idx, "c14-steps", sc, em, "C14Step", nil)
			}
			idx++
		}
	}
}

// ---------------------------------------------------------------- long histories (Rig C: real client, real server)

type longRPC struct {
	n       int
	kind    string // Unary | Bidi | CStream | SStream
	outcome string
	stage   chan struct{}
	gate    chan struct{} // releases the server handler
	gateMu  sync.Once
	cancel  context.CancelFunc
	started atomic.Bool
	done    atomic.Bool
	stream  bool
	result  string
	fault   *bodyFaultRW
	bigSize int // outcome bigmsg: the size on the wire (Body.Data) of the one message the handler sends
}

// Message sizes at round binary limits (a receive limit, a frame size, a buffer class are where a change would put one).
var bigSmall = []int{64<<10 - 1, 64 << 10, 64<<10 + 1, 1<<20 - 1, 1 << 20, 1<<20 + 1}
var bigLarge = []int{4<<20 - 1, 4 << 20, 4<<20 + 1, 5 << 20, 16<<20 - 1, 16<<20 + 1}

// bigValue returns a BytesValue whose marshalled form has exactly n bytes (n >= 16); its content is a length token: the
// first 8 bytes say n, the rest is zero.
func bigValue(n int) *wrapperspb.BytesValue {
	for v := n - 8; v < n; v++ {
		m := &wrapperspb.BytesValue{Value: make([]byte, v)}
		if proto.Size(m) == n {
			binary.BigEndian.PutUint64(m.Value, uint64(n))
			return m
		}
	}
	panic("no value of that marshalled size")
}

func (l *longRPC) openGate() { l.gateMu.Do(func() { close(l.gate) }) }

type longRig struct {
	mu   sync.Mutex
	rpcs map[int]*longRPC
	ids  map[int]uint64 // rpc number -> stream id, learnt from the wire
}

func (g *longRig) get(n int) *longRPC {
	g.mu.Lock()
	defer g.mu.Unlock()
	return g.rpcs[n]
}

func mdN(ctx context.Context) int {
	if md, ok := metadata.FromIncomingContext(ctx); ok {
		if v := md.Get("n"); len(v) == 1 {
			n, _ := strconv.Atoi(v[0])
			return n
		}
	}
	return -1
}

func (g *longRig) echo() *echoImpl {
	wait := func(ctx context.Context) *longRPC {
		l := g.get(mdN(ctx))
		if l == nil {
			return nil
		}
		select {
		case <-l.gate:
		case <-ctx.Done():
		}
		return l
	}
	return &echoImpl{
		unary: func(ctx context.Context, req []byte) ([]byte, bool, error) {
			l := wait(ctx)
			if l != nil && l.outcome == "status" {
				return nil, false, status.Error(codes.Code(7), "m7")
			}
			return req, true, nil
		},
		stream: func(kind string, s grpc.ServerStream) error {
			l := g.get(mdN(s.Context()))
			if l != nil && l.outcome == "deadlinemd" {
				// works until the RPC is over for it (its context: the reset, or the deadline it was given)
				<-s.Context().Done()
				return status.FromContextError(s.Context().Err()).Err()
			}
			if l != nil && l.outcome == "bigmsg" {
				// one request, one LARGE response, then the handler waits for the end of the RPC (its context)
				var m wrapperspb.BytesValue
				if err := s.RecvMsg(&m); err != nil {
					return err
				}
				if err := s.SendMsg(bigValue(l.bigSize)); err != nil {
					return err
				}
				<-s.Context().Done()
				return status.FromContextError(s.Context().Err()).Err()
			}
			if l != nil && l.outcome == "srvabort" {
				// reads one message, then gives up on the RPC while the client is still sending
				var m wrapperspb.BytesValue
				if err := s.RecvMsg(&m); err != nil {
					return err
				}
				return status.Error(codes.Code(3), "m3")
			}
			fin := func() error {
				wait(s.Context())
				if l != nil && l.outcome == "status" {
					return status.Error(codes.Code(9), "m9")
				}
				return nil
			}
			switch kind {
			case "Bidi":
				for {
					var m wrapperspb.BytesValue
					if err := s.RecvMsg(&m); err != nil {
						if err == io.EOF {
							return fin()
						}
						return err
					}
					if err := s.SendMsg(&wrapperspb.BytesValue{Value: m.Value}); err != nil {
						return err
					}
				}
			case "CStream":
				var sum int64
				for {
					var m wrapperspb.BytesValue
					if err := s.RecvMsg(&m); err != nil {
						if err == io.EOF {
							break
						}
						return err
					}
					sum += tokenOf(m.Value)
				}
				if err := s.SendMsg(&wrapperspb.BytesValue{Value: payloadOf(sum)}); err != nil {
					return err
				}
				return fin()
			default:
				var m wrapperspb.BytesValue
				if err := s.RecvMsg(&m); err != nil {
					return err
				}
				v := tokenOf(m.Value)
				for i := int64(1); i <= v%3+1; i++ {
					if err := s.SendMsg(&wrapperspb.BytesValue{Value: payloadOf(v + i)}); err != nil {
						return err
					}
				}
				return fin()
			}
		},
	}
}

// bodyFaultRW fails the next write that carries a body (a per-message transport
// failure on a healthy connection: e.g. "message too large"); everything else
// goes through.
type bodyFaultRW struct {
	*Endpoint
	failNextBody atomic.Bool
	nfault       atomic.Int64
}

// the VALUE of the per-message write error varies: a transport with its own write timeout returns a wrapped context
// error although the stream's context is alive
type netTimeoutErr struct{}

func (netTimeoutErr) Error() string   { return "write tcp: i/o timeout" }
func (netTimeoutErr) Timeout() bool   { return true }
func (netTimeoutErr) Temporary() bool { return true }

var bodyFaultErrs = []error{
	errWriteInjected,
	fmt.Errorf("transport write timeout: %w", context.DeadlineExceeded),
	fmt.Errorf("transport write aborted: %w", context.Canceled),
	io.EOF,
	netTimeoutErr{},
}

func (b *bodyFaultRW) Write(ctx context.Context, r *Rpc) error {
	if r.GetBody() != nil && b.failNextBody.CompareAndSwap(true, false) {
		return bodyFaultErrs[int(b.nfault.Add(1))%len(bodyFaultErrs)]
	}
	return b.Endpoint.Write(ctx, r)
}

var censusBuf = make([]byte, 16<<20)

func clCensus() (mux, loops int) {
	mux, loops, _ = clCensusAll()
	return
}

// clCensusAll also counts EVERY goroutine that has a frame of the library (root package or internal/..., not the harness
// package github.com/avos-io/goat/verifharness) on its stack or as its creator: whatever a call starts - watchers, timers'
// goroutines, writers - not only the two kinds the model knows.
func clCensusAll() (mux, loops, lib int) {
	n := runtime.Stack(censusBuf, true)
	s := string(censusBuf[:n])
	for _, g := range strings.Split(s, "\n\n") {
		for _, line := range strings.Split(g, "\n") {
			line = strings.TrimPrefix(line, "created by ")
			if strings.HasPrefix(line, "github.com/avos-io/goat.") || strings.HasPrefix(line, "github.com/avos-io/goat/internal/") {
				lib++
				break
			}
		}
	}
	return strings.Count(s, "created by github.com/avos-io/goat/internal/client.NewRpcMultiplexer"),
		strings.Count(s, "created by github.com/avos-io/goat/internal/client.NewStream"), lib
}

var longMDKinds = []string{"none", "none", "grpc-trace-id", "none", "ordinary", "space", "none", "upper", "nonascii", "none", "empty-key", "nul", "none", "nonprint",
	"many17", "none", "bin", "pseudo", "none", "grpc-status"}

func (l *longRPC) run(cc *goat.ClientConn) {
	base, cancel := context.WithCancel(context.Background())
	l.cancel = cancel
	ctx := metadata.AppendToOutgoingContext(base, "n", strconv.Itoa(l.n))
	// unusual caller metadata on one RPC in three (not grpc-timeout: the real server would arm it as the RPC's deadline)
	if md := callerMD(longMDKinds[l.n%len(longMDKinds)]); md != nil {
		cur, _ := metadata.FromOutgoingContext(ctx)
		ctx = metadata.NewOutgoingContext(base, metadata.Join(cur, md))
	}
	if l.outcome == "deadline" {
		var c2 context.CancelFunc
		ctx, c2 = context.WithTimeout(ctx, time.Hour)
		defer c2()
	}
	if l.outcome == "deadlinemd" {
		// the caller's metadata carries a grpc-timeout entry of its own (set by hand, or forwarded by a relay from its incoming
		// metadata) that is LONGER than the context's deadline; it precedes the client's own GRPC-Timeout among the headers
		// and is the one the server arms: when the call ends by its deadline on the client the server's timer is far away,
		// only the reset tells the server
		cur, _ := metadata.FromOutgoingContext(ctx)
		ctx = metadata.NewOutgoingContext(base, metadata.Join(metadata.MD{"grpc-timeout": {"99999999H"}}, cur))
		var c2 context.CancelFunc
		ctx, c2 = context.WithTimeout(ctx, time.Hour)
		defer c2()
	}
	<-l.stage
	l.started.Store(true)
	defer l.done.Store(true)
	if l.outcome == "predone" {
		// the call is made on a context that is already over (a retry loop re-opening after its deadline)
		l.cancel()
	}
	tok := int64(1 + l.n%400)
	if l.kind == "Unary" {
		var out wrapperspb.BytesValue
		err := cc.Invoke(ctx, "/verif.Echo/Unary", &wrapperspb.BytesValue{Value: payloadOf(tok)}, &out)
		l.result = classOf(err)
		if err == nil && tokenOf(out.Value) != tok {
			l.result = "WRONG-REPLY"
		}
		return
	}
	desc := map[string]*grpc.StreamDesc{"Bidi": descBidi, "CStream": descCStream, "SStream": descSStream}[l.kind]
	cs, err := cc.NewStream(ctx, desc, "/verif.Echo/"+l.kind)
	if err != nil {
		l.result = "open:" + classOf(err)
		return
	}
	drain := func() {
		for {
			var m wrapperspb.BytesValue
			if err := cs.RecvMsg(&m); err != nil {
				l.result = classOf(err)
				return
			}
		}
	}
	if l.outcome == "cancelnow" {
		// opened and given up at once: the opener and the reset reach the server back to back (the driver holds the
		// client's writes until both are written)
		l.cancel()
		drain()
		return
	}
	if l.outcome == "deadlinemd" {
		// the caller waits for a response that does not come before its deadline
		drain()
		return
	}
	if l.outcome == "bigmsg" {
		<-l.stage
		if err := cs.SendMsg(&wrapperspb.BytesValue{Value: payloadOf(tok)}); err != nil {
			drain()
			return
		}
		var m wrapperspb.BytesValue
		err := cs.RecvMsg(&m)
		switch {
		case err != nil:
			l.result = "big:" + classOf(err)
		case proto.Size(&m) != l.bigSize || binary.BigEndian.Uint64(m.Value) != uint64(l.bigSize):
			l.result = "big:WRONG-MESSAGE"
		default:
			l.result = "big:ok"
		}
		// the caller has what it wanted (or an error) and ends the RPC
		l.cancel()
		r := l.result
		drain()
		l.result = r
		return
	}
	if l.outcome == "srvabort" {
		// two messages back to back (the second one marshals to zero bytes), then the caller only looks at the
		// result: no CloseSend (the usual `if err := stream.Send(m); err != nil { return err }` loop)
		<-l.stage
		cs.SendMsg(&wrapperspb.BytesValue{Value: payloadOf(tok)})
		<-l.stage
		cs.SendMsg(&wrapperspb.BytesValue{})
		drain()
		return
	}
	rounds := 1
	if l.kind != "SStream" {
		rounds = 1 + l.n%3
	}
	for i := 0; i < rounds; i++ {
		<-l.stage
		if l.outcome == "sendfail" && i == rounds-1 && l.fault != nil {
			l.fault.failNextBody.Store(true)
		}
		if err := cs.SendMsg(&wrapperspb.BytesValue{Value: payloadOf(tok + int64(i))}); err != nil {
			if l.outcome == "sendfail" {
				// the gRPC contract: the stream is aborted; the caller just drops it (no cancel)
				l.result = "send:error"
				return
			}
			drain()
			return
		}
		if l.kind == "Bidi" {
			var m wrapperspb.BytesValue
			if err := cs.RecvMsg(&m); err != nil {
				l.result = classOf(err)
				return
			}
		}
	}
	<-l.stage
	cs.CloseSend()
	drain()
}

// TestC14Long: one connection, real client and real server, a long history of
// RPCs of all four kinds with all outcomes, at most 32 in flight; after every
// driver step the bubble is run to quiescence and the registry size, the
// stream-loop goroutines and the RPCs in flight (as the callers see them) are
// sampled.
func TestC14Long(t *testing.T) {
	em := NewEmitter()
	defer em.Close()
	total := 1000
	if thorough() {
		total = 100000
	}
	idx := 0
	if !wantHistory(idx) {
		return
	}
	em.Marker("begin", idx)
	r := newRand(1401)
	kinds := []string{"Unary", "Bidi", "CStream", "SStream"}
	outcomes := []string{"ok", "status", "cancel", "deadline", "reset", "failopen", "sendfail", "srvabort", "cancelnow", "bigmsg", "deadlinemd", "predone"}
	var samples []string
	hist := map[string]int{}
	maxInflight, idleSamples, maxSrv, srvLeaked, nbig := 0, 0, 0, 0, 0
	var idleLib []string // goroutines with library frames at the idle points, in order
	var recent, leakNotes []string
	leaked := bubble(t, func(t *testing.T) {
		l := NewLink(false)
		l.Auto = true
		g := &longRig{rpcs: map[int]*longRPC{}, ids: map[int]uint64{}}
		fwd := l.C.OnWrite
		// the client->server direction can be held for a moment (the server gets what the client wrote back to back)
		var holdCMu sync.Mutex
		holdingC := false
		var heldC2S []*Rpc
		l.C.OnWrite = func(rp *Rpc) {
			for _, kv := range rp.GetHeader().GetHeaders() {
				if kv.Key == "n" {
					n, _ := strconv.Atoi(kv.Value)
					g.mu.Lock()
					g.ids[n] = rp.Id
					g.mu.Unlock()
				}
			}
			holdCMu.Lock()
			if holdingC {
				heldC2S = append(heldC2S, rp)
				holdCMu.Unlock()
				return
			}
			holdCMu.Unlock()
			fwd(rp)
		}
		holdC2S := func(on bool) {
			holdCMu.Lock()
			holdingC = on
			h := heldC2S
			if !on {
				heldC2S = nil
			}
			holdCMu.Unlock()
			if !on {
				for _, rp := range h {
					fwd(rp)
				}
			}
		}
		// the server->client direction can be held for a moment (the client has not yet seen what the server wrote)
		var holdMu sync.Mutex
		holding := false
		var heldS2C []*Rpc
		l.S.OnWrite = func(rp *Rpc) {
			holdMu.Lock()
			if holding {
				heldS2C = append(heldS2C, rp)
				holdMu.Unlock()
				return
			}
			holdMu.Unlock()
			l.C.Deliver(rp)
		}
		holdS2C := func(on bool) {
			holdMu.Lock()
			holding = on
			h := heldS2C
			if !on {
				heldS2C = nil
			}
			holdMu.Unlock()
			if !on {
				for _, rp := range h {
					l.C.Deliver(rp)
				}
			}
		}
		holdAny := func() bool { return false }
		sctx, scancel := context.WithCancel(context.Background())
		srv := newEchoServer("srv", g.echo())
		go srv.Serve(sctx, l.S)
		fault := &bodyFaultRW{Endpoint: l.C}
		goat.VerifResetTracking()
		cc := goat.NewClientConn(fault, "c1", "srv")
		var active []*longRPC
		started := 0
		sample := func(step int) {
			synctest.Wait()
			inflight, streams := 0, 0
			keep := active[:0]
			for _, a := range active {
				if a.done.Load() {
					hist["outcome:"+a.kind+"/"+a.outcome+"->"+a.result]++
					recent = append(recent, fmt.Sprintf("step %d: #%d %s/%s->%s", step, a.n, a.kind, a.outcome, a.result))
					if len(recent) > 10 {
						recent = recent[1:]
					}
					a.openGate()
					g.mu.Lock()
					delete(g.rpcs, a.n)
					delete(g.ids, a.n)
					g.mu.Unlock()
					continue
				}
				keep = append(keep, a)
				if a.started.Load() {
					inflight++
					if a.stream {
						streams++
					}
				}
			}
			active = keep
			if inflight > maxInflight {
				maxInflight = inflight
			}
			reg := cc.VerifNumHandlers()
			loops := -1
			if !thorough() || step%4 == 0 || inflight == 0 {
				var lib int
				_, loops, lib = clCensusAll()
				if inflight == 0 && !holdAny() {
					idleLib = append(idleLib, fmt.Sprint(lib))
				}
			}
			// loops stays -1 when the census was not taken at this step: the checker skips the loop bound there
			if inflight == 0 {
				idleSamples++
			}
			srv := -1
			if cs := goat.VerifServerStreamCounts(); len(cs) == 1 {
				srv = cs[0]
			}
			if srv > maxSrv {
				maxSrv = srv
			}
			if inflight == 0 && srv > srvLeaked && len(leakNotes) < 5 {
				// diagnosis for the replay file: the RPCs that ended just before the server was first seen holding more than before
				leakNotes = append(leakNotes, fmt.Sprintf("server holds %d at step %d with nothing in flight; ended last: %v", srv, step, recent))
				srvLeaked = srv
			}
			samples = append(samples, fmt.Sprintf("(%d, %s, %d, %d, %s)", reg, coqZ(int64(loops)), inflight, streams, coqZ(int64(srv))))
		}
		step := 0
		for started < total || len(active) > 0 {
			step++
			x := r.Intn(100)
			switch {
			case started < total && len(active) < 32 && (x < 35 || len(active) == 0):
				a := &longRPC{n: started, kind: kinds[r.Intn(4)], outcome: outcomes[r.Intn(len(outcomes))],
					stage: make(chan struct{}, 8), gate: make(chan struct{})}
				a.stream = a.kind != "Unary"
				a.fault = fault
				if a.outcome == "srvabort" && (a.kind == "Unary" || a.kind == "SStream") {
					a.outcome = "status"
				}
				if a.outcome == "cancelnow" && a.kind == "Unary" {
					a.outcome = "cancel"
				}
				if a.outcome == "deadlinemd" && a.kind == "Unary" {
					a.outcome = "deadline"
				}
				if a.outcome == "bigmsg" {
					if a.kind == "Unary" {
						a.outcome = "ok"
					} else {
						nbig++
						if nbig%4 == 0 {
							a.bigSize = bigLarge[(nbig/4)%len(bigLarge)]
						} else {
							a.bigSize = bigSmall[nbig%len(bigSmall)]
						}
						hist[fmt.Sprintf("bigmsg-size:%d", a.bigSize)]++
					}
				}
				started++
				g.mu.Lock()
				g.rpcs[a.n] = a
				g.mu.Unlock()
				active = append(active, a)
				go a.run(cc)
				synctest.Wait()
				if a.outcome == "failopen" {
					l.C.FailWrites(errWriteInjected)
					a.stage <- struct{}{}
					synctest.Wait()
					l.C.FailWrites(nil)
				} else if a.outcome == "cancelnow" {
					// NewStream, then cancel at once: the server's read loop finds the opener and the reset waiting together
					// (the stream's context may be over before its handler goroutine has run a single instruction)
					holdC2S(true)
					a.stage <- struct{}{}
					synctest.Wait()
					holdC2S(false)
				} else if a.outcome == "srvabort" {
					// the handler gives up after the first message; the client, which has not yet seen the server's
					// trailer, sends one more message (zero bytes on the wire) and then only looks at the result
					a.stage <- struct{}{}
					synctest.Wait()
					holdS2C(true)
					a.stage <- struct{}{}
					synctest.Wait()
					a.stage <- struct{}{}
					synctest.Wait()
					holdS2C(false)
				} else {
					a.stage <- struct{}{}
				}
			case len(active) == 0:
				continue
			case x < 75:
				a := active[r.Intn(len(active))]
				select {
				case a.stage <- struct{}{}:
				default:
				}
				if r.Intn(2) == 0 {
					a.openGate()
				}
				if a.outcome == "sendfail" {
					synctest.Wait()
					fault.failNextBody.Store(false)
				}
			case x < 85:
				a := active[r.Intn(len(active))]
				if a.outcome == "cancel" && a.cancel != nil && a.started.Load() {
					a.cancel()
				} else {
					a.openGate()
				}
			case x < 92:
				a := active[r.Intn(len(active))]
				g.mu.Lock()
				id, ok := g.ids[a.n]
				g.mu.Unlock()
				if a.outcome == "reset" && ok && a.stream {
					l.C.Deliver(&Rpc{Id: id, Header: &goatorepo.RequestHeader{Method: "/verif.Echo/" + a.kind, Source: "srv", Destination: "c1"},
						Reset_: &goatorepo.Reset{Type: "RST_STREAM"}, Trailer: &goatorepo.Trailer{}})
					// the scripted reset stands for the server giving up: its real handler is told as well
					l.S.Deliver(&Rpc{Id: id, Header: &goatorepo.RequestHeader{Method: "/verif.Echo/" + a.kind, Source: "c1", Destination: "srv"},
						Reset_: &goatorepo.Reset{Type: "RST_STREAM"}})
				} else {
					a.openGate()
				}
			case x < 96:
				time.Sleep(2 * time.Hour) // virtual: every deadline call in flight expires
			default:
				// drain: let every active RPC run to its end
				for _, a := range active {
					a.openGate()
					for i := 0; i < 6; i++ {
						select {
						case a.stage <- struct{}{}:
						default:
						}
						if a.outcome == "sendfail" {
							synctest.Wait()
							fault.failNextBody.Store(false)
						}
					}
				}
			}
			sample(step)
			if step > 40*total+1000 {
				t.Errorf("C14 long history does not finish: %d active", len(active))
				break
			}
		}
		sample(step + 1)
		scancel()
		for _, a := range active {
			a.openGate()
			if a.cancel != nil {
				a.cancel()
			}
		}
		l.C.FailRead(io.EOF)
		l.S.FailRead(io.EOF)
		synctest.Wait()
	})
	tags := []string{fmt.Sprintf("rpcs=%d", total), fmt.Sprintf("max-inflight=%d", maxInflight), fmt.Sprintf("idle-samples>0=%v", idleSamples > 0),
		fmt.Sprintf("server-registry-seen>0=%v", maxSrv > 0)}
	if leaked {
		tags = append(tags, "leaked-at-end")
	}
	for k, v := range hist {
		for i := 0; i < v && i < 1; i++ {
			tags = append(tags, k)
		}
	}
	// one connection, one history; every sample is judged on its own, so the history is emitted as records of <= 2000 samples
	nrec := (len(samples) + chunkEvents - 1) / chunkEvents
	if nrec == 0 {
		nrec = 1
	}
	for j := 0; j < nrec; j++ {
		lo, hi := j*chunkEvents, (j+1)*chunkEvents
		if hi > len(samples) {
			hi = len(samples)
		}
		ci := chunkIdx(idx, j)
		if !want(ci) {
			continue
		}
		desc := map[string]any{"rpcs": total, "samples": len(samples), "record": fmt.Sprintf("%d/%d", j+1, nrec)}
		if j == 0 {
			desc = map[string]any{"rpcs": total, "samples": len(samples), "record": fmt.Sprintf("1/%d", nrec), "max_inflight": maxInflight, "idle_samples": idleSamples, "outcomes": hist, "server_leak_notes": leakNotes}
		}
		rtags := tags
		if j > 0 {
			rtags = []string{fmt.Sprintf("rpcs=%d", total), fmt.Sprintf("record=%d/%d", j+1, nrec)}
		}
		em.Emit(Rec{Idx: ci, Kind: "c14-long", Desc: desc, Tags: rtags, Coq: "C14Long " + coqList(samples[lo:hi])})
	}
	// the goroutines with library frames at the idle points (all RPCs over, their callers' contexts - none of which is ever
	// cancelled for an RPC that ended by itself - still alive): never more than at the first idle point
	if gi := chunkIdx(idx, 999); want(gi) && len(idleLib) > 0 {
		if len(idleLib) > 4000 {
			idleLib = append(idleLib[:2000:2000], idleLib[len(idleLib)-2000:]...)
		}
		em.Emit(Rec{Idx: gi, Kind: "c14-long-goroutines", Desc: map[string]any{"idle_points": len(idleLib)},
			Tags: []string{fmt.Sprintf("rpcs=%d", total), "library-goroutines-at-idle-points"}, Coq: "C14Gor " + coqList(idleLib)})
	}
	em.Marker("end", idx)
}

//go:build tr

package verifharness

import (
	"context"
	"fmt"
	"net"
	"net/http"
	"strings"
	"sync"
	"testing"
	"testing/synctest"
	"time"

	goat "github.com/avos-io/goat"
	"github.com/avos-io/goat/gen/goatorepo"
	"github.com/coder/websocket"
	"google.golang.org/protobuf/proto"
)

// TestC19Ws drives the real goatOverWebsocket over a real coder/websocket
// connection whose byte stream runs through an in-memory relay (net.Pipe on
// both sides, an unbounded queue in between, so that a Write never waits for
// the far end's Read). Everything happens lock-step inside a synctest bubble.

// ---- in-memory listener + buffering relay ----

type trListener struct {
	ch     chan net.Conn
	closed chan struct{}
	once   sync.Once
}

func (l *trListener) Accept() (net.Conn, error) {
	select {
	case c := <-l.ch:
		return c, nil
	case <-l.closed:
		return nil, net.ErrClosed
	}
}
func (l *trListener) Close() error   { l.once.Do(func() { close(l.closed) }); return nil }
func (l *trListener) Addr() net.Addr { return &net.TCPAddr{IP: net.IPv4(127, 0, 0, 1), Port: 1} }

// trPumpLimit, when > 0, bounds the bytes a relay of the in-memory WebSocket pair holds: once that much is queued
// towards an end that does not read, the relay stops taking bytes from the writing end and a Write on it really
// blocks - like a socket whose buffers are full. 0 = unbounded (a Write never waits for the far end's Read).
var trPumpLimit int

// trPump copies src to dst through a queue (unbounded, or bounded by trPumpLimit as it is when the pair is made).
// A closed source does not close the destination (the rig closes every end itself).
func trPump(src, dst net.Conn, wg *sync.WaitGroup) {
	var mu sync.Mutex
	var q [][]byte
	queued, limit := 0, trPumpLimit
	space := make(chan struct{}, 1)
	eof := false
	sig := make(chan struct{}, 1)
	kick := func() {
		select {
		case sig <- struct{}{}:
		default:
		}
	}
	wg.Add(2)
	go func() {
		defer wg.Done()
		buf := make([]byte, 64<<10)
		for {
			for limit > 0 { // full: wait until the far end has taken something (or everything is being torn down)
				mu.Lock()
				full := queued >= limit && !eof
				mu.Unlock()
				if !full {
					break
				}
				<-space
			}
			n, err := src.Read(buf)
			mu.Lock()
			if n > 0 {
				q = append(q, append([]byte(nil), buf[:n]...))
				queued += n
			}
			if err != nil {
				eof = true
			}
			mu.Unlock()
			kick()
			if err != nil {
				return
			}
		}
	}()
	go func() {
		defer wg.Done()
		for {
			mu.Lock()
			var d []byte
			if len(q) > 0 {
				d, q = q[0], q[1:]
			}
			done := eof && d == nil
			mu.Unlock()
			if done {
				return
			}
			if d == nil {
				<-sig
				continue
			}
			mu.Lock()
			queued -= len(d)
			mu.Unlock()
			select {
			case space <- struct{}{}:
			default:
			}
			if _, err := dst.Write(d); err != nil {
				// the far end is gone: keep draining so that the near end never blocks
				for {
					mu.Lock()
					q = nil
					queued = 0
					done := eof
					mu.Unlock()
					select {
					case space <- struct{}{}:
					default:
					}
					if done {
						return
					}
					<-sig
				}
			}
		}
	}()
}

type trWsPair struct {
	cc, sc *websocket.Conn // writing end (client side), reading end (server side)
	close  func()
}

func newTrWsPair(t *testing.T, readLimit int64) *trWsPair {
	l := &trListener{ch: make(chan net.Conn), closed: make(chan struct{})}
	var wg sync.WaitGroup
	var ends []net.Conn
	var emu sync.Mutex
	srvConn := make(chan *websocket.Conn, 1)
	hold := make(chan struct{})
	srv := &http.Server{Handler: http.HandlerFunc(func(w http.ResponseWriter, r *http.Request) {
		c, err := websocket.Accept(w, r, nil)
		if err != nil {
			t.Errorf("websocket accept: %v", err)
			close(srvConn)
			return
		}
		srvConn <- c
		<-hold
	})}
	wg.Add(1)
	go func() { defer wg.Done(); srv.Serve(l) }()
	tr := &http.Transport{DialContext: func(ctx context.Context, network, addr string) (net.Conn, error) {
		a, a2 := net.Pipe()
		b2, b := net.Pipe()
		emu.Lock()
		ends = append(ends, a, a2, b2, b)
		emu.Unlock()
		trPump(a2, b2, &wg)
		trPump(b2, a2, &wg)
		l.ch <- b
		return a, nil
	}}
	hc := &http.Client{Transport: tr}
	cc, _, err := websocket.Dial(context.Background(), "ws://goat.test/", &websocket.DialOptions{HTTPClient: hc})
	if err != nil {
		t.Fatalf("websocket dial: %v", err)
	}
	sc := <-srvConn
	if readLimit != 0 {
		sc.SetReadLimit(readLimit)
	}
	p := &trWsPair{cc: cc, sc: sc}
	p.close = func() {
		cc.CloseNow()
		sc.CloseNow()
		close(hold)
		emu.Lock()
		for _, e := range ends {
			e.Close()
		}
		emu.Unlock()
		srv.Close()
		l.Close()
		tr.CloseIdleConnections()
		wg.Wait()
	}
	return p
}

// ---- scenarios ----

type wsAct struct {
	Op  string `json:"op"`          // W (goat Write of envelope E), T text frame, B raw binary frame, R Read, C cancel Read, X break
	E   int    `json:"e,omitempty"` // envelope index (W)
	Raw []byte `json:"raw,omitempty"`
}

type wsScenario struct {
	Acts  []wsAct
	Envs  []genEnv
	Limit int64 // read limit of the receiving connection (0: the library's default)
	Tag   string
	Sig   string // known-finding signature of the scenario, if any
}

func classifyWsErr(err error) string {
	s := err.Error()
	switch {
	case s == "invalid websocket message: not binary":
		return "WsNonBinary"
	case strings.HasPrefix(s, "proto:") || strings.Contains(s, "cannot parse invalid wire-format data") || strings.Contains(s, "invalid UTF-8"):
		return "WsDecode"
	default:
		return "WsConn"
	}
}

func runWs(t *testing.T, sc wsScenario) (steps []string, desc []string, big *bigRef, bad string) {
	for _, g := range sc.Envs {
		if g.Big != nil {
			big = g.Big
		}
	}
	leaked := bubble(t, func(t *testing.T) {
		p := newTrWsPair(t, sc.Limit)
		wr := goat.NewGoatOverWebsocket(p.cc)
		rd := goat.NewGoatOverWebsocket(p.sc)
		var mu sync.Mutex
		var fresh []string
		readPending := false
		var cancelRead context.CancelFunc
		var wg sync.WaitGroup
		for _, a := range sc.Acts {
			trStep()
			var act string
			switch a.Op {
			case "K": // the virtual clock advances: no action of the model
				time.Sleep(time.Second)
			case "W":
				e := sc.Envs[a.E].E
				act = "WsWrite " + coqRpc(e, big)
				err := wr.Write(context.Background(), e)
				mu.Lock()
				fresh = append(fresh, fmt.Sprintf("WsEvWrite %s %s", coqRpc(e, big), coqBool(err == nil)))
				mu.Unlock()
			case "T", "B":
				typ := websocket.MessageBinary
				if a.Op == "T" {
					typ = websocket.MessageText
				}
				act = fmt.Sprintf("WsInject (mkFrame %s %s)", coqBool(a.Op == "B"), coqBytesBig(a.Raw, big))
				if err := p.cc.Write(context.Background(), typ, a.Raw); err != nil {
					act = "" // the raw connection is closed: nothing was injected
				}
			case "R":
				act = "WsRead"
				if readPending {
					act = ""
					break
				}
				ctx, cancel := context.WithCancel(context.Background())
				cancelRead = cancel
				readPending = true
				wg.Add(1)
				go func() {
					defer wg.Done()
					rpc, err := rd.Read(ctx)
					res := ""
					if err == nil {
						res = "(WsMsg " + coqRpc(rpc, big) + ")"
					} else {
						res = classifyWsErr(err)
					}
					mu.Lock()
					fresh = append(fresh, "WsEvRead "+res)
					readPending = false
					mu.Unlock()
				}()
			case "C":
				act = "WsCancelRead"
				mu.Lock()
				pend := readPending
				mu.Unlock()
				if !pend {
					act = ""
					break
				}
				cancelRead()
			case "X":
				act = "WsBreak"
				p.cc.CloseNow()
				p.sc.CloseNow()
			}
			synctest.Wait()
			mu.Lock()
			evs := append([]string(nil), fresh...)
			fresh = nil
			pend := readPending
			mu.Unlock()
			acts := "[]"
			if act != "" {
				acts = "[" + act + "]"
			}
			steps = append(steps, fmt.Sprintf("(%s, mkWsObs %s %s)", acts, coqList(evs), coqBool(pend)))
			d := strings.Join(evs, ",")
			if len(d) > 200 {
				d = d[:200] + "..."
			}
			desc = append(desc, fmt.Sprintf("%s -> %s pending=%v", a.Op, d, pend))
		}
		if cancelRead != nil {
			cancelRead()
		}
		p.close()
		wg.Wait()
	})
	if leaked {
		bad = "goroutines left behind"
	}
	return
}

func wsValidRaw(e *Rpc) []byte {
	b, err := proto.Marshal(e)
	if err != nil {
		panic(err)
	}
	return b
}

func TestC19Ws(t *testing.T) {
	em := NewEmitter()
	defer em.Close()
	r := newRand(1902)
	idx := 0
	emit := func(sc wsScenario) {
		if want(idx) {
			em.Marker("begin", idx)
			unguard := trGuard(em, idx, "ws-lockstep", map[string]any{"what": sc.Tag, "limit": sc.Limit}, []string{"ws:" + sc.Tag})
			steps, desc, big, bad := runWs(t, sc)
			unguard()
			ops := make([]string, len(sc.Acts))
			for i, a := range sc.Acts {
				ops[i] = a.Op
			}
			tags := []string{"ws:" + sc.Tag}
			if sc.Sig != "" {
				tags = append(tags, "sig:"+sc.Sig)
			}
			if bad != "" {
				tags = append(tags, "ws-bad")
			}
			em.Emit(Rec{Idx: idx, Kind: "ws-lockstep", Desc: map[string]any{"ops": strings.Join(ops, ""), "what": sc.Tag, "limit": sc.Limit},
				Obs: map[string]any{"steps": desc, "bad": bad},
				Coq: big.coqLet("CWs " + coqList(steps)), Tags: tags})
			em.Marker("end", idx)
		}
		idx++
	}

	// (1) every generated envelope travels unchanged, in order: W R pairs, then W W W R R R
	extra := 20
	if thorough() {
		extra = 200
	}
	envs := genEnvelopes(r, trBodySizes(), extra)
	for i := 0; i < len(envs); {
		group := []genEnv{}
		nbig := 0
		for i < len(envs) && len(group) < 4 {
			if envs[i].Big != nil {
				if nbig == 1 {
					break
				}
				nbig++
			}
			group = append(group, envs[i])
			i++
		}
		var acts []wsAct
		if (i/4)%2 == 0 {
			for k := range group {
				acts = append(acts, wsAct{Op: "W", E: k}, wsAct{Op: "R"})
			}
		} else {
			for k := range group {
				acts = append(acts, wsAct{Op: "W", E: k})
			}
			for range group {
				acts = append(acts, wsAct{Op: "R"})
			}
		}
		emit(wsScenario{Acts: acts, Envs: group, Limit: -1, Tag: "envelopes"})
	}

	// (1b) the receiving connection as the library hands it out (read limit 32768): a body just below the
	// limit travels, one above it does not (known finding: NewGoatOverWebsocket leaves the limit to its caller)
	for _, n := range []int{30000, 40000} {
		b, big := genBody(r, n)
		g := genEnv{E: &Rpc{Id: 3, Header: &goatorepo.RequestHeader{Method: "/s/m", Source: "a"}, Body: &goatorepo.Body{Data: b}}, Big: big}
		sig := ""
		if n > 32768 {
			sig = "ws-default-read-limit"
		}
		emit(wsScenario{Acts: []wsAct{{Op: "W", E: 0}, {Op: "R"}}, Envs: []genEnv{g}, Limit: 0, Tag: "default-read-limit", Sig: sig})
	}

	// (1c) the upper end of the body range (1 MiB and just below, the largest envelope the property covers),
	// on a connection whose read limit the caller has lifted: written, read, equal; then a small one behind it
	// (spread over the rig's index space, one every 400 cases: ./check evaluates contiguous chunks in parallel)
	var wsEdge []wsScenario
	for _, g := range genEdgeEnvelopes(newRand(1912)) {
		tail := genEnv{E: &Rpc{Id: 4, Header: &goatorepo.RequestHeader{Method: "/s/m", Source: "a"}, Body: &goatorepo.Body{Data: []byte("after")}}}
		wsEdge = append(wsEdge, wsScenario{Acts: []wsAct{{Op: "W", E: 0}, {Op: "W", E: 1}, {Op: "R"}, {Op: "R"}}, Envs: []genEnv{g, tail}, Limit: -1, Tag: "edge-size"})
	}
	emitWsEdge := func() {
		if len(wsEdge) > 0 {
			emit(wsEdge[0])
			wsEdge = wsEdge[1:]
		}
	}
	emitWsEdge()

	// (2) every short sequence over the action alphabet
	small := []genEnv{{E: &Rpc{Id: 7, Header: &goatorepo.RequestHeader{Method: "/s/m", Source: "a", Destination: "b"}, Body: &goatorepo.Body{Data: []byte("payload")}}},
		{E: &Rpc{Id: 1<<64 - 1, Status: &goatorepo.ResponseStatus{Code: 5, Message: "né"}, Trailer: &goatorepo.Trailer{}}}}
	hw := handWrittenWire()
	alphabet := []wsAct{{Op: "W", E: 0}, {Op: "W", E: 1}, {Op: "R"}, {Op: "C"}, {Op: "X"}, {Op: "K"},
		{Op: "T", Raw: []byte("hello")}, {Op: "T", Raw: wsValidRaw(small[0].E)},
		{Op: "B", Raw: []byte{0xff, 0xff, 0xff}}, {Op: "B", Raw: hw["fields-reverse-order"]}, {Op: "B", Raw: hw["header-method-bad-utf8"]}, {Op: "B", Raw: []byte{}}}
	maxLen := 3
	if thorough() {
		maxLen = 4
	}
	var rec func(prefix []wsAct)
	rec = func(prefix []wsAct) {
		if len(prefix) > 0 {
			emit(wsScenario{Acts: prefix, Envs: small, Limit: -1, Tag: fmt.Sprintf("enum-len%d", len(prefix))})
			if idx%400 == 200 {
				emitWsEdge()
			}
		}
		if len(prefix) >= maxLen {
			return
		}
		for _, a := range alphabet {
			if a.Op == "K" && (len(prefix) == 0 || prefix[len(prefix)-1].Op == "K") {
				continue // a tick before anything happened, or right after a tick, says nothing
			}
			// cancelling without a Read in the sequence so far is a no-op: skip
			if a.Op == "C" {
				has := false
				for _, b := range prefix {
					has = has || b.Op == "R"
				}
				if !has {
					continue
				}
			}
			rec(append(append([]wsAct{}, prefix...), a))
		}
	}
	rec(nil)

	for len(wsEdge) > 0 {
		emitWsEdge()
	}
	// (3) seeded random longer sequences with raw frames from the wire corners and mutations
	nrand := 150
	if thorough() {
		nrand = 1500
	}
	hwNames := sortedKeys(hw)
	for i := 0; i < nrand; i++ {
		n := 5 + r.Intn(8)
		var acts []wsAct
		for k := 0; k < n; k++ {
			switch r.Intn(10) {
			case 0, 1:
				acts = append(acts, wsAct{Op: "W", E: r.Intn(2)})
			case 2, 3, 4:
				acts = append(acts, wsAct{Op: "R"})
			case 5:
				acts = append(acts, wsAct{Op: "T", Raw: hw[hwNames[r.Intn(len(hwNames))]]})
			case 6:
				acts = append(acts, wsAct{Op: "B", Raw: hw[hwNames[r.Intn(len(hwNames))]]})
			case 7:
				acts = append(acts, wsAct{Op: "B", Raw: mutate(r, wsValidRaw(small[r.Intn(2)].E))})
			case 8:
				if r.Intn(3) == 0 {
					acts = append(acts, wsAct{Op: "C"})
				} else {
					b := make([]byte, r.Intn(12))
					r.Read(b)
					acts = append(acts, wsAct{Op: "B", Raw: b})
				}
			case 9:
				switch r.Intn(4) {
				case 0:
					acts = append(acts, wsAct{Op: "X"})
				case 1:
					acts = append(acts, wsAct{Op: "K"})
				default:
					acts = append(acts, wsAct{Op: "R"})
				}
			}
		}
		emit(wsScenario{Acts: acts, Envs: small, Limit: -1, Tag: "random"})
	}

	// (4) concurrent writers on ONE goatOverWebsocket connection (free-running, outside any bubble): the client
	// multiplexer writes from one goroutine per call, relying on coder/websocket's Conn.Write being safe for that
	for _, k := range []int{2, 8} {
		if want(idx) {
			em.Marker("begin", idx)
			p := newTrWsPair(t, -1)
			wr := goat.NewGoatOverWebsocket(p.cc)
			rd := goat.NewGoatOverWebsocket(p.sc)
			emitConc(em, idx, "ws", k, 400, concWriters(k, 400, wr.Write, rd.Read))
			p.close()
			em.Marker("end", idx)
		}
		idx++
	}

	// (5) a Write that is really BLOCKED returns once its context is done. The pair's relay is bounded here (64 KiB:
	// a socket whose buffers are full), nobody reads the far end: a Write of a 300 KB envelope parks half way, a second
	// Write queues behind it on the connection. Then the contexts end - by explicit cancel (with and without a far
	// deadline on the context) or by a deadline that passes - and at the next quiescent point both calls must have
	// returned an error. In a bubble: "parked" and "returned" are facts of the quiescent state, no timeout decides.
	for _, variant := range []string{"cancel", "cancel-with-far-deadline", "deadline-passes"} {
		if want(idx) {
			em.Marker("begin", idx)
			unguard := trGuard(em, idx, "ws-blocked-write", map[string]any{"variant": variant}, []string{"ws:blocked-write"})
			var parked, returned [2]bool
			var errs [2]string
			leaked := bubble(t, func(t *testing.T) {
				trPumpLimit = 64 << 10
				p := newTrWsPair(t, -1)
				trPumpLimit = 0
				wr := goat.NewGoatOverWebsocket(p.cc)
				var mu sync.Mutex
				var wg sync.WaitGroup
				var cancels [2]context.CancelFunc
				for i := 0; i < 2; i++ {
					trStep()
					ctx, cancel := context.WithCancel(context.Background())
					switch variant {
					case "cancel-with-far-deadline":
						ctx, cancel = context.WithTimeout(context.Background(), time.Hour)
					case "deadline-passes":
						ctx, cancel = context.WithTimeout(context.Background(), 5*time.Second)
					}
					cancels[i] = cancel
					e := &Rpc{Id: uint64(i + 1), Header: &goatorepo.RequestHeader{Method: "/s/m", Source: "a"}, Body: &goatorepo.Body{Data: lcgBody(uint64(7+i), 300000)}}
					wg.Add(1)
					go func(i int) {
						defer wg.Done()
						err := wr.Write(ctx, e)
						mu.Lock()
						returned[i], errs[i] = true, fmt.Sprint(err)
						if err == nil {
							errs[i] = "nil"
						}
						mu.Unlock()
					}(i)
					synctest.Wait()
					mu.Lock()
					parked[i] = !returned[i]
					mu.Unlock()
				}
				trStep()
				if variant == "deadline-passes" {
					time.Sleep(6 * time.Second)
				} else {
					cancels[0]()
					cancels[1]()
				}
				synctest.Wait()
				mu.Lock()
				done0, done1 := returned[0], returned[1]
				mu.Unlock()
				returned[0], returned[1] = done0, done1 // the verdict: the state at THIS quiescent point
				snapshot := returned
				// tear down (releases whatever is still parked), then restore the verdict
				cancels[0]()
				cancels[1]()
				p.close()
				wg.Wait()
				mu.Lock()
				returned = snapshot
				mu.Unlock()
			})
			unguard()
			ok := parked[0] && parked[1] && returned[0] && returned[1] && errs[0] != "nil" && errs[1] != "nil"
			// the same three steps for the fragment-level model (Model/WsFrag.v; the wire takes 2 fragments, a frame has 6):
			// Write 0, Write 1, the contexts of both end
			fobs := func(rets []string, pend []int) string {
				return fmt.Sprintf("mkFObs %s %s", coqList(rets), coqInts(pend))
			}
			var fragSteps []string
			pend, early := []int{}, [2][]string{}
			for i := 0; i < 2; i++ {
				if parked[i] {
					pend = append(pend, i)
				} else {
					early[i] = []string{fmt.Sprintf("(%d, %s)", i, coqBool(errs[i] == "nil"))}
				}
				fragSteps = append(fragSteps, fmt.Sprintf("([FWrite %d 5%%nat], %s)", i+1, fobs(early[i], append([]int{}, pend...))))
			}
			var rets []string
			var still []int
			for _, i := range pend {
				if returned[i] {
					rets = append(rets, fmt.Sprintf("(%d, %s)", i, coqBool(errs[i] == "nil")))
				} else {
					still = append(still, i)
				}
			}
			fragSteps = append(fragSteps, fmt.Sprintf("([FCancel 0%%nat; FCancel 1%%nat], %s)", fobs(rets, still)))
			tags := []string{"ws:blocked-write", "ws-variant:" + variant}
			if leaked {
				tags = append(tags, "ws-leaked")
			}
			em.Emit(Rec{Idx: idx, Kind: "ws-blocked-write", Desc: map[string]any{"variant": variant, "relay_limit": 64 << 10, "envelope_bytes": 300000},
				Obs: map[string]any{"parked_before": parked, "returned_at_quiescence_after_ctx_done": returned, "errs": errs},
				Coq: fmt.Sprintf("CWsFrag 2%%nat %s %s", coqList(fragSteps), coqBool(ok)), Tags: tags})
			em.Marker("end", idx)
		}
		idx++
	}
}

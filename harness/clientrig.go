package verifharness

import (
	"context"
	"encoding/base64"
	"encoding/binary"
	"errors"
	"fmt"
	"io"
	"os"
	"runtime"
	"sort"
	"strings"
	"sync"
	"sync/atomic"
	"testing"
	"testing/synctest"
	"time"

	goat "github.com/avos-io/goat"
	"github.com/avos-io/goat/gen/goatorepo"
	"github.com/avos-io/goat/internal/verifhook"
	"google.golang.org/grpc"
	"google.golang.org/grpc/codes"
	"google.golang.org/grpc/metadata"
	"google.golang.org/grpc/stats"
	"google.golang.org/grpc/status"
	"google.golang.org/protobuf/proto"
	"google.golang.org/protobuf/types/known/wrapperspb"
)

// ---------------------------------------------------------------- tokens

var payloadSizes = []int{0, 1, 17, 300, 4096, 65536}

// payloadOf maps a payload token to bytes: 8 bytes of token, then size-class
// filler derived from the token (size class by token; token 0 is the empty
// message). Negative tokens are bytes that are not a valid message.
func payloadOf(tok int64) []byte {
	if tok == 0 {
		return nil
	}
	size := payloadSizes[int(tok)%len(payloadSizes)]
	b := make([]byte, 8+size)
	binary.BigEndian.PutUint64(b, uint64(tok))
	x := uint64(tok)*6364136223846793005 + 1442695040888963407
	for i := 8; i < len(b); i++ {
		x = x*6364136223846793005 + 1442695040888963407
		b[i] = byte(x >> 56)
	}
	return b
}

// tokenOf inverts payloadOf; a payload that is not exactly payloadOf(tok) is
// reported as token -777 ("altered").
func tokenOf(b []byte) int64 {
	if len(b) == 0 {
		return 0
	}
	if len(b) < 8 {
		return -777
	}
	tok := int64(binary.BigEndian.Uint64(b))
	if tok <= 0 || string(payloadOf(tok)) != string(b) {
		return -777
	}
	return tok
}

func bodyBytes(tok int64) []byte {
	if tok < 0 {
		return []byte{0xff, 0xff, 0xff} // not a protobuf message
	}
	b, _ := proto.Marshal(&wrapperspb.BytesValue{Value: payloadOf(tok)})
	if b == nil {
		b = []byte{}
	}
	return b
}

func mdOf(tok int64) []*goatorepo.KeyValue {
	if tok == 0 {
		return nil
	}
	return []*goatorepo.KeyValue{{Key: fmt.Sprintf("k%d", tok), Value: fmt.Sprintf("v%d", tok)}}
}

var badMD = []*goatorepo.KeyValue{{Key: "x-bin", Value: "!!!not-base64!!!"}}

// binMDKey / binSpec: response metadata with ONE "-bin" key whose wire value is given literally ("bin:<value>" in
// EnvSpec.Hdr / Trl). On the wire a -bin value is padded base64url (internal.ToKeyValue encodes with
// base64.URLEncoding): the oracle for "decodable" is that decoder, and a decoded value is reported as the length token
// 8000 + len(bytes).
const binMDKey = "k7-bin"

func binSpec(s string) (string, bool) {
	if strings.HasPrefix(s, "bin:") {
		return s[4:], true
	}
	return "", false
}

func mdTokenOf(md metadata.MD) int64 {
	if len(md) == 0 {
		return 0
	}
	if vs, ok := md[binMDKey]; ok && len(md) == 1 && len(vs) == 1 {
		return 8000 + int64(len(vs[0]))
	}
	if len(md) == 1 {
		for k, vs := range md {
			var n int64
			if _, err := fmt.Sscanf(k, "k%d", &n); err == nil && len(vs) == 1 && vs[0] == fmt.Sprintf("v%d", n) {
				return n
			}
		}
	}
	return -777
}

// ---------------------------------------------------------------- scenario

type EnvSpec struct {
	Call   int       `json:"call"`             // index of the call whose id the envelope carries; -1 = an id nobody owns
	Hdr    string    `json:"hdr"`              // "none" | "ok:<tok>" | "bad"
	Status *[2]int64 `json:"status,omitempty"` // code, message token
	Body   *int64    `json:"body,omitempty"`
	Trl    string    `json:"trl"` // "none" | "ok:<tok>" | "bad"
	Rst    bool      `json:"rst,omitempty"`
	// Guess: when the call has put nothing on the wire (its id was never observed) the envelope is addressed to the id the
	// call WOULD have been given (ids are allocated consecutively: C05_counter) instead of an id nobody owns. On the
	// unchanged tree an open only fails before its id is allocated or while writing; the flag matters when an open fails
	// AFTER the registration (Raw is filled in by the rig)
	Guess bool   `json:"guess,omitempty"`
	Raw   uint64 `json:"raw,omitempty"`
}

type CAct struct {
	Op   string   `json:"op"`
	C    int      `json:"c,omitempty"`
	Park bool     `json:"park,omitempty"`
	B    int64    `json:"b,omitempty"`
	Env  *EnvSpec `json:"env,omitempty"`
	On   bool     `json:"on,omitempty"`
	MD   string   `json:"md,omitempty"` // caller metadata of an open (unary / stream): see callerMD; "" = chosen by the rig
}

// Caller metadata as a dimension of every open. Request metadata is opaque to the client model (it is compared by C04 /
// C08): whatever the caller attaches, the open must behave as without it - on the unchanged tree every one of these is put
// on the wire as it is.
var mdKinds = []string{"none", "ordinary", "none", "grpc-trace-id", "grpc-timeout", "none", "space", "upper", "nonascii", "ordinary", "empty-key",
	"nul", "nonprint", "none", "many17", "grpc-status", "bin", "pseudo"}

func callerMD(kind string) metadata.MD {
	switch kind {
	case "", "none":
		return nil
	case "ordinary":
		return metadata.MD{"x-request-id": {"r-17"}, "authorization": {"bearer abc"}}
	case "grpc-trace-id":
		return metadata.MD{"grpc-trace-id": {"4bf92f3577b34da6"}}
	case "grpc-timeout":
		return metadata.MD{"grpc-timeout": {"1H"}}
	case "grpc-status":
		return metadata.MD{"Grpc-Status": {"0"}, "x-a": {"1"}}
	case "space":
		return metadata.MD{"key with space": {"v"}}
	case "upper":
		return metadata.MD{"X-Upper-Case": {"V"}}
	case "nonascii":
		return metadata.MD{"cl\u00e9-\u043a\u043b\u044e\u0447": {"\u00fc\u00f1\u00ee"}}
	case "empty-key":
		return metadata.MD{"": {"v"}}
	case "nul":
		return metadata.MD{"x-nul": {"a\x00b"}}
	case "nonprint":
		return metadata.MD{"x-ctl": {"\x01\x02\x7f", "tab\there"}}
	case "bin":
		return metadata.MD{"x-blob-bin": {"\x00\x01\x02"}}
	case "pseudo":
		return metadata.MD{":authority": {"h"}}
	case "many17":
		md := metadata.MD{}
		for i := 0; i < 17; i++ {
			md[fmt.Sprintf("x-k%02d", i)] = []string{fmt.Sprint(i), "w"}
		}
		return md
	}
	panic("unknown metadata kind " + kind)
}

func withCallerMD(ctx context.Context, kind string) context.Context {
	if md := callerMD(kind); md != nil {
		return metadata.NewOutgoingContext(ctx, md)
	}
	return ctx
}

func mdvCoq(s string) string {
	switch {
	case s == "none" || s == "":
		return "None"
	case s == "bad":
		return "(Some MdBad)"
	case strings.HasPrefix(s, "bin:"):
		raw, err := base64.URLEncoding.DecodeString(s[4:])
		if err != nil {
			return "(Some MdBad)"
		}
		return fmt.Sprintf("(Some (MdOk %d))", 8000+len(raw))
	default:
		var n int64
		fmt.Sscanf(s, "ok:%d", &n)
		return fmt.Sprintf("(Some (MdOk %s))", coqZ(n))
	}
}

func (e *EnvSpec) coq(id uint64) string {
	st := "None"
	if e.Status != nil {
		st = fmt.Sprintf("(Some (mkSt %s %s))", coqZ(e.Status[0]), coqZ(e.Status[1]))
	}
	body := "None"
	if e.Body != nil {
		body = fmt.Sprintf("(Some %s)", coqZ(*e.Body))
	}
	return fmt.Sprintf("(mkEnv %s %s %s %s %s %s)", coqU(id), mdvCoq(e.Hdr), st, body, mdvCoq(e.Trl), coqBool(e.Rst))
}

func (e *EnvSpec) build(id uint64, method string) *Rpc {
	r := &Rpc{Id: id}
	switch {
	case e.Hdr == "none" || e.Hdr == "":
	case e.Hdr == "bad":
		r.Header = &goatorepo.RequestHeader{Method: method, Source: "dst", Destination: "src", Headers: badMD}
	case strings.HasPrefix(e.Hdr, "bin:"):
		r.Header = &goatorepo.RequestHeader{Method: method, Source: "dst", Destination: "src", Headers: []*goatorepo.KeyValue{{Key: binMDKey, Value: e.Hdr[4:]}}}
	default:
		var n int64
		fmt.Sscanf(e.Hdr, "ok:%d", &n)
		r.Header = &goatorepo.RequestHeader{Method: method, Source: "dst", Destination: "src", Headers: mdOf(n)}
	}
	if e.Status != nil {
		r.Status = &goatorepo.ResponseStatus{Code: int32(e.Status[0]), Message: fmt.Sprintf("m%d", e.Status[1])}
	}
	if e.Body != nil {
		r.Body = &goatorepo.Body{Data: bodyBytes(*e.Body)}
	}
	switch {
	case e.Trl == "none" || e.Trl == "":
	case e.Trl == "bad":
		r.Trailer = &goatorepo.Trailer{Metadata: badMD}
	case strings.HasPrefix(e.Trl, "bin:"):
		r.Trailer = &goatorepo.Trailer{Metadata: []*goatorepo.KeyValue{{Key: binMDKey, Value: e.Trl[4:]}}}
	default:
		var n int64
		fmt.Sscanf(e.Trl, "ok:%d", &n)
		r.Trailer = &goatorepo.Trailer{Metadata: mdOf(n)}
	}
	if e.Rst {
		r.Reset_ = &goatorepo.Reset{Type: "RST_STREAM"}
	}
	return r
}

func (a CAct) coq(ids map[int]uint64) string {
	switch a.Op {
	case "unary":
		return fmt.Sprintf("ANewUnary %s %s", coqZ(a.B), coqBool(a.Park))
	case "stream":
		return fmt.Sprintf("ANewStream %s", coqBool(a.Park))
	case "release":
		return fmt.Sprintf("ARelease %d", a.C)
	case "recv":
		return fmt.Sprintf("ARecv %d %s", a.C, coqBool(a.Park))
	case "releaserecv":
		return fmt.Sprintf("AReleaseRecv %d", a.C)
	case "send":
		return fmt.Sprintf("ASend %d %s", a.C, coqZ(a.B))
	case "closesend":
		return fmt.Sprintf("ACloseSend %d", a.C)
	case "header":
		return fmt.Sprintf("AHeader %d", a.C)
	case "trailer":
		return fmt.Sprintf("ATrailer %d", a.C)
	case "cancel":
		return fmt.Sprintf("ACancel %d", a.C)
	case "expire":
		return fmt.Sprintf("AExpire %d", a.C)
	case "deliver":
		id := uint64(9999)
		if a.Env.Call >= 0 {
			id = ids[a.Env.Call]
		} else if a.Env.Raw != 0 {
			id = a.Env.Raw
		}
		return "ADeliver " + a.Env.coq(id)
	case "failread":
		return "AFailRead"
	case "wfail":
		return "ASetWriteFail " + coqBool(a.On)
	case "tick":
		// time passes (a.B milliseconds of the bubble's virtual clock). Nothing depends on time in the model: a tick is the
		// idempotent environment action "set the write mode to what it is" (a.On is filled in by the rig)
		return "ASetWriteFail " + coqBool(a.On)
	case "close":
		// ClientConn.Close(): on the pinned tree it reports stats.ConnEnd and nothing else - the multiplexer, the calls in
		// flight and later calls are not affected (the transport is the caller's to close). In the model it is therefore the
		// same idempotent environment action as a tick. What the spec predicates require after it is unchanged: a later read
		// failure still has to end every call.
		return "ASetWriteFail " + coqBool(a.On)
	}
	panic("unknown op " + a.Op)
}

// ---------------------------------------------------------------- manual contexts

type manualCtx struct {
	mu   sync.Mutex
	done chan struct{}
	err  error
}

func newManualCtx() *manualCtx                   { return &manualCtx{done: make(chan struct{})} }
func (m *manualCtx) Deadline() (time.Time, bool) { return time.Time{}, false }
func (m *manualCtx) Done() <-chan struct{}       { return m.done }
func (m *manualCtx) Value(any) any               { return nil }
func (m *manualCtx) Err() error                  { m.mu.Lock(); defer m.mu.Unlock(); return m.err }
func (m *manualCtx) finish(err error) {
	m.mu.Lock()
	if m.err == nil {
		m.err = err
		close(m.done)
	}
	m.mu.Unlock()
}

// ---------------------------------------------------------------- error classes

func classOf(err error) string {
	if err == nil {
		return "nil"
	}
	if err == io.EOF {
		return "EEof"
	}
	if err == context.Canceled {
		return "ERawCanceled"
	}
	if err == context.DeadlineExceeded {
		return "ERawDeadline"
	}
	if errors.Is(err, errInjected) {
		if st, ok := status.FromError(err); ok && st.Code() == codes.Unknown && strings.Contains(st.Message(), "injected") {
			return "EConn"
		}
		return "EConn"
	}
	if errors.Is(err, errWriteInjected) {
		return "EWrite"
	}
	msg := err.Error()
	if st, ok := status.FromError(err); ok {
		switch {
		case st.Code() == codes.Canceled:
			return "ECanceled"
		case st.Code() == codes.DeadlineExceeded:
			return "EDeadline"
		case st.Code() == codes.Unavailable && strings.Contains(st.Message(), "reset by peer"):
			return "EReset"
		case st.Code() == codes.Unknown && strings.Contains(st.Message(), "injected transport failure"):
			return "EConn"
		case st.Code() == codes.Unknown && strings.Contains(st.Message(), "injected write failure"):
			return "EWrite"
		case st.Code() == codes.Unknown && strings.Contains(st.Message(), "respChan closed"):
			return "EClosed"
		case st.Code() == codes.Unknown && strings.Contains(st.Message(), "illegal base64"):
			return "EBadMd"
		}
		var tok int64
		if _, e := fmt.Sscanf(st.Message(), "m%d", &tok); e == nil {
			return fmt.Sprintf("(EStatus (mkSt %d %s))", st.Code(), coqZ(tok))
		}
		return fmt.Sprintf("(EStatus (mkSt %d (-777)))", st.Code())
	}
	switch {
	case strings.Contains(msg, "respChan closed"):
		return "EClosed"
	case strings.Contains(msg, "malformed response"):
		return "EMalformed"
	case strings.Contains(msg, "injected transport failure"):
		return "EConn"
	case strings.Contains(msg, "injected write failure"):
		return "EWrite"
	case strings.Contains(msg, "illegal base64"):
		return "EBadMd"
	case strings.Contains(msg, "proto:") || strings.Contains(msg, "cannot parse") || strings.Contains(msg, "unmarshal"):
		return "EUnmarshal"
	}
	return "EUnknown_" + strings.Map(func(r rune) rune {
		if (r >= 'a' && r <= 'z') || (r >= 'A' && r <= 'Z') {
			return r
		}
		return '_'
	}, msg)
}

var errWriteInjected = errors.New("injected write failure")

func optErr(err error) string {
	if err == nil {
		return "None"
	}
	return "(Some " + classOf(err) + ")"
}

// ---------------------------------------------------------------- the rig

type stepObs struct {
	Events  []string `json:"events"`
	Reg     int      `json:"reg"`
	Pending []string `json:"pending"`
	Loops   int      `json:"loops"`
	MuxLoop int      `json:"muxloop"`
}

type clientRig struct {
	t        *testing.T
	ep       *Endpoint
	cc       *goat.ClientConn
	mu       sync.Mutex
	events   []string
	pend     map[string]bool
	ctxs     []*manualCtx
	strs     []grpc.ClientStream
	ids      map[int]uint64
	kinds    []string
	nCalls   int
	parkMu   sync.Mutex
	parkPt   string
	gates    map[string]chan struct{}
	parkKey  string
	stats    *recStats
	payloads []int64
	wfailOn  bool
	guess    map[int]uint64 // call -> the id it is given if every call before it allocated one
	guessMax uint64
	wrFailed map[int]bool // streams one of whose SendMsg / CloseSend failed with the transport's write error
}

// classFor canonicalises one known benign race that Model/Client.v does not split (found by cw, coordinator's ruling:
// neither a finding nor a /repo fix): after a SendMsg failed with a transport write error, clientStream.teardown
// unregisters (closes the handler) and only then cancels the stream context; the stream loop parked in Read can wake
// in between and end with "respChan closed" instead of Canceled (9/300 under load). The model's failing-send teardown
// is atomic (always Canceled). For operations on a stream AFTER one of its sends failed with the write error,
// EClosed is therefore reported as ECanceled.
func (r *clientRig) classFor(c int, err error) string {
	cl := classOf(err)
	r.mu.Lock()
	defer r.mu.Unlock()
	if r.wrFailed == nil {
		r.wrFailed = map[int]bool{}
	}
	if cl == "EWrite" {
		r.wrFailed[c] = true
	} else if cl == "EClosed" && r.wrFailed[c] {
		return "ECanceled"
	}
	return cl
}

func (r *clientRig) optErrFor(c int, err error) string {
	if err == nil {
		return "None"
	}
	return "(Some " + r.classFor(c, err) + ")"
}

func (r *clientRig) ev(s string) {
	r.mu.Lock()
	r.events = append(r.events, s)
	r.mu.Unlock()
}

func (r *clientRig) setPending(k string, on bool) {
	r.mu.Lock()
	if on {
		r.pend[k] = true
	} else {
		delete(r.pend, k)
	}
	r.mu.Unlock()
}

func (r *clientRig) isPending(k string) bool {
	r.mu.Lock()
	defer r.mu.Unlock()
	return r.pend[k]
}

// arm makes the next goroutine that reaches yield point pt park under key.
func (r *clientRig) arm(pt, key string) {
	r.parkMu.Lock()
	r.parkPt, r.parkKey = pt, key
	r.gates[key] = make(chan struct{})
	r.parkMu.Unlock()
}

func (r *clientRig) yield(pt string) {
	r.parkMu.Lock()
	if r.parkPt != pt {
		r.parkMu.Unlock()
		return
	}
	key := r.parkKey
	r.parkPt = ""
	g := r.gates[key]
	r.parkMu.Unlock()
	<-g
}

// disarm clears a park request that no goroutine consumed (the operation
// returned before reaching the yield point).
func (r *clientRig) disarm() {
	r.parkMu.Lock()
	if r.parkPt != "" {
		delete(r.gates, r.parkKey)
		r.parkPt, r.parkKey = "", ""
	}
	r.parkMu.Unlock()
}

func (r *clientRig) release(key string) {
	r.parkMu.Lock()
	g := r.gates[key]
	delete(r.gates, key)
	r.parkMu.Unlock()
	if g != nil {
		close(g)
	}
}

func envProj(w *Rpc) string {
	// the projection of a client-written envelope that the model predicts
	st := "None"
	if w.Status != nil {
		st = fmt.Sprintf("(Some (mkSt %d 0))", w.Status.Code)
	}
	body := "None"
	if w.Body != nil {
		var v wrapperspb.BytesValue
		if err := proto.Unmarshal(w.Body.Data, &v); err != nil {
			body = "(Some (-777))"
		} else {
			body = fmt.Sprintf("(Some %s)", coqZ(tokenOf(v.Value)))
		}
	}
	hdr := "None"
	if w.Header != nil {
		hdr = "(Some (MdOk 0))" // request metadata is compared by C04/C08, not here
	}
	trl := "None"
	if w.Trailer != nil {
		trl = "(Some (MdOk 0))"
	}
	return fmt.Sprintf("(mkEnv %d %s %s %s %s %s)", w.Id, hdr, st, body, trl, coqBool(w.Reset_ != nil))
}

// noteGuess records the id call c is given if every call created before it allocated one.
func (r *clientRig) noteGuess(c int) {
	m := r.guessMax
	for _, w := range r.ep.WrittenCopy() {
		if w.Id > m {
			m = w.Id
		}
	}
	if r.guess == nil {
		r.guess = map[int]uint64{}
	}
	r.guess[c] = m + 1
	r.guessMax = m + 1
}

func (r *clientRig) do(a CAct) {
	switch a.Op {
	case "unary":
		c := r.nCalls
		r.nCalls++
		ctx := newManualCtx()
		r.noteGuess(c)
		cctx := withCallerMD(ctx, a.MD)
		r.ctxs = append(r.ctxs, ctx)
		r.strs = append(r.strs, nil)
		r.kinds = append(r.kinds, "unary")
		key := fmt.Sprintf("call%d", c)
		if a.Park {
			r.arm("mux.checked", key)
		}
		r.setPending(fmt.Sprintf("(%d, 0)", c), true)
		before := len(r.ep.WrittenCopy())
		_ = before
		go func() {
			var out wrapperspb.BytesValue
			err := r.invokeGuard(cctx, c, &out)
			res := ""
			if err == nil {
				res = fmt.Sprintf("(UOk %s)", coqZ(tokenOf(out.Value)))
			} else {
				res = "(UErr " + classOf(err) + ")"
			}
			r.ev(fmt.Sprintf("EvUnaryRet %d %s", c, res))
			r.setPending(fmt.Sprintf("(%d, 0)", c), false)
		}()
	case "stream":
		c := r.nCalls
		r.nCalls++
		ctx := newManualCtx()
		r.noteGuess(c)
		cctx := withCallerMD(ctx, a.MD)
		r.ctxs = append(r.ctxs, ctx)
		r.strs = append(r.strs, nil)
		r.kinds = append(r.kinds, "stream")
		key := fmt.Sprintf("call%d", c)
		if a.Park {
			r.arm("mux.checked", key)
		}
		r.setPending(fmt.Sprintf("(%d, 0)", c), true)
		go func() {
			cs, err := r.cc.NewStream(cctx, descBidi, "/verif.Echo/Bidi")
			r.mu.Lock()
			r.strs[c] = cs
			r.mu.Unlock()
			r.ev(fmt.Sprintf("EvOpenRet %d %s", c, optErr(err)))
			r.setPending(fmt.Sprintf("(%d, 0)", c), false)
		}()
	case "release":
		r.release(fmt.Sprintf("call%d", a.C))
	case "recv":
		cs := r.stream(a.C)
		if cs == nil {
			return
		}
		k := fmt.Sprintf("(%d, 1)", a.C)
		r.mu.Lock()
		busy := r.pend[k]
		r.mu.Unlock()
		if busy {
			return
		}
		if a.Park {
			r.arm("cs.recv.checked", fmt.Sprintf("recv%d", a.C))
		}
		r.setPending(k, true)
		c := a.C
		go func() {
			var m wrapperspb.BytesValue
			err := r.recvGuard(cs, c, &m)
			if err == errPanicked {
				r.ev(fmt.Sprintf("EvPanic %d", c))
			} else if err == nil {
				r.ev(fmt.Sprintf("EvRecvRet %d (RMsg %s)", c, coqZ(tokenOf(m.Value))))
			} else {
				r.ev(fmt.Sprintf("EvRecvRet %d (RErr %s)", c, r.classFor(c, err)))
			}
			r.setPending(k, false)
		}()
	case "releaserecv":
		r.release(fmt.Sprintf("recv%d", a.C))
	case "send":
		cs := r.stream(a.C)
		if cs == nil || r.isPending(fmt.Sprintf("(%d, 2)", a.C)) {
			return
		}
		c, b := a.C, a.B
		k := fmt.Sprintf("(%d, 2)", c)
		r.setPending(k, true)
		go func() {
			err := cs.SendMsg(&wrapperspb.BytesValue{Value: payloadOf(b)})
			r.ev(fmt.Sprintf("EvSendRet %d %s", c, r.optErrFor(c, err)))
			r.setPending(k, false)
		}()
	case "closesend":
		cs := r.stream(a.C)
		if cs == nil || r.isPending(fmt.Sprintf("(%d, 2)", a.C)) {
			return
		}
		c := a.C
		k := fmt.Sprintf("(%d, 2)", c)
		r.setPending(k, true)
		go func() {
			err := cs.CloseSend()
			r.ev(fmt.Sprintf("EvCloseSendRet %d %s", c, r.optErrFor(c, err)))
			r.setPending(k, false)
		}()
	case "header":
		cs := r.stream(a.C)
		if cs == nil || r.isPending(fmt.Sprintf("(%d, 3)", a.C)) {
			return
		}
		c := a.C
		k := fmt.Sprintf("(%d, 3)", c)
		r.setPending(k, true)
		go func() {
			md, err := cs.Header()
			if err != nil {
				r.ev(fmt.Sprintf("EvHeaderRet %d (inr %s)", c, r.classFor(c, err)))
			} else {
				r.ev(fmt.Sprintf("EvHeaderRet %d (inl (MdOk %s))", c, coqZ(mdTokenOf(md))))
			}
			r.setPending(k, false)
		}()
	case "trailer":
		cs := r.stream(a.C)
		if cs == nil || r.isPending(fmt.Sprintf("(%d, 4)", a.C)) {
			return
		}
		c := a.C
		k := fmt.Sprintf("(%d, 4)", c)
		r.setPending(k, true)
		go func() {
			defer func() {
				if p := recover(); p != nil {
					r.ev(fmt.Sprintf("EvPanic %d", c))
					r.setPending(k, false)
				}
			}()
			md := cs.Trailer()
			if md == nil {
				r.ev(fmt.Sprintf("EvTrailerRet %d None", c))
			} else {
				r.ev(fmt.Sprintf("EvTrailerRet %d (Some %s)", c, coqZ(mdTokenOf(md))))
			}
			r.setPending(k, false)
		}()
	case "cancel":
		if a.C < len(r.ctxs) {
			r.ctxs[a.C].finish(context.Canceled)
		}
	case "expire":
		if a.C < len(r.ctxs) {
			r.ctxs[a.C].finish(context.DeadlineExceeded)
		}
	case "deliver":
		id := uint64(9999)
		method := "/verif.Echo/Unary"
		if a.Env.Call < 0 && a.Env.Raw != 0 {
			id = a.Env.Raw
			method = "/verif.Echo/Bidi"
		}
		if a.Env.Call >= 0 {
			id = r.ids[a.Env.Call]
			if a.Env.Call < len(r.kinds) && r.kinds[a.Env.Call] == "stream" {
				method = "/verif.Echo/Bidi"
			}
		}
		r.ep.Deliver(a.Env.build(id, method))
	case "failread":
		r.ep.FailRead(errInjected)
	case "wfail":
		r.wfailOn = a.On
		if a.On {
			r.ep.FailWrites(errWriteInjected)
		} else {
			r.ep.FailWrites(nil)
		}
	case "tick":
		// virtual time: every timer that is due within the interval fires (callers' contexts are manual: no caller
		// deadline is crossed by a tick; deadlines are explicit "expire" actions)
		time.Sleep(time.Duration(a.B) * time.Millisecond)
	case "close":
		r.cc.Close()
	default:
		panic("unknown op " + a.Op)
	}
}

var errPanicked = errors.New("panicked")

func (r *clientRig) invokeGuard(ctx context.Context, c int, out *wrapperspb.BytesValue) (err error) {
	return r.cc.Invoke(ctx, "/verif.Echo/Unary", &wrapperspb.BytesValue{Value: payloadOf(r.payloads[c])}, out)
}

func (r *clientRig) recvGuard(cs grpc.ClientStream, c int, m *wrapperspb.BytesValue) (err error) {
	defer func() {
		if p := recover(); p != nil {
			err = errPanicked
		}
	}()
	return cs.RecvMsg(m)
}

func (r *clientRig) stream(c int) grpc.ClientStream {
	r.mu.Lock()
	defer r.mu.Unlock()
	if c >= len(r.strs) {
		return nil
	}
	return r.strs[c]
}

// census counts the live goroutines of the current bubble that goat's code
// created, by role.
func census() (muxLoops, streamLoops, serverSide, proxySide int) {
	buf := make([]byte, 8<<20)
	n := runtime.Stack(buf, true)
	gs := strings.Split(string(buf[:n]), "\n\n")
	bubbleTag := ""
	if len(gs) > 0 {
		// the first goroutine in the dump is the caller
		if i := strings.Index(gs[0], "synctest bubble "); i >= 0 {
			j := strings.IndexAny(gs[0][i:], "]\n")
			bubbleTag = gs[0][i : i+j]
		}
	}
	for _, g := range gs {
		if bubbleTag != "" {
			hdr := g
			if k := strings.Index(g, "\n"); k >= 0 {
				hdr = g[:k]
			}
			if !strings.Contains(hdr, bubbleTag+"]") && !strings.Contains(hdr, bubbleTag+",") {
				continue
			}
		}
		switch {
		case strings.Contains(g, "created by github.com/avos-io/goat/internal/client.NewRpcMultiplexer"):
			muxLoops++
		case strings.Contains(g, "created by github.com/avos-io/goat/internal/client.NewStream"):
			streamLoops++
		case strings.Contains(g, "created by github.com/avos-io/goat.(*handler)") || strings.Contains(g, "goat.(*Server).Serve"):
			serverSide++
		case strings.Contains(g, "created by github.com/avos-io/goat.(*Proxy)") || strings.Contains(g, "created by github.com/avos-io/goat.(*proxyClient)") ||
			strings.Contains(g, "errgroup") && strings.Contains(g, "goat.(*proxyClient)"):
			proxySide++
		}
	}
	return
}

// ---------------------------------------------------------------- watchdog (mutex deadlocks)

type wdState struct {
	mu       sync.Mutex
	active   bool
	cleanup  bool
	idx      int
	kind     string
	desc     any
	coqActs  []string
	obs      []stepObs
	coqObs   []string
	step     int
	pendFn   func() []string
	tags     []string
	em       *Emitter
	wedgeCoq func(acts []string, obs []string, pending []string) string
}

var (
	wd         wdState
	wdProgress atomic.Int64
	wdOnce     sync.Once
)

func startWatchdog() {
	wdOnce.Do(func() {
		go func() {
			last := int64(-1)
			stuck, confirm := 0, 0
			for {
				time.Sleep(100 * time.Millisecond)
				wd.mu.Lock()
				active := wd.active
				wd.mu.Unlock()
				p := wdProgress.Load()
				if !active || p != last {
					last = p
					stuck, confirm = 0, 0
					continue
				}
				stuck++
				if stuck < 10 {
					continue
				}
				// no progress for 1s of real time inside a scenario: if a goroutine is
				// blocked on a sync.Mutex (not durably blocked) the bubble can never
				// become idle. A loaded machine can also stall a step for that long:
				// the wedge is reported only when the dump shows a mutex waiter and no
				// goroutine besides this one that is running or runnable (otherwise
				// keep waiting, for at most 120 s).
				buf := make([]byte, 4<<20)
				n := runtime.Stack(buf, true)
				dump := string(buf[:n])
				lockWaiters := strings.Count(dump, "sync.(*Mutex).Lock") + strings.Count(dump, "sync.(*RWMutex).Lock") +
					strings.Count(dump, "sync.(*RWMutex).RLock") + strings.Count(dump, "[semacquire") + strings.Count(dump, "[sync.")
				// a goroutine inside a system call (writing a record or a log line to a slow pipe on a
				// loaded machine) is busy too; and the picture must be the same in 5 samples in a row
				// (0.5 s): a real deadlock stays, a transient picture of a starved process does not.
				busy := strings.Count(dump, "[running") + strings.Count(dump, "[runnable") - 1 +
					strings.Count(dump, "[syscall") + strings.Count(dump, "[IO wait")
				if os.Getenv("VERIF_WD_DEBUG") != "" {
					fmt.Fprintf(os.Stderr, "watchdog: stuck=%d lockWaiters=%d busy=%d\n", stuck, lockWaiters, busy)
				}
				if (lockWaiters == 0 || busy > 0) && stuck < 1200 {
					confirm = 0
					continue
				}
				if confirm++; confirm < 5 && stuck < 1200 {
					continue
				}
				wd.mu.Lock()
				pending := wd.pendFn()
				rec := Rec{Idx: wd.idx, Kind: wd.kind + "-wedged", Desc: wd.desc,
					Obs:  map[string]any{"wedged_at_step": wd.step, "lock_waiters": lockWaiters, "pending": pending, "in_cleanup": wd.cleanup},
					Tags: append(append([]string{}, wd.tags...), "wedged")}
				if wd.cleanup {
					rec.Tags = append(rec.Tags, "wedged-in-cleanup")
				} else {
					rec.Coq = wd.wedgeCoq(wd.coqActs[:min(wd.step+1, len(wd.coqActs))], wd.coqObs, pending)
				}
				em := wd.em
				wd.mu.Unlock()
				if wdOuter != nil {
					// the scenario runs under a wrapper that re-emits its records into the rig's real output (cl_common.go):
					// this record must get there before the process leaves
					if rec.Coq != "" && wdOuterCtor != "" {
						rec.Coq = wdOuterCtor + " (" + rec.Coq + ")"
					}
					em = wdOuter
				}
				em.Emit(rec)
				em.Marker("end", rec.Idx)
				em.Close()
				os.Exit(3)
			}
		}()
	})
}

// set by a wrapper that buffers the scenario's records (runClientScenarioAs): where a wedge record has to go
var (
	wdOuter     *Emitter
	wdOuterCtor string
)

// ---------------------------------------------------------------- running a scenario

type recStats struct {
	mu  sync.Mutex
	evs []string
}

func (s *recStats) TagRPC(ctx context.Context, _ *stats.RPCTagInfo) context.Context   { return ctx }
func (s *recStats) HandleRPC(context.Context, stats.RPCStats)                         {}
func (s *recStats) TagConn(ctx context.Context, _ *stats.ConnTagInfo) context.Context { return ctx }
func (s *recStats) HandleConn(context.Context, stats.ConnStats)                       {}

type clientScenario struct {
	Acts      []CAct   `json:"acts"`
	WithStats bool     `json:"with_stats,omitempty"`
	Tags      []string `json:"tags,omitempty"`
}

func (r *clientRig) snapshot() stepObs {
	r.mu.Lock()
	evs := append([]string(nil), r.events...)
	r.events = r.events[:0]
	var pend []string
	for k := range r.pend {
		pend = append(pend, k)
	}
	r.mu.Unlock()
	sort.Strings(evs)
	sort.Strings(pend)
	mux, loops, _, _ := census()
	return stepObs{Events: evs, Reg: r.cc.VerifNumHandlers(), Pending: pend, Loops: loops, MuxLoop: mux}
}

func obsCoq(o stepObs) string {
	reg := "None"
	if o.Reg >= 0 {
		reg = fmt.Sprintf("(Some %d)", o.Reg)
	}
	return fmt.Sprintf("(mkObs %s %s %s %d %d)", coqList(o.Events), reg, coqList(o.Pending), o.Loops, o.MuxLoop)
}

// runClientScenario drives the real client through the actions, one at a time,
// observing at every quiescent point. Returns the Coq terms of the actions (with
// the real ids substituted) and of the observations.
func runClientScenario(t *testing.T, idx int, kind string, sc clientScenario, em *Emitter) {
	startWatchdog()
	var coqActs, coqObs []string
	var obsList []stepObs
	var rig *clientRig
	em.Marker("begin", idx)
	leaked := bubble(t, func(t *testing.T) {
		ep := NewEndpoint("client")
		ep.CheckCtx = true
		var opts []goat.DialOption
		rig = &clientRig{t: t, ep: ep, pend: map[string]bool{}, ids: map[int]uint64{}, gates: map[string]chan struct{}{}}
		if sc.WithStats {
			rig.stats = &recStats{}
			opts = append(opts, goat.WithStatsHandler(rig.stats))
		}
		for _, a := range sc.Acts {
			if a.Op == "unary" {
				rig.payloads = append(rig.payloads, a.B)
			} else if a.Op == "stream" {
				rig.payloads = append(rig.payloads, 0)
			}
		}
		verifhook.SetYield(rig.yield)
		defer verifhook.SetYield(nil)
		rig.cc = goat.NewClientConn(ep, "src", "dst", opts...)
		lastW := 0
		wd.mu.Lock()
		wd.active, wd.idx, wd.kind, wd.desc, wd.tags, wd.em = true, idx, kind, sc, sc.Tags, em
		wd.coqActs, wd.coqObs, wd.obs, wd.step = nil, nil, nil, 0
		wd.pendFn = func() []string {
			rig.mu.Lock()
			defer rig.mu.Unlock()
			var p []string
			for k := range rig.pend {
				p = append(p, k)
			}
			sort.Strings(p)
			return p
		}
		wd.wedgeCoq = func(acts, obs, pending []string) string {
			return fmt.Sprintf("CClientWedged %s %s %s", coqList(acts), coqList(obs), coqList(pending))
		}
		wd.mu.Unlock()
		// pre-compute action terms lazily: ids are only known once observed
		for i, a := range sc.Acts {
			// the id of a call is the id on its first written envelope
			term := ""
			if a.Op == "deliver" && a.Env.Call >= 0 {
				if _, ok := rig.ids[a.Env.Call]; !ok {
					// the call has not written anything yet: deliver to an unknown id instead (or, Guess, to the id it would have)
					raw := uint64(0)
					if a.Env.Guess {
						raw = rig.guess[a.Env.Call]
					}
					a.Env = &EnvSpec{Call: -1, Hdr: a.Env.Hdr, Status: a.Env.Status, Body: a.Env.Body, Trl: a.Env.Trl, Rst: a.Env.Rst, Raw: raw}
					sc.Acts[i] = a
				}
			}
			if (a.Op == "unary" || a.Op == "stream") && a.MD == "" {
				// caller metadata is a dimension of EVERY open of every scenario
				a.MD = mdKinds[(idx*7+i*13)%len(mdKinds)]
				sc.Acts[i] = a
			}
			if a.Op == "tick" || a.Op == "close" {
				a.On = rig.wfailOn
				sc.Acts[i] = a
			}
			term = a.coq(rig.ids)
			wd.mu.Lock()
			wd.coqActs = append(wd.coqActs, term)
			wd.step = i
			wd.mu.Unlock()
			nBefore := rig.nCalls
			rig.do(a)
			synctest.Wait()
			rig.disarm()
			wdProgress.Add(1)
			// new writes: log them as events, learn ids
			ws := ep.WrittenCopy()
			for _, w := range ws[lastW:] {
				rig.ev("EvWrite " + envProj(w))
			}
			if rig.nCalls > nBefore || a.Op == "release" {
				// attribute first-seen ids to the calls that wrote them (requests carry distinct payloads / order of creation)
				for _, w := range ws[lastW:] {
					owner := -1
					for c := 0; c < rig.nCalls; c++ {
						if _, ok := rig.ids[c]; ok {
							continue
						}
						if a.Op == "release" && c != a.C {
							continue
						}
						if a.Op != "release" && c != rig.nCalls-1 {
							continue
						}
						owner = c
					}
					if owner >= 0 && w.GetReset_() == nil {
						rig.ids[owner] = w.Id
					}
				}
			}
			lastW = len(ws)
			o := rig.snapshot()
			obsList = append(obsList, o)
			oc := obsCoq(o)
			wd.mu.Lock()
			wd.coqObs = append(wd.coqObs, oc)
			wd.mu.Unlock()
			coqActs = append(coqActs, term)
			coqObs = append(coqObs, oc)
		}
		// the cleanup below stays under the watchdog: a wedge there (cancel every context, fail the read)
		// is a failing input too; it is reported without a Coq term (process event "wedged")
		wd.mu.Lock()
		wd.cleanup = true
		wd.mu.Unlock()
		wdProgress.Add(1)
		// Cleanup, not compared with the model: release every parked goroutine, cancel
		// every caller context and fail the transport read. Afterwards no goroutine of
		// the client may remain (a leak makes the bubble panic: "leaked-at-end").
		verifhook.SetYield(nil)
		rig.parkMu.Lock()
		for k, g := range rig.gates {
			close(g)
			delete(rig.gates, k)
		}
		rig.parkPt = ""
		rig.parkMu.Unlock()
		for _, c := range rig.ctxs {
			c.finish(context.Canceled)
		}
		ep.FailRead(errInjected)
		synctest.Wait()
		wd.mu.Lock()
		wd.active, wd.cleanup = false, false
		wd.mu.Unlock()
	})
	wd.mu.Lock()
	wd.active = false
	wd.mu.Unlock()
	tags := append([]string{}, sc.Tags...)
	if leaked {
		tags = append(tags, "leaked-at-end")
	}
	em.Emit(Rec{Idx: idx, Kind: kind, Desc: sc, Obs: obsList, Tags: tags,
		Coq: fmt.Sprintf("CClient %s %s", coqList(coqActs), coqList(coqObs))})
	em.Marker("end", idx)
}

//go:build tr

package verifharness

import (
	"bytes"
	"context"
	"fmt"
	"net/http"
	"net/http/httptest"
	"testing"
	"testing/synctest"
	"time"

	goat "github.com/avos-io/goat"
	"github.com/jonboulle/clockwork"
	"google.golang.org/protobuf/proto"
)

// Regression tests of the HTTP transport defects D-19c / D-19d (C19: "an HTTP
// connection that has been idle past its timeout fails its readers rather than
// crashing a concurrent sender").

func trPost(goh *goat.GoatOverHttp, rpc *Rpc) (code int, panicked any) {
	defer func() { panicked = recover() }()
	data, err := proto.Marshal(rpc)
	if err != nil {
		panic(err)
	}
	req := httptest.NewRequest("POST", "http://x/", bytes.NewReader(data))
	rec := httptest.NewRecorder()
	goh.ServeHTTP(rec, req)
	return rec.Code, nil
}

// D-19c: the cleaner removes an idle connection while ServeHTTP is parked
// handing an envelope to it: the sender must not crash.
func TestRegressD19c(t *testing.T) {
	bubble(t, func(t *testing.T) {
		fc := clockwork.NewFakeClockAt(time.Unix(1_000_000, 0))
		goh := goat.NewGoatOverHttp(func(string, goat.RpcReadWriter) {}, func(s string) (string, error) { return s, nil },
			goat.WithClock(fc), goat.WithConnectionCleanupInterval(time.Minute), goat.WithConnectionTimeout(4*time.Minute))
		defer goh.Cancel()
		synctest.Wait()
		type res struct {
			code int
			p    any
		}
		out := make(chan res, 1)
		go func() { c, p := trPost(goh, &Rpc{Id: 1, Header: hdr("/x/y", "a", "srv")}); out <- res{c, p} }()
		synctest.Wait()
		select {
		case r := <-out:
			t.Fatalf("delivery without a reader returned: %+v", r)
		default:
		}
		for i := 0; i < 5; i++ {
			fc.Advance(time.Minute)
			synctest.Wait()
		}
		select {
		case r := <-out:
			if r.p != nil {
				t.Errorf("D-19c: ServeHTTP crashed when the cleaner removed its connection: %v", r.p)
			}
		default:
			t.Errorf("D-19c: ServeHTTP still parked after its connection was removed")
		}
		goh.Cancel()
		synctest.Wait()
	})
}

// D-19d: the failing Write of a connection that was already replaced under the
// same address must not take the newer connection down.
func TestRegressD19d(t *testing.T) {
	bubble(t, func(t *testing.T) {
		fc := clockwork.NewFakeClockAt(time.Unix(1_000_000, 0))
		goh := goat.NewGoatOverHttp(func(string, goat.RpcReadWriter) {}, func(s string) (string, error) { return s, nil },
			goat.WithClock(fc), goat.WithConnectionCleanupInterval(time.Minute), goat.WithConnectionTimeout(4*time.Minute))
		defer goh.Cancel()
		synctest.Wait()
		addr := "bad host%zz" // http.NewRequest fails: Write takes its failure path without touching the network
		old := goh.NewConnection(addr)
		fc.Advance(time.Minute) // never active: removed by the first tick
		synctest.Wait()
		if n := len(goh.VerifHttpConns()); n != 0 {
			t.Fatalf("idle connection not removed: %d", n)
		}
		newer := goh.NewConnection(addr)
		if err := old.Write(context.Background(), &Rpc{Id: 1}); err == nil {
			t.Fatalf("write to a bad address succeeded")
		}
		synctest.Wait()
		if n := len(goh.VerifHttpConns()); n != 1 {
			t.Errorf("D-19d: the stale connection's failing Write unregistered its successor (table size %d)", n)
		}
		ctx, cancel := context.WithCancel(context.Background())
		done := make(chan error, 1)
		go func() { _, err := newer.Read(ctx); done <- err }()
		synctest.Wait()
		select {
		case err := <-done:
			t.Errorf("D-19d: Read on the newer connection failed: %v", err)
		default:
			cancel()
			synctest.Wait()
			<-done
		}
		cancel()
		goh.Cancel()
		synctest.Wait()
	})
}

var _ = fmt.Sprint
var _ = http.StatusOK

//go:build cl

package verifharness

import (
	"context"
	"fmt"
	"io"
	"math/rand"
	"runtime"
	"sort"
	"strings"
	"sync"
	"sync/atomic"
	"testing"
	"time"

	goat "github.com/avos-io/goat"
	"github.com/avos-io/goat/internal/verifhook"
	"google.golang.org/grpc"
	"google.golang.org/grpc/codes"
	"google.golang.org/grpc/status"
	"google.golang.org/protobuf/types/known/wrapperspb"
)

// ---------------------------------------------------------------- C05: permutations

// response envelopes of call c (kind unary / stream), n of them; bodies encode (call, position)
func c05Responses(c int, stream bool, n int) []*EnvSpec {
	var out []*EnvSpec
	tok := func(j int) *int64 { return i64(int64(1000*(c+1) + j)) }
	for j := 0; j < n; j++ {
		switch {
		case !stream:
			out = append(out, &EnvSpec{Call: c, Hdr: "ok:0", Body: tok(j), Trl: "ok:0"})
		case j == n-1 && n > 1:
			out = append(out, &EnvSpec{Call: c, Hdr: "ok:0", Status: &[2]int64{0, 0}, Trl: "ok:0"})
		default:
			out = append(out, &EnvSpec{Call: c, Hdr: "ok:0", Body: tok(j), Trl: "none"})
		}
	}
	return out
}

func permutations(n int, f func([]int)) {
	p := make([]int, n)
	for i := range p {
		p[i] = i
	}
	var rec func(k int)
	rec = func(k int) {
		if k == n {
			f(append([]int(nil), p...))
			return
		}
		for i := k; i < n; i++ {
			p[k], p[i] = p[i], p[k]
			rec(k + 1)
			p[k], p[i] = p[i], p[k]
		}
	}
	rec(0)
}

func c05Scenario(kinds []bool, envs []*EnvSpec, foreignAt int) clientScenario {
	var acts []CAct
	for c, st := range kinds {
		if st {
			acts = append(acts, CAct{Op: "stream"}, CAct{Op: "recv", C: c})
		} else {
			acts = append(acts, CAct{Op: "unary", B: int64(10 + c)})
		}
	}
	for i, e := range envs {
		if i == foreignAt {
			acts = append(acts, CAct{Op: "deliver", Env: &EnvSpec{Call: -1, Hdr: "ok:0", Body: i64(9000 + int64(i)), Trl: "ok:0"}})
		}
		acts = append(acts, CAct{Op: "deliver", Env: e})
		if kinds[e.Call] {
			acts = append(acts, CAct{Op: "recv", C: e.Call})
		}
	}
	for c, st := range kinds {
		if st {
			acts = append(acts, CAct{Op: "recv", C: c}, CAct{Op: "recv", C: c})
		}
	}
	return clientScenario{Acts: acts}
}

// TestC05Perm: k calls (mixed unary / stream); the scripted peer emits EVERY
// permutation of their response envelopes (k <= 2, <= 3 envelopes each; k = 3
// sampled), some with an envelope for a foreign id in between.
func TestC05Perm(t *testing.T) {
	shard, nsh, child := sharded(t, "TestC05Perm", 14)
	if !child {
		return
	}
	em := NewEmitter()
	defer em.Close()
	r := newRand(500)
	idx := 0
	emit := func(kinds []bool, envs []*EnvSpec, tags []string) {
		foreign := -1
		if idx%3 == 0 {
			foreign = r.Intn(len(envs))
			tags = append(tags, "foreign-id")
		}
		sc := c05Scenario(kinds, envs, foreign)
		if idx%4 == 2 {
			sc.Acts = sprinkleTicks(rand.New(rand.NewSource(int64(idx)+*flagSeed)), sc.Acts, 3)
			tags = append(tags, "ticks")
		}
		sc.Tags = tags
		if want(idx) && idx%nsh == shard {
			runClientScenarioAs(t, idx, "c05-perm", sc, em, "C05Step", nil)
		}
		idx++
	}
	kindName := func(kinds []bool) string {
		s := ""
		for _, k := range kinds {
			if k {
				s += "S"
			} else {
				s += "U"
			}
		}
		return s
	}
	for _, kinds := range [][]bool{{false}, {true}, {false, false}, {false, true}, {true, false}, {true, true}} {
		var rec func(c int, base []*EnvSpec)
		rec = func(c int, base []*EnvSpec) {
			if c == len(kinds) {
				n := len(base)
				cnt := 0
				permutations(n, func(p []int) {
					cnt++
					if !thorough() && n >= 6 && cnt%6 != int(*flagSeed)%6 {
						return // quick: a sixth of the 720 orders of the largest shape
					}
					envs := make([]*EnvSpec, n)
					for i, j := range p {
						envs[i] = base[j]
					}
					emit(kinds, envs, []string{"kinds=" + kindName(kinds), fmt.Sprintf("envelopes=%d", n)})
				})
				return
			}
			for n := 1; n <= 3; n++ {
				rec(c+1, append(append([]*EnvSpec(nil), base...), c05Responses(c, kinds[c], n)...))
			}
		}
		rec(0, nil)
	}
	// bursts: a stream's responses pile up unread (queue full, read loop holding the next one) before its caller
	// starts receiving: per-call order must survive the back-pressure
	nb := 90
	if thorough() {
		nb = 1500
	}
	for i := 0; i < nb; i++ {
		kinds := [][]bool{{true}, {true, false}, {true, true}}[i%3]
		var base []*EnvSpec
		for c := range kinds {
			n := 1 + r.Intn(2)
			if c == 0 {
				n = 4 + r.Intn(3)
			}
			for j := 0; j < n; j++ {
				base = append(base, &EnvSpec{Call: c, Hdr: "ok:0", Body: i64(int64(1000*(c+1) + j)), Trl: "none"})
			}
		}
		if i%2 == 0 { // keep the per-call order of the burst (what a FIFO wire delivers), interleave the calls
			sort.SliceStable(base, func(a, b int) bool { return false })
			perm := r.Perm(len(base))
			pos := map[int][]int{}
			for _, p := range perm {
				pos[base[p].Call] = append(pos[base[p].Call], p)
			}
			out := make([]*EnvSpec, 0, len(base))
			next := map[int]int{}
			for _, p := range perm {
				c := base[p].Call
				q := pos[c]
				sort.Ints(q)
				out = append(out, base[q[next[c]]])
				next[c]++
			}
			base = out
		} else {
			r.Shuffle(len(base), func(a, b int) { base[a], base[b] = base[b], base[a] })
		}
		var acts []CAct
		for c, st := range kinds {
			if st {
				acts = append(acts, CAct{Op: "stream"})
			} else {
				acts = append(acts, CAct{Op: "unary", B: int64(10 + c)})
			}
		}
		for j, e := range base {
			acts = append(acts, CAct{Op: "deliver", Env: e})
			if i%4 == 1 && j == 1 {
				acts = append(acts, CAct{Op: "tick", B: 60}) // time passes while the responses pile up ...
			}
		}
		if i%2 == 0 {
			acts = append(acts, CAct{Op: "tick", B: tickMillis[(i/2)%len(tickMillis)]}) // ... and before the caller starts draining
		}
		for k := 0; k < 8; k++ {
			for c, st := range kinds {
				if st {
					acts = append(acts, CAct{Op: "recv", C: c})
				}
			}
		}
		sc := clientScenario{Acts: acts, Tags: []string{"kinds=" + kindName(kinds), fmt.Sprintf("envelopes=%d", len(base)), "burst-unread"}}
		if want(idx) && idx%nsh == shard {
			runClientScenarioAs(t, idx, "c05-perm", sc, em, "C05Step", nil)
		}
		idx++
	}
	// k = 3: sampled
	samples := 150
	if thorough() {
		samples = 4000
	}
	for i := 0; i < samples; i++ {
		kinds := []bool{r.Intn(2) == 0, r.Intn(2) == 0, r.Intn(2) == 0}
		var base []*EnvSpec
		for c := range kinds {
			base = append(base, c05Responses(c, kinds[c], 1+r.Intn(3))...)
		}
		r.Shuffle(len(base), func(a, b int) { base[a], base[b] = base[b], base[a] })
		emit(kinds, base, []string{"kinds=" + kindName(kinds), fmt.Sprintf("envelopes=%d", len(base)), "k=3-sampled"})
	}
}

// ---------------------------------------------------------------- C05: free-running

func plusOneEcho() *echoImpl {
	return &echoImpl{
		unary: func(ctx context.Context, req []byte) ([]byte, bool, error) {
			return payloadOf(tokenOf(req) + 1), true, nil
		},
		stream: func(kind string, s grpc.ServerStream) error {
			for {
				var m wrapperspb.BytesValue
				if err := s.RecvMsg(&m); err != nil {
					if err == io.EOF {
						return nil
					}
					return err
				}
				if tokenOf(m.Value) >= abortMarker {
					return status.Error(codes.Code(3), "m3") // gives up while the client may still be sending
				}
				if err := s.SendMsg(&wrapperspb.BytesValue{Value: payloadOf(tokenOf(m.Value) + 1)}); err != nil {
					return err
				}
			}
		},
	}
}

const abortMarker = 500000000

// TestC05Free: one real connection (real client, real server, real goroutine
// concurrency, seeded yields at the verif hook points): 64 goroutines start
// calls concurrently, 10^4 (thorough 10^5) calls in all. Every first envelope's
// id is recorded from the wire; every caller records (request, reply).
// freshBurst: a FRESH connection whose very first RPCs are started at the same instant by 64 callers (spin barrier:
// all of them are running when released). One unary call each.
func freshBurst(round, G int, spin bool) (ids []int64, pairs []string) {
	l := NewLink(true)
	l.Auto = true
	var mu sync.Mutex
	fwd := l.C.OnWrite
	l.C.OnWrite = func(rp *Rpc) {
		mu.Lock()
		ids = append(ids, int64(rp.Id))
		mu.Unlock()
		fwd(rp)
	}
	sctx, scancel := context.WithCancel(context.Background())
	srv := newEchoServer("srv", plusOneEcho())
	go srv.Serve(sctx, l.S)
	cc := goat.NewClientConn(l.C, "c1", "srv")
	var ready, wg sync.WaitGroup
	var goFlag atomic.Bool
	release := make(chan struct{})
	res := make([]string, G)
	for g := 0; g < G; g++ {
		ready.Add(1)
		wg.Add(1)
		go func(g int) {
			defer wg.Done()
			tok := int64(round*1000 + g*3 + 1)
			ready.Done()
			if spin {
				for !goFlag.Load() {
				}
			} else {
				<-release
			}
			cctx, cancel := context.WithTimeout(context.Background(), 5*time.Second) // not an oracle: keeps a lost reply from blocking the rig
			defer cancel()
			var out wrapperspb.BytesValue
			if err := cc.Invoke(cctx, "/verif.Echo/Unary", &wrapperspb.BytesValue{Value: payloadOf(tok)}, &out); err != nil {
				res[g] = fmt.Sprintf("(%d, -3)", tok)
			} else {
				res[g] = fmt.Sprintf("(%d, %d)", tok, tokenOf(out.Value))
			}
		}(g)
	}
	ready.Wait()
	goFlag.Store(true)
	close(release)
	wg.Wait()
	scancel()
	l.C.FailRead(io.EOF)
	l.S.FailRead(io.EOF)
	mu.Lock()
	defer mu.Unlock()
	sort.Slice(ids, func(a, b int) bool { return ids[a] < ids[b] })
	return ids, res
}

func TestC05Free(t *testing.T) {
	em := NewEmitter()
	defer em.Close()
	// (callers, GOMAXPROCS, spin barrier): spinning callers are all RUNNING when released (at most procs - 2 of them)
	configs := [][3]int{{2, 16, 1}, {8, 16, 1}, {14, 16, 1}, {16, 4, 0}, {64, 16, 0}, {16, 16, 0}, {64, 4, 0}, {16, 1, 0}}
	reps := 5
	if thorough() {
		reps = 50
	}
	round := 0
	oldProcs := runtime.GOMAXPROCS(0)
	for rep := 0; rep < reps; rep++ {
		for _, cf := range configs {
			round++
			if !want(round) {
				continue
			}
			em.Marker("begin", round)
			runtime.GOMAXPROCS(cf[1])
			ids, pairs := freshBurst(round, cf[0], cf[2] == 1)
			runtime.GOMAXPROCS(oldProcs)
			terms := make([]string, len(ids))
			for i, v := range ids {
				terms[i] = fmt.Sprint(v)
			}
			em.Emit(Rec{Idx: round, Kind: "c05-fresh-burst", Desc: map[string]any{"callers": cf[0], "procs": cf[1], "spin": cf[2] == 1, "ids": len(ids)},
				Tags: []string{"fresh-connection-burst", fmt.Sprintf("callers=%d", cf[0]), fmt.Sprintf("procs=%d", cf[1])},
				Coq: fmt.Sprintf("C05Free %d %s %s", cf[0], coqList(terms), coqList(pairs))})
			em.Marker("end", round)
		}
	}
	if !wantHistory(0) {
		return
	}
	em.Marker("begin", 0)
	total := 10000
	if thorough() {
		total = 100000
	}
	const G = 64
	var yc atomic.Uint64
	seed := uint64(*flagSeed)
	verifhook.SetYield(func(string) {
		x := (yc.Add(1) + seed) * 0x9E3779B97F4A7C15
		if x>>61 == 0 {
			runtime.Gosched()
		}
	})
	defer verifhook.SetYield(nil)
	l := NewLink(true)
	l.Auto = true
	l.C.CheckCtx = true
	var idMu sync.Mutex
	var firstIDs []int64
	fwd := l.C.OnWrite
	l.C.OnWrite = func(rp *Rpc) {
		m := rp.GetHeader().GetMethod()
		if strings.HasSuffix(m, "/Unary") || (rp.Body == nil && rp.Trailer == nil && rp.Reset_ == nil) {
			idMu.Lock()
			firstIDs = append(firstIDs, int64(rp.Id))
			idMu.Unlock()
		}
		fwd(rp)
	}
	sctx, scancel := context.WithCancel(context.Background())
	srv := newEchoServer("srv", plusOneEcho())
	go srv.Serve(sctx, l.S)
	cc := goat.NewClientConn(l.C, "c1", "srv")
	var pairMu sync.Mutex
	var pairs []string
	var failed atomic.Int64
	nstream := 0
	var wg sync.WaitGroup
	start := make(chan struct{})
	for g := 0; g < G; g++ {
		wg.Add(1)
		go func(g int) {
			defer wg.Done()
			<-start
			var mine []string
			ns := 0
			for i := 0; i < total/G; i++ {
				tok := int64(g*1000000 + i*3 + 1)
				// not an oracle: only keeps a caller whose reply went to somebody else from blocking the rig for ever
				cctx, ccancel := context.WithTimeout(context.Background(), 10*time.Second)
				_ = ccancel
				if i%7 == 3 {
					// a call whose transport write fails cleanly (its context has ended) while the others are in flight
					dead, kill := context.WithCancel(cctx)
					kill()
					var out wrapperspb.BytesValue
					if err := cc.Invoke(dead, "/verif.Echo/Unary", &wrapperspb.BytesValue{Value: payloadOf(tok)}, &out); err == nil {
						mine = append(mine, fmt.Sprintf("(%d, -4)", tok)) // cannot have succeeded
					}
					failed.Add(1)
					ccancel()
					continue
				}
				if i%10 == 9 {
					ns++
					cs, err := cc.NewStream(cctx, descBidi, "/verif.Echo/Bidi")
					if err != nil {
						mine = append(mine, fmt.Sprintf("(%d, -1)", tok))
						continue
					}
					if ns%3 == 0 {
						// the handler aborts at the first message; a second one is already on its way
						cs.SendMsg(&wrapperspb.BytesValue{Value: payloadOf(abortMarker + tok)})
						cs.SendMsg(&wrapperspb.BytesValue{Value: payloadOf(tok + 1)})
						var m wrapperspb.BytesValue
						if err := cs.RecvMsg(&m); err == nil {
							mine = append(mine, fmt.Sprintf("(%d, %d)", tok+1, tokenOf(m.Value))) // at most the echo of its own message
						}
						ccancel()
						continue
					}
					for j := int64(0); j < 2; j++ {
						cs.SendMsg(&wrapperspb.BytesValue{Value: payloadOf(tok + j)})
						var m wrapperspb.BytesValue
						if err := cs.RecvMsg(&m); err != nil {
							mine = append(mine, fmt.Sprintf("(%d, -2)", tok+j))
						} else {
							mine = append(mine, fmt.Sprintf("(%d, %d)", tok+j, tokenOf(m.Value)))
						}
					}
					cs.CloseSend()
					var m wrapperspb.BytesValue
					cs.RecvMsg(&m)
					ccancel()
					continue
				}
				var out wrapperspb.BytesValue
				err := cc.Invoke(cctx, "/verif.Echo/Unary", &wrapperspb.BytesValue{Value: payloadOf(tok)}, &out)
				ccancel()
				if err != nil {
					mine = append(mine, fmt.Sprintf("(%d, -3)", tok))
				} else {
					mine = append(mine, fmt.Sprintf("(%d, %d)", tok, tokenOf(out.Value)))
				}
			}
			pairMu.Lock()
			pairs = append(pairs, mine...)
			nstream += ns
			pairMu.Unlock()
		}(g)
	}
	close(start)
	wg.Wait()
	scancel()
	l.C.FailRead(io.EOF)
	l.S.FailRead(io.EOF)
	idMu.Lock()
	ids := append([]int64(nil), firstIDs...)
	idMu.Unlock()
	sort.Slice(ids, func(a, b int) bool { return ids[a] < ids[b] })
	ncalls := (total/G)*G - int(failed.Load()) // the calls whose write failed put nothing on the wire
	// one connection, one history; emitted as closed records of <= 2000 ids / pairs (see emitFree)
	emitFree(em, 0, "c05-free", map[string]any{"goroutines": G, "calls": ncalls, "streams": nstream, "pairs": len(pairs), "ids": len(ids)},
		[]string{fmt.Sprintf("calls=%d", ncalls), "goroutines=64"}, ncalls, ids, pairs)
	em.Marker("end", 0)
}

// ---------------------------------------------------------------- C09: read failure after every prefix

type c09Base struct {
	name  string
	kinds []bool // true = stream
	resp  []CAct // the response sequence (deliveries and the RecvMsg calls that consume them)
}

func c09Bases() []c09Base {
	m := func(c int, b int64) CAct {
		return CAct{Op: "deliver", Env: &EnvSpec{Call: c, Hdr: "ok:0", Body: i64(b), Trl: "none"}}
	}
	rep := func(c int, b int64) CAct {
		return CAct{Op: "deliver", Env: &EnvSpec{Call: c, Hdr: "ok:0", Body: i64(b), Trl: "ok:0"}}
	}
	trl := func(c int) CAct {
		return CAct{Op: "deliver", Env: &EnvSpec{Call: c, Hdr: "ok:0", Status: &[2]int64{0, 0}, Trl: "ok:0"}}
	}
	st := func(c int) CAct {
		return CAct{Op: "deliver", Env: &EnvSpec{Call: c, Hdr: "ok:0", Status: &[2]int64{5, 7}, Trl: "ok:0"}}
	}
	rv := func(c int) CAct { return CAct{Op: "recv", C: c} }
	return []c09Base{
		{"unary", []bool{false}, []CAct{rep(0, 101)}},
		{"unary-status", []bool{false}, []CAct{st(0)}},
		{"server-stream", []bool{true}, []CAct{rv(0), m(0, 201), rv(0), m(0, 202), rv(0), trl(0), rv(0)}},
		{"client-stream", []bool{true}, []CAct{{Op: "send", C: 0, B: 601}, {Op: "send", C: 0, B: 602}, {Op: "closesend", C: 0}, rv(0), rep(0, 203), rv(0)}},
		{"bidi", []bool{true}, []CAct{{Op: "send", C: 0, B: 603}, rv(0), m(0, 204), {Op: "header", C: 0}, {Op: "send", C: 0, B: 604}, m(0, 205), rv(0), {Op: "closesend", C: 0}, trl(0), rv(0), {Op: "trailer", C: 0}}},
		{"stream-unread", []bool{true}, []CAct{m(0, 206), m(0, 207), m(0, 208)}},
		{"unary+stream", []bool{false, true}, []CAct{rv(1), m(1, 209), rep(0, 102), rv(1), trl(1), rv(1)}},
		{"2unary+stream", []bool{false, true, false}, []CAct{m(1, 210), rep(2, 103), rv(1), st(1), rep(0, 104), rv(1)}},
		{"3streams", []bool{true, true, true}, []CAct{rv(0), rv(1), m(2, 211), m(0, 212), m(1, 213), rv(2), trl(0), rv(0), st(1), rv(1)}},
	}
}

// TestC09: for each base scenario, a read failure after EVERY prefix of the
// response sequence x {writes fail, writes succeed} x a caller parked in the
// window between the fail-fast check and the registration or not x calls
// started after the failure, then every kind of operation on the streams.
func TestC09(t *testing.T) {
	shard, nsh, child := sharded(t, "TestC09", 8)
	if !child {
		return
	}
	em := NewEmitter()
	defer em.Close()
	idx := 0
	for _, b := range c09Bases() {
		for p := 0; p <= len(b.resp); p++ {
			for _, wf := range []bool{false, true} {
				for _, park := range []string{"none", "unary", "stream"} {
					var acts []CAct
					for _, st := range b.kinds {
						if st {
							acts = append(acts, CAct{Op: "stream"})
						} else {
							acts = append(acts, CAct{Op: "unary", B: 11})
						}
					}
					acts = append(acts, b.resp[:p]...)
					n := len(b.kinds)
					parked := -1
					if park == "unary" {
						acts = append(acts, CAct{Op: "unary", B: 12, Park: true})
						parked = n
						n++
					} else if park == "stream" {
						acts = append(acts, CAct{Op: "stream", Park: true})
						parked = n
						n++
					}
					if wf {
						acts = append(acts, CAct{Op: "wfail", On: true})
					}
					closed := idx%4 == 2
					if closed {
						// the owner of the connection calls ClientConn.Close() (shutdown, before a reconnect) while calls are
						// in flight, THEN the transport's Read fails: the failure must still reach every call
						acts = append(acts, CAct{Op: "close"})
					}
					acts = append(acts, CAct{Op: "failread"})
					if parked >= 0 {
						acts = append(acts, CAct{Op: "release", C: parked})
					}
					// the rest of the response sequence can no longer arrive; the callers go on
					for c, st := range b.kinds {
						if st {
							acts = append(acts, CAct{Op: "recv", C: c}, CAct{Op: "send", C: c, B: 650}, CAct{Op: "header", C: c},
								CAct{Op: "closesend", C: c}, CAct{Op: "trailer", C: c}, CAct{Op: "recv", C: c})
						}
					}
					acts = append(acts, CAct{Op: "unary", B: 13}, CAct{Op: "stream"})
					if idx%3 == 1 {
						acts = sprinkleTicks(rand.New(rand.NewSource(int64(idx)+*flagSeed)), acts, 3)
					}
					sc := clientScenario{Acts: acts, WithStats: idx%5 == 0,
						Tags: []string{"base:" + b.name, fmt.Sprintf("prefix=%d", p), fmt.Sprintf("writes-fail=%v", wf), "parked:" + park,
							fmt.Sprintf("closed-before-failure=%v", closed)}}
					if want(idx) && idx%nsh == shard {
						runClientScenarioAs(t, idx, "c09", sc, em, "C09Step", nil)
					}
					idx++
				}
			}
		}
	}
	// "or the exact result, if its complete response had already been delivered": the stream is one envelope behind (its loop
	// holds an unconsumed message), the next envelope - a message, the OK trailer, an error status, a reset - is queued, THEN
	// the read fails (the queue is closed with the envelope in it), THEN the stream drains: it must still get the queued
	// envelope's content. Repeated: the implementation's select between the queue and the closed signal is a coin flip.
	for rep := 0; rep < 12; rep++ {
		for fi, fin := range []*EnvSpec{
			{Call: 0, Hdr: "ok:0", Body: i64(402), Trl: "none"},
			{Call: 0, Hdr: "ok:0", Status: &[2]int64{0, 0}, Trl: "ok:5"},
			{Call: 0, Hdr: "ok:0", Status: &[2]int64{9, 7}, Trl: "ok:0"},
			{Call: 0, Hdr: "ok:0", Trl: "ok:0", Rst: true},
		} {
			acts := []CAct{{Op: "stream"}}
			if rep%3 == 1 {
				acts = append(acts, CAct{Op: "unary", B: 15})
			}
			acts = append(acts, CAct{Op: "deliver", Env: &EnvSpec{Call: 0, Hdr: "ok:0", Body: i64(401), Trl: "none"}},
				CAct{Op: "deliver", Env: fin})
			if rep%4 == 2 {
				acts = append(acts, CAct{Op: "tick", B: 60})
			}
			acts = append(acts, CAct{Op: "failread"}, CAct{Op: "recv", C: 0}, CAct{Op: "recv", C: 0}, CAct{Op: "recv", C: 0}, CAct{Op: "trailer", C: 0})
			sc := clientScenario{Acts: acts, WithStats: rep%2 == 0, Tags: []string{"base:queued-then-fail", fmt.Sprintf("queued=%d", fi)}}
			if want(idx) && idx%nsh == shard {
				runClientScenarioAs(t, idx, "c09", sc, em, "C09Step", nil)
			}
			idx++
		}
	}
	// parked RecvMsg (the other yield point) x failure
	r := newRand(900)
	for i := 0; i < 40; i++ {
		acts := []CAct{{Op: "stream"}, {Op: "recv", C: 0, Park: true}}
		if r.Intn(2) == 0 {
			acts = append(acts, CAct{Op: "deliver", Env: &EnvSpec{Call: 0, Hdr: "ok:0", Body: i64(300), Trl: "none"}})
		}
		acts = append(acts, CAct{Op: "failread"})
		if r.Intn(2) == 0 {
			acts = append(acts, CAct{Op: "releaserecv", C: 0}, CAct{Op: "recv", C: 0})
		}
		acts = append(acts, CAct{Op: "unary", B: 14})
		sc := clientScenario{Acts: acts, Tags: []string{"base:parked-recv"}}
		if want(idx) && idx%nsh == shard {
			runClientScenarioAs(t, idx, "c09", sc, em, "C09Step", nil)
		}
		idx++
	}
}

// ---------------------------------------------------------------- C13: every short response sequence

// TestC13: ALL response sequences of length <= 2 over the 18 envelope shapes of
// clientgen.go x {call 0, call 1, unknown id} for every kind pair (unary+stream,
// stream+stream, unary+unary); thorough: also ALL length-3 sequences addressed
// to the two calls for every kind pair and 8000 length-4 sequences sampled by
// the seed; stats handler on every other case, each closed by a read failure;
// plus seeded random sequences of length 3..6.
func TestC13(t *testing.T) {
	shard, nsh, child := sharded(t, "TestC13", 14)
	if !child {
		return
	}
	em := NewEmitter()
	defer em.Close()
	r := newRand(1300)
	nShapes := len(envShapes(0, rand.New(rand.NewSource(1))))
	idx := 0
	run := func(kinds []bool, seq [][2]int, tags []string) {
		if idx%nsh != shard {
			idx++
			return
		}
		rr := rand.New(rand.NewSource(int64(idx)*7919 + *flagSeed))
		var acts []CAct
		for c, st := range kinds {
			if st {
				acts = append(acts, CAct{Op: "stream"}, CAct{Op: "header", C: c}, CAct{Op: "recv", C: c})
			} else {
				acts = append(acts, CAct{Op: "unary", B: int64(20 + c)})
			}
		}
		for _, s := range seq {
			target := s[0] // 0, 1 = calls; 2 = unknown id
			call := target
			if target == 2 {
				call = -1
			}
			acts = append(acts, CAct{Op: "deliver", Env: envShapes(call, rr)[s[1]]})
			if target < 2 && kinds[target] {
				acts = append(acts, CAct{Op: "recv", C: target})
			}
		}
		for c, st := range kinds {
			if st {
				acts = append(acts, CAct{Op: "trailer", C: c}, CAct{Op: "recv", C: c})
			}
		}
		acts = append(acts, CAct{Op: "failread"})
		for c, st := range kinds {
			if st {
				acts = append(acts, CAct{Op: "recv", C: c}, CAct{Op: "trailer", C: c})
			}
		}
		if idx%4 == 1 {
			acts = sprinkleTicks(rr, acts, 3)
			tags = append(tags, "ticks")
		}
		if idx%8 == 3 {
			// the owner calls ClientConn.Close() somewhere: before any call, between the envelopes, before or after the failure
			pos := rr.Intn(len(acts) + 1)
			acts = append(acts[:pos:pos], append([]CAct{{Op: "close"}}, acts[pos:]...)...)
			tags = append(tags, "close")
		}
		sc := clientScenario{Acts: acts, WithStats: idx%2 == 0, Tags: append(tags, fmt.Sprintf("len=%d", len(seq)), fmt.Sprintf("stats=%v", idx%2 == 0))}
		if want(idx) {
			runClientScenarioAs(t, idx, "c13", sc, em, "C13Step", nil)
		}
		idx++
	}
	kindSets := [][]bool{{false, true}, {true, true}, {false, false}}
	kn := []string{"kinds=US", "kinds=SS", "kinds=UU"}
	// length 1: everything, both stats settings
	for ki, kinds := range kindSets {
		for tg := 0; tg < 3; tg++ {
			for sh := 0; sh < nShapes; sh++ {
				for rep := 0; rep < 2; rep++ {
					run(kinds, [][2]int{{tg, sh}}, []string{kn[ki], "exhaustive"})
				}
			}
		}
	}
	// length 2: every pair over (target, shape) for EVERY kind set
	// (quick: every pair once, with the kind set chosen by the pair and the seed - 2916 cases instead of 8748, so that the
	// quick check stays well under 90 s on a busy machine; thorough: every pair for EVERY kind set)
	for a := 0; a < 3*nShapes; a++ {
		for b := 0; b < 3*nShapes; b++ {
			for ki, kinds := range kindSets {
				if !thorough() && int((int64(a*31+b*17)+*flagSeed)%3) != ki {
					continue
				}
				run(kinds, [][2]int{{a / nShapes, a % nShapes}, {b / nShapes, b % nShapes}}, []string{kn[ki], "exhaustive"})
			}
		}
	}
	if thorough() {
		// length 3: EVERY sequence addressed to the two calls (36^3 = 46656), each for ONE kind set chosen by the sequence and
		// the seed (seeds s, s+1, s+2 together give every sequence x every kind set; all three in one run took 28 min)
		for a := 0; a < 2*nShapes; a++ {
			for b := 0; b < 2*nShapes; b++ {
				for c := 0; c < 2*nShapes; c++ {
					ki := int((int64(a*31+b*17+c*7) + *flagSeed) % 3)
					if ki < 0 {
						ki += 3
					}
					run(kindSets[ki], [][2]int{{a / nShapes, a % nShapes}, {b / nShapes, b % nShapes}, {c / nShapes, c % nShapes}}, []string{kn[ki], "exhaustive-len3"})
				}
			}
		}
		// length 4: sampled by the seed
		for i := 0; i < 5000; i++ {
			ki := r.Intn(3)
			var seq [][2]int
			for j := 0; j < 4; j++ {
				seq = append(seq, [2]int{r.Intn(3), r.Intn(nShapes)})
			}
			run(kindSets[ki], seq, []string{kn[ki], "len4-sampled"})
		}
	}
	// "then new calls": an envelope sequence (surplus replies, late envelopes, resets ...), THEN calls started afterwards on
	// the same connection, each answered by its own reply (distinct tokens): lock-step, judged by the model and by the
	// honesty / route predicates (a stale envelope must never surface in a later call)
	nn := 120
	if thorough() {
		nn = 1500
	}
	for i := 0; i < nn; i++ {
		if idx%nsh != shard {
			idx++
			continue
		}
		rr := rand.New(rand.NewSource(int64(idx)*104729 + *flagSeed))
		ki := []int{0, 2}[rr.Intn(2)] // unary+stream or unary+unary: the all-orders exploration of the checker grows with
		// the product of the concurrently active streams
		kinds := kindSets[ki]
		var acts []CAct
		laterStream := false
		for c, st := range kinds {
			if st {
				acts = append(acts, CAct{Op: "stream"}, CAct{Op: "recv", C: c})
			} else {
				acts = append(acts, CAct{Op: "unary", B: int64(20 + c)})
			}
		}
		for j, n := 0, 1+rr.Intn(3); j < n; j++ {
			tg := rr.Intn(3)
			call := tg
			if tg == 2 {
				call = -1
			}
			acts = append(acts, CAct{Op: "deliver", Env: envShapes(call, rr)[rr.Intn(nShapes)]})
		}
		next := 2
		for j, n := 0, 1+rr.Intn(2); j < n; j++ {
			tok := int64(3000 + 10*j + rr.Intn(5))
			if rr.Intn(2) == 0 || laterStream {
				acts = append(acts, CAct{Op: "unary", B: int64(30 + j)})
				if rr.Intn(4) != 0 {
					acts = append(acts, CAct{Op: "deliver", Env: &EnvSpec{Call: next, Hdr: "ok:0", Body: i64(tok), Trl: "ok:0"}})
				}
			} else {
				laterStream = true
				acts = append(acts, CAct{Op: "stream"}, CAct{Op: "recv", C: next})
				if rr.Intn(4) != 0 {
					acts = append(acts, CAct{Op: "deliver", Env: &EnvSpec{Call: next, Hdr: "ok:0", Body: i64(tok), Trl: "none"}}, CAct{Op: "recv", C: next})
				}
			}
			next++
		}
		acts = append(acts, CAct{Op: "failread"})
		if idx%2 == 1 {
			acts = sprinkleTicks(rr, acts, 3)
		}
		sc := clientScenario{Acts: acts, WithStats: idx%2 == 0, Tags: []string{kn[ki], "then-new-calls"}}
		if want(idx) {
			runClientScenarioAs(t, idx, "c13", sc, em, "C13Step", nil)
		}
		idx++
	}
	// the stream's context ends while its loop HOLDS a message the caller has not consumed (the caller is one message
	// behind), possibly with the final status queued behind it; then RecvMsg x3 / SendMsg: never success without data
	for _, end := range []string{"cancel", "expire"} {
		for q := 0; q < 3; q++ { // nothing / a message / an error status queued behind the held message
			for tail := 0; tail < 3; tail++ {
				for rep := 0; rep < 2; rep++ {
					if idx%nsh != shard {
						idx++
						continue
					}
					acts := []CAct{{Op: "stream"}}
					if rep == 1 {
						acts = append(acts, CAct{Op: "unary", B: 21})
					}
					acts = append(acts, CAct{Op: "deliver", Env: &EnvSpec{Call: 0, Hdr: "ok:0", Body: i64(351), Trl: "none"}})
					switch q {
					case 1:
						acts = append(acts, CAct{Op: "deliver", Env: &EnvSpec{Call: 0, Hdr: "ok:0", Body: i64(352), Trl: "none"}})
					case 2:
						acts = append(acts, CAct{Op: "deliver", Env: &EnvSpec{Call: 0, Hdr: "ok:0", Status: &[2]int64{9, 7}, Trl: "ok:0"}})
					}
					acts = append(acts, CAct{Op: end, C: 0})
					switch tail {
					case 0:
						acts = append(acts, CAct{Op: "recv", C: 0}, CAct{Op: "recv", C: 0}, CAct{Op: "recv", C: 0})
					case 1:
						acts = append(acts, CAct{Op: "send", C: 0, B: 660}, CAct{Op: "recv", C: 0}, CAct{Op: "recv", C: 0})
					case 2:
						acts = append(acts, CAct{Op: "tick", B: 1000}, CAct{Op: "recv", C: 0}, CAct{Op: "header", C: 0}, CAct{Op: "recv", C: 0}, CAct{Op: "trailer", C: 0})
					}
					acts = append(acts, CAct{Op: "failread"}, CAct{Op: "recv", C: 0})
					sc := clientScenario{Acts: acts, WithStats: idx%2 == 0, Tags: []string{"context-ends-while-message-held", end}}
					if want(idx) {
						runClientScenarioAs(t, idx, "c13", sc, em, "C13Step", nil)
					}
					idx++
				}
			}
		}
	}
	nr := 500
	if thorough() {
		nr = 6000
	}
	for i := 0; i < nr; i++ {
		ki := r.Intn(3)
		var seq [][2]int
		for j, n := 0, 3+r.Intn(4); j < n; j++ {
			seq = append(seq, [2]int{r.Intn(3), r.Intn(nShapes)})
		}
		run(kindSets[ki], seq, []string{kn[ki], "random"})
	}
	// an envelope with a STATUS but no trailer (explicit OK with a message; an error code) does not end a stream: the message it
	// carries and everything behind it is still delivered, the end comes with the trailer
	for si, st := range []*[2]int64{{0, 0}, {3, 9}} {
		for v := 0; v < 2; v++ {
			if idx%nsh != shard {
				idx++
				continue
			}
			acts := []CAct{{Op: "stream"}, {Op: "deliver", Env: &EnvSpec{Call: 0, Hdr: "ok:0", Status: st, Body: i64(4501), Trl: "none"}}, {Op: "recv", C: 0},
				{Op: "deliver", Env: &EnvSpec{Call: 0, Hdr: "ok:0", Body: i64(4502), Trl: "none"}}, {Op: "recv", C: 0}}
			if v == 1 {
				acts = append(acts, CAct{Op: "deliver", Env: &EnvSpec{Call: 0, Hdr: "ok:0", Status: &[2]int64{0, 0}, Trl: "ok:0"}})
			}
			acts = append(acts, CAct{Op: "recv", C: 0}, CAct{Op: "failread"}, CAct{Op: "recv", C: 0})
			sc := clientScenario{Acts: acts, WithStats: idx%2 == 0, Tags: []string{"status-without-trailer-is-not-final", fmt.Sprintf("status=%d", si)}}
			if want(idx) {
				runClientScenarioAs(t, idx, "c13", sc, em, "C13Step", nil)
			}
			idx++
		}
	}
	// a stream that is not being read receives message, message and its FINAL envelope (one in the loop's hand, one queued,
	// the final one in the read loop's hands), then its context ends without the caller draining anything; then a probe
	// call and its reply, the read failure, another call: the connection's read loop must not stay behind the dead stream
	for _, end := range []string{"cancel", "expire"} {
		for fi, fin := range []*EnvSpec{
			{Call: 0, Hdr: "ok:0", Status: &[2]int64{0, 0}, Trl: "ok:0"},
			{Call: 0, Hdr: "ok:0", Status: &[2]int64{9, 7}, Trl: "ok:5"},
			{Call: 0, Hdr: "ok:0", Trl: "ok:0", Rst: true},
			{Call: 0, Hdr: "ok:0", Body: i64(4403), Trl: "none"},
		} {
			for v := 0; v < 3; v++ {
				if idx%nsh != shard {
					idx++
					continue
				}
				acts := []CAct{{Op: "stream"}}
				if v == 1 {
					acts = append(acts, CAct{Op: "header", C: 0})
				}
				acts = append(acts, CAct{Op: "deliver", Env: &EnvSpec{Call: 0, Hdr: "ok:0", Body: i64(4401), Trl: "none"}},
					CAct{Op: "deliver", Env: &EnvSpec{Call: 0, Hdr: "ok:0", Body: i64(4402), Trl: "none"}},
					CAct{Op: "deliver", Env: fin})
				if v == 2 {
					acts = append(acts, CAct{Op: "tick", B: 1000})
				}
				acts = append(acts, CAct{Op: end, C: 0}, CAct{Op: "unary", B: 47},
					CAct{Op: "deliver", Env: &EnvSpec{Call: 1, Hdr: "ok:0", Body: i64(4404), Trl: "ok:0"}},
					CAct{Op: "failread"}, CAct{Op: "recv", C: 0}, CAct{Op: "unary", B: 48})
				sc := clientScenario{Acts: acts, WithStats: idx%2 == 0, Tags: []string{"full-queue-then-final-then-" + end, fmt.Sprintf("final=%d", fi)}}
				if want(idx) {
					runClientScenarioAs(t, idx, "c13", sc, em, "C13Step", nil)
				}
				idx++
			}
		}
	}
	// "-bin" response metadata (header / trailer) whose wire value has EVERY length mod 4 (0..9 characters), padded and
	// unpadded, valid and invalid alphabet: for a stream (Header, RecvMsg, Trailer) and for a unary call, with and without a
	// stats handler (a unary reply's metadata is only decoded when one is installed); then a probe call
	for _, v := range []string{"", "A", "AA", "AAA", "AAAA", "AAAAA", "AAAAAA", "AAAAAAA", "AAAAAAAA", "AAAAAAAAA", "QQ==", "QUE=", "QUJD", "QQ=", "QUFBQQ==",
		"!", "!!", "!!!!", "!!!!!", "A!AA=", "====", "A===", "QQ==A", "-_-_", "+/+/"} {
		for _, pos := range []string{"header", "trailer"} {
			for _, first := range []string{"stream", "unary"} {
				for _, st := range []bool{true, false} {
					if idx%nsh != shard {
						idx++
						continue
					}
					var acts []CAct
					hdr, trl := "ok:0", "ok:0"
					if pos == "header" {
						hdr = "bin:" + v
					} else {
						trl = "bin:" + v
					}
					if first == "stream" {
						acts = append(acts, CAct{Op: "stream"}, CAct{Op: "header", C: 0}, CAct{Op: "recv", C: 0})
						if pos == "header" {
							acts = append(acts, CAct{Op: "deliver", Env: &EnvSpec{Call: 0, Hdr: hdr, Body: i64(4301), Trl: "none"}}, CAct{Op: "recv", C: 0},
								CAct{Op: "deliver", Env: &EnvSpec{Call: 0, Hdr: "ok:0", Status: &[2]int64{0, 0}, Trl: "ok:0"}})
						} else {
							acts = append(acts, CAct{Op: "deliver", Env: &EnvSpec{Call: 0, Hdr: "ok:0", Body: i64(4301), Trl: "none"}}, CAct{Op: "recv", C: 0},
								CAct{Op: "deliver", Env: &EnvSpec{Call: 0, Hdr: "ok:0", Status: &[2]int64{0, 0}, Trl: trl}})
						}
						acts = append(acts, CAct{Op: "recv", C: 0}, CAct{Op: "trailer", C: 0}, CAct{Op: "header", C: 0})
					} else {
						acts = append(acts, CAct{Op: "unary", B: 45}, CAct{Op: "deliver", Env: &EnvSpec{Call: 0, Hdr: hdr, Body: i64(4302), Trl: trl}})
					}
					acts = append(acts, CAct{Op: "unary", B: 46}, CAct{Op: "deliver", Env: &EnvSpec{Call: 1, Hdr: "ok:0", Body: i64(4303), Trl: "ok:0"}}, CAct{Op: "failread"})
					sc := clientScenario{Acts: acts, WithStats: st, Tags: []string{fmt.Sprintf("bin-metadata-len-mod-4=%d", len(v)%4), "bin-in:" + pos, "first:" + first, fmt.Sprintf("stats=%v", st)}}
					if want(idx) {
						runClientScenarioAs(t, idx, "c13", sc, em, "C13Step", nil)
					}
					idx++
				}
			}
		}
	}
	// unusual caller metadata on the open x envelopes addressed to that call's id (also when the open FAILED: Guess) while
	// nobody reads them x a probe call afterwards x Close / read failure: no call may hang, before or after the close
	seen := map[string]bool{}
	for _, md := range mdKinds {
		if seen[md] {
			continue
		}
		seen[md] = true
		for nenv := 0; nenv <= 2; nenv++ {
			for _, first := range []string{"stream", "unary"} {
				if idx%nsh != shard {
					idx++
					continue
				}
				acts := []CAct{{Op: first, B: 41, MD: md}}
				for j := 0; j < nenv; j++ {
					acts = append(acts, CAct{Op: "deliver", Env: &EnvSpec{Call: 0, Hdr: "ok:0", Body: i64(int64(4100 + j)), Trl: "none", Guess: true}})
				}
				acts = append(acts, CAct{Op: "unary", B: 42, MD: "none"},
					CAct{Op: "deliver", Env: &EnvSpec{Call: 1, Hdr: "ok:0", Body: i64(4200), Trl: "ok:0"}},
					CAct{Op: "stream", MD: md}, CAct{Op: "close"}, CAct{Op: "unary", B: 43, MD: md}, CAct{Op: "failread"})
				if first == "stream" {
					acts = append(acts, CAct{Op: "recv", C: 0}, CAct{Op: "recv", C: 0}, CAct{Op: "recv", C: 0})
				}
				acts = append(acts, CAct{Op: "unary", B: 44, MD: "none"})
				sc := clientScenario{Acts: acts, WithStats: idx%2 == 0, Tags: []string{"caller-metadata:" + md, fmt.Sprintf("envelopes-to-the-open=%d", nenv), "first:" + first}}
				if want(idx) {
					runClientScenarioAs(t, idx, "c13", sc, em, "C13Step", nil)
				}
				idx++
			}
		}
	}
}

package verifharness

import (
	"fmt"
	"math/rand"
)

// Scenario generators for the client rig (Rig A: real client vs scripted peer).

func i64(v int64) *int64 { return &v }

var hdrKinds = []string{"ok:0", "ok:0", "ok:0", "ok:3", "none", "bad"}
var trlKinds = []string{"ok:0", "ok:0", "ok:5", "bad"}

// response envelope shapes (the alphabet of C13), parametrised by the target call
func envShapes(call int, r *rand.Rand) []*EnvSpec {
	b := int64(100 + r.Intn(900))
	return []*EnvSpec{
		{Call: call, Hdr: "ok:0", Body: i64(b), Trl: "ok:0"},                               // plain unary reply / final with body
		{Call: call, Hdr: "ok:3", Body: i64(b + 1), Trl: "ok:5"},                           // with metadata
		{Call: call, Hdr: "ok:0", Body: i64(b + 2), Trl: "none"},                           // stream message
		{Call: call, Hdr: "ok:0", Trl: "none"},                                             // header only
		{Call: call, Hdr: "ok:0", Status: &[2]int64{0, 0}, Trl: "ok:0"},                    // OK trailer
		{Call: call, Hdr: "ok:0", Status: &[2]int64{0, 0}, Body: i64(b + 3), Trl: "ok:0"},  // explicit OK + body
		{Call: call, Hdr: "ok:0", Status: &[2]int64{5, 7}, Trl: "ok:0"},                    // error status
		{Call: call, Hdr: "ok:0", Status: &[2]int64{13, 8}, Body: i64(b + 4), Trl: "ok:0"}, // error status + body
		{Call: call, Hdr: "ok:0", Status: &[2]int64{3, 9}, Trl: "none"},                    // status without trailer
		{Call: call, Hdr: "none", Body: i64(b + 5), Trl: "ok:0"},                           // no header
		{Call: call, Hdr: "none", Trl: "none"},                                             // empty envelope
		{Call: call, Hdr: "bad", Body: i64(b + 6), Trl: "none"},                            // undecodable header metadata
		{Call: call, Hdr: "ok:0", Status: &[2]int64{0, 0}, Trl: "bad"},                     // undecodable trailer metadata
		{Call: call, Hdr: "ok:0", Trl: "ok:0", Rst: true},                                  // reset as the server sends it
		{Call: call, Hdr: "ok:0", Trl: "none", Rst: true},                                  // reset without trailer
		{Call: call, Hdr: "ok:0", Body: i64(-1), Trl: "ok:0"},                              // body that does not unmarshal
		{Call: call, Hdr: "ok:0", Trl: "ok:0"},                                             // trailer without status
		{Call: call, Hdr: "ok:0", Body: i64(0), Trl: "ok:0"},                               // empty payload
	}
}

// randomWalk produces a random action sequence over up to maxCalls calls.
func randomWalk(r *rand.Rand, n int, maxCalls int, allowFail bool) clientScenario {
	var acts []CAct
	type ci struct {
		stream  bool
		parked  bool
		rparked bool
	}
	var calls []ci
	failed := false
	for len(acts) < n {
		x := r.Intn(100)
		switch {
		case x < 14 && len(calls) < maxCalls:
			park := r.Intn(6) == 0
			acts = append(acts, CAct{Op: "unary", B: int64(1 + r.Intn(500)), Park: park})
			calls = append(calls, ci{parked: park})
		case x < 26 && len(calls) < maxCalls:
			park := r.Intn(6) == 0
			acts = append(acts, CAct{Op: "stream", Park: park})
			calls = append(calls, ci{stream: true, parked: park})
		case len(calls) == 0:
			continue
		case x < 56:
			c := r.Intn(len(calls) + 1)
			if c == len(calls) || r.Intn(12) == 0 {
				c = -1
			}
			sh := envShapes(c, r)
			acts = append(acts, CAct{Op: "deliver", Env: sh[r.Intn(len(sh))]})
		case x < 68:
			c := r.Intn(len(calls))
			if calls[c].stream {
				park := r.Intn(5) == 0
				acts = append(acts, CAct{Op: "recv", C: c, Park: park})
				if park {
					calls[c].rparked = true
				}
			}
		case x < 74:
			c := r.Intn(len(calls))
			if calls[c].stream {
				acts = append(acts, CAct{Op: "send", C: c, B: int64(600 + r.Intn(300))})
			}
		case x < 77:
			c := r.Intn(len(calls))
			if calls[c].stream {
				acts = append(acts, CAct{Op: "closesend", C: c})
			}
		case x < 81:
			c := r.Intn(len(calls))
			if calls[c].stream {
				acts = append(acts, CAct{Op: "header", C: c})
			}
		case x < 84:
			c := r.Intn(len(calls))
			if calls[c].stream {
				acts = append(acts, CAct{Op: "trailer", C: c})
			}
		case x < 89:
			c := r.Intn(len(calls))
			if r.Intn(3) == 0 {
				acts = append(acts, CAct{Op: "expire", C: c})
			} else {
				acts = append(acts, CAct{Op: "cancel", C: c})
			}
		case x < 94:
			c := r.Intn(len(calls))
			if calls[c].parked {
				acts = append(acts, CAct{Op: "release", C: c})
				calls[c].parked = false
			} else if calls[c].rparked {
				acts = append(acts, CAct{Op: "releaserecv", C: c})
				calls[c].rparked = false
			}
		case x < 96 && allowFail:
			acts = append(acts, CAct{Op: "wfail", On: r.Intn(2) == 0})
		case x < 98:
			acts = append(acts, CAct{Op: "tick", B: tickMillis[r.Intn(len(tickMillis))]})
		case allowFail && !failed && len(acts) > n/2:
			acts = append(acts, CAct{Op: "failread"})
			failed = true
		}
	}
	return clientScenario{Acts: acts, Tags: []string{"walk", fmt.Sprintf("len=%d", n)}}
}

// virtual-clock advances of the lock-step alphabet: 1 ms, 60 ms, 1 s, 31 s (past the 30 s context of the reset
// write), 1 h
var tickMillis = []int64{1, 60, 1000, 31000, 3600000}

// sprinkleTicks inserts clock advances into an action sequence: after each action with probability 1/den.
func sprinkleTicks(r *rand.Rand, acts []CAct, den int) []CAct {
	out := make([]CAct, 0, len(acts)+4)
	for _, a := range acts {
		out = append(out, a)
		if r.Intn(den) == 0 {
			out = append(out, CAct{Op: "tick", B: tickMillis[r.Intn(len(tickMillis))]})
		}
	}
	return out
}

//go:build tr

package verifharness

import (
	"bytes"
	"context"
	"errors"
	"flag"
	"fmt"
	"io"
	"net/http/httptest"
	"os"
	"os/exec"
	"path/filepath"
	"regexp"
	"runtime"
	"strings"
	"sync"
	"sync/atomic"
	"testing"
	"time"

	goat "github.com/avos-io/goat"
	"github.com/avos-io/goat/gen/goatorepo"
	"github.com/avos-io/goat/internal/verifhook"
	"github.com/jonboulle/clockwork"
	"google.golang.org/grpc"
	"google.golang.org/grpc/metadata"
	"google.golang.org/protobuf/proto"
	"google.golang.org/protobuf/types/known/wrapperspb"
)

// C15, dynamic part. TestC15Race (run by ./check in the ordinary harness
// binary) builds the harness with -race from /repo's working tree, runs
// TestC15Workload in it and turns the race detector's reports into cases.
// TestC15Workload runs free-running concurrent workloads on the real code:
// everything the gRPC API permits concurrently, on 1, 4 and 16 Ps, with seeded
// random yields at the instrumented points.

var flagRaceLoops = flag.Int("raceloops", 1, "repetitions of every workload (race binary)")

// how much of the traffic went through (sanity: the workloads do exercise the code)
var raceOkUnary, raceOkMsgs, raceErrs atomic.Int64

// ---------- the echo service of the workloads ----------
func raceEcho() *echoImpl {
	return &echoImpl{
		unary: func(ctx context.Context, req []byte) ([]byte, bool, error) {
			grpc.SetHeader(ctx, metadata.Pairs("h", "1"))
			grpc.SetTrailer(ctx, metadata.Pairs("t", "1"))
			return req, true, nil
		},
		stream: func(kind string, s grpc.ServerStream) error {
			s.SetHeader(metadata.Pairs("sh", kind))
			s.SetTrailer(metadata.Pairs("st", kind))
			for {
				var m wrapperspb.BytesValue
				if err := s.RecvMsg(&m); err != nil {
					if errors.Is(err, io.EOF) {
						return nil
					}
					return err
				}
				if kind == "CStream" {
					continue
				}
				if err := s.SendMsg(&m); err != nil {
					return err
				}
			}
		},
	}
}

// traffic: many concurrent unary calls and streams on one client connection;
// one sending and one receiving goroutine per stream; Header/Trailer concurrent
// with sends. Errors are expected when the connection is stopped under it.
func raceTraffic(cc grpc.ClientConnInterface, nUnary, nStreams int, wg *sync.WaitGroup) {
	for i := 0; i < nUnary; i++ {
		wg.Add(1)
		go func(i int) {
			defer wg.Done()
			for k := 0; k < 6; k++ {
				ctx, cancel := context.WithTimeout(context.Background(), 2*time.Second)
				var out wrapperspb.BytesValue
				err := cc.Invoke(ctx, "/verif.Echo/Unary", bv([]byte(fmt.Sprintf("u-%d-%d", i, k))), &out) // call options are not supported by goat
				cancel()
				if err == nil {
					raceOkUnary.Add(1)
				} else {
					raceErrs.Add(1)
				}
			}
		}(i)
	}
	for i := 0; i < nStreams; i++ {
		wg.Add(1)
		go func(i int) {
			defer wg.Done()
			ctx, cancel := context.WithTimeout(context.Background(), 5*time.Second)
			defer cancel()
			ctx = metadata.AppendToOutgoingContext(ctx, "k", fmt.Sprint(i))
			cs, err := cc.NewStream(ctx, descBidi, "/verif.Echo/Bidi")
			if err != nil {
				return
			}
			var swg sync.WaitGroup
			swg.Add(3)
			go func() { // the one sender
				defer swg.Done()
				for k := 0; k < 8; k++ {
					if err := cs.SendMsg(bv([]byte(fmt.Sprintf("s-%d-%d", i, k)))); err != nil {
						return
					}
				}
				cs.CloseSend()
			}()
			go func() { // the one receiver
				defer swg.Done()
				for {
					var m wrapperspb.BytesValue
					if err := cs.RecvMsg(&m); err != nil {
						return
					}
					raceOkMsgs.Add(1)
				}
			}()
			go func() { // Header / Trailer / Context concurrent with both
				defer swg.Done()
				cs.Header()
				cs.Context()
				cs.Trailer()
				if i%3 == 0 {
					cancel()
				}
			}()
			swg.Wait()
			cs.Trailer()
		}(i)
	}
}

type raceWorkload struct {
	name string
	run  func(seed int64)
}

// client and server over the scripted serialising wire (Link, immediate delivery)
func wlMux(stop bool) func(int64) {
	return func(seed int64) {
		l := NewLink(false)
		l.Auto = true
		srv := newEchoServer("dst", raceEcho())
		sctx, scancel := context.WithCancel(context.Background())
		served := make(chan struct{})
		go func() { srv.Serve(sctx, l.S); close(served) }()
		cc := goat.NewClientConn(l.C, "src", "dst")
		var wg sync.WaitGroup
		raceTraffic(cc, 8, 6, &wg)
		if stop {
			wg.Add(2)
			go func() { defer wg.Done(); time.Sleep(time.Duration(seed%3+2) * time.Millisecond); scancel() }()
			go func() { defer wg.Done(); time.Sleep(time.Duration(seed%5+3) * time.Millisecond); l.C.FailRead(errInjected) }()
		}
		wg.Wait()
		if !stop { // a second wave after the first has finished, then Stop concurrent with it
			raceTraffic(cc, 4, 3, &wg)
			srv.Stop()
			time.Sleep(time.Millisecond)
			l.C.FailRead(errInjected) // the stopped server answers nothing any more: fail the calls still waiting
			wg.Wait()
		}
		scancel()
		l.S.FailRead(io.EOF)
		l.C.FailRead(io.EOF)
		<-served
		cc.Close()
	}
}

// client and server over the shipped channel transport: envelopes travel by reference
func wlChan(seed int64) {
	c2s, s2c := make(chan *Rpc, 4), make(chan *Rpc, 4)
	crw := goat.NewGoatOverChannel(s2c, c2s)
	srw := goat.NewGoatOverChannel(c2s, s2c)
	srv := newEchoServer("dst", raceEcho())
	sctx, scancel := context.WithCancel(context.Background())
	served := make(chan struct{})
	go func() { srv.Serve(sctx, srw); close(served) }()
	cc := goat.NewClientConn(crw, "src", "dst")
	var wg sync.WaitGroup
	raceTraffic(cc, 6, 4, &wg)
	wg.Wait()
	scancel()
	srv.Stop() // the connection's Read only ends with the server's own context
	<-served
}

// a proxy with many peers: clients call servers through it; peers come and go
func wlProxy(seed int64) {
	ctx, cancel := context.WithCancel(context.Background())
	const n = 4
	var disc atomic.Int64
	p := goat.NewProxy(ctx, "proxy", func(id string) (goat.RpcReadWriter, error) { return nil, errors.New("no dial") },
		func(h *goatorepo.RequestHeader) error { return nil }, func(id string, reason error) { disc.Add(1) })
	done := make(chan struct{})
	go func() { p.Serve(); close(done) }()
	var links []*Link
	var wg sync.WaitGroup
	var servers sync.WaitGroup
	for i := 0; i < n; i++ {
		// server peer s<i>
		ls := NewLink(false)
		ls.Auto = true
		links = append(links, ls)
		srv := newEchoServer(fmt.Sprintf("s%d", i), raceEcho())
		servers.Add(1)
		go func() { defer servers.Done(); srv.Serve(ctx, ls.S) }()
		p.AddClient(fmt.Sprintf("s%d", i), ls.C)
		// client peer c<i>
		lc := NewLink(false)
		lc.Auto = true
		links = append(links, lc)
		p.AddClient(fmt.Sprintf("c%d", i), lc.S)
		cc := goat.NewClientConn(lc.C, fmt.Sprintf("c%d", i), fmt.Sprintf("s%d", i))
		raceTraffic(cc, 3, 2, &wg)
	}
	// a peer is replaced and one fails while traffic flows
	wg.Add(1)
	go func() {
		defer wg.Done()
		time.Sleep(time.Duration(seed%4) * time.Millisecond)
		extra := NewLink(false)
		extra.Auto = true
		p.AddClient("c0", extra.S)
		links[1].C.FailRead(errInjected)
		links[3].S.FailRead(errInjected)
		p.VerifProxyClients()
	}()
	wg.Wait()
	cancel()
	for _, l := range links {
		l.C.FailRead(io.EOF)
		l.S.FailRead(io.EOF)
	}
	<-done
	servers.Wait()
}

// a demultiplexer with many keys over one shared connection
func wlDemux(seed int64) {
	ctx, cancel := context.WithCancel(context.Background())
	shared := NewEndpoint("shared")
	var servers sync.WaitGroup
	srv := newEchoServer("srv", raceEcho())
	d := goat.NewDemux(ctx, shared, func(r *goat.Rpc) string { return r.GetHeader().GetSource() }, func(rw goat.RpcReadWriter) {
		servers.Add(1)
		go func() { defer servers.Done(); srv.Serve(ctx, rw) }()
	})
	run := make(chan struct{})
	go func() { d.Run(); close(run) }()
	var wg sync.WaitGroup
	body, _ := proto.Marshal(bv([]byte("x")))
	for k := 0; k < 6; k++ {
		wg.Add(1)
		go func(k int) {
			defer wg.Done()
			src := fmt.Sprintf("k%d", k)
			for i := 0; i < 10; i++ {
				id := uint64(k*100 + i + 1)
				shared.Deliver(&Rpc{Id: id, Header: hdr("/verif.Echo/Unary", src, "srv"), Body: &goatorepo.Body{Data: body}})
				if i%4 == 3 {
					d.Cancel(src)
					d.VerifDemuxKeys()
				}
				runtime.Gosched()
			}
		}(k)
	}
	wg.Wait()
	time.Sleep(5 * time.Millisecond)
	d.Stop()
	cancel()
	shared.FailRead(io.EOF)
	<-run
	srv.Stop() // a connection's Read only ends with the server's own context
	servers.Wait()
}

// the HTTP transport: concurrent requests, readers, failing writers and the cleaner
func wlHttp(seed int64) {
	fc := clockwork.NewFakeClockAt(time.Unix(trEpoch, 0))
	var mu sync.Mutex
	var conns []goat.RpcReadWriter
	goh := goat.NewGoatOverHttp(func(addr string, rw goat.RpcReadWriter) {
		mu.Lock()
		conns = append(conns, rw)
		mu.Unlock()
	}, trMapSource, goat.WithClock(fc), goat.WithConnectionCleanupInterval(time.Second), goat.WithConnectionTimeout(2*time.Second))
	ctx, cancel := context.WithCancel(context.Background())
	var wg sync.WaitGroup
	for k := 0; k < 4; k++ {
		wg.Add(1)
		go func(k int) { // requests
			defer wg.Done()
			for i := 0; i < 12; i++ {
				b, _ := postBody([]string{"ok:a", "ok:b", "ok:c", "ok:d", "garbage", "noheader"}[(k+i)%6], k*100+i)
				req := httptest.NewRequest("POST", "http://goat.test/", bytes.NewReader(b)).WithContext(ctx)
				goh.ServeHTTP(httptest.NewRecorder(), req)
			}
		}(k)
	}
	for k := 0; k < 3; k++ {
		wg.Add(1)
		go func(k int) { // readers and writers on whatever connections exist
			defer wg.Done()
			for i := 0; i < 40; i++ {
				mu.Lock()
				var rw goat.RpcReadWriter
				if len(conns) > 0 {
					rw = conns[(k+i)%len(conns)]
				}
				mu.Unlock()
				if rw == nil {
					rw = goh.NewConnection(fmt.Sprintf("h %d", k))
				}
				rctx, rcancel := context.WithTimeout(ctx, time.Millisecond)
				rw.Read(rctx)
				rcancel()
				if i%5 == 0 {
					rw.Write(ctx, &Rpc{Id: uint64(i)})
				}
				goh.VerifHttpConns()
			}
		}(k)
	}
	wg.Add(1)
	go func() { // the clock
		defer wg.Done()
		for i := 0; i < 30; i++ {
			fc.Advance(500 * time.Millisecond)
			time.Sleep(200 * time.Microsecond)
		}
	}()
	// drain: whatever is still parked is read or timed out by the cleaner
	stopDrain := make(chan struct{})
	var dwg sync.WaitGroup
	dwg.Add(1)
	go func() {
		defer dwg.Done()
		for {
			select {
			case <-stopDrain:
				return
			default:
			}
			mu.Lock()
			cs := append([]goat.RpcReadWriter(nil), conns...)
			mu.Unlock()
			for _, rw := range cs {
				rctx, rcancel := context.WithTimeout(context.Background(), 200*time.Microsecond)
				rw.Read(rctx)
				rcancel()
			}
			fc.Advance(time.Second)
			time.Sleep(100 * time.Microsecond)
		}
	}()
	wg.Wait()
	close(stopDrain)
	dwg.Wait()
	cancel()
	goh.Cancel()
}

func raceWorkloads() []raceWorkload {
	return []raceWorkload{
		{"mux", wlMux(false)},
		{"mux-stop", wlMux(true)},
		{"chan", wlChan},
		{"proxy", wlProxy},
		{"demux", wlDemux},
		{"http", wlHttp},
	}
}

// TestC15Workload is only meaningful in a binary built with -race.
func TestC15Workload(t *testing.T) {
	if os.Getenv("C15_RACE_CHILD") == "" {
		t.Skip("run by TestC15Race in the race binary")
	}
	seed := *flagSeed
	var ctr atomic.Uint64
	ctr.Store(uint64(seed) * 2654435761)
	verifhook.SetYield(func(string) {
		x := ctr.Add(0x9e3779b97f4a7c15)
		x ^= x >> 29
		switch x % 4 {
		case 0:
			runtime.Gosched()
		case 1:
			time.Sleep(time.Duration(x%50) * time.Microsecond)
		}
	})
	defer verifhook.SetYield(nil)
	for wi, w := range raceWorkloads() {
		for _, procs := range []int{1, 4, 16} {
			runtime.GOMAXPROCS(procs)
			fmt.Fprintf(os.Stderr, "\n=== C15RUN %d %s %d\n", wi, w.name, procs)
			for i := 0; i < *flagRaceLoops; i++ {
				w.run(seed + int64(i))
			}
			time.Sleep(10 * time.Millisecond) // let stragglers finish inside their run's section
			fmt.Fprintf(os.Stderr, "\n=== C15STAT %d %d %d\n", raceOkUnary.Swap(0), raceOkMsgs.Swap(0), raceErrs.Swap(0))
		}
	}
	fmt.Fprintf(os.Stderr, "\n=== C15END\n")
}

// ---------- the parent: build, run, parse ----------
var raceFrame = regexp.MustCompile(`^\s+(\S+)\(.*\)$|^\s+(\S+)\(\)$`)

// classifyRaceReport says whether one of the two conflicting accesses was made
// by goat code (the innermost frame of an access stack that is goat's or the
// harness's decides whose access it is).
func classifyRaceReport(rep string) (goatAccess bool, top []string) {
	secs := regexp.MustCompile(`(?m)^(Write|Read|Previous write|Previous read|Atomic write|Atomic read|Previous atomic write|Previous atomic read) at .*$`).FindAllStringIndex(rep, -1)
	end := strings.Index(rep, "\nGoroutine ")
	if end < 0 {
		end = len(rep)
	}
	for i, s := range secs {
		stop := end
		if i+1 < len(secs) {
			stop = secs[i+1][0]
		}
		if s[1] > stop {
			continue
		}
		owner := ""
		for _, line := range strings.Split(rep[s[1]:stop], "\n") {
			l := strings.TrimSpace(line)
			if strings.HasPrefix(l, "github.com/avos-io/goat/verifharness") {
				owner = "harness: " + l
				break
			}
			if strings.HasPrefix(l, "github.com/avos-io/goat") {
				owner = "goat: " + l
				goatAccess = true
				break
			}
		}
		top = append(top, owner)
	}
	return
}

func TestC15Race(t *testing.T) {
	if os.Getenv("C15_RACE_CHILD") != "" {
		t.Skip()
	}
	em := NewEmitter()
	defer em.Close()
	dir := os.TempDir()
	if *flagOut != "" {
		dir = filepath.Dir(*flagOut)
	}
	bin := filepath.Join(dir, "harness.race.test")
	idx := 0
	build := exec.Command("go1.26.8", "test", "-c", "-race", "-tags", "verif,tr", "-o", bin, ".")
	goflags := "GOFLAGS=-mod=mod"
	if mf := os.Getenv("VERIF_MODFILE"); mf != "" { // mutant trial: build against the tree ./check was pointed at
		goflags += " -modfile=" + mf
	}
	build.Env = append(os.Environ(), goflags, "GOPROXY=off", "GOSUMDB=off", "GOTOOLCHAIN=local", "CGO_ENABLED=1")
	if out, err := build.CombinedOutput(); err != nil {
		em.Marker("begin", idx)
		em.Emit(Rec{Idx: idx, Kind: "race-build-failed", Desc: string(out), Coq: "CStale 0", Tags: []string{"race:build-failed"}})
		em.Marker("end", idx)
		return
	}
	loops := "1"
	if thorough() {
		loops = "12"
	}
	cmd := exec.Command(bin, "-test.run", "^TestC15Workload$", "-test.timeout", "20m", "-seed", fmt.Sprint(*flagSeed), "-raceloops", loops)
	cmd.Env = append(os.Environ(), "C15_RACE_CHILD=1", "GORACE=halt_on_error=0 history_size=3")
	var buf bytes.Buffer
	cmd.Stdout = &buf
	cmd.Stderr = &buf
	runErr := cmd.Run()
	out := buf.String()
	// split into runs
	parts := regexp.MustCompile(`(?m)^=== C15RUN (\d+) (\S+) (\d+)$`).FindAllStringSubmatchIndex(out, -1)
	finished := strings.Contains(out, "=== C15END")
	nrep := 0
	for i, p := range parts {
		stop := len(out)
		if i+1 < len(parts) {
			stop = parts[i+1][0]
		}
		sec := out[p[1]:stop]
		wi, name, procs := out[p[2]:p[3]], out[p[4]:p[5]], out[p[6]:p[7]]
		reports := []string{}
		for _, blk := range strings.Split(sec, "==================") {
			if strings.Contains(blk, "WARNING: DATA RACE") {
				reports = append(reports, strings.TrimSpace(blk))
			}
		}
		stat := regexp.MustCompile(`(?m)^=== C15STAT (\d+) (\d+) (\d+)$`).FindStringSubmatch(sec)
		ngoat := 0
		for _, rep := range reports {
			isGoat, top := classifyRaceReport(rep)
			em.Marker("begin", idx)
			if isGoat {
				ngoat++
				em.Emit(Rec{Idx: idx, Kind: "race-report", Desc: map[string]any{"workload": name, "procs": procs, "accesses": top, "report": rep},
					Coq: fmt.Sprintf("CRace %d", nrep), Tags: []string{"race:goat-report", "race-workload:" + name}})
			} else {
				// a race between two harness accesses: the rig is broken, not the library
				em.Emit(Rec{Idx: idx, Kind: "race-in-harness", Desc: map[string]any{"workload": name, "procs": procs, "accesses": top, "report": rep},
					Coq: fmt.Sprintf("CStale %d", 1000+nrep), Tags: []string{"race:harness-report"}})
			}
			em.Marker("end", idx)
			idx++
			nrep++
		}
		em.Marker("begin", idx)
		em.Emit(Rec{Idx: idx, Kind: "race-run", Desc: map[string]any{"workload": name, "procs": procs, "loops": loops},
			Obs: map[string]any{"reports": len(reports), "goat_reports": ngoat, "ok_unary_okmsgs_errs": stat},
			Coq: fmt.Sprintf("CRaceRun %s %s %d", wi, procs, ngoat), Tags: []string{"race-workload:" + name, "race-procs:" + procs}})
		em.Marker("end", idx)
		idx++
	}
	if !finished || len(parts) == 0 {
		// the race binary died (fatal error: concurrent map access, deadlock, panic): that is a failing input
		tail := out
		if len(tail) > 6000 {
			tail = tail[len(tail)-6000:]
		}
		em.Marker("begin", idx)
		em.Emit(Rec{Idx: idx, Kind: "race-binary-died", Desc: map[string]any{"err": fmt.Sprint(runErr), "tail": tail},
			Coq: fmt.Sprintf("CRace %d", 9000), Tags: []string{"race:died"}})
		em.Marker("end", idx)
	}
}

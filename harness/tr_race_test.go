//go:build tr

package verifharness

import (
	"bytes"
	"context"
	"errors"
	"flag"
	"fmt"
	"io"
	"net"
	"net/http"
	"net/http/httptest"
	"os"
	"os/exec"
	"path/filepath"
	"regexp"
	"runtime"
	"strings"
	"sync"
	"sync/atomic"
	"testing"
	"time"

	goat "github.com/avos-io/goat"
	"github.com/avos-io/goat/gen/goatorepo"
	"github.com/avos-io/goat/internal/verifhook"
	"github.com/jonboulle/clockwork"
	"google.golang.org/grpc"
	"google.golang.org/grpc/codes"
	"google.golang.org/grpc/metadata"
	"google.golang.org/grpc/stats"
	"google.golang.org/grpc/status"
	"google.golang.org/protobuf/proto"
	"google.golang.org/protobuf/types/known/wrapperspb"
)

// C15, dynamic part. TestC15Race (run by ./check in the ordinary harness
// binary) builds the harness with -race from /repo's working tree, runs
// TestC15Workload in it and turns the race detector's reports into cases.
// TestC15Workload runs free-running concurrent workloads on the real code:
// everything the gRPC API permits concurrently, on 1, 4 and 16 Ps, with seeded
// random yields at the instrumented points.

var flagRaceLoops = flag.Int("raceloops", 1, "repetitions of every workload (race binary)")
var flagRaceOnly = flag.String("raceonly", "", "debugging: run only the workload of this name (race binary)")

// how much of the traffic went through (sanity: the workloads do exercise the code)
var raceOkUnary, raceOkMsgs, raceErrs atomic.Int64

// ---------- the echo service of the workloads ----------
func raceEcho() *echoImpl {
	return &echoImpl{
		unary: func(ctx context.Context, req []byte) ([]byte, bool, error) {
			grpc.SetHeader(ctx, metadata.Pairs("h", "1"))
			grpc.SetTrailer(ctx, metadata.Pairs("t", "1"))
			return req, true, nil
		},
		stream: func(kind string, s grpc.ServerStream) error {
			s.SetHeader(metadata.Pairs("sh", kind))
			s.SetTrailer(metadata.Pairs("st", kind))
			for {
				var m wrapperspb.BytesValue
				if err := s.RecvMsg(&m); err != nil {
					if errors.Is(err, io.EOF) {
						return nil
					}
					return err
				}
				if kind == "CStream" {
					continue
				}
				if err := s.SendMsg(&m); err != nil {
					return err
				}
			}
		},
	}
}

// traffic: many concurrent unary calls and streams on one client connection;
// one sending and one receiving goroutine per stream; Header/Trailer concurrent
// with sends. Errors are expected when the connection is stopped under it.
func raceTraffic(cc grpc.ClientConnInterface, nUnary, nStreams int, wg *sync.WaitGroup) {
	raceTrafficT(cc, nUnary, nStreams, wg, 2*time.Second, 5*time.Second)
}

// the same with the callers' deadlines chosen by the workload (calls whose peer has gone wait for them)
func raceTrafficT(cc grpc.ClientConnInterface, nUnary, nStreams int, wg *sync.WaitGroup, unaryTO, streamTO time.Duration) {
	for i := 0; i < nUnary; i++ {
		wg.Add(1)
		go func(i int) {
			defer wg.Done()
			for k := 0; k < 6; k++ {
				ctx, cancel := context.WithTimeout(context.Background(), unaryTO)
				var out wrapperspb.BytesValue
				err := cc.Invoke(ctx, "/verif.Echo/Unary", bv([]byte(fmt.Sprintf("u-%d-%d", i, k))), &out) // call options are not supported by goat
				cancel()
				if err == nil {
					raceOkUnary.Add(1)
				} else {
					raceErrs.Add(1)
				}
			}
		}(i)
	}
	for i := 0; i < nStreams; i++ {
		wg.Add(1)
		go func(i int) {
			defer wg.Done()
			ctx, cancel := context.WithTimeout(context.Background(), streamTO)
			defer cancel()
			ctx = metadata.AppendToOutgoingContext(ctx, "k", fmt.Sprint(i))
			cs, err := cc.NewStream(ctx, descBidi, "/verif.Echo/Bidi")
			if err != nil {
				return
			}
			var swg sync.WaitGroup
			swg.Add(3)
			go func() { // the one sender
				defer swg.Done()
				for k := 0; k < 8; k++ {
					if err := cs.SendMsg(bv([]byte(fmt.Sprintf("s-%d-%d", i, k)))); err != nil {
						return
					}
				}
				cs.CloseSend()
			}()
			go func() { // the one receiver
				defer swg.Done()
				for {
					var m wrapperspb.BytesValue
					if err := cs.RecvMsg(&m); err != nil {
						return
					}
					raceOkMsgs.Add(1)
				}
			}()
			go func() { // Header / Trailer / Context concurrent with both
				defer swg.Done()
				cs.Header()
				cs.Context()
				cs.Trailer()
				if i%3 == 0 {
					cancel()
				}
			}()
			swg.Wait()
			cs.Trailer()
		}(i)
	}
}

// raceErr: the injected transport failure of a run: plain, io.EOF, or errors WRAPPING io.EOF / context.Canceled /
// context.DeadlineExceeded (code that compares with == instead of errors.Is takes another path for those)
func raceErr(seed int64) error {
	switch seed % 5 {
	case 1:
		return io.EOF
	case 2:
		return fmt.Errorf("transport: %w", io.EOF)
	case 3:
		return fmt.Errorf("transport: %w", context.Canceled)
	case 4:
		return fmt.Errorf("transport: %w", context.DeadlineExceeded)
	}
	return errInjected
}

type raceWorkload struct {
	name string
	run  func(seed int64)
}

// client and server over the scripted serialising wire (Link, immediate delivery)
func wlMux(stop bool) func(int64) {
	return func(seed int64) {
		l := NewLink(false)
		l.Auto = true
		srv := newEchoServer("dst", raceEcho())
		sctx, scancel := context.WithCancel(context.Background())
		served := make(chan struct{})
		go func() { srv.Serve(sctx, l.S); close(served) }()
		cc := goat.NewClientConn(l.C, "src", "dst")
		var wg sync.WaitGroup
		raceTraffic(cc, 8, 6, &wg)
		if stop {
			wg.Add(2)
			go func() { defer wg.Done(); time.Sleep(time.Duration(seed%3+2) * time.Millisecond); scancel() }()
			go func() {
				defer wg.Done()
				time.Sleep(time.Duration(seed%5+3) * time.Millisecond)
				// the connection dies in both directions at once: a stream's Write fails while the
				// multiplexer's read loop fails on the same connection (the write-error path of streams
				// and unary calls asks the multiplexer for the error that broke the connection)
				l.C.FailWrites(raceErr(seed + 2))
				l.C.FailRead(raceErr(seed))
			}()
		}
		wg.Wait()
		if stop { // calls and streams on the connection that has failed
			raceTrafficT(cc, 2, 2, &wg, 50*time.Millisecond, 50*time.Millisecond)
			wg.Wait()
		}
		if !stop { // a second wave after the first has finished, then Stop concurrent with it
			raceTraffic(cc, 4, 3, &wg)
			srv.Stop()
			time.Sleep(time.Millisecond)
			l.C.FailRead(errInjected) // the stopped server answers nothing any more: fail the calls still waiting
			wg.Wait()
		}
		scancel()
		l.S.FailRead(io.EOF)
		l.C.FailRead(io.EOF)
		<-served
		cc.Close()
	}
}

// client and server over the shipped channel transport: envelopes travel by reference
func wlChan(seed int64) {
	c2s, s2c := make(chan *Rpc, 4), make(chan *Rpc, 4)
	crw := goat.NewGoatOverChannel(s2c, c2s)
	srw := goat.NewGoatOverChannel(c2s, s2c)
	srv := newEchoServer("dst", raceEcho())
	sctx, scancel := context.WithCancel(context.Background())
	served := make(chan struct{})
	go func() { srv.Serve(sctx, srw); close(served) }()
	cc := goat.NewClientConn(crw, "src", "dst")
	var wg sync.WaitGroup
	raceTraffic(cc, 6, 4, &wg)
	wg.Wait()
	scancel()
	srv.Stop() // the connection's Read only ends with the server's own context
	<-served
}

// raceBurst fires n unary calls at once on one client connection.
func raceBurst(cc grpc.ClientConnInterface, n int, timeout time.Duration, wg *sync.WaitGroup) {
	for i := 0; i < n; i++ {
		wg.Add(1)
		go func(i int) {
			defer wg.Done()
			ctx, cancel := context.WithTimeout(context.Background(), timeout)
			defer cancel()
			var out wrapperspb.BytesValue
			payload := []byte(fmt.Sprintf("b-%d", i))
			if i%7 == 3 {
				payload = nil // an empty message
			}
			if err := cc.Invoke(ctx, "/verif.Echo/Unary", bv(payload), &out); err == nil {
				raceOkUnary.Add(1)
			} else {
				raceErrs.Add(1)
			}
		}(i)
	}
}

// a proxy with many peers: clients call servers through it; peers come and go.
// Besides the steady traffic between attached peers the cold paths are driven:
//   - destinations the proxy has to DIAL ON DEMAND with a slow dial (300 ms of real time), hit by a
//     burst of calls larger than the per-peer queue (16) while the dial is still in progress: the
//     queue overflows and the drop branch runs for a peer whose connect goroutine has not stored
//     its connection yet; then more traffic to the established peer;
//   - a burst at an attached peer whose writer is stalled (its connection's Write blocks), then released;
//   - dials that fail (at once and after a delay): connect's error path, serveClients' removal of
//     the peer and the disconnect callback, re-dial of the same name afterwards;
//   - the interceptor rejecting and rewriting destinations;
//   - raw envelopes: no header, a source that is not the sender, a pre-set return route (ProxyNext),
//     a pre-filled ProxyRecord (the server's reply then carries ProxyNext and is routed by it),
//     undecodable request metadata.
func wlProxy(seed int64) {
	ctx, cancel := context.WithCancel(context.Background())
	const n = 4
	var disc atomic.Int64
	var lmu sync.Mutex // guards links (the dial function runs in the proxy's connect goroutines)
	var links []*Link
	var servers sync.WaitGroup
	newLink := func() *Link {
		l := NewLink(false)
		l.Auto = true
		lmu.Lock()
		links = append(links, l)
		lmu.Unlock()
		return l
	}
	serve := func(id string, l *Link) {
		srv := newEchoServer(id, raceEcho())
		servers.Add(1)
		go func() { defer servers.Done(); srv.Serve(ctx, l.S) }()
	}
	// The peers that are dialled on demand exist before the proxy does, and the dial function touches
	// no lock, channel or WaitGroup: it runs in the proxy's connect goroutine, and any synchronisation in
	// it (the rig's own mutex, say) would give the race detector a happens-before path from the Serve
	// goroutine to connect's write of the connection - hiding the very races this phase is for.
	slow := map[string]*Link{} // read-only once the proxy runs
	for k := 0; k < 2; k++ {
		id := fmt.Sprintf("slow%d", k)
		slow[id] = newLink()
		serve(id, slow[id])
	}
	dial := func(id string) (goat.RpcReadWriter, error) {
		switch {
		case strings.HasPrefix(id, "slow"):
			time.Sleep(300 * time.Millisecond) // the peer is far away; the race workloads are free-running, real time
			return slow[id].C, nil
		case strings.HasPrefix(id, "latefail"):
			time.Sleep(15 * time.Millisecond)
			return nil, errors.New("dial failed late")
		}
		return nil, errors.New("no dial")
	}
	intercept := func(h *goatorepo.RequestHeader) error {
		switch h.Destination {
		case "deny":
			return errors.New("denied")
		case "alias":
			h.Destination = "s0"
		}
		return nil
	}
	p := goat.NewProxy(ctx, "proxy", dial, intercept, func(id string, reason error) { disc.Add(1) })
	done := make(chan struct{})
	go func() { p.Serve(); close(done) }()
	var wg sync.WaitGroup
	attach := func(id, dst string) *goat.ClientConn { // a client peer of the proxy calling dst
		l := newLink()
		p.AddClient(id, l.S)
		return goat.NewClientConn(l.C, id, dst)
	}
	for i := 0; i < n; i++ {
		// server peer s<i>
		ls := newLink()
		serve(fmt.Sprintf("s%d", i), ls)
		p.AddClient(fmt.Sprintf("s%d", i), ls.C)
		// client peer c<i>
		cc := attach(fmt.Sprintf("c%d", i), fmt.Sprintf("s%d", i))
		raceTrafficT(cc, 3, 2, &wg, 400*time.Millisecond, 1500*time.Millisecond)
	}
	// a peer is replaced and one fails while traffic flows
	wg.Add(1)
	go func() {
		defer wg.Done()
		time.Sleep(time.Duration(seed%4) * time.Millisecond)
		extra := newLink()
		p.AddClient("c0", extra.S)
		lmu.Lock()
		l1, l3 := links[3], links[5] // the links of c0 and c1 (two slow peers, then s0 c0 s1 c1 ...)
		lmu.Unlock()
		l1.C.FailRead(raceErr(seed))
		l3.S.FailRead(raceErr(seed + 1))
		p.VerifProxyClients()
	}()

	// on-demand slow dials under a burst larger than the peer's queue
	for k := 0; k < 2; k++ {
		wg.Add(1)
		go func(k int) {
			defer wg.Done()
			time.Sleep(time.Duration((seed+int64(k)*7)%5) * time.Millisecond)
			dst := fmt.Sprintf("slow%d", k)
			cc := attach(fmt.Sprintf("cb%d", k), dst)
			var bwg sync.WaitGroup
			raceBurst(cc, 24+8*k, 700*time.Millisecond, &bwg) // > 16 at once, the dial takes 300 ms
			bwg.Wait()
			p.VerifProxyClients()
			raceBurst(cc, 20, 500*time.Millisecond, &bwg) // the peer is established now
			raceTrafficT(cc, 1, 2, &bwg, 400*time.Millisecond, 1500*time.Millisecond)
			bwg.Wait()
		}(k)
	}
	// a burst at an attached peer whose writer is stalled
	wg.Add(1)
	go func() {
		defer wg.Done()
		lst := newLink()
		serve("stall", lst)
		lst.C.BlockWrites() // what the proxy writes to this peer blocks
		p.AddClient("stall", lst.C)
		cc := attach("cs", "stall")
		var bwg sync.WaitGroup
		raceBurst(cc, 28, 600*time.Millisecond, &bwg)
		time.Sleep(time.Duration(100+seed%20) * time.Millisecond)
		lst.C.UnblockWrites()
		bwg.Wait()
		raceBurst(cc, 6, 300*time.Millisecond, &bwg)
		bwg.Wait()
		lst.C.FailWrites(raceErr(seed + 3)) // and now its writer fails: the proxy forgets the peer
		raceBurst(cc, 4, 50*time.Millisecond, &bwg)
		bwg.Wait()
		p.VerifProxyClients()
	}()
	// failing dials, rejected and rewritten destinations
	wg.Add(1)
	go func() {
		defer wg.Done()
		var bwg sync.WaitGroup
		for round := 0; round < 3; round++ {
			raceBurst(attach(fmt.Sprintf("cf%d", round), "latefail0"), 5, 40*time.Millisecond, &bwg)
			raceBurst(attach(fmt.Sprintf("cn%d", round), "nowhere"), 3, 20*time.Millisecond, &bwg)
			bwg.Wait()
			p.VerifProxyClients()
		}
		raceBurst(attach("cd", "deny"), 3, 20*time.Millisecond, &bwg)
		raceBurst(attach("ca", "alias"), 6, 500*time.Millisecond, &bwg)
		bwg.Wait()
	}()
	// raw envelopes
	wg.Add(1)
	go func() {
		defer wg.Done()
		lraw, lup := newLink(), newLink()
		p.AddClient("craw", lraw.S)
		p.AddClient("up", lup.S) // where pre-routed replies end: nobody reads them
		body, _ := proto.Marshal(bv([]byte("raw")))
		for i := 0; i < 6; i++ {
			id := uint64(7000 + i*10)
			lraw.S.Deliver(&Rpc{Id: id})
			lraw.S.Deliver(&Rpc{})                                                                                    // the all-default envelope
			lraw.S.Deliver(&Rpc{Id: id + 6, Header: hdr("/verif.Echo/Unary", "craw", "s0"), Body: &goatorepo.Body{}}) // a body of zero bytes
			lraw.S.Deliver(&Rpc{Id: id + 1, Header: hdr("/verif.Echo/Unary", "somebody-else", "s0"), Body: &goatorepo.Body{Data: body}})
			h := hdr("/verif.Echo/Unary", "craw", "not-s1")
			h.ProxyNext = []string{"s1"} // routed to s1, which ignores it (not its name)
			lraw.S.Deliver(&Rpc{Id: id + 2, Header: h, Body: &goatorepo.Body{Data: body}})
			h = hdr("/verif.Echo/Unary", "craw", "s2")
			h.ProxyRecord = []string{"up"} // the reply carries ProxyNext = [up] and is routed there
			lraw.S.Deliver(&Rpc{Id: id + 3, Header: h, Body: &goatorepo.Body{Data: body}})
			h = hdr("/verif.Echo/Unary", "craw", "s2")
			h.ProxyRecord = []string{"up"}
			h.Headers = []*goatorepo.KeyValue{{Key: "x-bin", Value: "!!!"}}
			lraw.S.Deliver(&Rpc{Id: id + 4, Header: h, Body: &goatorepo.Body{Data: body}})
			h = hdr("/verif.Echo/Bidi", "craw", "s2")
			h.ProxyRecord = []string{"up"}
			h.Headers = []*goatorepo.KeyValue{{Key: "x-bin", Value: "!!!"}}
			lraw.S.Deliver(&Rpc{Id: id + 5, Header: h}) // a stream open with undecodable metadata: reset
			runtime.Gosched()
		}
	}()
	wg.Wait()
	cancel()
	lmu.Lock()
	all := append([]*Link(nil), links...)
	lmu.Unlock()
	for _, l := range all {
		l.C.FailRead(io.EOF)
		l.S.FailRead(io.EOF)
	}
	<-done
	servers.Wait()
}

// a demultiplexer with many keys over one shared connection
func wlDemux(seed int64) {
	ctx, cancel := context.WithCancel(context.Background())
	shared := NewEndpoint("shared")
	var servers sync.WaitGroup
	srv := newEchoServer("srv", raceEcho())
	d := goat.NewDemux(ctx, shared, func(r *goat.Rpc) string { return r.GetHeader().GetSource() }, func(rw goat.RpcReadWriter) {
		servers.Add(1)
		go func() { defer servers.Done(); srv.Serve(ctx, rw) }()
	})
	run := make(chan struct{})
	go func() { d.Run(); close(run) }()
	var wg sync.WaitGroup
	body, _ := proto.Marshal(bv([]byte("x")))
	for k := 0; k < 6; k++ {
		wg.Add(1)
		go func(k int) {
			defer wg.Done()
			src := fmt.Sprintf("k%d", k)
			for i := 0; i < 10; i++ {
				id := uint64(k*100 + i + 1)
				shared.Deliver(&Rpc{Id: id, Header: hdr("/verif.Echo/Unary", src, "srv"), Body: &goatorepo.Body{Data: body}})
				if i%4 == 3 {
					d.Cancel(src)
					d.VerifDemuxKeys()
				}
				runtime.Gosched()
			}
		}(k)
	}
	wg.Wait()
	time.Sleep(5 * time.Millisecond)
	// the shared connection stops accepting writes while replies are still produced: the per-key
	// writer goroutines end on the error, the servers behind them keep writing into their channels
	raceOkMsgs.Add(int64(len(shared.WrittenCopy()))) // replies the servers behind the demultiplexer put on the shared connection
	shared.FailWrites(raceErr(seed))
	shared.Deliver(&Rpc{}) // the all-default envelope
	for k := 0; k < 6; k++ {
		shared.Deliver(&Rpc{Id: uint64(9000 + k), Header: hdr("/verif.Echo/Unary", fmt.Sprintf("k%d", k), "srv"), Body: &goatorepo.Body{Data: body}})
		shared.Deliver(&Rpc{Id: uint64(9100 + k), Header: hdr("/verif.Echo/Unary", fmt.Sprintf("late%d", k), "srv"), Body: &goatorepo.Body{Data: body}})
	}
	time.Sleep(3 * time.Millisecond)
	d.Cancel("late0")
	d.Stop()
	cancel()
	shared.FailRead(io.EOF)
	<-run
	srv.Stop() // a connection's Read only ends with the server's own context
	servers.Wait()
}

// the HTTP transport: concurrent requests, readers, failing writers and the cleaner
func wlHttp(seed int64) {
	fc := clockwork.NewFakeClockAt(time.Unix(trEpoch, 0))
	var mu sync.Mutex
	var conns []goat.RpcReadWriter
	goh := goat.NewGoatOverHttp(func(addr string, rw goat.RpcReadWriter) {
		mu.Lock()
		conns = append(conns, rw)
		mu.Unlock()
	}, trMapSource, goat.WithClock(fc), goat.WithConnectionCleanupInterval(time.Second), goat.WithConnectionTimeout(2*time.Second))
	ctx, cancel := context.WithCancel(context.Background())
	var wg sync.WaitGroup
	for k := 0; k < 4; k++ {
		wg.Add(1)
		go func(k int) { // requests
			defer wg.Done()
			for i := 0; i < 12; i++ {
				b, _ := postBody([]string{"ok:a", "ok:b", "ok:c", "ok:d", "garbage", "noheader", "maperr", "emptysrc"}[(k+i)%8], k*100+i)
				req := httptest.NewRequest("POST", "http://goat.test/", bytes.NewReader(b)).WithContext(ctx)
				goh.ServeHTTP(httptest.NewRecorder(), req)
			}
		}(k)
	}
	for k := 0; k < 3; k++ {
		wg.Add(1)
		go func(k int) { // readers and writers on whatever connections exist
			defer wg.Done()
			for i := 0; i < 40; i++ {
				mu.Lock()
				var rw goat.RpcReadWriter
				if len(conns) > 0 {
					rw = conns[(k+i)%len(conns)]
				}
				mu.Unlock()
				if rw == nil {
					rw = goh.NewConnection(trAddr(k))
				}
				rctx, rcancel := context.WithTimeout(ctx, time.Millisecond)
				rw.Read(rctx)
				rcancel()
				if i%5 == 0 {
					rw.Write(ctx, &Rpc{Id: uint64(i)})
				}
				goh.VerifHttpConns()
			}
		}(k)
	}
	wg.Add(1)
	go func() { // the clock
		defer wg.Done()
		for i := 0; i < 30; i++ {
			fc.Advance(500 * time.Millisecond)
			time.Sleep(200 * time.Microsecond)
		}
	}()
	// drain: whatever is still parked is read or timed out by the cleaner
	stopDrain := make(chan struct{})
	var dwg sync.WaitGroup
	dwg.Add(1)
	go func() {
		defer dwg.Done()
		for {
			select {
			case <-stopDrain:
				return
			default:
			}
			mu.Lock()
			cs := append([]goat.RpcReadWriter(nil), conns...)
			mu.Unlock()
			for _, rw := range cs {
				rctx, rcancel := context.WithTimeout(context.Background(), 200*time.Microsecond)
				rw.Read(rctx)
				rcancel()
			}
			fc.Advance(time.Second)
			time.Sleep(100 * time.Microsecond)
		}
	}()
	wg.Wait()
	close(stopDrain)
	dwg.Wait()
	cancel()
	goh.Cancel()
	wlHttpEndToEnd(seed)
}

// the HTTP transport end to end over loopback sockets: a client connection and a server, each
// behind its own GoatOverHttp; every envelope is a POST made by httpReadWriter.Write (the path the
// in-memory phase above cannot reach). Then the server's listener goes away under traffic: Write
// fails in client.Do and unregisters the connection.
func wlHttpEndToEnd(seed int64) {
	ctx, cancel := context.WithCancel(context.Background())
	defer cancel()
	var hS, hC http.Handler // set before the listeners start serving
	tsS := httptest.NewUnstartedServer(http.HandlerFunc(func(w http.ResponseWriter, r *http.Request) { hS.ServeHTTP(w, r) }))
	tsC := httptest.NewUnstartedServer(http.HandlerFunc(func(w http.ResponseWriter, r *http.Request) { hC.ServeHTTP(w, r) }))
	addrS, addrC := tsS.Listener.Addr().(*net.TCPAddr).String(), tsC.Listener.Addr().(*net.TCPAddr).String()
	srv := newEchoServer("hs", raceEcho())
	var rwmu sync.Mutex
	var rws []goat.RpcReadWriter
	gohS := goat.NewGoatOverHttp(func(addr string, rw goat.RpcReadWriter) {
		rwmu.Lock()
		rws = append(rws, rw)
		rwmu.Unlock()
		srv.Serve(ctx, rw) // onConnect runs in a goroutine of its own
	}, func(src string) (string, error) {
		if src == "hc" {
			return addrC, nil
		}
		return "", errors.New("unknown source")
	})
	gohC := goat.NewGoatOverHttp(func(addr string, rw goat.RpcReadWriter) {
		rwmu.Lock()
		rws = append(rws, rw)
		rwmu.Unlock()
	}, func(src string) (string, error) {
		if src == "hs" {
			return addrS, nil
		}
		return "", errors.New("unknown source")
	})
	hS, hC = gohS, gohC
	tsS.Start()
	tsC.Start()
	rwC := gohC.NewConnection(addrS)
	cc := goat.NewClientConn(rwC, "hc", "hs")
	var wg sync.WaitGroup
	raceTrafficT(cc, 3, 0, &wg, time.Second, 2*time.Second)
	for i := 0; i < 2; i++ { // ping-pong streams: this transport parks a POST until its envelope is read, so
		wg.Add(1) // a peer that stops reading (raceTraffic cancels some streams) stalls the connection
		go func(i int) {
			defer wg.Done()
			sctx, scancel := context.WithTimeout(context.Background(), 2*time.Second)
			defer scancel()
			cs, err := cc.NewStream(sctx, descBidi, "/verif.Echo/Bidi")
			if err != nil {
				return
			}
			for k := 0; k < 4; k++ {
				var m wrapperspb.BytesValue
				if cs.SendMsg(bv([]byte(fmt.Sprintf("hs-%d-%d", i, k)))) != nil || cs.RecvMsg(&m) != nil {
					return
				}
				raceOkMsgs.Add(1)
			}
			cs.CloseSend()
			var m wrapperspb.BytesValue
			cs.RecvMsg(&m)
			cs.Header()
			cs.Trailer()
		}(i)
	}
	wg.Wait()
	// second wave with the server's listener closed under it
	raceBurst(cc, 6, 300*time.Millisecond, &wg)
	wg.Add(1)
	go func() {
		defer wg.Done()
		time.Sleep(time.Duration(seed%3) * time.Millisecond)
		tsS.CloseClientConnections()
		tsS.Listener.Close()
	}()
	wg.Wait()
	raceBurst(cc, 3, 100*time.Millisecond, &wg) // the connection was unregistered by the failed Write
	wg.Wait()
	cc.Close()
	srv.Stop()
	cancel()
	// Shutting down. ServeHTTP parks a request until somebody reads its envelope or its connection is
	// unregistered (it honours neither the request's context nor Cancel), and a listener cannot close
	// while a handler is parked. So: no new requests (listeners closed), then every connection is
	// unregistered the only way the API offers - a Write that fails (connection refused) - until the
	// handlers have all returned.
	tsS.Listener.Close()
	tsC.Listener.Close()
	closed := make(chan struct{})
	go func() { tsS.Close(); tsC.Close(); close(closed) }()
	for waiting := true; waiting; {
		rwmu.Lock()
		all := append([]goat.RpcReadWriter{rwC}, rws...)
		rwmu.Unlock()
		for _, rw := range all {
			wctx, wcancel := context.WithTimeout(context.Background(), 200*time.Millisecond)
			rw.Write(wctx, &Rpc{})
			wcancel()
		}
		select {
		case <-closed:
			waiting = false
		case <-time.After(5 * time.Millisecond):
		}
	}
	gohS.Cancel()
	gohC.Cancel()
	time.Sleep(5 * time.Millisecond)
}

// ---------- client and server with every option: stats handlers, (chained) interceptors ----------
type raceStatsHandler struct{ n atomic.Int64 }

func (h *raceStatsHandler) TagRPC(ctx context.Context, _ *stats.RPCTagInfo) context.Context {
	h.n.Add(1)
	return ctx
}
func (h *raceStatsHandler) HandleRPC(context.Context, stats.RPCStats) { h.n.Add(1) }
func (h *raceStatsHandler) TagConn(ctx context.Context, _ *stats.ConnTagInfo) context.Context {
	h.n.Add(1)
	return ctx
}
func (h *raceStatsHandler) HandleConn(context.Context, stats.ConnStats) { h.n.Add(1) }

// handlers that fail, send headers explicitly, set trailers late; malformed envelopes straight
// into the server; calls on a closed client connection
func wlOpts(seed int64) {
	shS, shS2, shC := &raceStatsHandler{}, &raceStatsHandler{}, &raceStatsHandler{}
	var icount atomic.Int64
	ui := func(ctx context.Context, req any, info *grpc.UnaryServerInfo, h grpc.UnaryHandler) (any, error) {
		icount.Add(1)
		return h(ctx, req)
	}
	si := func(srv any, ss grpc.ServerStream, info *grpc.StreamServerInfo, h grpc.StreamHandler) error {
		icount.Add(1)
		return h(srv, ss)
	}
	echo := &echoImpl{
		unary: func(ctx context.Context, req []byte) ([]byte, bool, error) {
			grpc.SetHeader(ctx, metadata.Pairs("h", "1"))
			grpc.SendHeader(ctx, metadata.Pairs("h2", "2"))
			grpc.SetTrailer(ctx, metadata.Pairs("t", "1"))
			switch {
			case bytes.HasSuffix(req, []byte("-3")):
				return nil, false, status.Error(codes.NotFound, "no such thing")
			case bytes.HasSuffix(req, []byte("-4")):
				return nil, false, errors.New("plain error")
			}
			return req, true, nil
		},
		stream: func(kind string, s grpc.ServerStream) error {
			s.SetHeader(metadata.Pairs("sh", kind))
			s.SendHeader(metadata.Pairs("sh2", kind))
			s.SendHeader(metadata.Pairs("sh3", kind)) // already sent: error
			n := 0
			for {
				var m wrapperspb.BytesValue
				if err := s.RecvMsg(&m); err != nil {
					s.SetTrailer(metadata.Pairs("st", kind))
					if errors.Is(err, io.EOF) {
						return nil
					}
					return err
				}
				n++
				if n == 5 && bytes.Contains(m.Value, []byte("s-1-")) {
					return status.Error(codes.Aborted, "handler gives up")
				}
				if err := s.SendMsg(&m); err != nil {
					return err
				}
			}
		},
	}
	mk := func(chained bool) (*Link, *goat.Server, *goat.ClientConn, chan struct{}, context.CancelFunc) {
		l := NewLink(false)
		l.Auto = true
		var opts []goat.ServerOption
		if chained {
			opts = []goat.ServerOption{goat.ChainUnaryInterceptor(ui, ui, ui), goat.ChainStreamInterceptor(si, si), goat.StatsHandler(shS), goat.StatsHandler(shS2)}
		} else {
			opts = []goat.ServerOption{goat.UnaryInterceptor(ui), goat.StreamInterceptor(si), goat.StatsHandler(shS)}
		}
		srv := newEchoServer("dst", echo, opts...)
		sctx, scancel := context.WithCancel(context.Background())
		served := make(chan struct{})
		go func() { srv.Serve(sctx, l.S); close(served) }()
		cc := goat.NewClientConn(l.C, "src", "dst",
			goat.WithStatsHandler(shC),
			goat.WithUnaryInterceptor(func(ctx context.Context, method string, req, reply any, _ *grpc.ClientConn, inv grpc.UnaryInvoker, opts ...grpc.CallOption) error {
				icount.Add(1)
				return inv(ctx, method, req, reply, nil, opts...)
			}),
			goat.WithStreamInterceptor(func(ctx context.Context, desc *grpc.StreamDesc, _ *grpc.ClientConn, method string, st grpc.Streamer, opts ...grpc.CallOption) (grpc.ClientStream, error) {
				icount.Add(1)
				return st(ctx, desc, nil, method, opts...)
			}))
		return l, srv, cc, served, scancel
	}
	for _, chained := range []bool{false, true} {
		l, srv, cc, served, scancel := mk(chained)
		var wg sync.WaitGroup
		raceTrafficT(cc, 6, 4, &wg, 300*time.Millisecond, 800*time.Millisecond)
		// malformed and unroutable envelopes straight into the server, concurrent with the traffic
		wg.Add(1)
		go func() {
			defer wg.Done()
			body, _ := proto.Marshal(bv([]byte("x")))
			bad := []*goatorepo.KeyValue{{Key: "x-bin", Value: "!!!"}}
			for i := 0; i < 4; i++ {
				id := uint64(50000 + i*20)
				l.S.Deliver(&Rpc{Id: id})
				l.S.Deliver(&Rpc{})
				l.C.Deliver(&Rpc{})
				l.S.Deliver(&Rpc{Id: id + 12, Header: hdr("/verif.Echo/Unary", "src", "dst"), Body: &goatorepo.Body{}}) // a body of zero bytes
				l.S.Deliver(&Rpc{Id: id + 1, Header: hdr("nomethod", "src", "dst"), Body: &goatorepo.Body{Data: body}})
				l.S.Deliver(&Rpc{Id: id + 2, Header: hdr("/verif.Echo/Unary", "src", "elsewhere"), Body: &goatorepo.Body{Data: body}})
				l.S.Deliver(&Rpc{Id: id + 3, Header: hdr("/nope.Svc/M", "src", "dst"), Body: &goatorepo.Body{Data: body}})
				l.S.Deliver(&Rpc{Id: id + 4, Header: hdr("/verif.Echo/Nope", "src", "dst"), Body: &goatorepo.Body{Data: body}})
				h := hdr("/verif.Echo/Unary", "src", "dst")
				h.Headers = bad
				l.S.Deliver(&Rpc{Id: id + 5, Header: h, Body: &goatorepo.Body{Data: body}})
				h = hdr("/verif.Echo/Bidi", "src", "dst")
				h.Headers = bad
				l.S.Deliver(&Rpc{Id: id + 6, Header: h})
				l.S.Deliver(&Rpc{Id: id + 7, Header: hdr("/verif.Echo/Unary2", "src", "dst"), Body: &goatorepo.Body{Data: []byte{0xff, 0xff}}}) // undecodable body
				l.S.Deliver(&Rpc{Id: id + 8, Header: hdr("/verif.Echo/Bidi", "src", "dst"), Trailer: &goatorepo.Trailer{}})                     // an end for a stream that never began
				l.S.Deliver(&Rpc{Id: id + 9, Header: hdr("/verif.Echo/Bidi", "src", "dst"), Reset_: &goatorepo.Reset{Type: "RST_STREAM"}})
				// and towards the client: replies nobody waits for
				l.C.Deliver(&Rpc{Id: id + 10, Header: hdr("/verif.Echo/Unary", "dst", "src"), Body: &goatorepo.Body{Data: body}})
				l.C.Deliver(&Rpc{Id: id + 11})
				// undecodable metadata in a reply / trailer for whichever call or stream has this id
				h = hdr("/verif.Echo/Bidi", "dst", "src")
				h.Headers = bad
				l.C.Deliver(&Rpc{Id: uint64(i*5 + 3), Header: h})
				l.C.Deliver(&Rpc{Id: uint64(i*5 + 4), Header: hdr("/verif.Echo/Bidi", "dst", "src"), Status: &goatorepo.ResponseStatus{}, Trailer: &goatorepo.Trailer{Metadata: bad}})
				runtime.Gosched()
			}
		}()
		wg.Wait()
		// Close concurrent with a last wave: calls on a closing / closed client connection
		raceTrafficT(cc, 3, 2, &wg, 200*time.Millisecond, 500*time.Millisecond)
		time.Sleep(time.Duration(seed%3) * time.Millisecond)
		if chained {
			l.S.FailWrites(errInjected) // the server's writes fail under its handlers
		}
		cc.Close()
		wg.Wait()
		raceBurst(cc, 2, 50*time.Millisecond, &wg)
		wg.Wait()
		srv.Stop()
		scancel()
		l.S.FailRead(io.EOF)
		l.C.FailRead(io.EOF)
		<-served
	}
}

// raceT is the test the workloads run in (the WebSocket pair helper reports through it)
var raceT *testing.T

// client and server over the shipped WebSocket transport (coder/websocket on an in-memory byte stream): the client
// multiplexer calls Write of the ONE goatOverWebsocket connection from a goroutine per unary call / stream, the
// server's writer and handlers write the other one: whatever per-connection state Write keeps is shared by them
func wlWs(seed int64) {
	p := newTrWsPair(raceT, -1)
	p.cc.SetReadLimit(-1)
	srv := newEchoServer("dst", raceEcho())
	sctx, scancel := context.WithCancel(context.Background())
	served := make(chan struct{})
	go func() { srv.Serve(sctx, goat.NewGoatOverWebsocket(p.sc)); close(served) }()
	cc := goat.NewClientConn(goat.NewGoatOverWebsocket(p.cc), "src", "dst")
	var wg sync.WaitGroup
	raceTrafficT(cc, 8, 6, &wg, 2*time.Second, 3*time.Second)
	raceBurst(cc, 24, 2*time.Second, &wg)
	wg.Wait()
	scancel()
	srv.Stop()
	cc.Close()
	<-served
	p.close()
}

// envelopes BY REFERENCE all the way: a client with a stats handler -> the in-process channel transport -> a goat.Proxy
// (which edits the envelope it forwards in place: ProxyRecord) -> channel -> a server with a stats handler; then the same
// client -> channel -> a Demux -> the server. Once Write has handed an envelope to a by-reference transport the envelope
// belongs to whoever reads it: anything the writer (or its stats / logging code) still does with it races with the far end.
func wlByRef(seed int64) {
	shC, shS := &raceStatsHandler{}, &raceStatsHandler{}
	{ // through a proxy
		ctx, cancel := context.WithCancel(context.Background())
		p := goat.NewProxy(ctx, "proxy", func(id string) (goat.RpcReadWriter, error) { return nil, errors.New("no dial") }, nil, nil)
		done := make(chan struct{})
		go func() { p.Serve(); close(done) }()
		c2p, p2c := make(chan *Rpc, 4), make(chan *Rpc, 4)
		s2p, p2s := make(chan *Rpc, 4), make(chan *Rpc, 4)
		p.AddClient("c", goat.NewGoatOverChannel(c2p, p2c))
		p.AddClient("s", goat.NewGoatOverChannel(s2p, p2s))
		srv := newEchoServer("s", raceEcho(), goat.StatsHandler(shS))
		served := make(chan struct{})
		go func() { srv.Serve(ctx, goat.NewGoatOverChannel(p2s, s2p)); close(served) }()
		cc := goat.NewClientConn(goat.NewGoatOverChannel(p2c, c2p), "c", "s", goat.WithStatsHandler(shC))
		var wg sync.WaitGroup
		raceTrafficT(cc, 4, 6, &wg, time.Second, 2*time.Second)
		wg.Wait()
		cc.Close()
		srv.Stop()
		cancel()
		<-served
		<-done
	}
	{ // through a demultiplexer
		ctx, cancel := context.WithCancel(context.Background())
		c2d, d2c := make(chan *Rpc, 4), make(chan *Rpc, 4)
		srv := newEchoServer("s", raceEcho(), goat.StatsHandler(shS))
		var servers sync.WaitGroup
		d := goat.NewDemux(ctx, goat.NewGoatOverChannel(c2d, d2c), func(r *goat.Rpc) string { return r.GetHeader().GetSource() },
			func(rw goat.RpcReadWriter) {
				servers.Add(1)
				go func() { defer servers.Done(); srv.Serve(ctx, rw) }()
			})
		run := make(chan struct{})
		go func() { d.Run(); close(run) }()
		cc := goat.NewClientConn(goat.NewGoatOverChannel(d2c, c2d), "c", "s", goat.WithStatsHandler(shC))
		var wg sync.WaitGroup
		raceTrafficT(cc, 4, 6, &wg, time.Second, 2*time.Second)
		wg.Wait()
		cc.Close()
		srv.Stop()
		d.Stop()
		cancel()
		<-run
		servers.Wait()
	}
}

func raceWorkloads() []raceWorkload {
	return []raceWorkload{
		{"mux", wlMux(false)},
		{"mux-stop", wlMux(true)},
		{"chan", wlChan},
		{"proxy", wlProxy},
		{"demux", wlDemux},
		{"http", wlHttp},
		{"opts", wlOpts},
		{"ws", wlWs},
		{"byref", wlByRef},
	}
}

// TestC15Workload is only meaningful in a binary built with -race.
func TestC15Workload(t *testing.T) {
	if os.Getenv("C15_RACE_CHILD") == "" {
		t.Skip("run by TestC15Race in the race binary")
	}
	seed := *flagSeed
	raceT = t
	var ctr atomic.Uint64
	ctr.Store(uint64(seed) * 2654435761)
	verifhook.SetYield(func(string) {
		x := ctr.Add(0x9e3779b97f4a7c15)
		x ^= x >> 29
		switch x % 4 {
		case 0:
			runtime.Gosched()
		case 1:
			time.Sleep(time.Duration(x%50) * time.Microsecond)
		}
	})
	defer verifhook.SetYield(nil)
	for wi, w := range raceWorkloads() {
		if *flagRaceOnly != "" && *flagRaceOnly != w.name {
			continue
		}
		for _, procs := range []int{1, 4, 16} {
			runtime.GOMAXPROCS(procs)
			fmt.Fprintf(os.Stderr, "\n=== C15RUN %d %s %d\n", wi, w.name, procs)
			t0 := time.Now()
			for i := 0; i < *flagRaceLoops; i++ {
				w.run(seed + int64(i))
			}
			time.Sleep(10 * time.Millisecond) // let stragglers finish inside their run's section
			fmt.Fprintf(os.Stderr, "\n=== C15TIME %d ms\n", time.Since(t0).Milliseconds())
			fmt.Fprintf(os.Stderr, "\n=== C15STAT %d %d %d\n", raceOkUnary.Swap(0), raceOkMsgs.Swap(0), raceErrs.Swap(0))
		}
	}
	fmt.Fprintf(os.Stderr, "\n=== C15END\n")
}

// ---------- the parent: build, run, parse ----------
var raceFrame = regexp.MustCompile(`^\s+(\S+)\(.*\)$|^\s+(\S+)\(\)$`)

// classifyRaceReport says whether one of the two conflicting accesses was made
// by goat code (the innermost frame of an access stack that is goat's or the
// harness's decides whose access it is).
func classifyRaceReport(rep string) (goatAccess bool, top []string) {
	secs := regexp.MustCompile(`(?m)^(Write|Read|Previous write|Previous read|Atomic write|Atomic read|Previous atomic write|Previous atomic read) at .*$`).FindAllStringIndex(rep, -1)
	end := strings.Index(rep, "\nGoroutine ")
	if end < 0 {
		end = len(rep)
	}
	for i, s := range secs {
		stop := end
		if i+1 < len(secs) {
			stop = secs[i+1][0]
		}
		if s[1] > stop {
			continue
		}
		owner := ""
		for _, line := range strings.Split(rep[s[1]:stop], "\n") {
			l := strings.TrimSpace(line)
			if strings.HasPrefix(l, "github.com/avos-io/goat/verifharness") {
				owner = "harness: " + l
				break
			}
			if strings.HasPrefix(l, "github.com/avos-io/goat") {
				owner = "goat: " + l
				goatAccess = true
				break
			}
		}
		top = append(top, owner)
	}
	return
}

func TestC15Race(t *testing.T) {
	if os.Getenv("C15_RACE_CHILD") != "" {
		t.Skip()
	}
	em := NewEmitter()
	defer em.Close()
	dir := os.TempDir()
	if *flagOut != "" {
		dir = filepath.Dir(*flagOut)
	}
	bin := filepath.Join(dir, "harness.race.test")
	idx := 0
	build := exec.Command("go1.26.8", "test", "-c", "-race", "-tags", "verif,tr", "-o", bin, ".")
	goflags := "GOFLAGS=-mod=mod"
	if mf := os.Getenv("VERIF_MODFILE"); mf != "" { // mutant trial: build against the tree ./check was pointed at
		goflags += " -modfile=" + mf
	}
	build.Env = append(os.Environ(), goflags, "GOPROXY=off", "GOSUMDB=off", "GOTOOLCHAIN=local", "CGO_ENABLED=1")
	if out, err := build.CombinedOutput(); err != nil {
		em.Marker("begin", idx)
		em.Emit(Rec{Idx: idx, Kind: "race-build-failed", Desc: string(out), Coq: "CStale 0", Tags: []string{"race:build-failed"}})
		em.Marker("end", idx)
		return
	}
	loops := "2" // the whole run takes ~12 s per repetition
	if thorough() {
		loops = "12"
	}
	cmd := exec.Command(bin, "-test.run", "^TestC15Workload$", "-test.timeout", "20m", "-seed", fmt.Sprint(*flagSeed), "-raceloops", loops)
	cmd.Env = append(os.Environ(), "C15_RACE_CHILD=1", "GORACE=halt_on_error=0 history_size=3")
	var buf bytes.Buffer
	cmd.Stdout = &buf
	cmd.Stderr = &buf
	runErr := cmd.Run()
	out := buf.String()
	// split into runs
	parts := regexp.MustCompile(`(?m)^=== C15RUN (\d+) (\S+) (\d+)$`).FindAllStringSubmatchIndex(out, -1)
	finished := strings.Contains(out, "=== C15END")
	nrep := 0
	for i, p := range parts {
		stop := len(out)
		if i+1 < len(parts) {
			stop = parts[i+1][0]
		}
		sec := out[p[1]:stop]
		wi, name, procs := out[p[2]:p[3]], out[p[4]:p[5]], out[p[6]:p[7]]
		reports := []string{}
		for _, blk := range strings.Split(sec, "==================") {
			if strings.Contains(blk, "WARNING: DATA RACE") {
				reports = append(reports, strings.TrimSpace(blk))
			}
		}
		stat := regexp.MustCompile(`(?m)^=== C15STAT (\d+) (\d+) (\d+)$`).FindStringSubmatch(sec)
		traffic := 0 // successful calls + messages + envelopes through the code: a workload that does nothing proves nothing
		if len(stat) == 4 {
			var a, b int
			fmt.Sscan(stat[1], &a)
			fmt.Sscan(stat[2], &b)
			traffic = a + b
		}
		ngoat := 0
		for _, rep := range reports {
			isGoat, top := classifyRaceReport(rep)
			em.Marker("begin", idx)
			if isGoat {
				ngoat++
				em.Emit(Rec{Idx: idx, Kind: "race-report", Desc: map[string]any{"workload": name, "procs": procs, "accesses": top, "report": rep},
					Coq: fmt.Sprintf("CRace %d", nrep), Tags: []string{"race:goat-report", "race-workload:" + name}})
			} else {
				// a race between two harness accesses: the rig is broken, not the library
				em.Emit(Rec{Idx: idx, Kind: "race-in-harness", Desc: map[string]any{"workload": name, "procs": procs, "accesses": top, "report": rep},
					Coq: fmt.Sprintf("CStale %d", 1000+nrep), Tags: []string{"race:harness-report"}})
			}
			em.Marker("end", idx)
			idx++
			nrep++
		}
		em.Marker("begin", idx)
		em.Emit(Rec{Idx: idx, Kind: "race-run", Desc: map[string]any{"workload": name, "procs": procs, "loops": loops},
			Obs: map[string]any{"reports": len(reports), "goat_reports": ngoat, "ok_unary_okmsgs_errs": stat},
			Coq: fmt.Sprintf("CRaceRun %s %s %d %d", wi, procs, ngoat, traffic), Tags: []string{"race-workload:" + name, "race-procs:" + procs}})
		em.Marker("end", idx)
		idx++
	}
	if !finished || len(parts) == 0 {
		// the race binary died (fatal error: concurrent map access, deadlock, panic): that is a failing input
		tail := out
		if len(tail) > 6000 {
			tail = tail[len(tail)-6000:]
		}
		em.Marker("begin", idx)
		em.Emit(Rec{Idx: idx, Kind: "race-binary-died", Desc: map[string]any{"err": fmt.Sprint(runErr), "tail": tail},
			Coq: fmt.Sprintf("CRace %d", 9000), Tags: []string{"race:died"}})
		em.Marker("end", idx)
	}
}

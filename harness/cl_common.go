//go:build cl

package verifharness

import (
	"bufio"
	"bytes"
	"encoding/json"
	"testing"
)

// runClientScenarioAs runs a client scenario through the shared client rig and
// re-emits its record with the ccase term wrapped into a constructor of the
// property's own case type (ctor = "" leaves it alone); edit may add to the term
// and the tags.
func runClientScenarioAs(t *testing.T, idx int, kind string, sc clientScenario, em *Emitter, ctor string, edit func(r *Rec)) {
	var buf bytes.Buffer
	em2 := &Emitter{w: bufio.NewWriter(&buf)}
	em.Marker("begin", idx)
	runClientScenario(t, idx, kind, sc, em2)
	em2.mu.Lock()
	em2.w.Flush()
	em2.mu.Unlock()
	sc2 := bufio.NewScanner(&buf)
	sc2.Buffer(make([]byte, 1<<20), 64<<20)
	for sc2.Scan() {
		line := sc2.Bytes()
		if bytes.HasPrefix(line, []byte(`{"marker"`)) {
			continue
		}
		var r Rec
		if err := json.Unmarshal(line, &r); err != nil {
			t.Fatalf("re-emit: %v", err)
		}
		if ctor != "" {
			r.Coq = ctor + " (" + r.Coq + ")"
		}
		if edit != nil {
			edit(&r)
		}
		em.Emit(r)
	}
	em.Marker("end", idx)
}

//go:build cl

package verifharness

import (
	"bufio"
	"bytes"
	"encoding/json"
	"fmt"
	"os"
	"os/exec"
	"sync"
	"testing"
)

// runClientScenarioAs runs a client scenario through the shared client rig and
// re-emits its record with the ccase term wrapped into a constructor of the
// property's own case type (ctor = "" leaves it alone); edit may add to the term
// and the tags.
func runClientScenarioAs(t *testing.T, idx int, kind string, sc clientScenario, em *Emitter, ctor string, edit func(r *Rec)) {
	var buf bytes.Buffer
	em2 := &Emitter{w: bufio.NewWriter(&buf)}
	em.Marker("begin", idx)
	runClientScenario(t, idx, kind, sc, em2)
	em2.mu.Lock()
	em2.w.Flush()
	em2.mu.Unlock()
	sc2 := bufio.NewScanner(&buf)
	sc2.Buffer(make([]byte, 1<<20), 64<<20)
	for sc2.Scan() {
		line := sc2.Bytes()
		if bytes.HasPrefix(line, []byte(`{"marker"`)) {
			continue
		}
		var r Rec
		if err := json.Unmarshal(line, &r); err != nil {
			t.Fatalf("re-emit: %v", err)
		}
		if ctor != "" {
			r.Coq = ctor + " (" + r.Coq + ")"
		}
		if edit != nil {
			edit(&r)
		}
		em.Emit(r)
	}
	em.Marker("end", idx)
}

// sharded re-executes the current test binary as nShards child processes, each
// running the scenarios whose index is congruent to its shard number, and
// merges their output files into -out. It returns (shard, n, true) in a child
// (the caller runs its share) and (0, 0, false) in the parent once the
// children are done (the caller returns).
func sharded(t *testing.T, testName string, nShards int) (int, int, bool) {
	if s := os.Getenv("CL_SHARD"); s != "" {
		var i, n int
		fmt.Sscanf(s, "%d/%d", &i, &n)
		return i, n, true
	}
	if *flagOut == "" || *flagOnly >= 0 {
		return 0, 1, true
	}
	var wg sync.WaitGroup
	var solo sync.Mutex
	outs := make([]string, nShards)
	errs := make([]error, nShards)
	runChild := func(i int, out string, extra ...string) ([]byte, error) {
		args := append([]string{"-test.run", "^" + testName + "$", "-test.timeout", "0", "-out", out,
			"-seed", fmt.Sprint(*flagSeed), "-tier", *flagTier}, extra...)
		cmd := exec.Command(os.Args[0], args...)
		cmd.Env = append(os.Environ(), fmt.Sprintf("CL_SHARD=%d/%d", i, nShards))
		return cmd.CombinedOutput()
	}
	for i := 0; i < nShards; i++ {
		outs[i] = fmt.Sprintf("%s.shard%d", *flagOut, i)
		os.Remove(outs[i])
		wg.Add(1)
		go func(i int) {
			defer wg.Done()
			from := *flagFrom
			for {
				out, err := runChild(i, outs[i], "-from", fmt.Sprint(from))
				if err == nil {
					return
				}
				// the shard died (crash, or the shared rig's watchdog declared a wedge: exit status 3). Under load the
				// watchdog can misfire: the scenario is re-run alone, one at a time; only if it fails alone too is it
				// reported, otherwise its record is kept and the shard resumes after it.
				idx := lastOpenBegin(outs[i])
				if idx < from {
					errs[i] = fmt.Errorf("shard %d: %v: %s", i, err, tail(string(out), 1500))
					return
				}
				ok := false
				solo.Lock()
				for t := 0; t < 2 && !ok; t++ {
					retry := outs[i] + ".retry"
					os.Remove(retry)
					if _, e2 := runChild(i, retry, "-only", fmt.Sprint(idx)); e2 == nil {
						if b, e3 := os.ReadFile(retry); e3 == nil {
							if f, e4 := os.OpenFile(outs[i], os.O_WRONLY|os.O_APPEND, 0o644); e4 == nil {
								f.Write(b)
								f.Close()
								ok = true
							}
						}
					}
					os.Remove(retry)
				}
				solo.Unlock()
				if !ok {
					errs[i] = fmt.Errorf("shard %d: scenario %d fails when run alone too: %v: %s", i, idx, err, tail(string(out), 1500))
					return
				}
				from = idx + 1
			}
		}(i)
	}
	wg.Wait()
	f, err := os.OpenFile(*flagOut, os.O_CREATE|os.O_WRONLY|os.O_APPEND, 0o644)
	if err != nil {
		t.Fatal(err)
	}
	for i := 0; i < nShards; i++ {
		if b, err := os.ReadFile(outs[i]); err == nil {
			f.Write(b)
		}
		os.Remove(outs[i])
	}
	f.Close()
	for _, e := range errs {
		if e != nil {
			t.Errorf("%v", e)
		}
	}
	return 0, 0, false
}

func tail(s string, n int) string {
	if len(s) > n {
		return s[len(s)-n:]
	}
	return s
}

// lastOpenBegin returns the index of the last scenario of an output file whose
// begin marker has no end marker (-1 if none).
func lastOpenBegin(path string) int {
	b, err := os.ReadFile(path)
	if err != nil {
		return -1
	}
	open := -1
	for _, line := range bytes.Split(b, []byte("\n")) {
		if !bytes.HasPrefix(line, []byte(`{"marker"`)) {
			continue
		}
		var m struct {
			Marker string `json:"marker"`
			Idx    int    `json:"idx"`
		}
		if json.Unmarshal(line, &m) != nil {
			continue
		}
		switch m.Marker {
		case "begin":
			open = m.Idx
		case "end":
			if m.Idx == open {
				open = -1
			}
		}
	}
	return open
}

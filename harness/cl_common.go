//go:build cl

package verifharness

import (
	"bufio"
	"bytes"
	"encoding/json"
	"fmt"
	"os"
	"os/exec"
	"sync"
	"testing"
)

// runClientScenarioAs runs a client scenario through the shared client rig and
// re-emits its record with the ccase term wrapped into a constructor of the
// property's own case type (ctor = "" leaves it alone); edit may add to the term
// and the tags.
func runClientScenarioAs(t *testing.T, idx int, kind string, sc clientScenario, em *Emitter, ctor string, edit func(r *Rec)) {
	var buf bytes.Buffer
	em2 := &Emitter{w: bufio.NewWriter(&buf)}
	em.Marker("begin", idx)
	wd.mu.Lock()
	wdOuter, wdOuterCtor = em, ctor
	wd.mu.Unlock()
	runClientScenario(t, idx, kind, sc, em2)
	wd.mu.Lock()
	wdOuter, wdOuterCtor = nil, ""
	wd.mu.Unlock()
	em2.mu.Lock()
	em2.w.Flush()
	em2.mu.Unlock()
	sc2 := bufio.NewScanner(&buf)
	sc2.Buffer(make([]byte, 1<<20), 64<<20)
	for sc2.Scan() {
		line := sc2.Bytes()
		if bytes.HasPrefix(line, []byte(`{"marker"`)) {
			continue
		}
		var r Rec
		if err := json.Unmarshal(line, &r); err != nil {
			t.Fatalf("re-emit: %v", err)
		}
		if ctor != "" {
			r.Coq = ctor + " (" + r.Coq + ")"
		}
		if edit != nil {
			edit(&r)
		}
		em.Emit(r)
	}
	em.Marker("end", idx)
}

// sharded re-executes the current test binary as nShards child processes, each
// running the scenarios whose index is congruent to its shard number, and
// merges their output files into -out. It returns (shard, n, true) in a child
// (the caller runs its share) and (0, 0, false) in the parent once the
// children are done (the caller returns).
func sharded(t *testing.T, testName string, nShards int) (int, int, bool) {
	if s := os.Getenv("CL_SHARD"); s != "" {
		var i, n int
		fmt.Sscanf(s, "%d/%d", &i, &n)
		return i, n, true
	}
	if *flagOut == "" || *flagOnly >= 0 {
		return 0, 1, true
	}
	var wg sync.WaitGroup
	var solo sync.Mutex
	outs := make([]string, nShards)
	errs := make([]error, nShards)
	runChild := func(i int, out string, extra ...string) ([]byte, error) {
		args := append([]string{"-test.run", "^" + testName + "$", "-test.timeout", "0", "-out", out,
			"-seed", fmt.Sprint(*flagSeed), "-tier", *flagTier}, extra...)
		cmd := exec.Command(os.Args[0], args...)
		cmd.Env = append(os.Environ(), fmt.Sprintf("CL_SHARD=%d/%d", i, nShards))
		return cmd.CombinedOutput()
	}
	for i := 0; i < nShards; i++ {
		outs[i] = fmt.Sprintf("%s.shard%d", *flagOut, i)
		os.Remove(outs[i])
		wg.Add(1)
		go func(i int) {
			defer wg.Done()
			from := *flagFrom
			wedges := 0
			for {
				out, err := runChild(i, outs[i], "-from", fmt.Sprint(from))
				if err == nil {
					return
				}
				// the shard died (crash, or the shared rig's watchdog declared a wedge: exit status 3). Under load the
				// watchdog can misfire: the scenario is re-run alone, one at a time; only if it fails alone too is it
				// reported, otherwise its record is kept and the shard resumes after it.
				idx := lastOpenBegin(outs[i])
				selfReported := false
				if ee, ok := err.(*exec.ExitError); ok && ee.ExitCode() == 3 && idx < from {
					// the watchdog reported a wedge itself: record and end marker are written, then the process left
					if w := lastWedged(outs[i]); w >= from {
						idx, selfReported = w, true
					}
				}
				if idx < from {
					errs[i] = fmt.Errorf("shard %d: %v: %s", i, err, tail(string(out), 1500))
					return
				}
				ok := false
				tries := 2
				if selfReported {
					// a wedge costs seconds to detect: one confirmation alone, and after two confirmed wedges of this shard the
					// records are taken as they are; after six the shard stops (the violation is established)
					wedges++
					tries = 1
					if wedges > 2 {
						tries = 0
					}
					if wedges > 6 {
						return
					}
				}
				solo.Lock()
				for t := 0; t < tries && !ok; t++ {
					retry := outs[i] + ".retry"
					os.Remove(retry)
					if _, e2 := runChild(i, retry, "-only", fmt.Sprint(idx)); e2 == nil {
						if b, e3 := os.ReadFile(retry); e3 == nil {
							if f, e4 := os.OpenFile(outs[i], os.O_WRONLY|os.O_APPEND, 0o644); e4 == nil {
								f.Write(b)
								f.Close()
								ok = true
							}
						}
					}
					os.Remove(retry)
				}
				solo.Unlock()
				if ok && selfReported {
					// alone the scenario runs through: the wedge was a misfire under load; its record is replaced (done above
					// by appending: drop the wedge record)
					dropWedged(outs[i], idx)
				}
				if !ok && !selfReported {
					errs[i] = fmt.Errorf("shard %d: scenario %d fails when run alone too: %v: %s", i, idx, err, tail(string(out), 1500))
					return
				}
				// (a wedge that repeats alone keeps its record - a failing input - and the shard goes on)
				from = idx + 1
			}
		}(i)
	}
	wg.Wait()
	f, err := os.OpenFile(*flagOut, os.O_CREATE|os.O_WRONLY|os.O_APPEND, 0o644)
	if err != nil {
		t.Fatal(err)
	}
	for i := 0; i < nShards; i++ {
		if b, err := os.ReadFile(outs[i]); err == nil {
			f.Write(b)
		}
		os.Remove(outs[i])
	}
	f.Close()
	for _, e := range errs {
		if e != nil {
			t.Errorf("%v", e)
		}
	}
	return 0, 0, false
}

func tail(s string, n int) string {
	if len(s) > n {
		return s[len(s)-n:]
	}
	return s
}

// lastOpenBegin returns the index of the last scenario of an output file whose
// begin marker has no end marker (-1 if none).
func lastOpenBegin(path string) int {
	b, err := os.ReadFile(path)
	if err != nil {
		return -1
	}
	open := -1
	for _, line := range bytes.Split(b, []byte("\n")) {
		if !bytes.HasPrefix(line, []byte(`{"marker"`)) {
			continue
		}
		var m struct {
			Marker string `json:"marker"`
			Idx    int    `json:"idx"`
		}
		if json.Unmarshal(line, &m) != nil {
			continue
		}
		switch m.Marker {
		case "begin":
			open = m.Idx
		case "end":
			if m.Idx == open {
				open = -1
			}
		}
	}
	return open
}

// ---------------------------------------------------------------- long histories as several closed records

const chunkEvents = 2000

// chunkIdx: the first record of a long history keeps the history's own index, the others get 100000 + j.
func chunkIdx(base, j int) int {
	if j == 0 {
		return base
	}
	return 100000 + 1000*base + j
}

// wantHistory: the history must be produced when its first record or (replay: -only) one of its later records is wanted.
func wantHistory(base int) bool {
	return want(base) || (*flagOnly >= 100000+1000*base && *flagOnly < 100000+1000*(base+1))
}

// emitFree emits a free-running C05 history (ncalls calls, the sorted ids of all first envelopes, the (request, reply)
// pairs) as records of at most chunkEvents ids and chunkEvents pairs. Each record is judged on its own; together they say
// what the single record said: the sorted id list is cut into consecutive runs and every run but the first starts with the
// LAST id of the run before it (strictly increasing inside every record = strictly increasing overall = pairwise
// distinct); the difference between the number of calls and the number of ids is charged to the last run.
func emitFree(em *Emitter, base int, kind string, desc map[string]any, tags []string, ncalls int, ids []int64, pairs []string) {
	nrec := (len(ids) + chunkEvents - 1) / chunkEvents
	if n := (len(pairs) + chunkEvents - 1) / chunkEvents; n > nrec {
		nrec = n
	}
	if nrec == 0 {
		nrec = 1
	}
	nIDrec := (len(ids) + chunkEvents - 1) / chunkEvents
	for j := 0; j < nrec; j++ {
		var terms []string
		n := 0
		if lo := j * chunkEvents; lo < len(ids) {
			hi := lo + chunkEvents
			if hi > len(ids) {
				hi = len(ids)
			}
			if lo > 0 {
				terms = append(terms, fmt.Sprint(ids[lo-1]))
			}
			for _, v := range ids[lo:hi] {
				terms = append(terms, fmt.Sprint(v))
			}
			n = len(terms)
			if j == nIDrec-1 {
				n += ncalls - len(ids)
			}
		} else if nIDrec == 0 && j == 0 {
			n = ncalls
		}
		var ps []string
		if lo := j * chunkEvents; lo < len(pairs) {
			hi := lo + chunkEvents
			if hi > len(pairs) {
				hi = len(pairs)
			}
			ps = pairs[lo:hi]
		}
		idx := chunkIdx(base, j)
		if !want(idx) {
			continue
		}
		em.Emit(Rec{Idx: idx, Kind: kind, Desc: desc, Tags: append(append([]string{}, tags...), fmt.Sprintf("record=%d/%d", j+1, nrec)),
			Coq: fmt.Sprintf("C05Free %d %s %s", n, coqList(terms), coqList(ps))})
	}
}

// lastWedged returns the index of the last wedge record of an output file (-1 if none).
func lastWedged(path string) int {
	b, err := os.ReadFile(path)
	if err != nil {
		return -1
	}
	last := -1
	sc := bufio.NewScanner(bytes.NewReader(b))
	sc.Buffer(make([]byte, 1<<20), 64<<20)
	for sc.Scan() {
		line := sc.Bytes()
		if bytes.HasPrefix(line, []byte(`{"marker"`)) || !bytes.Contains(line, []byte(`-wedged"`)) {
			continue
		}
		var r Rec
		if json.Unmarshal(line, &r) == nil {
			last = r.Idx
		}
	}
	return last
}

// dropWedged removes the wedge record of scenario idx from an output file.
func dropWedged(path string, idx int) {
	b, err := os.ReadFile(path)
	if err != nil {
		return
	}
	var out bytes.Buffer
	sc := bufio.NewScanner(bytes.NewReader(b))
	sc.Buffer(make([]byte, 1<<20), 64<<20)
	for sc.Scan() {
		line := sc.Bytes()
		if !bytes.HasPrefix(line, []byte(`{"marker"`)) && bytes.Contains(line, []byte(`-wedged"`)) {
			var r Rec
			if json.Unmarshal(line, &r) == nil && r.Idx == idx {
				continue
			}
		}
		out.Write(line)
		out.WriteByte('\n')
	}
	os.WriteFile(path, out.Bytes(), 0o644)
}

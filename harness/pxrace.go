//go:build px

package verifharness

// Attach race (C16): peer X is attached with AddClient at the very moment the first envelope addressed to X is
// being routed, i.e. while the forwarding loop is between "X has no table entry" and the publication of the
// dial-on-demand entry. Whatever the order, once AddClient has returned and the proxy has settled every further
// envelope accepted for X must be handed to X's attached connection, and X must not be dialled again.
//
// Two ways of getting there:
//   - placed: the proxy logs "proxy.addOutgoingConnection..." on its way to the dial (zerolog, global logger); the
//     harness installs a log hook that - from inside the forwarding loop, at that very point - starts AddClient(X)
//     in another goroutine and yields until it has returned or cannot proceed (in the unchanged code the table's
//     mutex is held there, so AddClient lands right after the publication). No product code is touched.
//   - free: two goroutines released by one barrier, one delivering the envelope, one calling AddClient, with
//     seeded runtime.Gosched noise, under GOMAXPROCS 1 / 4 / 16: a probabilistic search of the same window.

import (
	"context"
	"fmt"
	"io"
	"math/rand"
	"runtime"
	"strings"
	"sync"
	"sync/atomic"
	"testing"
	"testing/synctest"
	"time"

	goat "github.com/avos-io/goat"
	"github.com/avos-io/goat/gen/goatorepo"
	"github.com/avos-io/goat/internal/verifhook"
	"github.com/rs/zerolog"
	"github.com/rs/zerolog/log"
)

type raceRound struct {
	sent  []int64
	got   []int64
	dials int64
}

func (r raceRound) coq() string {
	return fmt.Sprintf("(%s, %s, %d)", zList(r.sent), zList(r.got), r.dials)
}

// one round inside a bubble; hook != nil: placed, else free with the given noise
func attachRaceRound(t *testing.T, tok *int64, placed bool, rnd *rand.Rand, byRef bool) (raceRound, bool) {
	var out raceRound
	noiseA, noiseB := 0, 0
	if rnd != nil {
		noiseA, noiseB = rnd.Intn(40), rnd.Intn(40)
		if rnd.Intn(3) == 0 {
			noiseA, noiseB = 0, 0
		}
	}
	leaked := bubble(t, func(t *testing.T) {
		ctx, cancel := context.WithCancel(context.Background())
		rig := &pxRig{sc: pxScenario{ByRef: byRef}, orig: map[int64]*Rpc{}, byId: map[uint64]int64{}}
		src := NewEndpoint(pxName(1))
		att := NewEndpoint(pxName(4)) // X's attached connection
		att.ByRef = byRef
		var dialMu sync.Mutex
		var dialEps []*Endpoint
		var nDials atomic.Int64
		var p *goat.Proxy
		var armed, attachDone atomic.Bool
		var wg sync.WaitGroup
		doAttach := func() {
			defer wg.Done()
			p.AddClient(pxName(4), att)
			attachDone.Store(true)
		}
		if placed {
			log.Logger = zerolog.New(io.Discard).Hook(zerolog.HookFunc(func(e *zerolog.Event, level zerolog.Level, msg string) {
				if strings.HasPrefix(msg, "proxy.addOutgoingConnection") && armed.CompareAndSwap(true, false) {
					wg.Add(1)
					go doAttach()
					for i := 0; i < 3000 && !attachDone.Load(); i++ {
						runtime.Gosched()
					}
				}
			}))
			zerolog.SetGlobalLevel(zerolog.InfoLevel)
			defer func() {
				zerolog.SetGlobalLevel(zerolog.Disabled)
				log.Logger = zerolog.New(io.Discard)
			}()
		}
		p = goat.NewProxy(ctx, pxName(pxProxyName),
			func(id string) (goat.RpcReadWriter, error) {
				nDials.Add(1)
				ep := NewEndpoint(id)
				dialMu.Lock()
				dialEps = append(dialEps, ep)
				dialMu.Unlock()
				return ep, nil
			}, nil, func(string, error) {})
		go p.Serve()
		p.AddClient(pxName(1), src)
		synctest.Wait()
		mk := func() *Rpc {
			*tok++
			rpc := &Rpc{Id: uint64(*tok), Header: &goatorepo.RequestHeader{Method: "/x/y", Source: pxName(1), Destination: pxName(4)},
				Body: &goatorepo.Body{Data: payloadOf(*tok)}}
			rig.orig[*tok] = clone(rpc)
			rig.byId[rpc.Id] = *tok
			return rpc
		}
		first := mk()
		if placed {
			armed.Store(true)
			src.Deliver(first)
		} else {
			gate := make(chan struct{})
			wg.Add(2)
			go func() {
				defer wg.Done()
				<-gate
				for i := 0; i < noiseA; i++ {
					runtime.Gosched()
				}
				src.Deliver(first)
			}()
			go func() {
				<-gate
				for i := 0; i < noiseB; i++ {
					runtime.Gosched()
				}
				doAttach()
			}()
			close(gate)
		}
		synctest.Wait()
		wg.Wait()
		if !attachDone.Load() {
			// the hook never fired (no dial on this path): attach now, the round still checks the later envelopes
			wg.Add(1)
			doAttach()
		}
		synctest.Wait()
		before := nDials.Load()
		for k := 0; k < 3; k++ {
			rpc := mk()
			out.sent = append(out.sent, *tok)
			src.Deliver(rpc)
			synctest.Wait()
		}
		out.dials = nDials.Load() - before
		for _, w := range att.WrittenCopy() {
			out.got = append(out.got, rig.envOf(w).Pay)
		}
		cancel()
		src.FailRead(io.EOF)
		att.FailRead(io.EOF)
		dialMu.Lock()
		for _, ep := range dialEps {
			ep.FailRead(io.EOF)
		}
		dialMu.Unlock()
		synctest.Wait()
	})
	return out, leaked
}

// box: seconds of real time the free phase may take; the placed phase is a fixed number of rounds
func runProxyAttachRace(t *testing.T, idx int, em *Emitter, placed bool, procs int, box time.Duration, maxRounds int) {
	em.Marker("begin", idx)
	kind := "proxy-attach-race"
	tags := []string{"attach-race", fmt.Sprintf("placed=%v", placed), fmt.Sprintf("gomaxprocs=%d", procs)}
	wstep, wstop := pxGuardWedge(em, idx, kind, map[string]any{"placed": placed, "procs": procs}, tags)
	defer wstop()
	old := runtime.GOMAXPROCS(procs)
	defer runtime.GOMAXPROCS(old)
	rnd := newRand(int64(1660 + procs))
	tok := int64(9000)
	var rounds []string
	hits, leakedAny := 0, false
	start := time.Now()
	for n := 0; n < maxRounds; n++ {
		if !placed && time.Since(start) > box {
			break
		}
		wstep()
		var r raceRound
		var leaked bool
		if placed {
			r, leaked = attachRaceRound(t, &tok, true, nil, n%2 == 0)
		} else {
			r, leaked = attachRaceRound(t, &tok, false, rnd, n%2 == 0)
		}
		leakedAny = leakedAny || leaked
		if len(r.got) < len(r.sent) || r.dials != 0 {
			hits++
		}
		rounds = append(rounds, r.coq())
	}
	if leakedAny {
		tags = append(tags, "leaked-at-end")
	}
	// one record per 2000 rounds (the Coq parser's stack does not take a term of 100000 rounds)
	for lo := 0; lo == 0 || lo < len(rounds); lo += 2000 {
		hi := lo + 2000
		if hi > len(rounds) {
			hi = len(rounds)
		}
		em.Emit(Rec{Idx: idx, Kind: kind, Desc: map[string]any{"placed": placed, "gomaxprocs": procs, "rounds": len(rounds), "from_round": lo},
			Obs: map[string]any{"rounds": len(rounds), "rounds_violating": hits}, Tags: tags,
			Coq: "CProxyRace " + coqList(rounds[lo:hi])})
	}
	em.Marker("end", idx)
}

// ---------------------------------------------------------------- overflow race

// A burst above the buffer towards a consumer that is merely SLOW (its Write yields a few times), free-running:
// the forwarding loop, the write loop and whatever else the proxy starts race for the freed buffer slots. Per
// round one source sends n envelopes back to back to one destination; judged by the delivery predicates of the
// free-running stress (order per source-destination pair, nothing twice, loss <= drop counter). A probabilistic
// search (one bubble per round, GOMAXPROCS as given, seeded yields).
func runProxyBurstRace(t *testing.T, idx int, em *Emitter, procs, rounds int) {
	em.Marker("begin", idx)
	buf := pxMeasureBuf(t)
	old := runtime.GOMAXPROCS(procs)
	defer runtime.GOMAXPROCS(old)
	rnd := newRand(int64(1670 + procs))
	wstep, wstop := pxGuardWedge(em, idx, "proxy-free", map[string]any{"procs": procs}, []string{"burst-race"})
	defer wstop()
	tok := int64(20000)
	for n := 0; n < rounds; n++ {
		wstep()
		per := 24 + rnd.Intn(30)
		slow := 1 + rnd.Intn(30)
		rig := &pxRig{sc: pxScenario{ByRef: n%2 == 0}, orig: map[int64]*Rpc{}, byId: map[uint64]int64{}}
		var sent []pxEnv
		var sentCoq, gotCoq []string
		var drops int64
		bubble(t, func(t *testing.T) {
			ctx, cancel := context.WithCancel(context.Background())
			verifhook.ResetCounters()
			src, dst := NewEndpoint(pxName(1)), NewEndpoint(pxName(2))
			dst.ByRef = n%2 == 0
			dst.OnWrite = func(*Rpc) {
				for i := 0; i < slow; i++ {
					runtime.Gosched()
				}
			}
			p := goat.NewProxy(ctx, pxName(pxProxyName), func(string) (goat.RpcReadWriter, error) { return nil, errInjected }, nil, func(string, error) {})
			go p.Serve()
			p.AddClient(pxName(1), src)
			p.AddClient(pxName(2), dst)
			synctest.Wait()
			for i := 0; i < per; i++ {
				tok++
				rpc := &Rpc{Id: uint64(tok), Header: &goatorepo.RequestHeader{Method: "/x/y", Source: pxName(1), Destination: pxName(2)},
					Body: &goatorepo.Body{Data: payloadOf(tok)}}
				rig.orig[tok] = clone(rpc)
				rig.byId[rpc.Id] = tok
				sent = append(sent, pxEnv{Hdr: true, Src: 1, Dst: 2, Pay: tok})
				src.Deliver(rpc)
				if rnd.Intn(4) == 0 {
					runtime.Gosched()
				}
			}
			synctest.Wait()
			drops = verifhook.Counter("proxy.drop")
			for _, w := range dst.WrittenCopy() {
				gotCoq = append(gotCoq, coqPair("1", rig.envOf(w).coq()))
			}
			cancel()
			src.FailRead(io.EOF)
			dst.FailRead(io.EOF)
			synctest.Wait()
		})
		for _, e := range sent {
			sentCoq = append(sentCoq, coqPair("0", e.coq()))
		}
		tags := []string{"burst-race", fmt.Sprintf("gomaxprocs=%d", procs)}
		if drops > 0 {
			tags = append(tags, "sig:proxy-overflow>buf", "drops>0")
		}
		em.Emit(Rec{Idx: idx, Kind: "proxy-free", Desc: map[string]any{"round": n, "per": per, "slow": slow, "procs": procs},
			Obs: map[string]any{"sent": len(sentCoq), "got": len(gotCoq), "drops": drops}, Tags: tags,
			Coq: fmt.Sprintf("CProxyFree %d %d 0 %s %s %s %d true", pxProxyName, buf, zList([]int64{1, 2}), coqList(sentCoq), coqList(gotCoq), drops)})
	}
	em.Marker("end", idx)
}

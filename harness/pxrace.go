//go:build px

package verifharness

// Attach race (C16): peer X is attached with AddClient at the very moment the first envelope addressed to X is
// being routed, i.e. while the forwarding loop is between "X has no table entry" and the publication of the
// dial-on-demand entry. Whatever the order, once AddClient has returned and the proxy has settled every further
// envelope accepted for X must be handed to X's attached connection, and X must not be dialled again.
//
// Two ways of getting there:
//   - placed: the proxy logs "proxy.addOutgoingConnection..." on its way to the dial (zerolog, global logger); the
//     harness installs a log hook that - from inside the forwarding loop, at that very point - starts AddClient(X)
//     in another goroutine and yields until it has returned or cannot proceed (in the unchanged code the table's
//     mutex is held there, so AddClient lands right after the publication). No product code is touched.
//   - free: two goroutines released by one barrier, one delivering the envelope, one calling AddClient, with
//     seeded runtime.Gosched noise, under GOMAXPROCS 1 / 4 / 16: a probabilistic search of the same window.

import (
	"context"
	"fmt"
	"io"
	"math/rand"
	"runtime"
	"strings"
	"sync"
	"sync/atomic"
	"testing"
	"testing/synctest"
	"time"

	goat "github.com/avos-io/goat"
	"github.com/avos-io/goat/gen/goatorepo"
	"github.com/rs/zerolog"
	"github.com/rs/zerolog/log"
)

type raceRound struct {
	sent  []int64
	got   []int64
	dials int64
}

func (r raceRound) coq() string {
	return fmt.Sprintf("(%s, %s, %d)", zList(r.sent), zList(r.got), r.dials)
}

// one round inside a bubble; hook != nil: placed, else free with the given noise
func attachRaceRound(t *testing.T, tok *int64, placed bool, rnd *rand.Rand, byRef bool) (raceRound, bool) {
	var out raceRound
	noiseA, noiseB := 0, 0
	if rnd != nil {
		noiseA, noiseB = rnd.Intn(40), rnd.Intn(40)
		if rnd.Intn(3) == 0 {
			noiseA, noiseB = 0, 0
		}
	}
	leaked := bubble(t, func(t *testing.T) {
		ctx, cancel := context.WithCancel(context.Background())
		rig := &pxRig{sc: pxScenario{ByRef: byRef}, orig: map[int64]*Rpc{}, byId: map[uint64]int64{}}
		src := NewEndpoint(pxName(1))
		att := NewEndpoint(pxName(4)) // X's attached connection
		att.ByRef = byRef
		var dialMu sync.Mutex
		var dialEps []*Endpoint
		var nDials atomic.Int64
		var p *goat.Proxy
		var armed, attachDone atomic.Bool
		var wg sync.WaitGroup
		doAttach := func() {
			defer wg.Done()
			p.AddClient(pxName(4), att)
			attachDone.Store(true)
		}
		if placed {
			log.Logger = zerolog.New(io.Discard).Hook(zerolog.HookFunc(func(e *zerolog.Event, level zerolog.Level, msg string) {
				if strings.HasPrefix(msg, "proxy.addOutgoingConnection") && armed.CompareAndSwap(true, false) {
					wg.Add(1)
					go doAttach()
					for i := 0; i < 3000 && !attachDone.Load(); i++ {
						runtime.Gosched()
					}
				}
			}))
			zerolog.SetGlobalLevel(zerolog.InfoLevel)
			defer func() {
				zerolog.SetGlobalLevel(zerolog.Disabled)
				log.Logger = zerolog.New(io.Discard)
			}()
		}
		p = goat.NewProxy(ctx, pxName(pxProxyName),
			func(id string) (goat.RpcReadWriter, error) {
				nDials.Add(1)
				ep := NewEndpoint(id)
				dialMu.Lock()
				dialEps = append(dialEps, ep)
				dialMu.Unlock()
				return ep, nil
			}, nil, func(string, error) {})
		go p.Serve()
		p.AddClient(pxName(1), src)
		synctest.Wait()
		mk := func() *Rpc {
			*tok++
			rpc := &Rpc{Id: uint64(*tok), Header: &goatorepo.RequestHeader{Method: "/x/y", Source: pxName(1), Destination: pxName(4)},
				Body: &goatorepo.Body{Data: payloadOf(*tok)}}
			rig.orig[*tok] = clone(rpc)
			rig.byId[rpc.Id] = *tok
			return rpc
		}
		first := mk()
		if placed {
			armed.Store(true)
			src.Deliver(first)
		} else {
			gate := make(chan struct{})
			wg.Add(2)
			go func() {
				defer wg.Done()
				<-gate
				for i := 0; i < noiseA; i++ {
					runtime.Gosched()
				}
				src.Deliver(first)
			}()
			go func() {
				<-gate
				for i := 0; i < noiseB; i++ {
					runtime.Gosched()
				}
				doAttach()
			}()
			close(gate)
		}
		synctest.Wait()
		wg.Wait()
		if !attachDone.Load() {
			// the hook never fired (no dial on this path): attach now, the round still checks the later envelopes
			wg.Add(1)
			doAttach()
		}
		synctest.Wait()
		before := nDials.Load()
		for k := 0; k < 3; k++ {
			rpc := mk()
			out.sent = append(out.sent, *tok)
			src.Deliver(rpc)
			synctest.Wait()
		}
		out.dials = nDials.Load() - before
		for _, w := range att.WrittenCopy() {
			out.got = append(out.got, rig.envOf(w).Pay)
		}
		cancel()
		src.FailRead(io.EOF)
		att.FailRead(io.EOF)
		dialMu.Lock()
		for _, ep := range dialEps {
			ep.FailRead(io.EOF)
		}
		dialMu.Unlock()
		synctest.Wait()
	})
	return out, leaked
}

// box: seconds of real time the free phase may take; the placed phase is a fixed number of rounds
func runProxyAttachRace(t *testing.T, idx int, em *Emitter, placed bool, procs int, box time.Duration, maxRounds int) {
	em.Marker("begin", idx)
	kind := "proxy-attach-race"
	tags := []string{"attach-race", fmt.Sprintf("placed=%v", placed), fmt.Sprintf("gomaxprocs=%d", procs)}
	wstep, wstop := pxGuardWedge(em, idx, kind, map[string]any{"placed": placed, "procs": procs}, tags)
	defer wstop()
	old := runtime.GOMAXPROCS(procs)
	defer runtime.GOMAXPROCS(old)
	rnd := newRand(int64(1660 + procs))
	tok := int64(9000)
	var rounds []string
	hits, leakedAny := 0, false
	start := time.Now()
	for n := 0; n < maxRounds; n++ {
		if !placed && time.Since(start) > box {
			break
		}
		wstep()
		var r raceRound
		var leaked bool
		if placed {
			r, leaked = attachRaceRound(t, &tok, true, nil, n%2 == 0)
		} else {
			r, leaked = attachRaceRound(t, &tok, false, rnd, n%2 == 0)
		}
		leakedAny = leakedAny || leaked
		if len(r.got) < len(r.sent) || r.dials != 0 {
			hits++
		}
		rounds = append(rounds, r.coq())
	}
	if leakedAny {
		tags = append(tags, "leaked-at-end")
	}
	// one record per 2000 rounds (the Coq parser's stack does not take a term of 100000 rounds)
	for lo := 0; lo == 0 || lo < len(rounds); lo += 2000 {
		hi := lo + 2000
		if hi > len(rounds) {
			hi = len(rounds)
		}
		em.Emit(Rec{Idx: idx, Kind: kind, Desc: map[string]any{"placed": placed, "gomaxprocs": procs, "rounds": len(rounds), "from_round": lo},
			Obs: map[string]any{"rounds": len(rounds), "rounds_violating": hits}, Tags: tags,
			Coq: "CProxyRace " + coqList(rounds[lo:hi])})
	}
	em.Marker("end", idx)
}

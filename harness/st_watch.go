//go:build st

package verifharness

import (
	"os"
	"sync"
	"time"
)

// A scenario that wedges (a mutex deadlock keeps a bubble from ever becoming
// idle, a goroutine blocked outside its bubble, ...) must be REPORTED, not
// waited for: stBegin arms a real-time watchdog outside any bubble; if the
// scenario has not reached stEnd after 30 s the process exits with status 3
// right after its begin marker, which ./check attributes to the scenario as a
// "wedged" event (a violation with the scenario as failing input) and resumes
// after it. Real time is not an oracle here: a scenario takes milliseconds.
var (
	stWatchMu sync.Mutex
	stWatchT  *time.Timer
)

func stBegin(em *Emitter, idx int) {
	em.Marker("begin", idx)
	stWatchMu.Lock()
	if stWatchT != nil {
		stWatchT.Stop()
	}
	stWatchT = time.AfterFunc(30*time.Second, func() { os.Exit(3) })
	stWatchMu.Unlock()
}

func stEnd(em *Emitter, idx int) {
	stWatchMu.Lock()
	if stWatchT != nil {
		stWatchT.Stop()
		stWatchT = nil
	}
	stWatchMu.Unlock()
	em.Marker("end", idx)
}

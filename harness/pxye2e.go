//go:build px

package verifharness

// End-to-end and free-running parts of C16 / C17: real clients - real Proxy -
// real Demux keyed by source - real Servers over in-memory wires, compared with
// the outcomes of the same workloads on a direct connection; and a free-running
// stress of the real Proxy (many peers, one goroutine per sender, seeded) judged
// by the property predicates alone.

import (
	"context"
	"fmt"
	"io"
	"math/rand"
	"strings"
	"sync"
	"testing"
	"testing/synctest"
	"time"

	goat "github.com/avos-io/goat"
	"github.com/avos-io/goat/gen/goatorepo"
	"github.com/avos-io/goat/internal/verifhook"
	"google.golang.org/grpc"
	"google.golang.org/protobuf/types/known/wrapperspb"
)

func proxyE2ECount() int {
	if thorough() {
		return 24
	}
	return 8
}

// variant -> topology: 1..8 clients, 1..4 servers, servers pre-attached or dialled on demand, interceptor
// (identity / prefix strip / none), serialising or by-reference wires
func runProxyE2E(t *testing.T, idx, variant int, em *Emitter) {
	em.Marker("begin", idx)
	nc := 1 + (variant*3)%8
	ns := 1 + variant%4
	if ns > nc {
		ns = nc
	}
	dialSrv := variant%2 == 1
	icp := []int{0, 2, 5}[variant%3]
	byRef := (variant/2)%2 == 1
	exp := make([][]int64, nc)
	got := make([][]int64, nc)
	for i := 0; i < nc; i++ {
		exp[i] = e2eDirect(t, int64(1000*(i+1)+10*variant))
	}
	var drops int64
	leaked := bubble(t, func(t *testing.T) {
		ctx, cancel := context.WithCancel(context.Background())
		verifhook.ResetCounters()
		var mu sync.Mutex
		var eps []*Endpoint
		var demuxes []*goat.Demux
		srvs := map[string]*goat.Server{}
		mkLink := func() *Link {
			l := NewLink(byRef)
			l.Auto = true
			mu.Lock()
			eps = append(eps, l.C, l.S)
			mu.Unlock()
			return l
		}
		// the server side of a proxy connection: Demux keyed by source, one Serve per client
		serveOn := func(name string, rw goat.RpcReadWriter) {
			srv := srvs[name]
			d := goat.NewDemux(ctx, rw, func(r *Rpc) string { return r.GetHeader().GetSource() },
				func(c goat.RpcReadWriter) { go srv.Serve(ctx, c) })
			mu.Lock()
			demuxes = append(demuxes, d)
			mu.Unlock()
			go d.Run()
		}
		for k := 0; k < ns; k++ {
			name := fmt.Sprintf("srv%d", k+1)
			srvs[name] = newEchoServer(name, e2eEcho())
		}
		p := goat.NewProxy(ctx, "px",
			func(id string) (goat.RpcReadWriter, error) {
				if _, ok := srvs[id]; !ok || !dialSrv {
					return nil, errInjected
				}
				l := mkLink()
				serveOn(id, l.S)
				return l.C, nil
			},
			pxInterceptor(icp), nil)
		go p.Serve()
		if !dialSrv {
			for name := range srvs {
				l := mkLink()
				serveOn(name, l.S)
				p.AddClient(name, l.C)
			}
		}
		// at most 3 workloads at a time per server: <= 12 envelopes outstanding per destination
		sems := make([]chan struct{}, ns)
		for k := range sems {
			sems[k] = make(chan struct{}, 3)
		}
		var wg sync.WaitGroup
		for i := 0; i < nc; i++ {
			cname := fmt.Sprintf("c%d", i+1)
			l := mkLink()
			p.AddClient(cname, l.S)
			dest := fmt.Sprintf("srv%d", i%ns+1)
			if icp == 2 {
				dest = "x-" + dest
			}
			wg.Add(1)
			go func(i int, l *Link) {
				defer wg.Done()
				sems[i%ns] <- struct{}{}
				defer func() { <-sems[i%ns] }()
				cc := goat.NewClientConn(l.C, cname, dest)
				got[i] = e2eWorkload(cc, int64(1000*(i+1)+10*variant))
			}(i, l)
		}
		wg.Wait()
		synctest.Wait()
		drops = verifhook.Counter("proxy.drop")
		cancel()
		for _, s := range srvs {
			s.Stop()
		}
		mu.Lock()
		for _, d := range demuxes {
			d.Stop()
		}
		for _, e := range eps {
			e.FailRead(io.EOF)
		}
		mu.Unlock()
		synctest.Wait()
	})
	term, n := pairsCoq(exp, got)
	tags := []string{"e2e-proxy", fmt.Sprintf("clients=%d", nc), fmt.Sprintf("servers=%d", ns), fmt.Sprintf("dial-on-demand=%v", dialSrv),
		fmt.Sprintf("icp=%d", icp)}
	if drops > 0 {
		tags = append(tags, "sig:proxy-overflow>buf", "drops>0")
	}
	if leaked {
		tags = append(tags, "leaked-at-end")
	}
	em.Emit(Rec{Idx: idx, Kind: "proxy-e2e", Desc: map[string]any{"clients": nc, "servers": ns, "variant": variant, "outcomes": n, "drops": drops},
		Obs: map[string]any{"expected": exp, "observed": got}, Tags: tags, Coq: "CProxyE2E " + term})
	em.Marker("end", idx)
}

// ---------------------------------------------------------------- free-running stress

func proxyFreeCount() int {
	if thorough() {
		return 60
	}
	return 12
}

type freePeer struct {
	name int64
	ep   *Endpoint
	sent []pxEnv
	acks chan struct{}
}

// np peers (some attached, some dialled on demand), every attached peer runs a sender goroutine with a seeded
// script: destinations among all names (attached, dialable, unknown), forged / missing sources, return routes.
// paced: a sender waits for its previous honest envelope to arrive (<= np outstanding per destination) -
// nothing may be lost; unpaced: bursts, loss must be covered by the drop counter.
func runProxyFree(t *testing.T, idx, variant int, em *Emitter) {
	em.Marker("begin", idx)
	buf := pxMeasureBuf(t)
	master := newRand(1650)
	for i := 0; i < variant; i++ {
		master.Int63()
	}
	r := rand.New(rand.NewSource(master.Int63()))
	np := 3 + r.Intn(8) // 3..10 names with a transport
	if np > 10 {
		np = 10
	}
	nAtt := 2 + r.Intn(np-1) // attached (sending) peers; the rest are dialled on demand
	if nAtt > np {
		nAtt = np
	}
	paced := variant%3 != 2
	icp := r.Intn(6)
	per := 20 + r.Intn(40)
	if !paced {
		per = 60 + r.Intn(60)
	}
	rig := &pxRig{sc: pxScenario{Icp: icp, ByRef: variant%2 == 0}, orig: map[int64]*Rpc{}, byId: map[uint64]int64{}}
	peers := make([]*freePeer, np)
	var sentCoq, gotCoq []string
	var names []int64
	var drops int64
	leaked := bubble(t, func(t *testing.T) {
		ctx, cancel := context.WithCancel(context.Background())
		verifhook.ResetCounters()
		var mu sync.Mutex
		waiters := map[int64]chan struct{}{} // payload token -> arrival signal
		for k := range peers {
			pk := &freePeer{name: int64(k + 1), ep: NewEndpoint(pxName(int64(k + 1)))}
			pk.ep.ByRef = rig.sc.ByRef
			pk.ep.OnWrite = func(x *Rpc) {
				v := int64(x.GetId())
				mu.Lock()
				ch := waiters[v]
				delete(waiters, v)
				mu.Unlock()
				if ch != nil {
					close(ch)
				}
			}
			peers[k] = pk
			names = append(names, pk.name)
		}
		p := goat.NewProxy(ctx, pxName(pxProxyName),
			func(id string) (goat.RpcReadWriter, error) {
				k := pxTok(id)
				if k >= 1 && int(k) <= np {
					return peers[k-1].ep, nil
				}
				return nil, errInjected
			},
			pxInterceptor(icp), func(string, error) {})
		go p.Serve()
		for k := 0; k < nAtt; k++ {
			p.AddClient(pxName(peers[k].name), peers[k].ep)
		}
		// scripts (generated before the goroutines start: the seed decides everything but the schedule)
		type item struct {
			e    pxEnv
			rpc  *Rpc
			wait bool
		}
		scripts := make([][]item, nAtt)
		tok := int64(5000)
		icpF := pxInterceptor(icp)
		for k := 0; k < nAtt; k++ {
			for i := 0; i < per; i++ {
				tok++
				dst := int64(1 + r.Intn(np+2)) // np+1, np+2: unknown names
				if icp == 2 && r.Intn(2) == 0 {
					dst += 100
				}
				e := pxEnv{Hdr: true, Src: peers[k].name, Dst: dst, Pay: tok}
				switch r.Intn(10) {
				case 0:
					e.HasN = true
				case 1:
					e.HasN, e.Next = true, []int64{int64(1 + r.Intn(np))}
				case 2:
					e.HasN, e.Next = true, []int64{int64(1 + r.Intn(np)), int64(1 + r.Intn(np+1))}
				}
				if r.Intn(5) == 0 {
					e.Rec = []int64{8}
				}
				bad := ""
				switch r.Intn(14) {
				case 0:
					bad = "spoof"
					e.Src = int64(1 + r.Intn(np+1))
					if e.Src == peers[k].name {
						e.Src = 77
					}
				case 1:
					bad = "nohdr"
				}
				h := &goatorepo.RequestHeader{Method: "/x/y", Source: pxName(e.Src), Destination: pxName(e.Dst)}
				for _, x := range e.Rec {
					h.ProxyRecord = append(h.ProxyRecord, pxName(x))
				}
				if e.HasN {
					h.ProxyNext = []string{}
					for _, x := range e.Next {
						h.ProxyNext = append(h.ProxyNext, pxName(x))
					}
				}
				rpc := &Rpc{Id: uint64(tok), Header: h}
				pxShape(rpc, r.Intn(pxNumShapes)*r.Intn(2), tok)
				rig.byId[rpc.Id] = tok
				if bad == "nohdr" {
					rpc.Header = nil
					e.Hdr = false
				}
				rig.orig[tok] = clone(rpc)
				// will it arrive somewhere? (only then can the sender wait for it)
				arrives := false
				if bad == "" {
					hc := clone(rpc).Header
					if icpF == nil || icpF(hc) == nil {
						target := pxTok(hc.Destination)
						if len(e.Next) > 0 {
							target = e.Next[len(e.Next)-1]
						}
						arrives = target >= 1 && int(target) <= np
					}
				}
				scripts[k] = append(scripts[k], item{e: e, rpc: rpc, wait: paced && arrives})
				peers[k].sent = append(peers[k].sent, e)
			}
		}
		var wg sync.WaitGroup
		for k := 0; k < nAtt; k++ {
			wg.Add(1)
			go func(k int) {
				defer wg.Done()
				for _, it := range scripts[k] {
					var ch chan struct{}
					if it.wait {
						ch = make(chan struct{})
						mu.Lock()
						waiters[it.e.Pay] = ch
						mu.Unlock()
					}
					peers[k].ep.Deliver(it.rpc)
					if ch != nil {
						// virtual clock: the timer fires only once every goroutine of the bubble is durably
						// blocked, i.e. when the envelope is not going to arrive
						select {
						case <-ch:
						case <-time.After(time.Second):
						}
					}
				}
			}(k)
		}
		wg.Wait()
		synctest.Wait()
		drops = verifhook.Counter("proxy.drop")
		for k, pk := range peers {
			for _, w := range pk.ep.WrittenCopy() {
				gotCoq = append(gotCoq, coqPair(fmt.Sprint(k), rig.envOf(w).coq()))
			}
		}
		cancel()
		for _, pk := range peers {
			pk.ep.FailRead(io.EOF)
		}
		synctest.Wait()
	})
	for k, pk := range peers {
		for _, e := range pk.sent {
			sentCoq = append(sentCoq, coqPair(fmt.Sprint(k), e.coq()))
		}
	}
	tags := []string{"free", fmt.Sprintf("paced=%v", paced), fmt.Sprintf("peers=%d", np), fmt.Sprintf("icp=%d", icp)}
	if drops > 0 {
		tags = append(tags, "sig:proxy-overflow>buf", "drops>0")
	}
	if leaked {
		tags = append(tags, "leaked-at-end")
	}
	em.Emit(Rec{Idx: idx, Kind: "proxy-free", Desc: map[string]any{"peers": np, "attached": nAtt, "per": per, "paced": paced, "icp": icp, "variant": variant},
		Obs: map[string]any{"sent": len(sentCoq), "got": len(gotCoq), "drops": drops}, Tags: tags,
		Coq: fmt.Sprintf("CProxyFree %d %d %d %s %s %s %d true", pxProxyName, buf, icp, zList(names), coqList(sentCoq), coqList(gotCoq), drops)})
	em.Marker("end", idx)
}

var _ = strings.TrimPrefix
var _ = rand.Int

// ---------------------------------------------------------------- resets through the proxy

// e2eResetProbe runs, on a direct connection (viaProxy false) or through a real Proxy (+ Demux keyed by source),
//   - a bidi stream that the caller cancels after one round trip: what the handler saw (1 its context was
//     cancelled, 2 a clean end of the request stream, 3 another error, 9 it is still waiting) and what the caller's
//     RecvMsg then returned;
//   - a raw peer sending a message body for a stream the server does not know: what comes back (1 an envelope with the
//     reset marker RST_STREAM, 2 a bare trailer, 3 something else, 0 nothing), and the same for a stream method with
//     undecodable request metadata.
// The outcomes through the proxy must equal the direct ones.
func e2eResetProbe(t *testing.T, viaProxy bool, variant int) []int64 {
	var out []int64
	bubble(t, func(t *testing.T) {
		ctx, cancel := context.WithCancel(context.Background())
		var mu sync.Mutex
		handler := int64(9)
		impl := e2eEcho()
		inner := impl.stream
		impl.stream = func(kind string, s grpc.ServerStream) error {
			if kind != "Bidi" {
				return inner(kind, s)
			}
			var m wrapperspb.BytesValue
			if err := s.RecvMsg(&m); err != nil {
				return err
			}
			if err := s.SendMsg(&wrapperspb.BytesValue{Value: m.Value}); err != nil {
				return err
			}
			err := s.RecvMsg(&m) // waits for the next message: the caller cancels instead
			mu.Lock()
			switch {
			case s.Context().Err() != nil:
				handler = 1
			case err == io.EOF:
				handler = 2
			case err != nil:
				handler = 3
			default:
				handler = 4
			}
			mu.Unlock()
			return err
		}
		srv := newEchoServer("srv1", impl)
		var eps []*Endpoint
		var demux *goat.Demux
		clientLink := NewLink(variant%2 == 1)
		clientLink.Auto = true
		raw := NewEndpoint("c9")
		eps = append(eps, clientLink.C, clientLink.S, raw)
		if viaProxy {
			srvLink := NewLink(variant%2 == 1)
			srvLink.Auto = true
			eps = append(eps, srvLink.C, srvLink.S)
			demux = goat.NewDemux(ctx, srvLink.S, func(r *Rpc) string { return r.GetHeader().GetSource() },
				func(c goat.RpcReadWriter) { go srv.Serve(ctx, c) })
			go demux.Run()
			p := goat.NewProxy(ctx, "px", func(string) (goat.RpcReadWriter, error) { return nil, errInjected }, nil, nil)
			go p.Serve()
			p.AddClient("srv1", srvLink.C)
			p.AddClient("c1", clientLink.S)
			p.AddClient("c9", raw)
		} else {
			go srv.Serve(ctx, clientLink.S)
			go srv.Serve(ctx, raw)
		}
		// (a) caller cancels a stream
		cc := goat.NewClientConn(clientLink.C, "c1", "srv1")
		cctx, ccancel := context.WithCancel(context.Background())
		cs, err := cc.NewStream(cctx, descBidi, "/verif.Echo/Bidi")
		if err != nil {
			out = append(out, errTok(err))
		} else {
			out = append(out, errTok(cs.SendMsg(bv(payloadOf(41)))))
			var m wrapperspb.BytesValue
			if err := cs.RecvMsg(&m); err != nil {
				out = append(out, errTok(err))
			} else {
				out = append(out, tokenOf(m.Value))
			}
			ccancel()
			synctest.Wait()
			out = append(out, errTok(cs.RecvMsg(&m)))
		}
		synctest.Wait()
		mu.Lock()
		out = append(out, handler)
		mu.Unlock()
		ccancel()
		// (b) a body for an unknown stream, and a stream start with undecodable metadata, from a raw peer
		classify := func(from int) int64 {
			ws := raw.WrittenCopy()
			if len(ws) <= from {
				return 0
			}
			w := ws[len(ws)-1]
			switch {
			case w.GetReset_() != nil && w.GetReset_().GetType() == "RST_STREAM":
				return 1
			case w.GetTrailer() != nil && w.GetReset_() == nil:
				return 2
			}
			return 3
		}
		n0 := len(raw.WrittenCopy())
		raw.Deliver(&Rpc{Id: 777, Header: hdr("/verif.Echo/Bidi", "c9", "srv1"), Body: &goatorepo.Body{Data: payloadOf(42)}})
		synctest.Wait()
		out = append(out, classify(n0), int64(len(raw.WrittenCopy())-n0))
		n1 := len(raw.WrittenCopy())
		h := hdr("/verif.Echo/CStream", "c9", "srv1")
		h.Headers = []*goatorepo.KeyValue{{Key: "x-bin", Value: "!!!"}}
		raw.Deliver(&Rpc{Id: 778, Header: h})
		synctest.Wait()
		out = append(out, classify(n1), int64(len(raw.WrittenCopy())-n1))
		// (c) unary calls of the raw peer whose route record already has hops (as if they had crossed other proxies,
		// the last of which is the peer itself): the reply must come back to the peer - the server echoes all but the
		// last hop, the proxy pops the peer's name off the return route
		for k, rec := range [][]string{{"c9"}, {"x", "c9"}, {"y", "x", "c9"}} {
			n2 := len(raw.WrittenCopy())
			h := hdr("/verif.Echo/Unary", "c9", "srv1")
			h.ProxyRecord = rec
			raw.Deliver(&Rpc{Id: uint64(800 + k), Header: h, Body: &goatorepo.Body{Data: payloadOf(int64(51 + k))}})
			synctest.Wait()
			ws := raw.WrittenCopy()
			out = append(out, int64(len(ws)-n2))
			if len(ws) > n2 {
				out = append(out, tokenOf(ws[len(ws)-1].GetBody().GetData()))
			}
		}
		cancel()
		srv.Stop()
		if demux != nil {
			demux.Stop()
		}
		for _, e := range eps {
			e.FailRead(io.EOF)
		}
		synctest.Wait()
	})
	return out
}

func runProxyResetE2E(t *testing.T, idx, variant int, em *Emitter) {
	em.Marker("begin", idx)
	exp := [][]int64{e2eResetProbe(t, false, variant)}
	got := [][]int64{e2eResetProbe(t, true, variant)}
	term, n := pairsCoq(exp, got)
	em.Emit(Rec{Idx: idx, Kind: "proxy-e2e", Desc: map[string]any{"what": "resets through the proxy", "variant": variant, "outcomes": n},
		Obs: map[string]any{"expected": exp, "observed": got}, Tags: []string{"e2e-proxy", "e2e-resets"}, Coq: "CProxyE2E " + term})
	em.Marker("end", idx)
}

// ---------------------------------------------------------------- the server's reply rule (tie of Model/Proxy.v reply_of)

// runServerReplyTie drives the REAL goat.Server (Serve on a scripted Endpoint) with requests whose route record has
// 0..4 hops - as they reach a server behind that many proxies, or crafted - and records the return route, source and
// destination of what the server answers: the reply of a unary call, the error reply for undecodable request metadata,
// the RST_STREAM for a message of an unknown stream and for a stream start with undecodable metadata. Check/C16c.v
// compares each with reply_of.
func runServerReplyTie(t *testing.T, idx int, em *Emitter) {
	em.Marker("begin", idx)
	var items []string
	var obs []map[string]any
	records := [][]int64{nil, {99}, {8, 99}, {8, 7, 99}, {99, 8, 7, 6}, {6, 6}, {99, 99, 99}}
	kinds := []string{"unary", "unary-badmeta", "stream-body", "stream-badmeta"}
	bubble(t, func(t *testing.T) {
		for bi, byRef := range []bool{false, true} {
			ctx, cancel := context.WithCancel(context.Background())
			ep := NewEndpoint("srv")
			ep.ByRef = byRef
			srv := newEchoServer(pxName(2), e2eEcho())
			go srv.Serve(ctx, ep)
			synctest.Wait()
			id := uint64(100 * (bi + 1))
			for _, rec := range records {
				for _, kind := range kinds {
					id++
					h := hdr("/verif.Echo/Unary", pxName(1), pxName(2))
					for _, x := range rec {
						h.ProxyRecord = append(h.ProxyRecord, pxName(x))
					}
					rpc := &Rpc{Id: id, Header: h}
					switch kind {
					case "unary":
						rpc.Body = &goatorepo.Body{Data: payloadOf(int64(id))}
					case "unary-badmeta":
						h.Headers = []*goatorepo.KeyValue{{Key: "x-bin", Value: "!!!"}}
						rpc.Body = &goatorepo.Body{Data: payloadOf(int64(id))}
					case "stream-body":
						h.Method = "/verif.Echo/Bidi"
						rpc.Body = &goatorepo.Body{Data: payloadOf(int64(id))}
					case "stream-badmeta":
						h.Method = "/verif.Echo/CStream"
						h.Headers = []*goatorepo.KeyValue{{Key: "x-bin", Value: "!!!"}}
					}
					n0 := len(ep.WrittenCopy())
					ep.Deliver(rpc)
					synctest.Wait()
					ws := ep.WrittenCopy()
					next, rsrc, rdst := "None", int64(-9), int64(-9) // no reply: never equal to the model's
					if len(ws) > n0 && ws[n0].GetHeader() != nil {
						rh := ws[n0].GetHeader()
						rsrc, rdst = pxTok(rh.Source), pxTok(rh.Destination)
						if rh.ProxyNext != nil {
							next = "(Some " + zList(tokList(rh.ProxyNext)) + ")"
						}
					}
					items = append(items, fmt.Sprintf("(%s, (1, 2), (%s, (%s, %s)))", zList(rec), next, coqZ(rsrc), coqZ(rdst)))
					obs = append(obs, map[string]any{"record": rec, "kind": kind, "byref": byRef, "next": next, "replies": len(ws) - n0})
				}
			}
			cancel()
			srv.Stop()
			ep.FailRead(io.EOF)
			synctest.Wait()
		}
	})
	em.Emit(Rec{Idx: idx, Kind: "server-reply", Desc: map[string]any{"records": records, "kinds": kinds}, Obs: obs,
		Tags: []string{"server-reply-tie"}, Coq: "CProxyReply " + coqList(items)})
	em.Marker("end", idx)
}

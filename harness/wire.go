package verifharness

import (
	"context"
	"errors"
	"sync"

	"github.com/avos-io/goat/gen/goatorepo"
	"google.golang.org/protobuf/proto"
)

type Rpc = goatorepo.Rpc

// Endpoint is an RpcReadWriter under harness control: what its owner writes is
// logged (and optionally forwarded), what its owner reads is what the harness
// delivers. Reads and blocked writes honour their context.
type Endpoint struct {
	Name string

	mu        sync.Mutex
	inq       []*Rpc
	readErr   error
	sig       chan struct{}
	Written   []*Rpc // successful writes, in order (cloned when serialising)
	Reads     int    // successful reads
	ReadCalls int
	writeErr  error
	blocked   bool
	unblock   chan struct{}
	BlockedWr int // writes currently blocked
	OnWrite   func(*Rpc)
	ByRef     bool
	CheckCtx  bool // Write fails at once when its context is already done
}

func NewEndpoint(name string) *Endpoint {
	return &Endpoint{Name: name, sig: make(chan struct{}, 1), unblock: make(chan struct{})}
}

func clone(r *Rpc) *Rpc {
	b, err := proto.Marshal(r)
	if err != nil {
		panic(err)
	}
	out := &Rpc{}
	if err := proto.Unmarshal(b, out); err != nil {
		panic(err)
	}
	return out
}

func (e *Endpoint) kick() {
	select {
	case e.sig <- struct{}{}:
	default:
	}
}

// Deliver queues an envelope for the owner's next Read.
func (e *Endpoint) Deliver(r *Rpc) {
	e.mu.Lock()
	e.inq = append(e.inq, r)
	e.mu.Unlock()
	e.kick()
}

// FailRead makes the owner's Read fail (after the queued envelopes).
func (e *Endpoint) FailRead(err error) {
	e.mu.Lock()
	e.readErr = err
	e.mu.Unlock()
	e.kick()
}

func (e *Endpoint) Pending() int {
	e.mu.Lock()
	defer e.mu.Unlock()
	return len(e.inq)
}

func (e *Endpoint) Read(ctx context.Context) (*Rpc, error) {
	e.mu.Lock()
	e.ReadCalls++
	e.mu.Unlock()
	for {
		e.mu.Lock()
		if len(e.inq) > 0 {
			r := e.inq[0]
			e.inq = e.inq[1:]
			e.Reads++
			more := len(e.inq) > 0 || e.readErr != nil
			e.mu.Unlock()
			if more {
				e.kick()
			}
			return r, nil
		}
		if e.readErr != nil {
			err := e.readErr
			e.mu.Unlock()
			e.kick()
			return nil, err
		}
		e.mu.Unlock()
		select {
		case <-e.sig:
		case <-ctx.Done():
			return nil, ctx.Err()
		}
	}
}

// FailWrites makes every later Write fail with err (nil restores).
func (e *Endpoint) FailWrites(err error) {
	e.mu.Lock()
	e.writeErr = err
	e.mu.Unlock()
}

// BlockWrites makes Writes block until UnblockWrites (or their context).
func (e *Endpoint) BlockWrites() {
	e.mu.Lock()
	e.blocked = true
	e.mu.Unlock()
}

func (e *Endpoint) UnblockWrites() {
	e.mu.Lock()
	e.blocked = false
	close(e.unblock)
	e.unblock = make(chan struct{})
	e.mu.Unlock()
}

func (e *Endpoint) Write(ctx context.Context, r *Rpc) error {
	if e.CheckCtx {
		if err := ctx.Err(); err != nil {
			return err
		}
	}
	for {
		e.mu.Lock()
		if e.writeErr != nil {
			err := e.writeErr
			e.mu.Unlock()
			return err
		}
		if !e.blocked {
			if !e.ByRef {
				r = clone(r)
			}
			e.Written = append(e.Written, r)
			f := e.OnWrite
			e.mu.Unlock()
			if f != nil {
				f(r)
			}
			return nil
		}
		ch := e.unblock
		e.BlockedWr++
		e.mu.Unlock()
		select {
		case <-ch:
			e.mu.Lock()
			e.BlockedWr--
			e.mu.Unlock()
		case <-ctx.Done():
			e.mu.Lock()
			e.BlockedWr--
			e.mu.Unlock()
			return ctx.Err()
		}
	}
}

func (e *Endpoint) WrittenCopy() []*Rpc {
	e.mu.Lock()
	defer e.mu.Unlock()
	return append([]*Rpc(nil), e.Written...)
}

func (e *Endpoint) NumBlockedWrites() int {
	e.mu.Lock()
	defer e.mu.Unlock()
	return e.BlockedWr
}

// Link joins a client endpoint and a server endpoint by two held FIFO queues:
// an envelope written on one side stays in flight until the harness moves it.
type Link struct {
	C, S *Endpoint
	mu   sync.Mutex
	c2s  []*Rpc
	s2c  []*Rpc
	Auto bool // deliver immediately instead of holding
}

func NewLink(byRef bool) *Link {
	l := &Link{C: NewEndpoint("client"), S: NewEndpoint("server")}
	l.C.ByRef, l.S.ByRef = byRef, byRef
	l.C.OnWrite = func(r *Rpc) {
		l.mu.Lock()
		if l.Auto {
			l.mu.Unlock()
			l.S.Deliver(r)
			return
		}
		l.c2s = append(l.c2s, r)
		l.mu.Unlock()
	}
	l.S.OnWrite = func(r *Rpc) {
		l.mu.Lock()
		if l.Auto {
			l.mu.Unlock()
			l.C.Deliver(r)
			return
		}
		l.s2c = append(l.s2c, r)
		l.mu.Unlock()
	}
	return l
}

func (l *Link) InFlight() (int, int) {
	l.mu.Lock()
	defer l.mu.Unlock()
	return len(l.c2s), len(l.s2c)
}

// StepC2S moves the oldest client->server envelope to the server's read queue.
func (l *Link) StepC2S() bool {
	l.mu.Lock()
	if len(l.c2s) == 0 {
		l.mu.Unlock()
		return false
	}
	r := l.c2s[0]
	l.c2s = l.c2s[1:]
	l.mu.Unlock()
	l.S.Deliver(r)
	return true
}

func (l *Link) StepS2C() bool {
	l.mu.Lock()
	if len(l.s2c) == 0 {
		l.mu.Unlock()
		return false
	}
	r := l.s2c[0]
	l.s2c = l.s2c[1:]
	l.mu.Unlock()
	l.C.Deliver(r)
	return true
}

var errInjected = errors.New("injected transport failure")

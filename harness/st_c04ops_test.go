//go:build st

package verifharness

import (
	"context"
	"fmt"
	"strings"
	"testing"

	"github.com/avos-io/goat/internal/server"
	"google.golang.org/grpc/codes"
	"google.golang.org/grpc/status"
	"google.golang.org/protobuf/types/known/wrapperspb"
)

// Server stream object: every program up to length 4 (thorough 5) over the six
// operations of TestC04 PLUS a SendMsg whose value the codec rejects, that
// contains at least one such failing send. A failing send must not consume the
// pending headers: they still leave with the next message or the final status.
func TestC04StreamOpsBad(t *testing.T) {
	em := NewEmitter()
	defer em.Close()
	idx := 0
	opKinds := []string{"SetHeader", "SendHeader", "SetTrailer", "SendMsg", "SendMsgBad", "SendTrailer", "SendTrailerErr"}
	const bad = 4
	var progs [][]int
	var gen func(prefix []int, depth int, hasBad bool)
	gen = func(prefix []int, depth int, hasBad bool) {
		if hasBad {
			progs = append(progs, append([]int(nil), prefix...))
		}
		if depth == 0 {
			return
		}
		for k := range opKinds {
			gen(append(prefix, k), depth-1, hasBad || k == bad)
		}
	}
	maxLen := 4
	if thorough() {
		maxLen = 5
	}
	gen(nil, maxLen, false)
	for _, prog := range progs {
		if !want(idx) {
			idx++
			continue
		}
		rw := &recRW{}
		ss, _ := server.NewServerStream(context.Background(), 9, "/verif.Echo/Bidi", "srv", "cli", rw, nil)
		var opT, resT []string
		for j, k := range prog {
			tok := j + 1
			var err error
			switch opKinds[k] {
			case "SetHeader":
				err = ss.SetHeader(tokenMD(tok))
			case "SendHeader":
				err = ss.SendHeader(tokenMD(tok))
			case "SetTrailer":
				ss.SetTrailer(tokenMD(tok))
			case "SendMsg":
				err = ss.SendMsg(&wrapperspb.BytesValue{Value: []byte{byte(tok)}})
			case "SendMsgBad":
				err = ss.SendMsg("not a protobuf message") // codec.Marshal fails
			case "SendTrailer":
				err = ss.SendTrailer(nil)
			case "SendTrailerErr":
				err = ss.SendTrailer(status.Error(codes.NotFound, "handler failed"))
			}
			opT = append(opT, fmt.Sprintf("%s %d", strings.TrimSuffix(opKinds[k], "Err"), tok))
			code := 0
			if err != nil {
				switch {
				case strings.Contains(err.Error(), "headers already sent"):
					code = 1
				case strings.Contains(err.Error(), "wrote trailers"):
					code = 2
				case opKinds[k] == "SendMsgBad":
					code = 4
				default:
					code = 3
				}
			}
			resT = append(resT, fmt.Sprint(code))
		}
		var envT []string
		for _, w := range rw.written {
			kind := 0
			if w.GetTrailer() != nil {
				kind = 2
			} else if w.GetBody() != nil {
				kind = 1
			}
			envT = append(envT, fmt.Sprintf("(%d, %s, %s)", kind, coqList(tokensOf(w.GetHeader().GetHeaders())),
				coqList(tokensOf(w.GetTrailer().GetMetadata()))))
		}
		em.Emit(Rec{Idx: idx, Kind: "stream-ops-bad-send", Desc: map[string]any{"ops": opT}, Obs: map[string]any{"res": resT, "envs": len(rw.written)},
			Tags: []string{fmt.Sprintf("badsend:oplen=%d", len(prog))},
			Coq:  fmt.Sprintf("CStream %s %s %s", coqList(opT), coqList(resT), coqList(envT))})
		idx++
	}
}

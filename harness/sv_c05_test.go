//go:build sv

package verifharness

import (
	"fmt"
	"testing"
)

// Server-side rigs of C05 and C14 (their checks belong to the client package: the cases are C05Srv / C14Srv, printed
// with qualified names, judged by coq/Check/SrvSpec.v).

func svScript(acts []SAct) func(r *svRig, step int) *SAct {
	pos := 0
	return func(r *svRig, step int) *SAct {
		if pos < len(acts) {
			pos++
			return &acts[pos-1]
		}
		return nil
	}
}

func svReq(id uint64, src string, body int64) *FrameSpec {
	return &FrameSpec{Id: id, Hdr: "ok:0", Method: mUnary, Src: src, Dst: "dst", Body: i64(body)}
}

// TestC05Srv: (a) per-stream order on the server->client wire when ONE transport Write fails (plain error, timeout-type
// net.Error, os.ErrDeadlineExceeded) on an envelope of a stream that sends more afterwards, with virtual time passing;
// (b) unary requests with EQUAL ids from different sources (one server connection shared by several clients) in flight at
// the same time, the earlier one gated in its handler: each gets its own handler and its own reply.
func TestC05Srv(t *testing.T) {
	em := NewEmitter()
	defer em.Close()
	idx := 0
	run := func(kind string, acts []SAct, tags []string) {
		if !want(idx) {
			idx++
			return
		}
		em.Marker("begin", idx)
		res := runServerScenario(t, idx, kind, svScript(acts), em, tags)
		tags = append(tags, svTagsOf(res)...)
		em.Emit(Rec{Idx: idx, Kind: kind, Desc: svScenario{Acts: res.Acts}, Obs: res.Obs, Tags: tags, Coq: "C05Srv (" + svQualify(svCase(res)) + ")"})
		em.Marker("end", idx)
		idx++
	}
	open1 := SAct{Op: "deliver", F: &FrameSpec{Id: 1, Hdr: "ok:0", Method: mBidi, Src: "src", Dst: "dst"}}
	send := func(b int64) SAct { return SAct{Op: "hstep", H: 0, Hop: &HopSpec{Op: "send", B: b}} }
	for _, kind := range []string{"", "nettimeout", "ostimeout", "deadline", "eof"} {
		for before := 0; before <= 2; before++ {
			for _, d := range []int64{5, 20, 1000} {
				acts := []SAct{open1}
				b := int64(1)
				for i := 0; i < before; i++ {
					acts = append(acts, send(b))
					b++
				}
				acts = append(acts, SAct{Op: "wfail", On: true, Kind: kind}, send(b), SAct{Op: "wfail", On: false})
				b++
				acts = append(acts, send(b), send(b+1), SAct{Op: "tick", D: d}, send(b+2), SAct{Op: "tick", D: d},
					SAct{Op: "hstep", H: 0, Hop: &HopSpec{Op: "return"}}, SAct{Op: "tick", D: d})
				run("wfail-order", acts, []string{"wfail-order", "errkind:" + kind, fmt.Sprintf("before=%d", before), fmt.Sprintf("tick=%d", d)})
			}
		}
	}
	// two streams whose messages are interleaved on the wire (and one id reused after its stream ended): each handler
	// receives its own messages in the order sent
	mkMsg := func(id uint64, b int64) SAct {
		return SAct{Op: "deliver", F: &FrameSpec{Id: id, Hdr: "ok:0", Method: mBidi, Src: "src", Dst: "dst", Body: i64(b)}}
	}
	recv := func(h int) SAct { return SAct{Op: "hstep", H: h, Hop: &HopSpec{Op: "recv"}} }
	open2 := SAct{Op: "deliver", F: &FrameSpec{Id: 2, Hdr: "ok:0", Method: mBidi, Src: "src2", Dst: "dst"}}
	for _, pat := range []string{"12", "21", "1122", "1212", "2112", "121212"} {
		for _, early := range []bool{false, true} {
			acts := []SAct{open1, open2}
			n := map[byte]int64{}
			for i := 0; i < len(pat); i++ {
				id := uint64(pat[i] - '0')
				n[pat[i]]++
				if early {
					// the handler is already parked in RecvMsg when its message arrives
					acts = append(acts, recv(int(id)-1))
				}
				acts = append(acts, mkMsg(id, int64(id)*100+n[pat[i]]))
			}
			if !early {
				// everything is on the wire first (the read loop parks on a full queue); then the handlers drain, alternating
				for k := int64(0); k < n['1'] || k < n['2']; k++ {
					if k < n['2'] {
						acts = append(acts, recv(1))
					}
					if k < n['1'] {
						acts = append(acts, recv(0))
					}
				}
			}
			acts = append(acts, SAct{Op: "hstep", H: 0, Hop: &HopSpec{Op: "return"}}, SAct{Op: "hstep", H: 1, Hop: &HopSpec{Op: "return"}})
			run("recv-order", acts, []string{"recv-order", "pattern:" + pat, fmt.Sprintf("early=%v", early)})
		}
	}
	// ONE Server, TWO connections, live streams under the SAME id on both (every client starts counting at 1): the envelopes
	// of connection B (opener, messages, half-close / reset) are delivered while A's handler is parked in RecvMsg; each
	// handler must see only its own connection's envelopes, in order. Connection B is outside the model: spec predicates
	// only (C05Srv2 carries what B was sent and what B's handler received).
	run2 := func(acts []SAct, tags []string) {
		if !want(idx) {
			idx++
			return
		}
		em.Marker("begin", idx)
		res := runServerScenario(t, idx, "two-conns", svScript(acts), em, tags)
		tags = append(tags, svTagsOf(res)...)
		em.Emit(Rec{Idx: idx, Kind: "two-conns", Desc: svScenario{Acts: res.Acts}, Obs: res.Obs, Tags: tags,
			Coq: fmt.Sprintf("C05Srv2 (%s) %s %s", svQualify(svCase(res)), coqZList(res.BSent), coqZList(res.BRecv))})
		em.Marker("end", idx)
		idx++
	}
	peerb := func(f *FrameSpec) SAct { return SAct{Op: "peerb", F: f} }
	bFrame := func(id uint64, b *int64) *FrameSpec { return &FrameSpec{Id: id, Hdr: "ok:0", Method: mBidi, Src: "srcB", Dst: "dst", Body: b} }
	for _, idB := range []uint64{1, 2} {
		for _, endB := range []string{"close", "reset", "open"} {
			for _, first := range []string{"A", "B"} {
				openA := SAct{Op: "deliver", F: &FrameSpec{Id: 1, Hdr: "ok:0", Method: mBidi, Src: "src", Dst: "dst"}}
				var acts []SAct
				if first == "A" {
					acts = append(acts, openA, recv(0), peerb(bFrame(idB, nil)))
				} else {
					acts = append(acts, peerb(bFrame(idB, nil)), openA, recv(0))
				}
				acts = append(acts, recv(0), peerb(bFrame(idB, i64(7001))), recv(0), mkMsg(1, 101), recv(0),
					peerb(bFrame(idB, i64(7002))), recv(0), mkMsg(1, 102), recv(0))
				switch endB {
				case "close":
					acts = append(acts, peerb(&FrameSpec{Id: idB, Hdr: "ok:0", Method: mBidi, Src: "srcB", Dst: "dst", Status: &[2]int64{0, 0}, Trl: "ok:0"}))
				case "reset":
					acts = append(acts, peerb(&FrameSpec{Id: idB, Hdr: "ok:0", Method: mBidi, Src: "srcB", Dst: "dst", Rst: "rst"}))
				}
				acts = append(acts, recv(0), mkMsg(1, 103), recv(0),
					SAct{Op: "deliver", F: &FrameSpec{Id: 1, Hdr: "ok:0", Method: mBidi, Src: "src", Dst: "dst", Status: &[2]int64{0, 0}, Trl: "ok:0"}},
					recv(0), SAct{Op: "hstep", H: 0, Hop: &HopSpec{Op: "return"}})
				run2(acts, []string{"two-conns", fmt.Sprintf("idB=%d", idB), "endB:" + endB, "first:" + first})
			}
		}
	}

	// equal ids from different sources
	for _, srcs := range [][2]string{{"c-1", "c-11"}, {"src", "src2"}, {"src", "src"}} {
		for _, order := range []string{"first-first", "second-first"} {
			for _, third := range []bool{false, true} {
				acts := []SAct{{Op: "deliver", F: svReq(7, srcs[0], 100)}, {Op: "deliver", F: svReq(7, srcs[1], 200)}}
				if third {
					acts = append(acts, SAct{Op: "deliver", F: svReq(7, "c-111", 300)})
				}
				ret := func(h int, rep int64) SAct { return SAct{Op: "hstep", H: h, Hop: &HopSpec{Op: "return", Rep: i64(rep)}} }
				if order == "first-first" {
					acts = append(acts, ret(0, 101), ret(1, 201))
				} else {
					acts = append(acts, ret(1, 201), ret(0, 101))
				}
				if third {
					acts = append(acts, ret(2, 301))
				}
				// and afterwards the same id once more
				acts = append(acts, SAct{Op: "deliver", F: svReq(7, srcs[0], 400)}, ret(map[bool]int{false: 2, true: 3}[third], 401))
				run("same-id", acts, []string{"same-id", "srcs:" + srcs[0] + "+" + srcs[1], "order:" + order, fmt.Sprintf("third=%v", third)})
			}
		}
	}
}

// TestC14Srv: a unary (and a streaming) request whose method outlives its deadline (GRPC-Timeout) or the connection and
// returns later, not looking at its context: once it has returned nothing may be held for it - the goroutines of the
// connection are back to writer + workers (or none after the end), the registry is empty.
func TestC14Srv(t *testing.T) {
	em := NewEmitter()
	defer em.Close()
	idx := 0
	run := func(kind string, withModel bool, acts []SAct, tags []string) {
		if !want(idx) {
			idx++
			return
		}
		em.Marker("begin", idx)
		res := runServerScenario(t, idx, kind, svScript(acts), em, tags)
		tags = append(tags, svTagsOf(res)...)
		em.Emit(Rec{Idx: idx, Kind: kind, Desc: svScenario{Acts: res.Acts}, Obs: res.Obs, Tags: tags,
			Coq: fmt.Sprintf("C14Srv %s (%s)", coqBool(withModel), svQualify(svCase(res)))})
		em.Marker("end", idx)
		idx++
	}
	for _, tmo := range []string{"", "1S", "10m", "2M"} {
		for _, n := range []int{1, 3} {
			for _, end := range []string{"", "failread", "stop", "wfail"} {
				for _, stream := range []bool{false, true} {
					var acts []SAct
					for i := 0; i < n; i++ {
						f := svReq(uint64(21+i), "src", int64(100+i))
						if stream {
							f = &FrameSpec{Id: uint64(1 + i), Hdr: "ok:0", Method: mBidi, Src: "src", Dst: "dst"}
						}
						f.Timeout = tmo
						acts = append(acts, SAct{Op: "deliver", F: f})
					}
					// the deadline passes (where there is one) while the methods are still running
					acts = append(acts, SAct{Op: "tick", D: 3000})
					switch end {
					case "failread":
						acts = append(acts, SAct{Op: "failread"})
					case "stop":
						acts = append(acts, SAct{Op: "stop"})
					case "wfail":
						acts = append(acts, SAct{Op: "wfail", On: true})
					}
					for i := 0; i < n; i++ {
						hop := &HopSpec{Op: "return"}
						if !stream {
							hop.Rep = i64(int64(200 + i))
						}
						acts = append(acts, SAct{Op: "hstep", H: i, Hop: hop}, SAct{Op: "tick", D: 10})
					}
					acts = append(acts, SAct{Op: "tick", D: 200000})
					run("outlive", tmo == "", acts, []string{"outlive", "timeout:" + tmo, fmt.Sprintf("n=%d", n), "end:" + end, fmt.Sprintf("stream=%v", stream)})
				}
			}
		}
	}
}

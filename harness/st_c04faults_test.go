//go:build st

package verifharness

import (
	"context"
	"fmt"
	"strings"
	"testing"

	"github.com/avos-io/goat/internal/server"
	"google.golang.org/grpc/codes"
	"google.golang.org/grpc/status"
	"google.golang.org/protobuf/types/known/wrapperspb"
)

// Server stream object with a transport write failing at EVERY combination of
// write positions: all programs up to length 3 (thorough 4) over the six
// operations, for every subset of their writing calls failing. Judged against
// sstep's wok = false branches (Model/SrvStream.v sdelivered / sresultsw) and by
// spec_faults (at most one delivered envelope carries header metadata, and then
// all the retained maps; at most one trailer envelope).
func TestC04StreamFaults(t *testing.T) {
	em := NewEmitter()
	defer em.Close()
	idx := 0
	opKinds := []string{"SetHeader", "SendHeader", "SetTrailer", "SendMsg", "SendTrailer", "SendTrailerErr"}
	writes := map[string]bool{"SendHeader": true, "SendMsg": true, "SendTrailer": true, "SendTrailerErr": true}
	var progs [][]int
	var gen func(prefix []int, depth int)
	gen = func(prefix []int, depth int) {
		if len(prefix) > 0 {
			progs = append(progs, append([]int(nil), prefix...))
		}
		if depth == 0 {
			return
		}
		for k := range opKinds {
			gen(append(prefix, k), depth-1)
		}
	}
	maxLen := 3
	if thorough() {
		maxLen = 4
	}
	gen(nil, maxLen)
	for _, prog := range progs {
		var wpos []int
		for j, k := range prog {
			if writes[opKinds[k]] {
				wpos = append(wpos, j)
			}
		}
		for mask := 1; mask < 1<<len(wpos); mask++ { // mask 0 (no failure) is TestC04's subject
			if !want(idx) {
				idx++
				continue
			}
			failAt := map[int]bool{}
			for b, j := range wpos {
				if mask&(1<<b) != 0 {
					failAt[j] = true
				}
			}
			rw := &recRW{}
			ss, _ := server.NewServerStream(context.Background(), 9, "/verif.Echo/Bidi", "srv", "cli", rw, nil)
			var opT, resT []string
			for j, k := range prog {
				tok := j + 1
				rw.fail = failAt[j]
				var err error
				switch opKinds[k] {
				case "SetHeader":
					err = ss.SetHeader(tokenMD(tok))
				case "SendHeader":
					err = ss.SendHeader(tokenMD(tok))
				case "SetTrailer":
					ss.SetTrailer(tokenMD(tok))
				case "SendMsg":
					err = ss.SendMsg(&wrapperspb.BytesValue{Value: []byte{byte(tok)}})
				case "SendTrailer":
					err = ss.SendTrailer(nil)
				case "SendTrailerErr":
					err = ss.SendTrailer(status.Error(codes.NotFound, "handler failed"))
				}
				opT = append(opT, fmt.Sprintf("(%s %d, %s)", strings.TrimSuffix(opKinds[k], "Err"), tok, coqBool(!failAt[j])))
				code := 0
				if err != nil {
					switch {
					case strings.Contains(err.Error(), "headers already sent"):
						code = 1
					case strings.Contains(err.Error(), "wrote trailers"):
						code = 2
					default:
						code = 3
					}
				}
				resT = append(resT, fmt.Sprint(code))
			}
			var envT []string
			for _, w := range rw.written {
				kind := 0
				if w.GetTrailer() != nil {
					kind = 2
				} else if w.GetBody() != nil {
					kind = 1
				}
				envT = append(envT, fmt.Sprintf("(%d, %s, %s)", kind, coqList(tokensOf(w.GetHeader().GetHeaders())),
					coqList(tokensOf(w.GetTrailer().GetMetadata()))))
			}
			nfail := 0
			for range failAt {
				nfail++
			}
			em.Emit(Rec{Idx: idx, Kind: "stream-ops-write-faults", Desc: map[string]any{"ops": opT}, Obs: map[string]any{"res": resT, "delivered": len(rw.written)},
				Tags: []string{fmt.Sprintf("faults:oplen=%d", len(prog)), fmt.Sprintf("faults:failing-writes=%d", nfail)},
				Coq:  fmt.Sprintf("CStreamW %s %s %s", coqList(opT), coqList(resT), coqList(envT))})
			idx++
		}
	}
}

//go:build tr

package verifharness

import (
	"fmt"
	"math/rand"
	"testing"

	"github.com/avos-io/goat/gen/goatorepo"
	"google.golang.org/protobuf/encoding/protowire"
	"google.golang.org/protobuf/proto"
)

// TestC19Wire ties Model/WireFormat.v to the real protobuf codec of the Rpc
// envelope: proto.Marshal of generated envelopes against [encode] (bytes) and
// proto.Unmarshal of arbitrary / mutated byte strings against [decode]
// (accept / reject and the decoded value).

func trBodySizes() []int {
	if thorough() {
		return []int{0, 1, 300, 65536, 1 << 20}
	}
	return []int{0, 1, 300, 65536}
}

func emitWireRT(em *Emitter, idx int, e *Rpc, big *bigRef, tag string) {
	em.Marker("begin", idx)
	data, err := proto.Marshal(e)
	obsBytes, obsBack := "None", "None"
	var back *Rpc
	if err == nil {
		if data == nil {
			data = []byte{}
		}
		obsBytes = "(Some " + coqBytesBig(data, big) + ")"
		back = unmarshalRpc(data)
		obsBack = coqOptRpc(back, big)
	}
	em.Emit(Rec{Idx: idx, Kind: "wire-roundtrip", Desc: describeRpc(e),
		Obs:  map[string]any{"marshal_err": fmt.Sprint(err), "len": len(data), "roundtrip_equal": back != nil && proto.Equal(e, back)},
		Coq:  big.coqLet(fmt.Sprintf("CWireRT %s %s %s", coqRpc(e, big), obsBytes, obsBack)),
		Tags: []string{"wire:" + tag}})
	em.Marker("end", idx)
}

func emitWireDec(em *Emitter, idx int, b []byte, tag string) {
	em.Marker("begin", idx)
	got := unmarshalRpc(b)
	em.Emit(Rec{Idx: idx, Kind: "wire-decode", Desc: map[string]any{"bytes": fmt.Sprintf("%x", b), "what": tag},
		Obs:  map[string]any{"accepted": got != nil},
		Coq:  fmt.Sprintf("CWireDec %s %s", coqBytes(b), coqOptRpc(got, nil)),
		Tags: []string{"wiredec:" + tag, fmt.Sprintf("wiredec-accepted:%v", got != nil)}})
	em.Marker("end", idx)
}

func vint(v uint64) []byte { return protowire.AppendVarint(nil, v) }
func cat(bs ...[]byte) []byte {
	out := []byte{}
	for _, b := range bs {
		out = append(out, b...)
	}
	return out
}
func lenDelim(num int, payload []byte) []byte {
	return cat(protowire.AppendTag(nil, protowire.Number(num), protowire.BytesType), vint(uint64(len(payload))), payload)
}

// handWrittenWire: the corners of the wire format.
func handWrittenWire() map[string][]byte {
	m := map[string][]byte{
		"empty":                     {},
		"id=1":                      {8, 1},
		"id-nonminimal":             {8, 0x81, 0x80, 0x00},
		"id-10byte-max":             {8, 0xff, 0xff, 0xff, 0xff, 0xff, 0xff, 0xff, 0xff, 0xff, 0x01},
		"id-10byte-overflow":        {8, 0xff, 0xff, 0xff, 0xff, 0xff, 0xff, 0xff, 0xff, 0xff, 0x02},
		"id-11byte":                 {8, 0x80, 0x80, 0x80, 0x80, 0x80, 0x80, 0x80, 0x80, 0x80, 0x80, 0x01},
		"id-10byte-nonminimal-0":    {8, 0x80, 0x80, 0x80, 0x80, 0x80, 0x80, 0x80, 0x80, 0x80, 0x00},
		"id-truncated":              {8, 0x80},
		"id-twice-last-wins":        {8, 1, 8, 2},
		"tag-truncated":             {0x80},
		"field-0":                   {0, 1},
		"field-0-bytes":             {2, 0},
		"field-max":                 cat(vint(uint64(536870911)<<3|0), []byte{5}),
		"field-max+1":               cat(vint(uint64(536870912)<<3|0), []byte{5}),
		"tag-64bit":                 cat(vint(^uint64(0)), []byte{5}),
		"unknown-varint":            {0x38, 5, 8, 9},
		"unknown-fixed64":           {0x39, 1, 2, 3, 4, 5, 6, 7, 8, 8, 9},
		"unknown-fixed64-short":     {0x39, 1, 2, 3, 4, 5, 6, 7},
		"unknown-fixed32":           {0x3d, 1, 2, 3, 4, 8, 9},
		"unknown-fixed32-short":     {0x3d, 1, 2, 3},
		"unknown-bytes":             {0x3a, 2, 1, 2, 8, 9},
		"unknown-bytes-overrun":     {0x3a, 3, 1, 2},
		"unknown-group":             {0x3b, 8, 1, 0x3c, 8, 9},
		"unknown-group-nested":      {0x3b, 0x43, 0x12, 1, 0xff, 0x44, 0x3c, 8, 9},
		"unknown-group-mismatch":    {0x3b, 0x44},
		"unknown-group-unclosed":    {0x3b, 8, 1},
		"group-inner-field-0":       {0x3b, 0, 0x3c},
		"group-inner-wt6":           {0x3b, 0x0e, 0x3c},
		"group-inner-bigfield":      cat([]byte{0x3b}, vint(uint64(2147483647)<<3|0), []byte{1, 0x3c}),
		"group-inner-bigfield+1":    cat([]byte{0x3b}, vint(uint64(2147483648)<<3|0), []byte{1, 0x3c}),
		"stray-endgroup":            {0x3c},
		"wiretype-6":                {0x0e, 0},
		"wiretype-7":                {0x0f, 0},
		"id-as-bytes(wrong type)":   {0x0a, 1, 5, 8, 7},
		"id-as-fixed64":             {0x09, 1, 2, 3, 4, 5, 6, 7, 8},
		"id-as-group":               {0x0b, 0x0c, 8, 7},
		"header-as-varint":          {0x10, 5},
		"header-empty":              {0x12, 0},
		"header-twice-merged":       cat(lenDelim(2, cat(lenDelim(1, []byte("m1")), lenDelim(3, []byte("s1")), lenDelim(5, []byte("r1")))), lenDelim(2, cat(lenDelim(1, []byte("m2")), lenDelim(5, []byte("r2")), lenDelim(2, lenDelim(1, []byte("k")))))),
		"header-overrun":            {0x12, 5, 0x0a, 1},
		"header-bad-inner":          {0x12, 2, 0x0a, 5},
		"header-method-bad-utf8":    lenDelim(2, lenDelim(1, []byte{0xff})),
		"header-source-surrogate":   lenDelim(2, lenDelim(3, []byte{0xed, 0xa0, 0x80})),
		"header-record-overlong":    lenDelim(2, lenDelim(5, []byte{0xc0, 0x80})),
		"header-next-truncated":     lenDelim(2, lenDelim(6, []byte{0xe2, 0x82})),
		"header-dest-max-rune":      lenDelim(2, lenDelim(4, []byte{0xf4, 0x8f, 0xbf, 0xbf})),
		"header-dest->max-rune":     lenDelim(2, lenDelim(4, []byte{0xf4, 0x90, 0x80, 0x80})),
		"kv-bad-key":                lenDelim(2, lenDelim(2, lenDelim(1, []byte{0x80}))),
		"kv-unknown-field":          lenDelim(2, lenDelim(2, cat(lenDelim(1, []byte("k")), []byte{0x18, 1}, lenDelim(2, []byte("v"))))),
		"kv-key-twice":              lenDelim(5, lenDelim(1, cat(lenDelim(1, []byte("k1")), lenDelim(1, []byte("k2"))))),
		"status-code-neg1":          lenDelim(3, cat([]byte{8}, vint(^uint64(0)))),
		"status-code-2^32+5":        lenDelim(3, cat([]byte{8}, vint(1<<32+5))),
		"status-code-2^31":          lenDelim(3, cat([]byte{8}, vint(1<<31))),
		"status-code-zero-explicit": lenDelim(3, []byte{8, 0}),
		"status-details":            lenDelim(3, cat(lenDelim(3, cat(lenDelim(1, []byte("type.googleapis.com/x")), lenDelim(2, []byte{0xff, 0x00}))), lenDelim(3, nil))),
		"status-detail-bad-url":     lenDelim(3, lenDelim(3, lenDelim(1, []byte{0xff}))),
		"status-msg-as-varint":      lenDelim(3, []byte{0x10, 7}),
		"body-empty-present":        {0x22, 0},
		"body-data-empty-explicit":  {0x22, 2, 0x0a, 0},
		"body-twice-merged":         cat(lenDelim(4, lenDelim(1, []byte("one"))), lenDelim(4, nil)),
		"body-non-utf8-ok":          lenDelim(4, lenDelim(1, []byte{0xff, 0xfe})),
		"trailer-two":               lenDelim(5, cat(lenDelim(1, lenDelim(1, []byte("a"))), lenDelim(1, nil))),
		"trailer-twice-merged":      cat(lenDelim(5, lenDelim(1, lenDelim(1, []byte("a")))), lenDelim(5, lenDelim(1, lenDelim(2, []byte("b"))))),
		"reset-bad-utf8":            lenDelim(6, lenDelim(1, []byte{0xc1, 0xbf})),
		"reset-ok":                  lenDelim(6, lenDelim(1, []byte("RST_STREAM"))),
		"fields-reverse-order":      cat(lenDelim(6, nil), lenDelim(5, nil), lenDelim(4, nil), lenDelim(3, nil), lenDelim(2, nil), []byte{8, 9}),
		"len-varint-huge":           cat([]byte{0x22}, vint(^uint64(0))),
		"len-nonminimal":            {0x22, 0x82, 0x00, 0x0a, 0},
	}
	return m
}

func mutate(r *rand.Rand, b []byte) []byte {
	out := append([]byte{}, b...)
	n := 1 + r.Intn(3)
	for i := 0; i < n; i++ {
		switch r.Intn(6) {
		case 0: // bit flip
			if len(out) > 0 {
				out[r.Intn(len(out))] ^= 1 << uint(r.Intn(8))
			}
		case 1: // truncate
			if len(out) > 0 {
				out = out[:r.Intn(len(out))]
			}
		case 2: // insert a byte
			p := r.Intn(len(out) + 1)
			out = append(out[:p], append([]byte{byte(r.Intn(256))}, out[p:]...)...)
		case 3: // delete a byte
			if len(out) > 0 {
				p := r.Intn(len(out))
				out = append(out[:p], out[p+1:]...)
			}
		case 4: // overwrite with an interesting byte
			if len(out) > 0 {
				out[r.Intn(len(out))] = []byte{0, 0x7f, 0x80, 0xff, 0x0b, 0x0c, 0x12, 0x1a}[r.Intn(8)]
			}
		case 5: // duplicate a slice
			if len(out) > 1 {
				a := r.Intn(len(out))
				z := a + r.Intn(len(out)-a)
				out = append(out[:z], append(append([]byte{}, out[a:z]...), out[z:]...)...)
			}
		}
	}
	return out
}

func TestC19Wire(t *testing.T) {
	em := NewEmitter()
	defer em.Close()
	r := newRand(1901)
	idx := 0
	extra := 60
	nmut, nrand := 400, 150
	if thorough() {
		extra, nmut, nrand = 400, 4000, 1500
	}
	// (1) marshalling of generated envelopes + real round trip
	envs := genEnvelopes(r, trBodySizes(), extra)
	small := [][]byte{}
	for _, g := range envs {
		if want(idx) {
			emitWireRT(em, idx, g.E, g.Big, "generated")
		}
		idx++
		if b, err := proto.Marshal(g.E); err == nil && len(b) < 600 {
			small = append(small, b)
		}
	}
	// (2) envelopes that are not canonical: invalid UTF-8 in each string field
	for i, bad := range trBadStrings {
		es := []*Rpc{
			{Id: 1, Header: &goatorepo.RequestHeader{Method: bad}},
			{Id: 2, Header: &goatorepo.RequestHeader{Source: bad}},
			{Id: 3, Header: &goatorepo.RequestHeader{Destination: "ok", ProxyRecord: []string{"fine", bad}}},
			{Id: 4, Header: &goatorepo.RequestHeader{Headers: []*goatorepo.KeyValue{{Key: "k", Value: bad}}}},
			{Id: 5, Status: &goatorepo.ResponseStatus{Message: bad}},
			{Id: 6, Trailer: &goatorepo.Trailer{Metadata: []*goatorepo.KeyValue{{Key: bad}}}},
			{Id: 7, Reset_: &goatorepo.Reset{Type: bad}},
			{Id: 8, Body: &goatorepo.Body{Data: []byte(bad)}}, // bytes: anything goes
		}
		e := es[i%len(es)]
		if want(idx) {
			emitWireRT(em, idx, e, nil, "invalid-utf8")
		}
		idx++
	}
	// (3) hand-written corners of the wire format
	hw := handWrittenWire()
	for _, name := range sortedKeys(hw) {
		if want(idx) {
			emitWireDec(em, idx, hw[name], name)
		}
		idx++
	}
	// (4) mutated valid encodings
	for i := 0; i < nmut; i++ {
		b := mutate(r, small[r.Intn(len(small))])
		if want(idx) {
			emitWireDec(em, idx, b, "mutated")
		}
		idx++
	}
	// (5) random bytes (short ones are often valid messages of unknown fields)
	for i := 0; i < nrand; i++ {
		b := make([]byte, r.Intn(24))
		r.Read(b)
		if r.Intn(3) == 0 && len(b) > 0 { // bias towards the envelope's own tags
			b[0] = []byte{0x08, 0x12, 0x1a, 0x22, 0x2a, 0x32}[r.Intn(6)]
		}
		if want(idx) {
			emitWireDec(em, idx, b, "random")
		}
		idx++
	}
	// (6) the upper end of the body range (1 MiB and just below; the largest envelope the property covers)
	for _, g := range genEdgeEnvelopes(newRand(1911)) {
		if want(idx) {
			emitWireRT(em, idx, g.E, g.Big, "edge-size")
		}
		idx++
	}
}

package verifharness

import (
	"context"
	"fmt"
	"math"
	"strings"
	"testing"
	"testing/synctest"
	"time"

	goat "github.com/avos-io/goat"
	"github.com/avos-io/goat/gen/goatorepo"
)

// Rig D for C08: parseGrpcTimeout, the deadline branch of headersFromContext
// and the header scan of contextFromHeaders, through the tagged exports.

func c08ParseInputs() []string {
	r := newRand(8)
	units := []string{"H", "M", "S", "m", "u", "n"}
	badUnits := []string{"X", "h", "s", "U", "N", " ", "0", "9", "\x00", "\xc3\xa9", "µ"}
	maxes := map[string]uint64{}
	for _, u := range units {
		d, _ := goat.VerifParseGrpcTimeout("1" + u)
		maxes[u] = uint64(math.MaxInt64) / uint64(d)
	}
	var in []string
	pad := func(v uint64, n int) string {
		s := fmt.Sprintf("%d", v)
		for len(s) < n {
			s = "0" + s
		}
		return s
	}
	maxDigits := 20
	for _, u := range append(append([]string{}, units...), badUnits...) {
		for n := 1; n <= maxDigits; n++ {
			in = append(in, strings.Repeat("0", n)+u)
			in = append(in, strings.Repeat("0", n-1)+"1"+u)
			in = append(in, strings.Repeat("9", n)+u)
			// random n-digit value
			var sb strings.Builder
			for i := 0; i < n; i++ {
				sb.WriteByte(byte('0' + r.Intn(10)))
			}
			in = append(in, sb.String()+u)
		}
		if m, ok := maxes[u]; ok {
			for _, dv := range []int64{-2, -1, 0, 1, 2} {
				v := uint64(int64(m) + dv)
				s := fmt.Sprintf("%d", v)
				in = append(in, s+u, pad(v, len(s)+1)+u, pad(v, 20)+u)
			}
		}
		// around the int64 boundary of ParseInt itself
		for _, s := range []string{"9223372036854775806", "9223372036854775807", "9223372036854775808",
			"18446744073709551615", "18446744073709551616", "99999999999999999999999"} {
			in = append(in, s+u)
		}
	}
	// malformed stream
	mal := []string{"", "H", "S", "m", "5", "55", "-5S", "+5S", "-0S", "+0m", " 5S", "5 S", "5S ", "5.0S", "5e3S",
		"0x10S", "1_000S", "١٢S", "１S", "5\x00S", "\x005S", "5SS", "5Sm", "S5", "--5S", "5-S", "5+S",
		"NaNS", "infS", "1e1S", "１２３４５６７８S", "\xff\xfeS", "5s", "5h", "5U", "5µ", "5µs", "well this won't work"}
	in = append(in, mal...)
	// random mutations of valid values
	alphabet := []byte("0123456789HMSmun+-. _x\x00\xff")
	n := 300
	if thorough() {
		n = 5000
	}
	for i := 0; i < n; i++ {
		l := 1 + r.Intn(12)
		b := make([]byte, l)
		for j := range b {
			if r.Intn(4) == 0 {
				b[j] = alphabet[r.Intn(len(alphabet))]
			} else {
				b[j] = byte('0' + r.Intn(10))
			}
		}
		if r.Intn(3) > 0 {
			b[l-1] = "HMSmun"[r.Intn(6)]
		}
		in = append(in, string(b))
	}
	if thorough() {
		// the whole grammar domain for 1..3 digits, and a stride of 4..8
		for _, u := range units {
			for n := 1; n <= 3; n++ {
				lim := 1
				for i := 0; i < n; i++ {
					lim *= 10
				}
				for v := 0; v < lim; v++ {
					in = append(in, pad(uint64(v), n)+u)
				}
			}
			for n := 4; n <= 8; n++ {
				for k := 0; k < 400; k++ {
					var sb strings.Builder
					for i := 0; i < n; i++ {
						sb.WriteByte(byte('0' + r.Intn(10)))
					}
					in = append(in, sb.String()+u)
				}
			}
		}
	}
	return in
}

func c08Remainings() []int64 {
	r := newRand(81)
	var out []int64
	ms := int64(time.Millisecond)
	out = append(out, -int64(time.Hour), -ms, -1, 0, 1, ms-1, ms, ms+1, 2*ms-1, 2*ms, 2*ms+1)
	p := int64(10)
	for i := 0; i < 11; i++ { // ms boundaries 10ms .. 10^11 ms
		for _, d := range []int64{-ms - 1, -ms, -1, 0, 1, ms - 1, ms} {
			out = append(out, p*ms+d)
		}
		p *= 10
	}
	out = append(out, 99999999*ms, 99999999*ms+ms/2, 100000000*ms, int64(10000*time.Hour), int64(10000*time.Hour)-1,
		int64(5*time.Hour), math.MaxInt64/2)
	n := 200
	if thorough() {
		n = 3000
	}
	for i := 0; i < n; i++ {
		switch r.Intn(4) {
		case 0:
			out = append(out, r.Int63n(int64(10*time.Second)))
		case 1:
			out = append(out, r.Int63n(int64(10000*time.Hour)))
		case 2:
			out = append(out, -r.Int63n(int64(time.Hour)))
		default:
			out = append(out, r.Int63n(1000)*ms+int64(r.Intn(3))-1)
		}
	}
	return out
}

type kv struct{ K, V string }

func c08HeaderLists() [][]kv {
	r := newRand(82)
	keys := []string{"grpc-timeout", "GRPC-Timeout", "Grpc-Timeout", "gRPC-tIMEOUT", "grpc-timeout ", "grpc_timeout",
		"x-grpc-timeout", "grpc-timeou", "timeout", "user-agent", "GRPC-TIMEOUT"}
	vals := []string{"5S", "100m", "1H", "7u", "9n", "2M", "", "S", "-5S", "5", "99999999H", "abc", "00000001m", "123456789S"}
	var out [][]kv
	out = append(out, nil)
	for _, k := range keys {
		for _, v := range vals {
			out = append(out, []kv{{k, v}})
		}
	}
	n := 150
	if thorough() {
		n = 2000
	}
	for i := 0; i < n; i++ {
		l := 1 + r.Intn(5)
		var hs []kv
		for j := 0; j < l; j++ {
			hs = append(hs, kv{keys[r.Intn(len(keys))], vals[r.Intn(len(vals))]})
		}
		out = append(out, hs)
	}
	return out
}

func TestC08(t *testing.T) {
	em := NewEmitter()
	defer em.Close()
	idx := 0

	for _, s := range c08ParseInputs() {
		d, ok := goat.VerifParseGrpcTimeout(s)
		obs := coqOpt(ok, coqZ(int64(d)))
		em.Emit(Rec{Idx: idx, Kind: "parse", Desc: map[string]any{"value": s},
			Obs: map[string]any{"ok": ok, "ns": int64(d)},
			Coq: fmt.Sprintf("CParse %s %s", coqStr(s), obs)})
		idx++
	}

	synctest.Test(t, func(t *testing.T) {
		for _, r := range c08Remainings() {
			ctx, cancel := context.WithDeadline(context.Background(), time.Now().Add(time.Duration(r)))
			hs := goat.VerifHeadersFromContext(ctx)
			cancel()
			if len(hs) != 1 {
				t.Fatalf("expected exactly one header, got %v", hs)
			}
			em.Emit(Rec{Idx: idx, Kind: "encode", Desc: map[string]any{"remaining_ns": r},
				Obs: map[string]any{"key": hs[0].Key, "value": hs[0].Value},
				Coq: fmt.Sprintf("CEncode %s %s", coqZ(r), coqStr(hs[0].Value))})
			idx++
			// the emitted key must be found by the server-side scan: feed it back
			c2, cancel2, err := goat.VerifContextFromHeaders(context.Background(), &goatorepo.RequestHeader{Headers: hs})
			if err != nil {
				t.Fatal(err)
			}
			dl, has := c2.Deadline()
			cancel2()
			em.Emit(Rec{Idx: idx, Kind: "roundtrip", Desc: map[string]any{"remaining_ns": r},
				Obs: map[string]any{"has": has, "ns": int64(time.Until(dl))},
				Coq: fmt.Sprintf("CE2E %s 0 %s", coqZ(r), coqOpt(has, coqZ(int64(time.Until(dl)))))})
			idx++
		}
		// no deadline -> no header
		if hs := goat.VerifHeadersFromContext(context.Background()); len(hs) != 0 {
			t.Fatalf("header without deadline: %v", hs)
		}

		for _, hl := range c08HeaderLists() {
			var hs []*goatorepo.KeyValue
			var terms []string
			for _, h := range hl {
				hs = append(hs, &goatorepo.KeyValue{Key: h.K, Value: h.V})
				terms = append(terms, coqPair(coqStr(h.K), coqStr(h.V)))
			}
			ctx, cancel, err := goat.VerifContextFromHeaders(context.Background(), &goatorepo.RequestHeader{Headers: hs})
			if err != nil {
				t.Fatal(err)
			}
			dl, has := ctx.Deadline()
			rem := int64(time.Until(dl))
			cancel()
			em.Emit(Rec{Idx: idx, Kind: "pick", Desc: map[string]any{"headers": hl},
				Obs: map[string]any{"has": has, "ns": rem},
				Coq: fmt.Sprintf("CPick %s %s", coqList(terms), coqOpt(has, coqZ(rem)))})
			idx++
		}
	})
}

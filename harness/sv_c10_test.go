//go:build sv

package verifharness

import (
	"fmt"
	"testing"
)

// C10 scenarios: a base conversation that puts nu unary and ns stream handlers in flight and parks them
// (in RecvMsg, in SendMsg against a blocked transport, on their context, or nowhere), with a trigger
// (transport read failure, transport write failure, Server.Stop) inserted at EVERY position of the base
// conversation. After the trigger the handlers honour their context: whenever a handler sits in its body
// with a done context it returns. At the end every handler returns; then nothing of the connection may be left.

type c10Base struct {
	dl      bool // the openers / requests carry GRPC-Timeout 1S and the clock is advanced past it (spec-only cases)
	nu, ns  int
	mode    string // recv | send | await | gate | respond
	trigger string // failread | wfail | stop
	pos     int
	slow    int64 // > 0: after the trigger the clock advances by this many ms BEFORE the handlers (whose contexts are done) return
}

func c10BaseActs(b c10Base) []SAct {
	var acts []SAct
	tmo := ""
	if b.dl {
		tmo = "1S"
	}
	defer func() {}()
	for i := 0; i < b.ns; i++ {
		m := []string{mBidi, mCStr, mSStr}[i%3]
		acts = append(acts, SAct{Op: "deliver", F: &FrameSpec{Id: uint64(1 + i), Hdr: "ok:0", Method: m, Src: "src", Dst: "dst", Timeout: tmo}})
	}
	for i := 0; i < b.nu; i++ {
		acts = append(acts, SAct{Op: "deliver", F: &FrameSpec{Id: uint64(21 + i), Hdr: "ok:0", Method: mUnary, Src: "src", Dst: "dst", Body: i64(int64(100 + i)), Timeout: tmo}})
	}
	// handler indices: streams 0..ns-1, then the unary handlers that found a worker
	nuRun := b.nu
	if nuRun > 8 {
		nuRun = 8
	}
	switch b.mode {
	case "recv":
		for i := 0; i < b.ns; i++ {
			acts = append(acts, SAct{Op: "hstep", H: i, Hop: &HopSpec{Op: "recv"}})
		}
		for i := 0; i < nuRun; i++ {
			acts = append(acts, SAct{Op: "hstep", H: b.ns + i, Hop: &HopSpec{Op: "await"}})
		}
	case "send":
		acts = append(acts, SAct{Op: "wblock", On: true})
		for i := 0; i < b.ns; i++ {
			acts = append(acts, SAct{Op: "hstep", H: i, Hop: &HopSpec{Op: "send", B: int64(300 + i)}})
		}
		if nuRun > 0 {
			// a unary reply handed to (or waiting for) the blocked writer
			acts = append(acts, SAct{Op: "hstep", H: b.ns, Hop: &HopSpec{Op: "return", Rep: i64(400)}})
		}
	case "await":
		for i := 0; i < b.ns+nuRun; i++ {
			acts = append(acts, SAct{Op: "hstep", H: i, Hop: &HopSpec{Op: "await"}})
		}
	case "respond":
		// response envelopes on the wire: header, message, unary reply, trailer
		for i := 0; i < b.ns; i++ {
			acts = append(acts, SAct{Op: "hstep", H: i, Hop: &HopSpec{Op: "sendhdr", T: 1}})
			acts = append(acts, SAct{Op: "hstep", H: i, Hop: &HopSpec{Op: "send", B: int64(300 + i)}})
		}
		for i := 0; i < nuRun; i++ {
			acts = append(acts, SAct{Op: "hstep", H: b.ns + i, Hop: &HopSpec{Op: "return", Rep: i64(int64(400 + i))}})
		}
		if b.ns > 0 {
			acts = append(acts, SAct{Op: "hstep", H: 0, Hop: &HopSpec{Op: "return"}})
		}
		// a message from the peer for a stream that is still open, and one more request
		if b.ns > 1 {
			acts = append(acts, SAct{Op: "deliver", F: &FrameSpec{Id: 2, Hdr: "ok:0", Method: mCStr, Src: "src", Dst: "dst", Body: i64(500)}})
		}
		acts = append(acts, SAct{Op: "deliver", F: &FrameSpec{Id: 31, Hdr: "ok:0", Method: mUnary2, Src: "src", Dst: "dst", Body: i64(501)}})
	case "rstpark":
		// the transport blocks: the writer parks in Write with the first reset, the read loop parks in resetStream
		// (holding the registry lock) with the second
		acts = append(acts, SAct{Op: "wblock", On: true})
		acts = append(acts, SAct{Op: "deliver", F: &FrameSpec{Id: 41, Hdr: "ok:0", Method: mBidi, Src: "src", Dst: "dst", Body: i64(600)}})
		acts = append(acts, SAct{Op: "deliver", F: &FrameSpec{Id: 42, Hdr: "ok:0", Method: mBidi, Src: "src", Dst: "dst", Body: i64(601)}})
		acts = append(acts, SAct{Op: "deliver", F: &FrameSpec{Id: 43, Hdr: "ok:0", Method: mUnary, Src: "src", Dst: "dst", Body: i64(602)}})
	case "fwdpark":
		// a stream handler that does not drain its queue: the read loop parks forwarding the second message
		if b.ns > 0 {
			for j := 0; j < 3; j++ {
				acts = append(acts, SAct{Op: "deliver", F: &FrameSpec{Id: 1, Hdr: "ok:0", Method: mBidi, Src: "src", Dst: "dst", Body: i64(int64(610 + j))}})
			}
		}
	case "ctxover":
		// a stream whose handler context is over (reset by the peer; with dl: its GRPC-Timeout ran out) while the handler
		// is still in its body, and the peer keeps sending on it: the first message fits the queue, the next ones find the
		// handler gone; the handler has NOT returned - Serve has to wait for it all the same
		if b.ns > 0 {
			if b.dl {
				acts = append(acts, SAct{Op: "tick", D: 2000})
			} else {
				acts = append(acts, SAct{Op: "deliver", F: &FrameSpec{Id: 1, Hdr: "ok:0", Method: mBidi, Src: "src", Dst: "dst", Rst: "rst"}})
			}
			for j := 0; j < 3; j++ {
				acts = append(acts, SAct{Op: "deliver", F: &FrameSpec{Id: 1, Hdr: "ok:0", Method: mBidi, Src: "src", Dst: "dst", Body: i64(int64(620 + j))}})
			}
			// ... and a half-close
			acts = append(acts, SAct{Op: "deliver", F: &FrameSpec{Id: 1, Hdr: "ok:0", Method: mBidi, Src: "src", Dst: "dst", Status: &[2]int64{0, 0}, Trl: "ok:0"}})
		}
	case "gate":
	}
	if b.dl {
		// the deadlines pass while the handlers are busy / parked
		acts = append(acts, SAct{Op: "tick", D: 2000})
	}
	return acts
}

func c10Trigger(kind string) SAct {
	switch kind {
	case "failread", "failread-behind":
		return SAct{Op: "failread"}
	default:
		if len(kind) > 9 && kind[:9] == "failread:" {
			// "failread:<error kind>" persistent, "failread:once:<error kind>" once and then silence
			k := kind[9:]
			if len(k) > 5 && k[:5] == "once:" {
				return SAct{Op: "failread", Kind: k[5:], On: true}
			}
			return SAct{Op: "failread", Kind: k}
		}
	case "wfail":
		return SAct{Op: "wfail", On: true}
	case "wfail:deadline", "wfail:canceled", "wfail:eof":
		// the transport's own error wraps a context error / io.EOF while the connection context is alive
		return SAct{Op: "wfail", On: true, Kind: kind[len("wfail:"):]}
	}
	return SAct{Op: "stop"}
}

// c10Script: base[:pos], trigger, base[pos:], with the honour policy after the trigger; at the end Stop (so that
// every context ends), every handler returns.
func c10Script(b c10Base) func(r *svRig, step int) *SAct {
	base := c10BaseActs(b)
	pos := b.pos
	if pos > len(base) {
		pos = len(base)
	}
	base = append([]SAct{}, base...)
	if b.trigger == "failread-behind" && pos > 0 && base[pos-1].Op == "deliver" {
		// the read failure is queued directly behind the envelope: no quiescent point in between
		base[pos-1].NoWait = true
	}
	seq := append(append(append([]SAct{}, base[:pos]...), c10Trigger(b.trigger)), base[pos:]...)
	i := 0
	triggered := false
	slept := false
	phase := 0
	guard := 0
	honour := func(r *svRig) *SAct {
		for k, h := range r.hs {
			if !h.returned && !h.inOp && h.ctx.Err() != nil {
				hop := &HopSpec{Op: "return", Err: "canceled"}
				return &SAct{Op: "hstep", H: k, Hop: hop}
			}
		}
		return nil
	}
	return func(r *svRig, step int) *SAct {
		if guard++; guard > 400 {
			return nil
		}
		if triggered && b.slow > 0 && !slept {
			// handlers that take their time to wind down after their context ended: Serve has to wait for them all the same
			slept = true
			return &SAct{Op: "tick", D: b.slow}
		}
		if triggered {
			if a := honour(r); a != nil {
				return a
			}
		}
		if i < len(seq) {
			a := &seq[i]
			i++
			if a.Op == "failread" || a.Op == "stop" || (a.Op == "wfail" && a.On) {
				_ = 0
				if !triggered {
					triggered = true
				}
			}
			return a
		}
		// the end: make sure the connection is over, then every handler returns
		switch phase {
		case 0:
			phase = 1
			return &SAct{Op: "wblock", On: false}
		case 1:
			phase = 2
			return &SAct{Op: "stop"}
		}
		for k, h := range r.hs {
			if !h.returned && !h.inOp {
				hop := &HopSpec{Op: "return"}
				if h.unary {
					hop.Rep = i64(h.payload)
				}
				return &SAct{Op: "hstep", H: k, Hop: hop}
			}
		}
		return nil
	}
}

func TestC10(t *testing.T) {
	shard, nShards, child := svSharded(t, "TestC10", 8, func(idx int, wedged bool) string {
		return fmt.Sprintf("C10Dead %s", coqBool(wedged))
	})
	if !child {
		return
	}
	want := func(idx int) bool { return want(idx) && idx%nShards == shard }
	em := NewEmitter()
	defer em.Close()
	idx := 0
	specOnly := false
	run := func(b c10Base, extra ...string) {
		if !want(idx) {
			idx++
			return
		}
		tags := append([]string{fmt.Sprintf("nu=%d", b.nu), fmt.Sprintf("ns=%d", b.ns), "mode:" + b.mode, "trigger:" + b.trigger}, extra...)
		em.Marker("begin", idx)
		res := runServerScenario(t, idx, "c10", c10Script(b), em, tags)
		tags = append(tags, svTagsOf(res)...)
		if res.Leaked {
			tags = append(tags, "leaked-at-end")
		}
		em.Emit(Rec{Idx: idx, Kind: "c10", Desc: map[string]any{"base": b.mode, "nu": b.nu, "ns": b.ns, "trigger": b.trigger, "pos": b.pos, "acts": res.Acts},
			Obs: res.Obs, Tags: tags, Coq: map[bool]string{false: "C10Run (", true: "C10Spec ("}[specOnly] + svCase(res) + ")"})
		em.Marker("end", idx)
		idx++
	}
	maxH := 2
	if thorough() {
		maxH = 3
	}
	for nu := 0; nu <= maxH; nu++ {
		for ns := 0; ns <= maxH; ns++ {
			for _, mode := range []string{"recv", "send", "await", "gate", "respond", "rstpark", "fwdpark"} {
				trigs := []string{"failread", "wfail", "stop", "failread-behind"}
				if mode == "respond" || mode == "send" {
					trigs = append(trigs, "wfail:deadline", "wfail:canceled", "wfail:eof")
				}
				for _, trig := range trigs {
					n := len(c10BaseActs(c10Base{nu: nu, ns: ns, mode: mode}))
					for pos := 0; pos <= n; pos++ {
						run(c10Base{nu: nu, ns: ns, mode: mode, trigger: trig, pos: pos})
					}
				}
			}
		}
	}
	// request deadlines (GRPC-Timeout 1S on every opener / request) that expire while the handlers are busy, parked in
	// SendMsg on a peer that stopped reading, or parked in RecvMsg; trigger at every position (before and after the
	// deadlines pass). Deadlines are outside the model: property predicates only.
	specOnly = true
	for nu := 0; nu <= 1; nu++ {
		for ns := 1; ns <= 2; ns++ {
			for _, mode := range []string{"gate", "send", "recv", "respond"} {
				for _, trig := range []string{"failread", "wfail", "stop", "failread-behind"} {
					n := len(c10BaseActs(c10Base{dl: true, nu: nu, ns: ns, mode: mode}))
					for pos := 0; pos <= n; pos++ {
						run(c10Base{dl: true, nu: nu, ns: ns, mode: mode, trigger: trig, pos: pos}, "deadline")
					}
				}
			}
		}
	}
	for ns := 1; ns <= 2; ns++ {
		for _, trig := range []string{"failread", "wfail", "stop"} {
			n := len(c10BaseActs(c10Base{dl: true, nu: 1, ns: ns, mode: "ctxover"}))
			for pos := 0; pos <= n; pos++ {
				run(c10Base{dl: true, nu: 1, ns: ns, mode: "ctxover", trigger: trig, pos: pos}, "deadline", "ctx-over")
			}
		}
	}
	specOnly = false
	// the same with the context ended by a reset of the peer (inside the model)
	for ns := 1; ns <= 2; ns++ {
		for _, trig := range []string{"failread", "wfail", "stop", "failread-behind"} {
			n := len(c10BaseActs(c10Base{nu: 1, ns: ns, mode: "ctxover"}))
			for pos := 0; pos <= n; pos++ {
				run(c10Base{nu: 1, ns: ns, mode: "ctxover", trigger: trig, pos: pos}, "ctx-over")
			}
		}
	}

	// handlers that wind down slowly: after the trigger 3 s / 1 min / 1 h of virtual time pass before the handlers (contexts
	// done) return; Serve must not have returned while a stream handler is still running
	for _, slow := range []int64{3000, 60000, 3600000} {
		for _, mode := range []string{"recv", "await", "gate"} {
			for _, hn := range [][2]int{{0, 1}, {1, 1}, {0, 2}, {1, 2}} {
				for _, trig := range []string{"failread", "wfail", "stop"} {
					n := len(c10BaseActs(c10Base{nu: hn[0], ns: hn[1], mode: mode}))
					run(c10Base{nu: hn[0], ns: hn[1], mode: mode, trigger: trig, pos: n, slow: slow}, "slow-handlers", fmt.Sprintf("slow=%d", slow))
				}
			}
		}
	}

	// the VALUE of the transport's read error: what real transports return (a protobuf decode error, goat's websocket
	// sentinel, a net timeout, unexpected EOF, EOF; bare and wrapped), persistently and once-then-silence; handlers in
	// flight parked on their context / in RecvMsg / in their body; at the quiescent point after the base conversation
	for _, kind := range svReadErrKinds {
		for _, once := range []string{"", "once:"} {
			for _, mode := range []string{"await", "recv", "gate"} {
				for _, hn := range [][2]int{{1, 1}, {2, 0}, {0, 2}} {
					n := len(c10BaseActs(c10Base{nu: hn[0], ns: hn[1], mode: mode}))
					for _, pos := range []int{n, n / 2} {
						run(c10Base{nu: hn[0], ns: hn[1], mode: mode, trigger: "failread:" + once + kind, pos: pos}, "read-error-value", "errkind:"+kind)
					}
				}
			}
		}
	}

	// many handlers: all workers busy (8), a 9th request parks the read loop
	big := [][2]int{{8, 1}, {9, 0}, {9, 2}}
	if thorough() {
		big = append(big, [2]int{8, 8}, [2]int{9, 8}, [2]int{4, 6})
	}
	for _, p := range big {
		for _, mode := range []string{"await", "gate", "recv"} {
			for _, trig := range []string{"failread", "wfail", "stop"} {
				n := len(c10BaseActs(c10Base{nu: p[0], ns: p[1], mode: mode}))
				for _, pos := range []int{n / 2, n} {
					run(c10Base{nu: p[0], ns: p[1], mode: mode, trigger: trig, pos: pos}, "many-handlers")
				}
			}
		}
	}
	// random walks with faults, then the end game
	nWalk := 60
	if thorough() {
		nWalk = 600
	}
	for i := 0; i < nWalk; i++ {
		rnd := newRand(int64(31000 + i))
		walk := svWalk(rnd, 6+rnd.Intn(20), true)
		trig := []string{"failread", "wfail", "stop", "wfail:deadline", "wfail:canceled", "wfail:eof"}[rnd.Intn(6)]
		phase := 0
		guard := 0
		script := func(r *svRig, step int) *SAct {
			if guard++; guard > 400 {
				return nil
			}
			if phase == 0 {
				if a := walk(r, step); a != nil {
					return a
				}
				phase = 1
				a := c10Trigger(trig)
				return &a
			}
			if phase == 1 {
				phase = 2
				return &SAct{Op: "wblock", On: false}
			}
			if phase == 2 {
				phase = 3
				return &SAct{Op: "stop"}
			}
			for k, h := range r.hs {
				if !h.returned && !h.inOp {
					hop := &HopSpec{Op: "return"}
					if h.unary {
						hop.Rep = i64(h.payload)
					}
					return &SAct{Op: "hstep", H: k, Hop: hop}
				}
			}
			return nil
		}
		if !want(idx) {
			idx++
			continue
		}
		tags := []string{"walk", "trigger:" + trig}
		em.Marker("begin", idx)
		res := runServerScenario(t, idx, "c10walk", script, em, tags)
		tags = append(tags, svTagsOf(res)...)
		em.Emit(Rec{Idx: idx, Kind: "c10walk", Desc: svScenario{Acts: res.Acts}, Obs: res.Obs, Tags: tags, Coq: "C10Run (" + svCase(res) + ")"})
		em.Marker("end", idx)
		idx++
	}
}

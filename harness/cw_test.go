//go:build cw

package verifharness

import (
	"context"
	"fmt"
	"testing"
	"testing/synctest"

	goat "github.com/avos-io/goat"
	"github.com/avos-io/goat/gen/goatorepo"
	"github.com/avos-io/goat/internal/verifhook"
	"google.golang.org/grpc"
)

// number of child processes of every rig of this work package
const cwShards = 6

// TestC07: for every base trace a cancellation after EVERY prefix of its action sequence.
func TestC07(t *testing.T) {
	shard, of, child := cwSharded(t, "TestC07", cwShards)
	if !child {
		return
	}
	em := NewEmitter()
	defer em.Close()
	want := func(i int) bool { return i%of == shard && want(i) }
	idx := 0
	for ti, bt := range c07BaseTraces() {
		n := len(bt.Steps(0))
		for p := 0; p <= n; p++ {
			for v := 0; v < 6; v++ {
				deadline := v%2 == 1
				other := v / 2
				if !thorough() {
					// quick: every prefix of every trace with an explicit cancel and with the deadline (alternating the
					// other-call configuration by position); thorough: the full product
					if other != (ti+p+v)%3 {
						continue
					}
				}
				if want(idx) {
					runCwScenario(t, idx, "c07", c07Scenario(bt, p, deadline, other), em)
				}
				idx++
			}
		}
	}
	// per-envelope write fault on the teardown path: exactly the RST_STREAM Write fails (quick: every other prefix)
	for ti, bt := range c07BaseTraces() {
		n := len(bt.Steps(0))
		for p := 0; p <= n; p++ {
			for v := 0; v < 6; v++ {
				if !thorough() && (v/2 != (ti+p+v)%3 || (ti+p)%2 == 1 || v%2 != (ti+p/2)%2) {
					continue
				}
				if want(idx) {
					runCwScenario(t, idx, "c07", c07FaultScenario(bt, p, v%2 == 1, v/2), em)
				}
				idx++
			}
		}
	}
	// the cancellation lands inside NewStream's transport Write
	for _, sc := range c07OpenCancelScenarios() {
		if want(idx) {
			runCwScenario(t, idx, "c07", sc, em)
		}
		idx++
	}
	// the handler parked in SendMsg behind the stalled writer; many concurrent streams
	for _, sc := range c07StalledSendScenarios(thorough()) {
		if want(idx) {
			runCwScenario(t, idx, "c07", sc, em)
		}
		idx++
	}
	for _, sc := range c07ScaleScenarios(thorough()) {
		if want(idx) {
			runCwScenario(t, idx, "c07", sc, em)
		}
		idx++
	}
	// a caller's SendMsg parked under back-pressure when the cancellation lands; mass cancellation under back-pressure
	for _, sc := range c07SendParkedScenarios() {
		if want(idx) {
			runCwScenario(t, idx, "c07", sc, em)
		}
		idx++
	}
	for _, sc := range c07ScaleBlockedScenarios(thorough()) {
		if want(idx) {
			runCwScenario(t, idx, "c07", sc, em)
		}
		idx++
	}
	// the reset Write held up for less than its bound
	for _, sc := range c07ResetWriteSlowScenarios(thorough()) {
		if want(idx) {
			runCwScenario(t, idx, "c07", sc, em)
		}
		idx++
	}
	// regression of D-07s with the forced schedule (the select of the loop's Read is random: 40 repetitions)
	for i := 0; i < 40; i++ {
		if want(idx) {
			runCwScenario(t, idx, "c07-race", c07RaceScenario([]string{"Bidi", "CStream", "SStream"}[i%3], (i/3)%2), em)
		}
		idx++
	}
}

// c07RaceScenario: regression of D-07s (fixed in /repo 72f38d7) with the schedule forced: the stream loop is held at
// the yield point cs.loop.read after it has handed a response to a RecvMsg; the caller cancels and calls SendMsg, which
// tears the registration down; then the loop enters Read with the handler closed AND the context cancelled. Every
// RecvMsg afterwards must report the Canceled status (never "respChan closed").
func c07RaceScenario(kind string, unread int) cwScenario {
	s := []Step{{Op: "open", Kind: kind}, {Op: "holdloop"}, {Op: "recv", C: 0}, {Op: "peer", Env: bodyEnv(0, 21)}}
	for i := 0; i < unread; i++ {
		s = append(s, Step{Op: "peer", Env: bodyEnv(0, int64(30+i))})
	}
	s = append(s, Step{Op: "cancelsendf", C: 0, B: 33}, Step{Op: "recv", C: 0}, Step{Op: "send", C: 0, B: 34}, Step{Op: "recv", C: 0})
	return cwScenario{Mode: "client", Steps: s, Tags: []string{"c07", "kind:" + kind, "race:cancel-then-send-forced", fmt.Sprintf("unread:%d", unread)}}
}

// TestC11: abandoned streams (handler returns early / caller cancels or stops reading / peer over-sends), other
// RPCs in flight, a probe RPC afterwards.
func TestC11(t *testing.T) {
	shard, of, child := cwSharded(t, "TestC11", cwShards)
	if !child {
		return
	}
	em := NewEmitter()
	defer em.Close()
	want := func(i int) bool { return i%of == shard && want(i) }
	for idx, sc := range c11Scenarios(thorough()) {
		if want(idx) {
			runCwScenario(t, idx, "c11", sc, em)
		}
	}
}

// TestC06: the wire histories of every scenario family of this work package, judged by the protocol monitor.
func TestC06(t *testing.T) {
	shard, of, child := cwSharded(t, "TestC06", cwShards)
	if !child {
		return
	}
	em := NewEmitter()
	defer em.Close()
	want := func(i int) bool { return i%of == shard && want(i) }
	idx := 0
	run := func(kind string, sc cwScenario) {
		if want(idx) {
			runCwScenario(t, idx, kind, sc, em)
		}
		idx++
	}
	// Rig A: the real client, all user/peer words (length <= 5 with the open)
	maxA, maxB := 3, 4
	if thorough() {
		maxA, maxB = 4, 5
	}
	words(len(clientLetters), maxA, func(w []int) {
		if sc, ok := clientWord(w); ok {
			run("c06-client", sc)
		}
	})
	// Rig B: the real server, all client-envelope/handler-operation words
	ki := 0
	words(len(serverLetters), maxB, func(w []int) {
		kind := []string{"Bidi", "CStream", "SStream"}[ki%3]
		if !thorough() && len(w) == maxB {
			// quick: the words with the unmarshalable SendMsg (letter hx) up to length maxB-1
			for _, x := range w {
				if serverLetters[x] == "hx" {
					return
				}
			}
		}
		if sc, ok := serverWord(w, kind); ok {
			ki++
			run("c06-server", sc)
		}
	})
	for _, sc := range serverSpecials() {
		run("c06-server", sc)
	}
	for _, sc := range append(c06MetadataClasses(), c06UnaryDeadline()...) {
		if sc.Mode == "server" {
			run("c06-server", sc)
		} else {
			run("c06-e2e", sc)
		}
	}
	// the cancellation inside NewStream's transport Write (C07's family): the client-direction automaton on the wire
	for _, sc := range c07OpenCancelScenarios() {
		run("c06-e2e", sc)
	}
	for _, sc := range c06UnknownMethod() {
		if sc.Mode == "server" {
			run("c06-server", sc)
		} else {
			run("c06-e2e", sc)
		}
	}
	for _, sc := range c06ReturnWindow() {
		if sc.Mode == "server" {
			run("c06-server", sc)
		} else {
			run("c06-e2e", sc)
		}
	}
	// Rig C: the end-to-end scenarios of C07 and C11 (quick: a sample; thorough: all)
	n := 0
	for ti, bt := range c07BaseTraces() {
		for p := 0; p <= len(bt.Steps(0)); p++ {
			for v := 0; v < 6; v++ {
				n++
				if !thorough() && ((v/2) != (ti+p+v)%3 || n%5 != 0) {
					continue
				}
				run("c06-e2e", c07Scenario(bt, p, v%2 == 1, v/2))
			}
		}
	}
	for i, sc := range c11Scenarios(thorough()) {
		if !thorough() && i%4 != 0 {
			continue
		}
		run("c06-e2e", sc)
	}
	// the reset-vs-trailer window (D-06a): the writer goroutine is held between taking the trailer and writing it while a
	// late body makes the read loop answer with a reset
	if want(idx) {
		em.Marker("begin", idx)
		c2s, s2c := replayResetVsTrailer(t)
		em.Emit(Rec{Idx: idx, Kind: "c06-server", Desc: "writer parked after taking the trailer; a late body arrives; the reset must not overtake the trailer",
			Tags: []string{"c06", "family:replay", "what:reset-vs-trailer"}, Coq: cwCaseCoq("CwRun", cwScenario{Mode: "server"}, nil, c2s, s2c, nil)})
		em.Marker("end", idx)
	}
	idx++
	// the witness of C06_client_refuted, replayed on the real client (known finding)
	if want(idx) {
		em.Marker("begin", idx)
		ws := replayCloseAfterAbortReset(t)
		em.Emit(Rec{Idx: idx, Kind: "c06-client", Desc: "replay of C06_client_refuted: CloseSend while the loop of an aborted stream is between its reset write and its unregister",
			Tags: []string{"c06", "family:replay", "sig:close-after-abort-reset"}, Coq: cwCaseCoq("CwRun", cwScenario{Mode: "client"}, nil, ws, nil, nil)})
		em.Marker("end", idx)
	}
	idx++
}

// replayCloseAfterAbortReset replays the witness of C06_client_refuted on the real client: the peer's first
// response carries undecodable metadata; the stream loop writes its reset and is held inside that Write (a slow
// transport) before it unregisters and cancels the stream context; the user's CloseSend writes its trailer.
func replayCloseAfterAbortReset(t *testing.T) (c2s []*Rpc) {
	bubble(t, func(t *testing.T) {
		ep := NewEndpoint("client")
		ep.CheckCtx = true
		gate := make(chan struct{})
		held := false
		ep.OnWrite = func(r *Rpc) {
			if r.GetReset_() != nil && !held {
				held = true
				<-gate
			}
		}
		cc := goat.NewClientConn(ep, "src", "dst")
		cs, err := cc.NewStream(context.Background(), descBidi, "/verif.Echo/Bidi")
		if err != nil {
			t.Fatal(err)
		}
		id := ep.WrittenCopy()[0].Id
		ep.Deliver((&EnvSpec{Call: 0, Hdr: "bad", Body: i64(5), Trl: "none"}).build(id, "/verif.Echo/Bidi"))
		synctest.Wait()
		done := make(chan error, 1)
		go func() { done <- cs.CloseSend() }()
		synctest.Wait()
		close(gate)
		synctest.Wait()
		<-done
		c2s = ep.WrittenCopy()
		ep.FailRead(errInjected)
		synctest.Wait()
	})
	return c2s
}

func replayResetVsTrailer(t *testing.T) (c2s, s2c []*Rpc) {
	bubble(t, func(t *testing.T) {
		ep := NewEndpoint("s")
		release := make(chan struct{})
		srv := newEchoServer("dst", &echoImpl{stream: func(kind string, s grpc.ServerStream) error {
			<-release
			return nil
		}})
		ctx, cancel := context.WithCancel(context.Background())
		go srv.Serve(ctx, ep)
		send := func(r *Rpc) { c2s = append(c2s, clone(r)); ep.Deliver(r) }
		send(&Rpc{Id: 1, Header: hdr("/verif.Echo/Bidi", "src", "dst")})
		synctest.Wait()
		gate := make(chan struct{})
		parked := make(chan struct{}, 1)
		verifhook.SetYield(func(pt string) {
			if pt == "srv.writer.taken" {
				select {
				case parked <- struct{}{}:
					<-gate
				default:
				}
			}
		})
		close(release) // the handler returns; the writer takes the trailer and parks
		synctest.Wait()
		<-parked
		send(&Rpc{Id: 1, Header: hdr("/verif.Echo/Bidi", "src", "dst"), Body: &goatorepo.Body{Data: bodyBytes(7)}})
		synctest.Wait()
		close(gate)
		verifhook.SetYield(nil)
		synctest.Wait()
		s2c = ep.WrittenCopy()
		cancel()
		ep.FailRead(errInjected)
		synctest.Wait()
	})
	return
}

//go:build cw

package verifharness

import "testing"

// TestC07: for every base trace a cancellation after EVERY prefix of its action sequence.
func TestC07(t *testing.T) {
	em := NewEmitter()
	defer em.Close()
	idx := 0
	for ti, bt := range c07BaseTraces() {
		n := len(bt.Steps(0))
		for p := 0; p <= n; p++ {
			for v := 0; v < 6; v++ {
				deadline := v%2 == 1
				other := v / 2
				if !thorough() {
					// quick: every prefix of every trace with an explicit cancel and with the deadline (alternating the
					// other-call configuration by position); thorough: the full product
					if other != (ti+p+v)%3 {
						continue
					}
				}
				if want(idx) {
					runCwScenario(t, idx, "c07", c07Scenario(bt, p, deadline, other), em)
				}
				idx++
			}
		}
	}
}

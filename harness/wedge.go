package verifharness

import (
	"os"
	"regexp"
	"runtime"
	"strings"
	"sync/atomic"
	"time"
)

// guardWedge watches one lock-step scenario from outside its synctest bubble (real time). A goroutine waiting for a
// sync.Mutex / RWMutex is not durably blocked, so a mutex deadlock in the code under test makes synctest.Wait hang
// for ever. When two goroutine dumps one second apart both show a goroutine of the bubble waiting for a lock while
// nothing (besides this watcher) is running or runnable, and the scenario made no step in between, the scenario is
// reported as wedged: a record without Coq term (tags "wedged"), the end marker, exit status 3 — which ./check turns
// into a process event (failing input) and resumes after the scenario. Call step() at every step; stop() at the end.
func guardWedge(em *Emitter, idx int, kind string, desc any, tags []string) (step func(), stop func()) {
	var progress, done atomic.Int64
	lockWait := regexp.MustCompile(`\[(sync\.(RW)?Mutex\.[A-Za-z]+|semacquire)[^\]]*synctest bubble`)
	go func() {
		last, stuck, confirm := int64(-1), 0, 0
		for done.Load() == 0 {
			time.Sleep(250 * time.Millisecond)
			p := progress.Load()
			if p != last {
				last, stuck, confirm = p, 0, 0
				continue
			}
			stuck++
			if stuck < 4 {
				continue
			}
			buf := make([]byte, 8<<20)
			dump := string(buf[:runtime.Stack(buf, true)])
			// a goroutine inside a system call (a record or log line written to a slow pipe) is busy too; the
			// picture must be the same in 3 samples in a row: a real deadlock stays, a starved process moves on
			busy := strings.Count(dump, "[running") + strings.Count(dump, "[runnable") - 1 +
				strings.Count(dump, "[syscall") + strings.Count(dump, "[IO wait")
			waiters := len(lockWait.FindAllString(dump, -1))
			if waiters == 0 || busy > 0 {
				confirm = 0
				if stuck < 2400 { // 10 minutes without any progress: give up anyway
					continue
				}
			} else if confirm++; confirm < 3 {
				continue
			}
			if done.Load() != 0 {
				return
			}
			em.Emit(Rec{Idx: idx, Kind: kind + "-wedged", Desc: desc,
				Obs:  map[string]any{"lock_waiters": waiters, "steps_done": p},
				Tags: append(append([]string{}, tags...), "wedged")})
			em.Marker("end", idx)
			em.Close()
			os.Exit(3)
		}
	}()
	return func() { progress.Add(1) }, func() { done.Store(1) }
}

package verifharness

import (
	"context"

	"google.golang.org/grpc"
	"google.golang.org/protobuf/types/known/wrapperspb"
)

// A hand-written service over BytesValue so that payloads are arbitrary byte
// strings and handler bodies are supplied by the harness.

type EchoServer interface {
	Unary(ctx context.Context, req []byte) ([]byte, bool, error)
	Stream(kind string, stream grpc.ServerStream) error
}

type echoImpl struct {
	unary  func(ctx context.Context, req []byte) ([]byte, bool, error)
	stream func(kind string, stream grpc.ServerStream) error
}

func (e *echoImpl) Unary(ctx context.Context, req []byte) ([]byte, bool, error) {
	return e.unary(ctx, req)
}
func (e *echoImpl) Stream(kind string, s grpc.ServerStream) error { return e.stream(kind, s) }

const svcName = "verif.Echo"

func unaryHandler(srv any, ctx context.Context, dec func(any) error, interceptor grpc.UnaryServerInterceptor) (any, error) {
	in := new(wrapperspb.BytesValue)
	if err := dec(in); err != nil {
		return nil, err
	}
	h := func(ctx context.Context, req any) (any, error) {
		out, has, err := srv.(EchoServer).Unary(ctx, req.(*wrapperspb.BytesValue).Value)
		if !has {
			return nil, err
		}
		return &wrapperspb.BytesValue{Value: out}, err
	}
	if interceptor == nil {
		return h(ctx, in)
	}
	info := &grpc.UnaryServerInfo{Server: srv, FullMethod: "/" + svcName + "/Unary"}
	return interceptor(ctx, in, info, h)
}

func streamHandlerFor(kind string) grpc.StreamHandler {
	return func(srv any, stream grpc.ServerStream) error {
		return srv.(EchoServer).Stream(kind, stream)
	}
}

var echoDesc = grpc.ServiceDesc{
	ServiceName: svcName,
	HandlerType: (*EchoServer)(nil),
	Methods: []grpc.MethodDesc{
		{MethodName: "Unary", Handler: unaryHandler},
		{MethodName: "Unary2", Handler: unaryHandler},
	},
	Streams: []grpc.StreamDesc{
		{StreamName: "CStream", Handler: streamHandlerFor("CStream"), ClientStreams: true},
		{StreamName: "SStream", Handler: streamHandlerFor("SStream"), ServerStreams: true},
		{StreamName: "Bidi", Handler: streamHandlerFor("Bidi"), ClientStreams: true, ServerStreams: true},
	},
}

var (
	descCStream = &grpc.StreamDesc{StreamName: "CStream", ClientStreams: true}
	descSStream = &grpc.StreamDesc{StreamName: "SStream", ServerStreams: true}
	descBidi    = &grpc.StreamDesc{StreamName: "Bidi", ClientStreams: true, ServerStreams: true}
)

func bv(b []byte) *wrapperspb.BytesValue { return &wrapperspb.BytesValue{Value: b} }

//go:build st

package verifharness

import (
	"context"
	"fmt"
	"io"
	"testing"
	"testing/synctest"
	"time"

	goat "github.com/avos-io/goat"
	"google.golang.org/grpc"
	"google.golang.org/protobuf/types/known/wrapperspb"
)

// End-to-end lock-step rig for C03: real client - Link - real server in a
// bubble; the handler returns each error kind at every position of small
// stream programs; the caller's terminal observation must be the handler's
// status (never success).

type stProg struct {
	rk       int    // 1 client stream, 2 server stream, 3 bidi
	nc       int    // messages the caller sends before the handler returns
	r        int    // messages the handler receives before returning
	ns       int    // messages the handler sends before returning
	closed   bool   // caller closes its direction before the handler returns
	late     int    // messages the caller sends after the handler returned
	hold     bool   // the trailer stays in flight until the late messages (and the server's answer to them) are out
	k        *hkind // what the handler returns
	connDies bool   // after the handler returned (trailer behind unread messages) the caller's connection fails
	abort    string // "cancel" / "deadline": the caller gives up with the handler's messages unread
}

func (p stProg) desc() map[string]any {
	return map[string]any{"rk": p.rk, "nc": p.nc, "r": p.r, "ns": p.ns, "closed": p.closed, "late": p.late, "hold": p.hold, "err": p.k.desc(), "connDies": p.connDies, "abort": p.abort}
}

func stPrograms(kinds []*hkind) []stProg {
	var ps []stProg
	for _, k := range kinds {
		for _, rk := range []int{1, 2, 3} {
			ncs := []int{0, 1, 2}
			if rk == 2 {
				ncs = []int{1} // the request
			}
			for _, nc := range ncs {
				rs := []int{0}
				if nc > 0 {
					rs = append(rs, nc)
				}
				for _, r := range rs {
					nss := []int{0, 1, 2}
					if rk == 1 {
						nss = []int{0}
						if k == nil {
							nss = []int{1} // the reply of a successful client-streaming call
						}
					}
					for _, ns := range nss {
						ps = append(ps, stProg{rk: rk, nc: nc, r: r, ns: ns, closed: true, k: k})
						if rk != 2 {
							ps = append(ps, stProg{rk: rk, nc: nc, r: r, ns: ns, k: k})
							ps = append(ps, stProg{rk: rk, nc: nc, r: r, ns: ns, late: 1, k: k})
							ps = append(ps, stProg{rk: rk, nc: nc, r: r, ns: ns, late: 2, hold: true, k: k})
						}
					}
				}
			}
		}
	}
	return ps
}

// with two replies the first one is a zero-byte message (an empty body is still a message)
func stReplyPayload(p stProg, i int) []byte {
	if p.ns == 2 && i == 0 {
		return []byte{}
	}
	return []byte(fmt.Sprintf("reply-%d", i))
}

func runStProg(t *testing.T, reg *tokReg, p stProg) (sent []int64, obs string) {
	bubble(t, func(t *testing.T) {
		cmds := make(chan string)
		acks := make(chan struct{})
		impl := &echoImpl{
			unary: func(ctx context.Context, req []byte) ([]byte, bool, error) { return req, true, nil },
			stream: func(kind string, ss grpc.ServerStream) error {
				n := 0
				for c := range cmds {
					switch c {
					case "recv":
						var m wrapperspb.BytesValue
						ss.RecvMsg(&m)
					case "send":
						ss.SendMsg(bv(stReplyPayload(p, n)))
						n++
					}
					acks <- struct{}{}
				}
				return p.k.err()
			},
		}
		l := NewLink(false)
		l.Auto = true
		srv := newEchoServer("dst", impl)
		ret := make(chan error, 1)
		go func() { ret <- srv.Serve(context.Background(), l.S) }()
		cc := goat.NewClientConn(l.C, "src", "dst")
		desc, method := descBidi, "/verif.Echo/Bidi"
		switch p.rk {
		case 1:
			desc, method = descCStream, "/verif.Echo/CStream"
		case 2:
			desc, method = descSStream, "/verif.Echo/SStream"
		}
		ctx, cancel := context.WithCancel(context.Background())
		if p.abort == "deadline" {
			var c2 context.CancelFunc
			ctx, c2 = context.WithTimeout(ctx, time.Hour)
			defer c2()
		}
		cs, err := cc.NewStream(ctx, desc, method)
		if err != nil {
			t.Fatal(err)
		}
		synctest.Wait()
		for i := 0; i < p.nc; i++ {
			cs.SendMsg(bv([]byte(fmt.Sprintf("req-%d", i))))
			synctest.Wait()
		}
		for i := 0; i < p.r; i++ {
			cmds <- "recv"
			<-acks
			synctest.Wait()
		}
		for i := 0; i < p.ns; i++ {
			cmds <- "send"
			<-acks
			sent = append(sent, reg.payloadTok(stReplyPayload(p, i)))
			synctest.Wait()
		}
		if p.closed {
			cs.CloseSend()
			synctest.Wait()
		}
		if p.hold {
			l.mu.Lock()
			l.Auto = false
			l.mu.Unlock()
		}
		close(cmds) // the handler returns
		synctest.Wait()
		for i := 0; i < p.late; i++ {
			cs.SendMsg(bv([]byte(fmt.Sprintf("late-%d", i)))) // the caller is still sending
			synctest.Wait()
		}
		if p.hold {
			for l.StepC2S() {
				synctest.Wait()
			}
			for l.StepS2C() {
				synctest.Wait()
			}
			l.mu.Lock()
			l.Auto = true
			l.mu.Unlock()
		}
		if p.connDies {
			// the peer hangs up right after finishing the RPC: the trailer is already queued for the call
			l.C.FailRead(io.EOF)
			synctest.Wait()
		}
		switch p.abort {
		case "cancel":
			cancel()
			synctest.Wait()
		case "deadline":
			time.Sleep(2 * time.Hour)
			synctest.Wait()
		}
		bodies, term := reg.drain(cs)
		obs = reg.sobsCoq(bodies, term)
		cancel()
		synctest.Wait()
		l.C.FailRead(io.EOF)
		l.S.FailRead(io.EOF)
		synctest.Wait()
		<-ret
	})
	return
}

// the sequence of a generated server-streaming stub; the handler returns k at once, without reading
func runStStub(t *testing.T, reg *tokReg, rk int, k *hkind, early bool) (obs string) {
	bubble(t, func(t *testing.T) {
		impl := &echoImpl{stream: func(kind string, ss grpc.ServerStream) error { return k.err() }}
		l := NewLink(false)
		srv := newEchoServer("dst", impl)
		ret := make(chan error, 1)
		go func() { ret <- srv.Serve(context.Background(), l.S) }()
		cc := goat.NewClientConn(l.C, "src", "dst")
		desc, method := descBidi, "/verif.Echo/Bidi"
		switch rk {
		case 1:
			desc, method = descCStream, "/verif.Echo/CStream"
		case 2:
			desc, method = descSStream, "/verif.Echo/SStream"
		}
		ctx, cancel := context.WithCancel(context.Background())
		cs, err := cc.NewStream(ctx, desc, method)
		if err != nil {
			t.Fatal(err)
		}
		synctest.Wait()
		l.StepC2S() // the opening envelope: the handler runs and returns
		synctest.Wait()
		if early {
			for l.StepS2C() { // the final status reaches the client and is processed before the caller sends anything
			}
			synctest.Wait()
		}
		// what the generated stub does (the link keeps its FIFO order: the held final status is delivered before
		// anything the server writes later, e.g. its reset for the late request)
		err = cs.SendMsg(bv([]byte("request")))
		synctest.Wait()
		if err == nil {
			err = cs.CloseSend()
			synctest.Wait()
		}
		for round := 0; round < 3; round++ {
			for l.StepS2C() {
			}
			synctest.Wait()
			for l.StepC2S() {
			}
			synctest.Wait()
		}
		if err != nil {
			obs = reg.sobsCoq(nil, reg.termCoq(err)) // the stub returns (nil, err): this is all the caller gets
		} else {
			bodies, term := reg.drain(cs)
			obs = reg.sobsCoq(bodies, term)
		}
		cancel()
		synctest.Wait()
		l.C.FailRead(io.EOF)
		l.S.FailRead(io.EOF)
		synctest.Wait()
		<-ret
	})
	return
}

func TestC03E2E(t *testing.T) {
	em := NewEmitter()
	defer em.Close()
	reg := newTokReg()
	idx := 0
	kinds := append([]*hkind{nil}, stKindsSmall()...)
	if thorough() {
		kinds = append([]*hkind{nil}, stGrid()...)
	}

	// ---- unary
	for _, k := range kinds {
		for _, has := range []bool{false, true} {
			if !want(idx) {
				idx++
				continue
			}
			stBegin(em, idx)
			impl := &echoImpl{unary: func(ctx context.Context, req []byte) ([]byte, bool, error) { return []byte("pong"), has, k.err() }}
			var obs string
			stE2E(t, impl, nil, nil, func(cc *goat.ClientConn) {
				var out wrapperspb.BytesValue
				err := cc.Invoke(context.Background(), "/verif.Echo/Unary", bv([]byte("ping")), &out)
				obs = reg.uobsCoq(&out, err)
			})
			replyT := "None"
			if has {
				replyT = fmt.Sprintf("(Some %d)", reg.payloadTok([]byte("pong")))
			}
			em.Emit(Rec{Idx: idx, Kind: "e2e-unary", Desc: map[string]any{"err": k.desc(), "reply": has},
				Tags: append(k.tags(), "part=e2e", "rpc=unary", fmt.Sprintf("reply=%v", has)),
				Coq:  fmt.Sprintf("CE2EU %s %s %s", k.coq(reg), replyT, obs)})
			stEnd(em, idx)
			idx++
		}
	}

	// ---- streams
	small := kinds
	if thorough() {
		small = append([]*hkind{nil}, stKindsSmall()...)
	}
	for _, p := range stPrograms(small) {
		if !want(idx) {
			idx++
			continue
		}
		stBegin(em, idx)
		sent, obs := runStProg(t, reg, p)
		pos := "after-last"
		switch {
		case p.nc == 0 && p.ns == 0:
			pos = "before-any-message"
		case p.r < p.nc:
			pos = "between-messages"
		}
		tags := append(p.k.tags(), "part=e2e", fmt.Sprintf("rpc=%s", map[int]string{1: "client-stream", 2: "server-stream", 3: "bidi"}[p.rk]),
			"position="+pos, fmt.Sprintf("caller-still-sending=%v", p.late > 0), fmt.Sprintf("trailer-held=%v", p.hold))
		em.Emit(Rec{Idx: idx, Kind: "e2e-stream", Desc: p.desc(), Tags: tags,
			Coq: fmt.Sprintf("CE2ES %d %s %s %s", p.rk, p.k.coq(reg), zs(sent), obs)})
		stEnd(em, idx)
		idx++
	}

	// ---- the peer hangs up right after the RPC: the final status waits in the call's queue behind unread messages
	//      when the connection fails; and: the caller gives up with the handler's messages unread
	for _, k := range small {
		for _, rk := range []int{2, 3} {
			for ns := 1; ns <= 2; ns++ {
				for _, variant := range []string{"conn-dies", "cancel", "deadline"} {
					if !want(idx) {
						idx++
						continue
					}
					stBegin(em, idx)
					p := stProg{rk: rk, nc: 1, r: 0, ns: ns, closed: rk == 2, k: k}
					ctor := "CE2ES"
					if variant == "conn-dies" {
						p.connDies = true
					} else {
						p.abort = variant
						ctor = "CE2EAbort"
					}
					sent, obs := runStProg(t, reg, p)
					tags := append(k.tags(), "part=e2e", fmt.Sprintf("rpc=%s", map[int]string{2: "server-stream", 3: "bidi"}[rk]), "position=unread-messages-then-"+variant)
					em.Emit(Rec{Idx: idx, Kind: "e2e-stream-" + variant, Desc: p.desc(), Tags: tags,
						Coq: fmt.Sprintf("%s %d %s %s %s", ctor, rk+map[string]int{"deadline": 10}[variant], k.coq(reg), zs(sent), obs)})
					stEnd(em, idx)
					idx++
				}
			}
		}
	}

	// ---- the generated stub's sequence (NewStream; SendMsg(req); CloseSend; Recv...) when the server's final status has
	//      been processed by the client BEFORE the caller's first SendMsg (a stream interceptor / handler that fails
	//      without reading): what the stub returns - SendMsg's error - must be the handler's status, never a success
	for _, k := range small {
		for _, rk := range []int{1, 2, 3} {
			for _, early := range []bool{true, false} {
				if !want(idx) {
					idx++
					continue
				}
				stBegin(em, idx)
				obs := runStStub(t, reg, rk, k, early)
				tags := append(k.tags(), "part=e2e", fmt.Sprintf("rpc=%s", map[int]string{1: "client-stream", 2: "server-stream", 3: "bidi"}[rk]),
					fmt.Sprintf("position=status-processed-before-first-SendMsg=%v", early))
				em.Emit(Rec{Idx: idx, Kind: "e2e-stream-stub", Desc: map[string]any{"rk": rk, "early": early, "err": k.desc()}, Tags: tags,
					Coq: fmt.Sprintf("CE2ES %d %s [] %s", rk, k.coq(reg), obs)})
				stEnd(em, idx)
				idx++
			}
		}
	}

	// ---- a RecvMsg already blocked when the handler returns, the read loop held up inside its own cancel()
	for _, k := range small {
		for _, rk := range []int{1, 2, 3} {
			for nfirst := 0; nfirst <= 1; nfirst++ {
				if rk == 1 && nfirst == 1 {
					continue
				}
				if !want(idx) {
					idx++
					continue
				}
				stBegin(em, idx)
				sent, obs := runStBlockedRecv(t, reg, rk, nfirst, k)
				tags := append(k.tags(), "part=e2e", fmt.Sprintf("rpc=%s", map[int]string{1: "client-stream", 2: "server-stream", 3: "bidi"}[rk]),
					"position=recv-blocked-when-trailer-arrives")
				em.Emit(Rec{Idx: idx, Kind: "e2e-stream-blocked-recv", Desc: map[string]any{"rk": rk, "first": nfirst, "err": k.desc()}, Tags: tags,
					Coq: fmt.Sprintf("CE2ES %d %s %s %s", rk, k.coq(reg), zs(sent), obs)})
				stEnd(em, idx)
				idx++
			}
		}
	}
}

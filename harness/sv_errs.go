//go:build sv

package verifharness

import (
	"context"
	"fmt"
	"io"
	"net"
	"net/http"
	"net/http/httptest"
	"os"
	"sync"
	"time"

	"github.com/coder/websocket"
	goat "github.com/avos-io/goat"
	"google.golang.org/protobuf/proto"
)

// Error values for the transport's Read failure: what real transports return.

var (
	svWsOnce sync.Once
	svWsErr  error
)

// svWsSentinel obtains goat's "not a binary websocket message" error from the real goatOverWebsocket.Read on a text
// frame (loopback httptest server, outside any bubble); nil if that is not possible here.
func svWsSentinel() error {
	svWsOnce.Do(func() {
		got := make(chan error, 1)
		srv := httptest.NewServer(http.HandlerFunc(func(w http.ResponseWriter, r *http.Request) {
			c, err := websocket.Accept(w, r, nil)
			if err != nil {
				got <- nil
				return
			}
			defer c.CloseNow()
			ctx, cancel := context.WithTimeout(context.Background(), 5*time.Second)
			defer cancel()
			_, rerr := goat.NewGoatOverWebsocket(c).Read(ctx)
			got <- rerr
		}))
		defer srv.Close()
		ctx, cancel := context.WithTimeout(context.Background(), 5*time.Second)
		defer cancel()
		c, _, err := websocket.Dial(ctx, "ws"+srv.URL[len("http"):], nil)
		if err != nil {
			return
		}
		defer c.CloseNow()
		if err := c.Write(ctx, websocket.MessageText, []byte("not binary")); err != nil {
			return
		}
		select {
		case e := <-got:
			if e != nil && e != context.DeadlineExceeded {
				svWsErr = e
			}
		case <-time.After(6 * time.Second):
		}
	})
	return svWsErr
}

// svReadErr: the error value of a read failure of the given kind ("" = the harness's plain injected error).
func svReadErr(kind string) error {
	wrapped := false
	if len(kind) > 2 && kind[:2] == "w:" {
		wrapped, kind = true, kind[2:]
	}
	var e error
	switch kind {
	case "proto":
		// a genuine protobuf decode error: what a transport returns for an undecodable frame
		e = proto.Unmarshal([]byte{0xff, 0xff, 0xff, 0xff, 0x01, 0x02}, &Rpc{})
	case "ws":
		e = svWsSentinel()
	case "nettimeout":
		e = &net.OpError{Op: "read", Net: "tcp", Err: os.ErrDeadlineExceeded}
	case "unexpectedeof":
		e = io.ErrUnexpectedEOF
	case "eof":
		e = io.EOF
	}
	if e == nil {
		e = errInjected
	}
	if wrapped {
		e = fmt.Errorf("transport read: %w", e)
	}
	return e
}

var svReadErrKinds = []string{"", "proto", "ws", "nettimeout", "unexpectedeof", "eof", "w:proto", "w:ws", "w:nettimeout", "w:unexpectedeof"}

// svEP: the scripted transport plus a read failure that happens ONCE (afterwards the peer is silent)
type svEP struct {
	*Endpoint
	mu   sync.Mutex
	once error
	wake context.CancelFunc
}

func (e *svEP) FailReadOnce(err error) {
	e.mu.Lock()
	e.once = err
	w := e.wake
	e.mu.Unlock()
	if w != nil {
		w()
	}
}

func (e *svEP) Read(ctx context.Context) (*Rpc, error) {
	for {
		e.mu.Lock()
		if e.Endpoint.Pending() == 0 && e.once != nil {
			err := e.once
			e.once = nil
			e.mu.Unlock()
			return nil, err
		}
		rctx, cancel := context.WithCancel(ctx)
		e.wake = cancel
		e.mu.Unlock()
		r, err := e.Endpoint.Read(rctx)
		woken := rctx.Err() != nil && ctx.Err() == nil
		cancel()
		if err != nil && woken {
			continue
		}
		return r, err
	}
}

//go:build st

package verifharness

import (
	"context"
	"fmt"
	"strconv"
	"strings"
	"sync"

	"google.golang.org/grpc"
	"google.golang.org/grpc/codes"
	"google.golang.org/grpc/metadata"
	"google.golang.org/grpc/status"
	"google.golang.org/protobuf/types/known/wrapperspb"
)

// Recording interceptors with programmed behaviours (C20, chain part). The
// Gallina twin is Check/C20c.v: interp.

type behKind int

const (
	bPass behKind = iota
	bModCtx
	bModReq
	bModRep
	bModErr
	bShort
	bTwice
)

type beh struct {
	k behKind
	e int64 // Short: the error code returned
}

var behNames = []string{"Pass", "ModCtx", "ModReq", "ModRep", "ModErr", "Short", "Twice"}

func (b beh) coq() string {
	if b.k == bShort {
		return fmt.Sprintf("(Short %d)", b.e)
	}
	return behNames[b.k]
}

func (b beh) String() string {
	if b.k == bShort {
		return fmt.Sprintf("Short%d", b.e)
	}
	return behNames[b.k]
}

func behsCoq(bs []beh) string {
	var t []string
	for _, b := range bs {
		t = append(t, b.coq())
	}
	return coqList(t)
}

func behsDesc(bs []beh) []string {
	var t []string
	for _, b := range bs {
		t = append(t, b.String())
	}
	return t
}

type chainLog struct {
	mu  sync.Mutex
	evs []string
}

func (l *chainLog) add(s string) {
	l.mu.Lock()
	l.evs = append(l.evs, s)
	l.mu.Unlock()
}

func (l *chainLog) take() []string {
	l.mu.Lock()
	defer l.mu.Unlock()
	out := l.evs
	l.evs = nil
	return out
}

func zs(v []int64) string {
	var t []string
	for _, x := range v {
		t = append(t, coqZ(x))
	}
	return coqList(t)
}

type ctxTokKey struct{}

// context tokens: those that arrived as metadata (set by a client interceptor),
// then those added on this side
func ctxToks(ctx context.Context) []int64 {
	var out []int64
	if md, ok := metadata.FromIncomingContext(ctx); ok {
		for _, v := range md.Get("tok") {
			n, _ := strconv.ParseInt(v, 10, 64)
			out = append(out, n)
		}
	}
	if v, ok := ctx.Value(ctxTokKey{}).([]int64); ok {
		out = append(out, v...)
	}
	return out
}

func withTok(ctx context.Context, j int64) context.Context {
	old, _ := ctx.Value(ctxTokKey{}).([]int64)
	return context.WithValue(ctx, ctxTokKey{}, append(append([]int64(nil), old...), j))
}

func msgToks(m any) []int64 {
	b, ok := m.(*wrapperspb.BytesValue)
	if !ok || b == nil {
		return nil
	}
	var out []int64
	for _, c := range b.Value {
		out = append(out, int64(c))
	}
	return out
}

func msgWith(m any, j int64) *wrapperspb.BytesValue {
	var old []byte
	if b, ok := m.(*wrapperspb.BytesValue); ok && b != nil {
		old = b.Value
	}
	return &wrapperspb.BytesValue{Value: append(append([]byte(nil), old...), byte(j))}
}

func codeErr(e int64) error {
	if e == 0 {
		return nil
	}
	return status.Error(codes.Code(e), "")
}

func errCode(err error) int64 {
	if err == nil {
		return 0
	}
	return int64(status.Code(err))
}

func recUnary(log *chainLog, j int64, b beh) grpc.UnaryServerInterceptor {
	return func(ctx context.Context, req any, info *grpc.UnaryServerInfo, handler grpc.UnaryHandler) (any, error) {
		log.add(fmt.Sprintf("EPre %d %s %s", j, zs(ctxToks(ctx)), zs(msgToks(req))))
		switch b.k {
		case bModCtx:
			ctx = withTok(ctx, j)
		case bModReq:
			req = msgWith(req, j)
		case bShort:
			return nil, codeErr(b.e)
		case bTwice:
			handler(ctx, req)
		}
		rep, err := handler(ctx, req)
		log.add(fmt.Sprintf("EPost %d %s %d", j, zs(msgToks(rep)), errCode(err)))
		switch b.k {
		case bModRep:
			rep = msgWith(rep, j)
		case bModErr:
			err = codeErr(10 + j)
		}
		return rep, err
	}
}

// markStream is the wrapper a stream interceptor passes on: a new context
// and/or one more mark (the stream-side analogue of a modified request).
type markStream struct {
	grpc.ServerStream
	ctx   context.Context
	marks []int64
}

func (m *markStream) Context() context.Context { return m.ctx }

func marksOf(ss grpc.ServerStream) []int64 {
	if m, ok := ss.(*markStream); ok {
		return m.marks
	}
	return nil
}

// the method name every interceptor must be shown in info.FullMethod ("" = not checked); set per scenario
var stExpectMethod string

func recStream(log *chainLog, j int64, b beh) grpc.StreamServerInterceptor {
	return func(srv any, ss grpc.ServerStream, info *grpc.StreamServerInfo, handler grpc.StreamHandler) error {
		if stExpectMethod != "" && info.FullMethod != stExpectMethod {
			log.add(fmt.Sprintf("EHandler [-1] [%d]", j)) // shown another method's name: an event the model never has
		}
		log.add(fmt.Sprintf("EPre %d %s %s", j, zs(ctxToks(ss.Context())), zs(marksOf(ss))))
		switch b.k {
		case bModCtx:
			ss = &markStream{ServerStream: ss, ctx: withTok(ss.Context(), j), marks: marksOf(ss)}
		case bModReq:
			ss = &markStream{ServerStream: ss, ctx: ss.Context(), marks: append(append([]int64(nil), marksOf(ss)...), j)}
		case bShort:
			return codeErr(b.e)
		case bTwice:
			handler(srv, ss)
		}
		err := handler(srv, ss)
		log.add(fmt.Sprintf("EPost %d [] %d", j, errCode(err)))
		if b.k == bModErr {
			err = codeErr(10 + j)
		}
		return err
	}
}

// client side (one optional interceptor, number 100)
func recClientUnary(log *chainLog, j int64, b beh) grpc.UnaryClientInterceptor {
	return func(ctx context.Context, method string, req, reply any, cc *grpc.ClientConn, invoker grpc.UnaryInvoker, opts ...grpc.CallOption) error {
		log.add(fmt.Sprintf("EPre %d %s %s", j, zs(ctxToks(ctx)), zs(msgToks(req))))
		switch b.k {
		case bModCtx:
			ctx = metadata.AppendToOutgoingContext(withTok(ctx, j), "tok", strconv.FormatInt(j, 10))
		case bModReq:
			req = msgWith(req, j)
		case bShort:
			return codeErr(b.e)
		case bTwice:
			invoker(ctx, method, req, &wrapperspb.BytesValue{}, cc, opts...)
		}
		out := reply.(*wrapperspb.BytesValue)
		out.Value = nil
		err := invoker(ctx, method, req, out, cc, opts...)
		log.add(fmt.Sprintf("EPost %d %s %d", j, zs(msgToks(out)), errCode(err)))
		switch b.k {
		case bModRep:
			out.Value = append(out.Value, byte(j))
		case bModErr:
			err = codeErr(10 + j)
		}
		return err
	}
}

func recClientStream(log *chainLog, j int64, b beh) grpc.StreamClientInterceptor {
	return func(ctx context.Context, desc *grpc.StreamDesc, cc *grpc.ClientConn, method string, streamer grpc.Streamer, opts ...grpc.CallOption) (grpc.ClientStream, error) {
		log.add(fmt.Sprintf("EPre %d %s [7]", j, zs(ctxToks(ctx))))
		switch b.k {
		case bModCtx:
			ctx = metadata.AppendToOutgoingContext(withTok(ctx, j), "tok", strconv.FormatInt(j, 10))
		case bShort:
			return nil, codeErr(b.e)
		}
		cs, err := streamer(ctx, desc, cc, method, opts...)
		log.add(fmt.Sprintf("EPost %d [] %d", j, errCode(err)))
		return cs, err
	}
}

func cresCoq(rep []int64, err int64, log []string) string {
	for i, e := range log {
		log[i] = "(" + strings.TrimSpace(e) + ")"
	}
	return fmt.Sprintf("(%s, %s, %s)", zs(rep), coqZ(err), coqList(log))
}

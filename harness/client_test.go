package verifharness

import (
	"testing"
)

// TestClientWalk: random walks over the whole client API against a scripted
// peer; used by every client-side property for model agreement.
func TestClientWalk(t *testing.T) {
	em := NewEmitter()
	defer em.Close()
	r := newRand(100)
	n := 300
	if thorough() {
		n = 4000
	}
	for idx := 0; idx < n; idx++ {
		sc := randomWalk(r, 4+r.Intn(14), 1+r.Intn(4), idx%3 != 0)
		sc.WithStats = idx%4 == 0
		if !want(idx) {
			continue
		}
		runClientScenario(t, idx, "walk", sc, em)
	}
}

package verifharness

import (
	"testing"
)

// TestClientWalk: random walks over the whole client API against a scripted
// peer; used by every client-side property for model agreement.
func TestClientWalk(t *testing.T) {
	em := NewEmitter()
	defer em.Close()
	r := newRand(100)
	n := 300
	if thorough() {
		n = 4000
	}
	for idx := 0; idx < n; idx++ {
		sc := randomWalk(r, 4+r.Intn(14), 1+r.Intn(4), idx%3 != 0)
		sc.WithStats = idx%4 == 0
		if !want(idx) {
			continue
		}
		runClientScenario(t, idx, "walk", sc, em)
	}
	// the stream's context ends while its loop holds a message the caller has not consumed, then RecvMsg / SendMsg
	idx := n
	for _, end := range []string{"cancel", "expire"} {
		for q := 0; q < 3; q++ {
			for tail := 0; tail < 2; tail++ {
				acts := []CAct{{Op: "stream"}, {Op: "deliver", Env: &EnvSpec{Call: 0, Hdr: "ok:0", Body: i64(351), Trl: "none"}}}
				switch q {
				case 1:
					acts = append(acts, CAct{Op: "deliver", Env: &EnvSpec{Call: 0, Hdr: "ok:0", Body: i64(352), Trl: "none"}})
				case 2:
					acts = append(acts, CAct{Op: "deliver", Env: &EnvSpec{Call: 0, Hdr: "ok:0", Status: &[2]int64{9, 7}, Trl: "ok:0"}})
				}
				acts = append(acts, CAct{Op: end, C: 0})
				if tail == 1 {
					acts = append(acts, CAct{Op: "send", C: 0, B: 660})
				}
				acts = append(acts, CAct{Op: "recv", C: 0}, CAct{Op: "recv", C: 0}, CAct{Op: "recv", C: 0}, CAct{Op: "tick", B: 60}, CAct{Op: "failread"}, CAct{Op: "recv", C: 0})
				if want(idx) {
					runClientScenario(t, idx, "walk", clientScenario{Acts: acts, Tags: []string{"context-ends-while-message-held"}}, em)
				}
				idx++
			}
		}
	}
	// the stream is one envelope behind, the next envelope is queued, then the read fails, then the stream drains:
	// it still gets the queued envelope (repeated: the select between queue and closed signal is a coin flip)
	for rep := 0; rep < 6; rep++ {
		for _, fin := range []*EnvSpec{
			{Call: 0, Hdr: "ok:0", Body: i64(402), Trl: "none"},
			{Call: 0, Hdr: "ok:0", Status: &[2]int64{0, 0}, Trl: "ok:5"},
			{Call: 0, Hdr: "ok:0", Status: &[2]int64{9, 7}, Trl: "ok:0"},
		} {
			acts := []CAct{{Op: "stream"}, {Op: "deliver", Env: &EnvSpec{Call: 0, Hdr: "ok:0", Body: i64(401), Trl: "none"}},
				{Op: "deliver", Env: fin}, {Op: "failread"}, {Op: "recv", C: 0}, {Op: "recv", C: 0}, {Op: "recv", C: 0}, {Op: "trailer", C: 0}}
			if want(idx) {
				runClientScenario(t, idx, "walk", clientScenario{Acts: acts, Tags: []string{"queued-then-fail"}}, em)
			}
			idx++
		}
	}
	// the owner closes the ClientConn while calls are in flight (or before any), the callers go on, then the read fails
	for v := 0; v < 6; v++ {
		acts := []CAct{{Op: "unary", B: 21}, {Op: "stream"}}
		if v%2 == 1 {
			acts = append(acts, CAct{Op: "deliver", Env: &EnvSpec{Call: 1, Hdr: "ok:0", Body: i64(411), Trl: "none"}})
		}
		acts = append(acts, CAct{Op: "close"})
		if v%3 == 1 {
			acts = append(acts, CAct{Op: "unary", B: 22}, CAct{Op: "send", C: 1, B: 661})
		}
		if v%3 == 2 {
			acts = append(acts, CAct{Op: "tick", B: 1000})
		}
		acts = append(acts, CAct{Op: "failread"}, CAct{Op: "recv", C: 1}, CAct{Op: "recv", C: 1}, CAct{Op: "unary", B: 23}, CAct{Op: "stream"})
		if want(idx) {
			runClientScenario(t, idx, "walk", clientScenario{Acts: acts, Tags: []string{"close-then-fail"}}, em)
		}
		idx++
	}
}

//go:build cw

package verifharness

import "fmt"

// Scenario generators of work package cw.

func hop(c int, h HOp) Step { return Step{Op: "h", C: c, H: &h} }

// A base trace: a complete fault-free conversation on one stream (call index c),
// as a schedule: user operations, handler operations and wire deliveries.
type baseTrace struct {
	Name  string
	Kind  string
	Steps func(c int) []Step
}

func bidiTrace(n, m int, eagerRead bool, retCode int) baseTrace {
	name := fmt.Sprintf("bidi-n%d-m%d", n, m)
	if eagerRead {
		name += "-eager"
	}
	if retCode != 0 {
		name += fmt.Sprintf("-err%d", retCode)
	}
	return baseTrace{Name: name, Kind: "Bidi", Steps: func(c int) []Step {
		s := []Step{{Op: "c2s"}}
		for i := 0; i < n; i++ {
			s = append(s, Step{Op: "send", C: c, B: int64(10 + i)}, Step{Op: "c2s"}, hop(c, HOp{Op: "recv"}))
		}
		for j := 0; j < m; j++ {
			s = append(s, hop(c, HOp{Op: "send", B: int64(20 + j)}), Step{Op: "s2c"})
			if eagerRead {
				s = append(s, Step{Op: "recv", C: c})
			}
		}
		if !eagerRead {
			for j := 0; j < m; j++ {
				s = append(s, Step{Op: "recv", C: c})
			}
		}
		s = append(s, Step{Op: "closesend", C: c}, Step{Op: "c2s"}, hop(c, HOp{Op: "recv"}),
			hop(c, HOp{Op: "return", Code: retCode, Msg: 7}), Step{Op: "s2c"}, Step{Op: "recv", C: c})
		return s
	}}
}

// ping-pong with the Recv issued before the response exists (pending receives)
func pingPongTrace(n int) baseTrace {
	return baseTrace{Name: fmt.Sprintf("bidi-pingpong%d", n), Kind: "Bidi", Steps: func(c int) []Step {
		s := []Step{{Op: "c2s"}}
		for i := 0; i < n; i++ {
			s = append(s, Step{Op: "recv", C: c}, Step{Op: "send", C: c, B: int64(10 + i)}, Step{Op: "c2s"},
				hop(c, HOp{Op: "recv"}), hop(c, HOp{Op: "send", B: int64(20 + i)}), Step{Op: "s2c"})
		}
		s = append(s, Step{Op: "recv", C: c}, Step{Op: "closesend", C: c}, Step{Op: "c2s"}, hop(c, HOp{Op: "recv"}),
			hop(c, HOp{Op: "return"}), Step{Op: "s2c"})
		return s
	}}
}

// the handler ends the stream while the client is still sending
func handlerFirstTrace() baseTrace {
	return baseTrace{Name: "bidi-handler-closes-first", Kind: "Bidi", Steps: func(c int) []Step {
		return []Step{{Op: "c2s"}, {Op: "send", C: c, B: 10}, {Op: "c2s"}, hop(c, HOp{Op: "recv"}),
			hop(c, HOp{Op: "send", B: 20}), hop(c, HOp{Op: "return"}), {Op: "s2c"}, {Op: "s2c"},
			{Op: "recv", C: c}, {Op: "recv", C: c}, {Op: "closesend", C: c}, {Op: "c2s"}}
	}}
}

func headerTrace() baseTrace {
	return baseTrace{Name: "bidi-headers", Kind: "Bidi", Steps: func(c int) []Step {
		return []Step{{Op: "c2s"}, {Op: "header", C: c}, hop(c, HOp{Op: "setheader", B: 3}), hop(c, HOp{Op: "sendheader", B: 0}), {Op: "s2c"},
			{Op: "send", C: c, B: 10}, {Op: "c2s"}, hop(c, HOp{Op: "recv"}), hop(c, HOp{Op: "send", B: 20}), {Op: "s2c"}, {Op: "recv", C: c},
			hop(c, HOp{Op: "settrailer", B: 5}), {Op: "closesend", C: c}, {Op: "c2s"}, hop(c, HOp{Op: "recv"}), hop(c, HOp{Op: "return"}),
			{Op: "s2c"}, {Op: "recv", C: c}, {Op: "trailer", C: c}}
	}}
}

// server stream: one request, m responses; unread = how many responses are on the client before the first Recv
func sstreamTrace(m int, lazy bool) baseTrace {
	name := fmt.Sprintf("sstream-m%d", m)
	if lazy {
		name += "-unread"
	}
	return baseTrace{Name: name, Kind: "SStream", Steps: func(c int) []Step {
		s := []Step{{Op: "c2s"}, {Op: "send", C: c, B: 10}, {Op: "closesend", C: c}, {Op: "c2s"}, {Op: "c2s"}, hop(c, HOp{Op: "recv"})}
		for j := 0; j < m; j++ {
			s = append(s, hop(c, HOp{Op: "send", B: int64(20 + j)}), Step{Op: "s2c"})
			if !lazy {
				s = append(s, Step{Op: "recv", C: c})
			}
		}
		s = append(s, hop(c, HOp{Op: "return"}), Step{Op: "s2c"})
		if lazy {
			for j := 0; j < m; j++ {
				s = append(s, Step{Op: "recv", C: c})
			}
		}
		s = append(s, Step{Op: "recv", C: c})
		return s
	}}
}

func cstreamTrace(n int, retCode int) baseTrace {
	name := fmt.Sprintf("cstream-n%d", n)
	if retCode != 0 {
		name += fmt.Sprintf("-err%d", retCode)
	}
	return baseTrace{Name: name, Kind: "CStream", Steps: func(c int) []Step {
		s := []Step{{Op: "c2s"}}
		for i := 0; i < n; i++ {
			s = append(s, Step{Op: "send", C: c, B: int64(10 + i)}, Step{Op: "c2s"}, hop(c, HOp{Op: "recv"}))
		}
		s = append(s, Step{Op: "closesend", C: c}, Step{Op: "c2s"}, hop(c, HOp{Op: "recv"}))
		if retCode == 0 {
			s = append(s, hop(c, HOp{Op: "send", B: 30}), Step{Op: "s2c"})
		}
		s = append(s, hop(c, HOp{Op: "return", Code: retCode, Msg: 8}), Step{Op: "s2c"}, Step{Op: "recv", C: c})
		if retCode == 0 {
			s = append(s, Step{Op: "recv", C: c})
		}
		return s
	}}
}

// client stream whose sends are all in flight before the server sees any (queued requests)
func cstreamBurstTrace(n int) baseTrace {
	return baseTrace{Name: fmt.Sprintf("cstream-burst%d", n), Kind: "CStream", Steps: func(c int) []Step {
		s := []Step{}
		for i := 0; i < n; i++ {
			s = append(s, Step{Op: "send", C: c, B: int64(10 + i)})
		}
		s = append(s, Step{Op: "closesend", C: c}, Step{Op: "c2s"})
		for i := 0; i < n; i++ {
			s = append(s, Step{Op: "c2s"}, hop(c, HOp{Op: "recv"}))
		}
		s = append(s, Step{Op: "c2s"}, hop(c, HOp{Op: "recv"}), hop(c, HOp{Op: "send", B: 30}), hop(c, HOp{Op: "return"}),
			Step{Op: "s2c"}, Step{Op: "s2c"}, Step{Op: "recv", C: c}, Step{Op: "recv", C: c})
		return s
	}}
}

func c07BaseTraces() []baseTrace {
	var ts []baseTrace
	// bidirectional
	for _, nm := range [][2]int{{0, 0}, {1, 1}, {2, 2}, {1, 3}, {0, 5}, {2, 0}, {0, 4}} {
		ts = append(ts, bidiTrace(nm[0], nm[1], false, 0))
	}
	ts = append(ts, bidiTrace(1, 2, true, 0), bidiTrace(1, 1, false, 5), bidiTrace(0, 2, false, 13),
		pingPongTrace(1), pingPongTrace(2), handlerFirstTrace(), headerTrace())
	// server streaming: 0..5 responses, read as they come / all queued unread
	for m := 0; m <= 5; m++ {
		ts = append(ts, sstreamTrace(m, false))
		if m > 0 {
			ts = append(ts, sstreamTrace(m, true))
		}
	}
	// client streaming
	for n := 0; n <= 3; n++ {
		ts = append(ts, cstreamTrace(n, 0))
	}
	ts = append(ts, cstreamTrace(1, 5), cstreamTrace(2, 9), cstreamBurstTrace(2), cstreamBurstTrace(3))
	return ts
}

// c07Scenario: base trace [0..p), then the cancellation (explicit, or the deadline on the virtual clock),
// then the tail that observes what the property speaks of.
//
//	other: 0 = no other call; 1 = another bidi stream with one exchange done, checked alive afterwards;
//	       2 = a unary call in flight whose handler is parked, released afterwards
func c07Scenario(bt baseTrace, p int, deadline bool, other int) cwScenario {
	var steps []Step
	c := 0
	switch other {
	case 1:
		steps = append(steps, Step{Op: "open", Kind: "Bidi"}, Step{Op: "c2s"}, Step{Op: "send", C: 0, B: 90}, Step{Op: "c2s"},
			hop(0, HOp{Op: "recv"}), hop(0, HOp{Op: "send", B: 91}), Step{Op: "s2c"}, Step{Op: "recv", C: 0})
		c = 1
	case 2:
		steps = append(steps, Step{Op: "unary", B: 95, Gate: true}, Step{Op: "c2s"})
		c = 1
	}
	open := Step{Op: "open", Kind: bt.Kind}
	if deadline {
		open.D = 5000
	}
	steps = append(steps, open)
	base := bt.Steps(c)
	steps = append(steps, base[:p]...)
	if deadline {
		steps = append(steps, Step{Op: "tick", D: 5000})
	} else {
		steps = append(steps, Step{Op: "cancel", C: c})
	}
	// tail: settle the wires, then the caller keeps using the stream, the handler finishes
	steps = append(steps, Step{Op: "drain"}, Step{Op: "recv", C: c}, Step{Op: "send", C: c, B: 40}, Step{Op: "recv", C: c},
		Step{Op: "closesend", C: c}, Step{Op: "drain"},
		hop(c, HOp{Op: "await"}), hop(c, HOp{Op: "send", B: 41}), hop(c, HOp{Op: "return", Ctx: true}), Step{Op: "drain"})
	switch other {
	case 1:
		steps = append(steps, Step{Op: "send", C: 0, B: 92}, Step{Op: "c2s"}, hop(0, HOp{Op: "recv"}), hop(0, HOp{Op: "send", B: 93}),
			Step{Op: "s2c"}, Step{Op: "recv", C: 0}, Step{Op: "closesend", C: 0}, Step{Op: "c2s"}, hop(0, HOp{Op: "recv"}),
			hop(0, HOp{Op: "return"}), Step{Op: "s2c"}, Step{Op: "recv", C: 0})
	case 2:
		steps = append(steps, Step{Op: "hu", B: 95}, Step{Op: "drain"})
	}
	how := "cancel"
	if deadline {
		how = "deadline"
	}
	return cwScenario{Mode: "e2e", Steps: steps, Cancel: p,
		Tags: []string{"c07", "kind:" + bt.Kind, "trace:" + bt.Name, "how:" + how, fmt.Sprintf("other:%d", other), fmt.Sprintf("prefix:%d", p)}}
}
